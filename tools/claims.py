CLAIMED["C06"] = (
 "static table/registry agreement and AST/CFG ordering rules (go/types constant folding, resolved callees)",
 "precedence table order and registry agreement, strict '<' in the Pratt loop with own-level recursion (left associativity), label-to-Go-operator agreement and operand order in the int/float/string/bool/nil operator tables, zero-divisor guard, error fall-through, short-circuit guards dominating the evaluation of the right operand, lexer literal = token constant = evaluator label, and the cursor post-condition of every token arm.",
 "numeric and string results on well-guarded paths, which characters form a number, regexp semantics of ~=.")
