#!/bin/bash
# usage: matrix_one.sh <seeded|equiv> <id>   -- one patch, own scratch copy of /repo's working tree (no .git); prints one line
export GOFLAGS=-mod=mod GOPROXY=off GOSUMDB=off GOTOOLCHAIN=local; unset GOWORK
kind=$1; id=$2; d=/verif/$kind/$id
wt=/tmp/mx_${kind}_${id}_$$
mkdir -p $wt && rsync -a --exclude .git /repo/ $wt/ || { echo "$id: COPY-FAILED"; exit 0; }
trap "rm -rf $wt" EXIT
if ! (cd $wt && git apply $d/patch.diff 2>/dev/null); then echo "$id: PATCH-DOES-NOT-APPLY"; exit 0; fi
out=$(PLUSH_REPO=$wt ${PLUSHCHECK:-/verif/bin/plushcheck} -prop all -no-evidence 2>&1); rc=$?
n=$(echo "$out" | grep -c "^C[0-9]* quick:")
if [ "$n" != "20" ]; then echo "$id: CHECK-INCOMPLETE rc=$rc summaries=$n"; echo "$out" | tail -5 | cut -c1-300; exit 0; fi
fired=$(echo "$out" | grep -o "^VIOLATION property=C[0-9]*" | sort -u | sed 's/VIOLATION property=//' | tr '\n' ' ')
if [ "$kind" = equiv ]; then
  if [ -n "$fired" ]; then echo "$id: FALSE-ALARM [$fired]"; else echo "$id: quiet"; fi
else
  own=${id%%-*}
  if echo " $fired" | grep -q " $own "; then st=CAUGHT; elif [ -n "$fired" ]; then st=caught-by-other; else st=MISSED; fi
  echo "$id: $st [$fired]"
fi
if [ -n "${VERBOSE:-}" ]; then echo "$out" | grep -A1 "^REPORT" | cut -c1-300 | head -${LINES_MAX:-30}; fi
