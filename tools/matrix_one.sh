#!/bin/bash
# usage: matrix_one.sh <seeded|equiv> <id>   -- one patch, own scratch worktree; prints one line
export GOFLAGS=-mod=mod GOPROXY=off GOSUMDB=off GOTOOLCHAIN=local; unset GOWORK
kind=$1; id=$2; d=/verif/$kind/$id
wt=/tmp/mx_${kind}_${id}_$$
git -C /repo worktree add -q --detach $wt HEAD 2>/dev/null || { echo "$id: WORKTREE-FAILED"; exit 0; }
trap "git -C /repo worktree remove --force $wt 2>/dev/null; rm -rf $wt" EXIT
if ! git -C $wt apply $d/patch.diff 2>/dev/null && ! git -C $wt apply --3way $d/patch.diff 2>/dev/null; then echo "$id: PATCH-DOES-NOT-APPLY"; exit 0; fi
out=$(PLUSH_REPO=$wt /verif/bin/plushcheck -prop all -no-evidence 2>&1)
fired=$(echo "$out" | grep -o "^VIOLATION property=C[0-9]*" | sort -u | sed 's/VIOLATION property=//' | tr '\n' ' ')
if [ "$kind" = equiv ]; then
  if [ -n "$fired" ]; then echo "$id: FALSE-ALARM [$fired]"; else echo "$id: quiet"; fi
else
  own=${id%%-*}
  if echo " $fired" | grep -q " $own "; then st=CAUGHT; elif [ -n "$fired" ]; then st=caught-by-other; else st=MISSED; fi
  echo "$id: $st [$fired]"
fi
if [ -n "${VERBOSE:-}" ]; then echo "$out" | grep -A1 "^REPORT" | cut -c1-300 | head -${LINES_MAX:-30}; fi
