#!/bin/bash
# usage: fixcommit.sh "<message>"   -- runs the unedited suite, commits /repo if green
export GOFLAGS=-mod=mod GOPROXY=off GOSUMDB=off GOTOOLCHAIN=local; unset GOWORK
cd /repo || exit 2
if git status --short | grep -q '_test.go'; then echo "test files touched"; exit 2; fi
out=$(go build ./... 2>&1 && go test -vet=off -count=1 ./... 2>&1)
if echo "$out" | grep -qE "^(FAIL|---\s*FAIL|panic:)|\[build failed\]|cannot|undefined"; then echo "$out" | grep -vE "^(ok|\?)" | head -60; echo "SUITE RED - not committed"; exit 1; fi
git add -A && git commit -qm "$1" && git log --oneline | head -1
