#!/usr/bin/env python3
"""verify_seed.py <src_dir> <seed_id>
Confirms a seeded change independently: in a fresh scratch worktree of /repo HEAD
 (1) the patch applies and the module builds, (2) the unedited suite passes with it,
 (3) the demonstration fails with it, (4) the demonstration passes without it.
On success copies patch.diff, the demo and an extended meta.json to /verif/seeded/<seed_id>/.
The scratch worktree is removed afterwards."""
import json, os, re, shutil, subprocess, sys, tempfile
src, sid = sys.argv[1], sys.argv[2]
env = dict(os.environ, GOFLAGS="-mod=mod", GOPROXY="off", GOSUMDB="off", GOTOOLCHAIN="local")
env.pop("GOWORK", None)
def sh(cmd, cwd, timeout=600):
    p = subprocess.run(cmd, shell=True, cwd=cwd, env=env, capture_output=True, text=True, timeout=timeout)
    return p.returncode, (p.stdout + p.stderr)
meta = json.load(open(os.path.join(src, "meta.json")))
demo_dir = meta.get("demo_dir", ".").strip("/") or "."
demo_src = open(os.path.join(src, "demo_test.go")).read()
tests = re.findall(r"^func (Test\w+)\(", demo_src, re.M)
race = "-race" in (meta.get("demo_run", "") or "")
wt = tempfile.mkdtemp(prefix="sv_", dir="/tmp")
os.rmdir(wt)
res = {"seed": sid, "ok": False}
try:
    rc, out = sh(f"git -C /repo worktree add -q --detach {wt} HEAD", "/")
    assert rc == 0, out
    rc, out = sh(f"git apply --3way {os.path.abspath(src)}/patch.diff || git apply {os.path.abspath(src)}/patch.diff", wt)
    res["applies"] = rc == 0
    assert rc == 0, "patch does not apply: " + out[-600:]
    rc, out = sh("git status --short", wt)
    res["files"] = [l[3:] for l in out.splitlines() if l.strip()]
    assert not any(f.endswith("_test.go") for f in res["files"]), "patch touches tests"
    rc, out = sh("go build ./... && go vet ./... >/dev/null 2>&1; go build ./...", wt)
    res["builds"] = rc == 0
    assert rc == 0, "build: " + out[-600:]
    rc, out = sh("go test -vet=off -count=1 ./...", wt)
    res["suite_passes_with_patch"] = rc == 0
    assert rc == 0, "suite fails with patch: " + out[-1500:]
    demo_path = os.path.join(wt, demo_dir, "zz_seed_demo_test.go")
    open(demo_path, "w").write(demo_src)
    runpat = "^(" + "|".join(tests) + ")$"
    cmd = f"go test -vet=off -count=1 {'-race' if race else ''} -run '{runpat}' ./{demo_dir}"
    rc, out = sh(cmd, wt, 900)
    res["demo_fails_with_patch"] = rc != 0
    res["demo_output_with_patch"] = out[-1200:]
    assert rc != 0, "demo passes with patch"
    os.remove(demo_path)
    sh("git reset -q --hard HEAD && git clean -fdq", wt)
    open(demo_path, "w").write(demo_src)
    rc, out = sh(cmd, wt, 900)
    res["demo_passes_without_patch"] = rc == 0
    assert rc == 0, "demo fails without patch: " + out[-1500:]
    res["ok"] = True
    dst = f"/verif/seeded/{sid}"
    os.makedirs(dst, exist_ok=True)
    shutil.copy(os.path.join(src, "patch.diff"), dst)
    shutil.copy(os.path.join(src, "demo_test.go"), os.path.join(dst, "demo_test.go"))
    meta["confirmed_by_me"] = {"at_repo_head": subprocess.check_output("git -C /repo rev-parse --short HEAD", shell=True, text=True).strip(),
                               "ran": ["git apply patch.diff", "go build ./...", "go test -vet=off -count=1 ./...  (pass)", cmd + "  (fails with patch, passes without)"],
                               "files_changed": res["files"], "demo_tests": tests}
    json.dump(meta, open(os.path.join(dst, "meta.json"), "w"), indent=1)
except AssertionError as e:
    res["error"] = str(e)
finally:
    sh(f"git -C /repo worktree remove --force {wt}", "/")
    shutil.rmtree(wt, ignore_errors=True)
print(json.dumps({k: v for k, v in res.items() if k != "demo_output_with_patch"}))
