#!/bin/bash
# usage: equivmatrix.sh [glob]  -- runs every check against every behaviour-preserving refactoring; any VIOLATION is a false alarm
export GOFLAGS=-mod=mod GOPROXY=off GOSUMDB=off GOTOOLCHAIN=local; unset GOWORK
pat="${1:-*}"; wt=/tmp/eqmx_$$
git -C /repo worktree add -q --detach $wt HEAD || exit 2
trap "git -C /repo worktree remove --force $wt; rm -rf $wt" EXIT
for d in /verif/equiv/$pat/; do
  id=$(basename $d)
  git -C $wt reset -q --hard HEAD; git -C $wt clean -fdq
  if ! git -C $wt apply $d/patch.diff 2>/dev/null && ! git -C $wt apply --3way $d/patch.diff 2>/dev/null; then echo "$id: PATCH-DOES-NOT-APPLY"; continue; fi
  out=$(PLUSH_REPO=$wt /verif/bin/plushcheck -prop all -no-evidence 2>&1)
  fired=$(echo "$out" | grep -o "^VIOLATION property=C[0-9]*" | sort -u | sed 's/VIOLATION property=//' | tr '\n' ' ')
  if [ -n "$fired" ]; then echo "$id: FALSE-ALARM [$fired]"; else echo "$id: quiet"; fi
  if [ -n "${VERBOSE:-}" ]; then echo "$out" | grep -A1 "^REPORT" | cut -c1-260 | head -${LINES_MAX:-30}; fi
done
