#!/bin/bash
# usage: pmatrix.sh <seeded|equiv> [glob] [jobs]  -- the matrix in parallel (one scratch worktree per patch)
kind=$1; pat="${2:-*}"; jobs=${3:-6}
ls -d /verif/$kind/$pat/ | xargs -n1 basename | xargs -P $jobs -I{} /verif/tools/matrix_one.sh $kind {} | sort
