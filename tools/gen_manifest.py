#!/usr/bin/env python3
"""Regenerates /verif/MANIFEST.json from the table below."""
import json
props = {json.loads(l)["id"]: json.loads(l) for l in open("/verif/properties.jsonl")}
# id -> (technique, what the check decides, what it leaves)
CLAIMED = {}
exec(open("/verif/tools/claims.py").read())
checks = []
for pid in sorted(CLAIMED):
    tech, decides, leaves = CLAIMED[pid]
    checks.append({
        "property_id": pid,
        "quick_cmd": f"./check {pid} quick",
        "thorough_cmd": f"./check {pid} thorough",
        "evidence_file": f"/verif/evidence/{pid}.json",
        "replay_cmd_template": f"./check {pid} quick   # re-analyses /repo; the construct named in {{path}} is reported again while present",
        "engine": "plushcheck",
        "level_claimed": {
            "category": "other",
            "text": "Repository-specific static rules over the type-checked source of /repo (nothing is executed). Decides: " + decides +
                    " Each rule is a necessary condition of the property or a sufficient condition for the named clause (DESIGN.md section 4); a pass means these structural clauses hold on every path of the analysed functions, not that the behavioural statement holds for every input.",
            "design_ref": "DESIGN.md section 4, " + pid,
        },
        "level_note": "Not decided: " + leaves + " Trusted: go/types, x/tools v0.29.0 (go/packages, go/cfg, go/ssa), the rule tables in /verif/checker, the Go standard library's documented behaviour; application-supplied helpers are outside the analysed world.",
        "technique": tech,
    })
na = [{"property_id": pid, "reason": "static rules for this property are not built yet (DESIGN.md section 4 describes them); not claimed until they are"}
      for pid in sorted(props) if pid not in CLAIMED]
m = {
    "version": 1,
    "setup_cmd": "cd /verif/checker && GOFLAGS=-mod=mod GOPROXY=off GOSUMDB=off GOTOOLCHAIN=local GOWORK=off go build -o /verif/bin/plushcheck .",
    "hooks": {"guard": "verif", "enable": "none needed: the checker only reads /repo's sources through go/packages; the thorough tier additionally loads with -tags verif and GOARCH=386 so a tagged or arch-specific file cannot hide a violation",
              "baseline_off_cmd": "cd /repo && GOFLAGS=-mod=mod GOPROXY=off go test -vet=off -count=1 ./...", "source_commits": [], "add_only": True},
    "engines": [{"name": "plushcheck", "path": "/verif/checker", "serves_properties": sorted(CLAIMED),
                 "kind_free_text": "custom static analyser (Go): go/packages + go/types + go/cfg + go/ssa; per-property rule files c01.go..c20.go; in-memory overlay mutants for the self-test"}],
    "checks": checks,
    "not_applicable": na,
    "notes": "All checks are static (family: static analysis). Known genuine defects that were not repaired are listed in known_findings.json; repaired ones under 'fixed' there. See DESIGN.md.",
}
json.dump(m, open("/verif/MANIFEST.json", "w"), indent=1)
print("claimed", len(checks), "not_applicable", len(na))
