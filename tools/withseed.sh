#!/bin/bash
# usage: withseed.sh <seeded-or-equiv dir> <plushcheck args...>  -- runs the checker against a scratch worktree with the patch applied
export GOFLAGS=-mod=mod GOPROXY=off GOSUMDB=off GOTOOLCHAIN=local; unset GOWORK
d=$1; shift
wt=/tmp/ws_$$
git -C /repo worktree add -q --detach $wt HEAD || exit 2
trap "git -C /repo worktree remove --force $wt; rm -rf $wt" EXIT
git -C $wt apply /verif/$d/patch.diff || git -C $wt apply --3way /verif/$d/patch.diff || exit 3
PLUSH_REPO=$wt ${PLUSHCHECK:-/verif/bin/plushcheck} "$@"
