#!/bin/bash
# usage: admit_round.sh <out root> <id>...  -- re-confirms each agent-written change with verify_seed.py (fresh worktree of /repo HEAD:
# applies, suite green with it, demonstration fails with it and passes without it) and admits it as the next free /verif/seeded/<id>-vK
out=$1; shift
for id in "$@"; do
  [ -f $out/$id/patch.diff ] || { echo "$id: no patch"; continue; }
  k=1; while [ -d /verif/seeded/$id-v$k ]; do k=$((k+1)); done
  python3 /verif/tools/verify_seed.py $out/$id $id-v$k 2>&1 | tail -2 | cut -c1-400
done
