#!/bin/bash
# usage: seedmatrix.sh [seed-id-glob]   -- runs every claimed check against every seeded change
# (scratch worktree of /repo HEAD; /repo itself is not touched) and prints which properties fire.
export GOFLAGS=-mod=mod GOPROXY=off GOSUMDB=off GOTOOLCHAIN=local; unset GOWORK
pat="${1:-*}"
wt=/tmp/seedmx_$$
git -C /repo worktree add -q --detach $wt HEAD || exit 2
trap "git -C /repo worktree remove --force $wt; rm -rf $wt" EXIT
for d in /verif/seeded/$pat/; do
  id=$(basename $d)
  git -C $wt reset -q --hard HEAD; git -C $wt clean -fdq
  if ! git -C $wt apply $d/patch.diff 2>/dev/null && ! git -C $wt apply --3way $d/patch.diff 2>/dev/null; then echo "$id: PATCH-DOES-NOT-APPLY"; continue; fi
  out=$(PLUSH_REPO=$wt /verif/bin/plushcheck -prop all -no-evidence 2>&1)
  fired=$(echo "$out" | grep -o "^VIOLATION property=C[0-9]*" | sort -u | sed 's/VIOLATION property=//' | tr '\n' ' ')
  own=${id%%-*}
  if echo " $fired" | grep -q " $own "; then st=CAUGHT; elif [ -n "$fired" ]; then st=caught-by-other; else st=MISSED; fi
  echo "$id: $st [$fired]"
  if [ -n "${VERBOSE:-}" ]; then echo "$out" | grep -A1 "^REPORT" | head -20; fi
done
