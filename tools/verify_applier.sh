#!/bin/bash
# compares the checker's in-memory patch applier with `git apply` over the whole corpus
bin=${PLUSHCHECK:-/verif/bin/plushcheck}
fail=0
for d in /verif/seeded/*/ /verif/equiv/*/; do
  [ -f $d/patch.diff ] || continue
  wt=/tmp/va_$$; out=/tmp/vo_$$; rm -rf $wt $out; mkdir -p $out
  rsync -a --exclude .git /repo/ $wt/
  (cd $wt && git apply $d/patch.diff) || { echo "$d: git apply failed"; fail=1; rm -rf $wt $out; continue; }
  PLUSH_REPO=/repo $bin -dump-patch $d/patch.diff -dump-out $out || { echo "$d: in-memory apply failed"; fail=1; rm -rf $wt $out; continue; }
  (cd $out && find . -type f) | while read f; do
    if [ ! -e $wt/$f ]; then
      # a deleted file is replayed as a file with nothing but its package clause
      [ "$(grep -cv '^package ' $out/$f)" = "0" ] || echo "$d: DIFFERS $f (deleted)"
    else
      cmp -s $out/$f $wt/$f || echo "$d: DIFFERS $f"
    fi
  done
  rm -rf $wt $out
done
echo done fail=$fail
