#!/usr/bin/env python3
"""gen_matrix.py <seeded matrix output> <equiv matrix output>
Turns the output of `tools/pmatrix.sh seeded '*'` and `tools/pmatrix.sh equiv '*'` into
seeded/MATRIX.txt, seeded/EXPECT.json (what each seeded change is reported by; the corpus replay of the
thorough tier compares with it) and equiv/MATRIX.txt."""
import json, re, sys
sm, em = sys.argv[1], sys.argv[2]
rows, exp = [], {}
for l in open(sm):
    m = re.match(r'(\S+): (\S+) \[(.*)\]', l.strip())
    if not m:
        if l.strip():
            print("unparsed:", l.strip()); sys.exit(1)
        continue
    rows.append((m.group(1), m.group(2), m.group(3).split()))
key = lambda r: (r[0].split('-')[0], int(r[0].split('-v')[1]))
rows.sort(key=key)
own = sum(1 for r in rows if r[1] == 'CAUGHT'); oth = sum(1 for r in rows if r[1] == 'caught-by-other'); mis = sum(1 for r in rows if r[1] == 'MISSED')
with open('/verif/seeded/MATRIX.txt', 'w') as f:
    f.write("# seeded change -> properties whose quick check reports a violation with the change applied\n")
    f.write("# (%d seeded changes: %d reported by the property they were written against, %d only by another property, %d missed)\n" % (len(rows), own, oth, mis))
    for r in rows:
        f.write("%s: %s [%s ]\n" % (r[0], r[1], ' '.join(r[2])))
        exp[r[0]] = r[2]
json.dump(exp, open('/verif/seeded/EXPECT.json', 'w'), indent=0, sort_keys=True)
erows = []
for l in open(em):
    m = re.match(r'(\S+): (quiet|FALSE-ALARM)(?: \[(.*)\])?', l.strip())
    if not m:
        if l.strip():
            print("unparsed:", l.strip()); sys.exit(1)
        continue
    erows.append((m.group(1), m.group(2), (m.group(3) or '').split()))
erows.sort()
q = sum(1 for r in erows if r[1] == 'quiet')
with open('/verif/equiv/MATRIX.txt', 'w') as f:
    f.write("# behaviour-preserving refactoring -> properties whose quick check reports a violation with it applied (none expected)\n")
    f.write("# (%d refactorings: %d quiet, %d raise an alarm: see DESIGN.md 8.5)\n" % (len(erows), q, len(erows) - q))
    for r in erows:
        f.write("%s: %s%s\n" % (r[0], r[1], (' [' + ' '.join(r[2]) + ' ]') if r[2] else ''))
print("seeded", len(rows), own, oth, mis, "equiv", len(erows), q)
