#!/usr/bin/env python3
"""Writes the prompts for a round of property-breaking changes (one per property, SEED_GROUP properties per agent, default five).
usage: gen_seed_prompts.py <worktree root> <output root> <template prompt (an earlier round's prompt file)>
Each prompt carries the property texts and, per property, one line for every change already in /verif/seeded
(so that a new change is different in kind). Nothing of the checker is given to the agents."""
import json, sys, glob, os, re
root, out, tmpl = sys.argv[1], sys.argv[2], sys.argv[3]
props = [json.loads(l) for l in open('/verif/properties.jsonl')]
head = open(tmpl).read().split('THE PROPERTIES')[0]
old_root = re.search(r'(/tmp/\w+)/C01', head).group(1)
old_out = re.search(r'(/tmp/\w+out)/<id>', head).group(1)
G = int(os.environ.get('SEED_GROUP', '5'))  # properties per agent
for g in range((len(props) + G - 1) // G):
    ps = props[g*G:(g+1)*G]
    h = head.replace(old_out, out).replace(old_root, root)
    h = re.sub(r'One git worktree per property exists: .*? \(all at the same commit\)\.',
               'One git worktree per property exists: ' + ', '.join('%s/%s' % (root, p['id']) for p in ps) + ' (all at the same commit).', h, flags=re.S)
    h = re.sub(r'Below are \d+ semantic properties', 'Below are %d semantic properties' % len(ps), h)
    body = 'THE PROPERTIES\n'
    for p in ps:
        a = p['anchors']
        where = '; '.join('%s @ %s' % (s.get('name', ''), s.get('where', '')) for s in a.get('mechanism', []))
        body += '\n=== %s: %s ===\nStatement: %s\nQuantifier: %s\nWhy the tests cannot settle it: %s\nWhere: %s\nAlready taken (do something different in kind):\n' % (
            p['id'], p['title'], p['statement'], p['quantifier']['text'], p['why_tests_cant'], where)
        for d in sorted(glob.glob('/verif/seeded/%s-v*' % p['id'])):
            m = json.load(open(d + '/meta.json'))
            body += '  - ' + m.get('summary', '')[:330].replace('\n', ' ') + '\n'
    open('%s/prompt_%d.txt' % (root, g), 'w').write(h + body + '\nIMPORTANT: never use `git stash` (the stash is shared between all worktrees of the repository and other agents work in parallel); to test the unmodified code use `git diff > <file> && git apply -R <file>` and re-apply it afterwards.\n')
    print(g, len(h + body))
