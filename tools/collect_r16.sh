#!/bin/bash
# usage: collect_r4.sh <id>...  -- checks /tmp/r16out/<id> (patch applies to /repo HEAD, no test file touched, suite passes) and copies it to /verif/equiv/<id>
export GOFLAGS=-mod=mod GOPROXY=off GOSUMDB=off GOTOOLCHAIN=local; unset GOWORK
for id in "$@"; do
  d=/tmp/r16out/$id; wt=/tmp/cr16_$$_$id
  [ -f $d/patch.diff ] || { echo "$id: no patch"; continue; }
  rm -rf $wt; rsync -a --exclude .git /repo/ $wt/
  if ! (cd $wt && git apply $d/patch.diff 2>/dev/null); then echo "$id: patch does not apply"; rm -rf $wt; continue; fi
  if grep -q "^+++ b/.*_test.go" $d/patch.diff; then echo "$id: touches tests"; rm -rf $wt; continue; fi
  if (cd $wt && go build ./... && go test -vet=off -count=1 ./... ) >/tmp/cr16_out_$$ 2>&1; then
    mkdir -p /verif/equiv/$id && cp $d/patch.diff $d/meta.json /verif/equiv/$id/ && echo "$id: ok"
  else echo "$id: suite fails"; tail -5 /tmp/cr16_out_$$; fi
  rm -rf $wt /tmp/cr16_out_$$
done
