#!/bin/bash
# usage: collect_equiv.sh <area>   -- copies /tmp/wt2/R_<area>/out/v* to /verif/equiv/<area>-vN after checking
# that each patch applies to /repo HEAD and that the suite passes with it (scratch worktree).
export GOFLAGS=-mod=mod GOPROXY=off GOSUMDB=off GOTOOLCHAIN=local; unset GOWORK
a="$1"; wt=/tmp/eqv_$$
git -C /repo worktree add -q --detach $wt HEAD || exit 2
trap "git -C /repo worktree remove --force $wt; rm -rf $wt" EXIT
for d in /tmp/wt2/R_$a/out/v*/; do
  v=$(basename $d); id=$a-$v
  git -C $wt reset -q --hard HEAD; git -C $wt clean -fdq
  if ! git -C $wt apply $d/patch.diff 2>/dev/null; then echo "$id: patch does not apply"; continue; fi
  if git -C $wt status --short | grep -q _test.go; then echo "$id: touches tests"; continue; fi
  if (cd $wt && go build ./... && go test -vet=off -count=1 ./... ) >/tmp/eqv_out_$$ 2>&1; then
    mkdir -p /verif/equiv/$id && cp $d/patch.diff $d/meta.json /verif/equiv/$id/ && echo "$id: ok"
  else echo "$id: suite fails"; tail -5 /tmp/eqv_out_$$; fi
done
rm -f /tmp/eqv_out_$$
