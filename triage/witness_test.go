package triage

import (
	"errors"
	"fmt"
	"html/template"
	"math"
	"strings"
	"sync"
	"testing"
	"time"

	plush "github.com/gobuffalo/plush/v5"
	"github.com/gobuffalo/plush/v5/helpers/hctx"
	"github.com/gobuffalo/plush/v5/helpers/iterators"
	"github.com/gobuffalo/plush/v5/helpers/meta"
	"github.com/gobuffalo/plush/v5/helpers/paths"
	"github.com/gobuffalo/plush/v5/helpers/text"
)

type outcome struct {
	out   string
	err   error
	panic interface{}
	hang  bool
}

func (o outcome) String() string {
	switch {
	case o.hang:
		return "HANG"
	case o.panic != nil:
		return fmt.Sprintf("PANIC(%v)", o.panic)
	case o.err != nil:
		return fmt.Sprintf("ERR(%v)", o.err)
	}
	return fmt.Sprintf("OUT(%q)", o.out)
}

func run(f func() (string, error)) outcome {
	ch := make(chan outcome, 1)
	go func() {
		var o outcome
		defer func() {
			if r := recover(); r != nil {
				o.panic = r
			}
			ch <- o
		}()
		o.out, o.err = f()
	}()
	select {
	case o := <-ch:
		return o
	case <-time.After(2 * time.Second):
		return outcome{hang: true}
	}
}

func render(in string, data map[string]interface{}) outcome {
	return run(func() (string, error) {
		if data == nil {
			data = map[string]interface{}{}
		}
		ctx := plush.NewContextWith(data)
		return plush.Render(in, ctx)
	})
}

type inner struct{ Name string }

func (i *inner) Foo() string { return "foo" }

type person struct {
	Name string
	B    *inner
}

func (p *person) Hello() string { return "hi" }

type MS string

type otherCtx struct{ *plush.Context }

func (o otherCtx) New() hctx.Context { return otherCtx{o.Context.New().(*plush.Context)} }

func Test_Witnesses(t *testing.T) {
	failing := func() (string, error) { return "", errors.New("boom") }
	type W struct {
		id   string
		in   string
		data map[string]interface{}
		// ok reports whether the observed outcome is acceptable (defect absent)
		ok func(o outcome) bool
	}
	noCrash := func(o outcome) bool { return !o.hang && o.panic == nil }
	isErr := func(o outcome) bool { return noCrash(o) && o.err != nil }
	outIs := func(s string) func(o outcome) bool {
		return func(o outcome) bool { return noCrash(o) && o.err == nil && o.out == s }
	}
	ws := []W{
		{"01 C02 block filter passes template.HTML", `<%= if (true) { %><% raw("<b>") %><% } %>`, nil, outIs("")},
		{"02 C03 comment hang", `<%# abc`, nil, noCrash},
		{"03a C03 break()", `<% break() %>`, nil, noCrash},
		{"03b C03 bigint()", `<% 99999999999999999999() %>`, nil, noCrash},
		{"04 C03 continue[1].x", `<% continue[1].x %>`, nil, noCrash},
		{"05 C03 [)]", `<% [)] %>`, nil, noCrash},
		{"06 C03 s[)]", `<% s[)] %>`, nil, noCrash},
		{"07 C03 for in )", `<% for (x) in ) { } %>`, nil, noCrash},
		{"08 C03 else if ())", `<% if (true) { } else if ()) { } %>`, nil, noCrash},
		{"09a C03 {): 1}", `<% {): 1} %>`, nil, noCrash},
		{"09b C03 {a: )}", `<% {a: )} %>`, nil, noCrash},
		{"10 C04 m[1]=2", `<% m[1] = 2 %>`, map[string]interface{}{"m": map[string]int{}}, noCrash},
		{"11 C04 s[0]=nil", `<% s[0] = nil %>`, map[string]interface{}{"s": []int{1}}, noCrash},
		{"12a C04 s[-1]", `<% let i = 0 - 1 %><%= s[i] %>`, map[string]interface{}{"s": []int{1}}, isErr},
		{"12b C04 s[-1]=", `<% let i = 0 - 1 %><% s[i] = 2 %>`, map[string]interface{}{"s": []int{1}}, isErr},
		{"13 C04 m[nil]", `<%= m[nil] %>`, map[string]interface{}{"m": map[string]int{}}, noCrash},
		{"14 C04 p.B.Foo() nil B", `<%= p.B.Foo() %>`, map[string]interface{}{"p": &person{}}, noCrash},
		{"15 C04 array + 1", `<%= a + 1 %>`, map[string]interface{}{"a": [2]int{1, 2}}, noCrash},
		{"16 C04 nil *time.Time", `<%= t %>`, map[string]interface{}{"t": (*time.Time)(nil)}, noCrash},
		{"17 C04 f(1) arity", `<% let f = fn(a,b) { return a } %><%= f(1) %>`, nil, isErr},
		{"18 C04 len(1)", `<%= len(1) %>`, nil, noCrash},
		{"19 C04 groupBy array", `<% for (g) in groupBy(2, a) { %><%= g %><% } %>`, map[string]interface{}{"a": [3]int{1, 2, 3}}, noCrash},
		{"20 C04 pathFor nil ptr", `<%= pathFor(p) %>`, map[string]interface{}{"p": (*person)(nil)}, noCrash},
		{"21 C04 truncate size string", `<%= truncate("abc", {size: "x"}) %>`, nil, noCrash},
		{"22a C05 e()==1", `<%= e() == 1 %>`, map[string]interface{}{"e": failing}, isErr},
		{"22b C05 1==e()", `<%= 1 == e() %>`, map[string]interface{}{"e": failing}, isErr},
		{"22c C05 e()&&true", `<%= e() && true %>`, map[string]interface{}{"e": failing}, isErr},
		{"22d C05 unknown==nil tolerated", `<%= unknownx == nil %>`, nil, outIs("true")},
		{"23 C08 break after inner loop", `<%= for (x) in [1,2] { %><% for (y) in [1] { %>y<% } %><% break %><% } %>`, nil, noErr()},
		{"24 C08 break after fn literal", `<%= for (x) in [1,2] { %><% let g = fn() { return 1 } %><% break %><% } %>`, nil, noErr()},
		{"25 C12 variadic nil", `<%= v(nil) %>`, map[string]interface{}{"v": func(a ...interface{}) string { return fmt.Sprintf("%T", a[0]) }}, outIs("&lt;nil&gt;")},
		{"25b C12 variadic nil string", `<%= v(nil) %>`, map[string]interface{}{"v": func(a ...string) string { return fmt.Sprintf("%q", a[0]) }}, outIs("&#34;&#34;")},
		{"28 C15 bigint no line", "\n<%= 99999999999999999999 %>", nil, func(o outcome) bool { return isErr(o) && strings.HasPrefix(o.err.Error(), "line 2:") }},
		{"29 C15 stale curStmt", "<%= if (true) { %>x<% } %>\n\n<%= undefinedvar %>", nil, func(o outcome) bool { return isErr(o) && strings.HasPrefix(o.err.Error(), "line 3:") }},
		{"30 C16 f(b,a)", `<% let f = fn(a, b) { return a + "|" + b } %><% let a = "A" %><% let b = "B" %><%= f(b, a) %>`, nil, outIs("B|A")},
		{"31a C16 f(1)==1", `<% let f = fn(a) { return a } %><%= f(1) == 1 %>`, nil, outIs("true")},
		{"31b C16 if f(false)", `<% let f = fn(a) { return a } %><%= if (f(false)) { %>T<% } else { %>F<% } %>`, nil, outIs("F")},
		{"32 C16 return in for", `<% let f = fn() { for (x) in [1,2,3] { return x } return 9 } %><%= f() %>`, nil, outIs("1")},
		{"33a C18 for then let", `<% for (x) in [1] { } let y = 1 %><%= y %>`, nil, outIs("1")},
		{"33b C18 nested for eats }", `<%= if (false) { for (x) in [1] { } } %>TEXT`, nil, outIs("TEXT")},
		{"35 C03 a\\<", "a\\<", nil, noCrash},
		{"38 C18 # comment", "<%= # c\n 1+2 %>", nil, outIs("3")},
		{"39 C06 .5+1", `<%= .5+1 %>`, nil, outIs("1.5")},
		{"40 C12 *HelperContext param", `<%= hp() %>`, map[string]interface{}{"hp": func(h *plush.HelperContext) string { return "x" }}, noCrash},
		{"41 C04 nil func", `<%= nf() %>`, map[string]interface{}{"nf": (func() string)(nil)}, noCrash},
		{"42 C11 p.Nope()", `<%= p.Nope() %>`, map[string]interface{}{"p": &person{Name: "n"}}, isErr},
		{"37 C04 map[MS]", `<%= m["a"] %>`, map[string]interface{}{"m": map[MS]int{"a": 1}}, noCrash},
	}
	bad := 0
	for _, w := range ws {
		o := render(w.in, w.data)
		st := "ok     "
		if !w.ok(o) {
			st = "DEFECT "
			bad++
		}
		t.Logf("%s %-40s %-60q -> %s", st, w.id, w.in, o)
	}
	// 26 hash literal order
	{
		seen := map[string]bool{}
		for i := 0; i < 200; i++ {
			o := render(`<%= {a: 1, a: 2, a: 3, a: 4}["a"] %>`, nil)
			seen[o.String()] = true
		}
		st := "ok     "
		if len(seen) != 1 {
			st = "DEFECT "
			bad++
		}
		t.Logf("%s 26 C13 hash dup keys -> %v", st, seen)
	}
	// 36 other hctx.Context implementation
	{
		o := run(func() (string, error) {
			return plush.Render(`<%= for (x) in [1] { %>a<% } %>`, otherCtx{plush.NewContext()})
		})
		st := "ok     "
		if o.panic != nil {
			st = "DEFECT "
			bad++
		}
		t.Logf("%s 36 C04 foreign hctx.Context + for -> %s", st, o)
	}
	// direct helper calls
	direct := []struct {
		id string
		f  func() (string, error)
	}{
		{"18d meta.Len(1)", func() (string, error) { return fmt.Sprint(meta.Len(1)), nil }},
		{"19d iterators.GroupBy array", func() (string, error) { _, err := iterators.GroupBy(2, [3]int{1, 2, 3}); return "", err }},
		{"19e plush.GroupByHelper array", func() (string, error) { _, err := plush.GroupByHelper(2, [3]int{1, 2, 3}); return "", err }},
		{"20d paths.PathFor nil ptr", func() (string, error) { return paths.PathFor((*person)(nil)) }},
		{"21d text.Truncate bad opts", func() (string, error) { return text.Truncate("abcdef", hctx.Map{"size": "x"}), nil }},
		{"21e text.Truncate bad trail", func() (string, error) { return text.Truncate("abcdef", hctx.Map{"size": 3, "trail": 1}), nil }},
	}
	for _, d := range direct {
		o := run(d.f)
		st := "ok     "
		if o.panic != nil || o.hang {
			st = "DEFECT "
			bad++
		}
		t.Logf("%s %s -> %s", st, d.id, o)
	}
	// 34 int extremes
	{
		o := run(func() (string, error) {
			it := iterators.Until(math.MinInt)
			n := 0
			for x := it.Next(); x != nil && n < 5; x = it.Next() {
				n++
			}
			return fmt.Sprint(n), nil
		})
		st := "ok     "
		if o.out != "0" {
			st = "DEFECT "
			bad++
		}
		t.Logf("%s 34 C19 until(MinInt) yields -> %s", st, o)
	}
	_ = template.HTML("")
	t.Logf("defects present: %d", bad)
}

func noErr() func(o outcome) bool {
	return func(o outcome) bool { return !o.hang && o.panic == nil && o.err == nil }
}

// 27: run with -race to see the data race
func Test_ContextRace(t *testing.T) {
	c := plush.NewContext()
	var wg sync.WaitGroup
	for i := 0; i < 4; i++ {
		wg.Add(2)
		go func() { defer wg.Done(); for j := 0; j < 2000; j++ { c.Set("a", j) } }()
		go func() { defer wg.Done(); for j := 0; j < 2000; j++ { _ = c.Value("a"); _ = c.Has("a") } }()
	}
	wg.Wait()
}
