package main

// scopessa.go (C09.R1, C17.R6): save / install / restore of the evaluator's
// current scope, decided on the paths of the SSA form. Every function of the
// root package that -- with the package's unexported helpers, closures and the
// deferred calls run at its exits walked in line -- writes the evaluator's
// scope field is checked on each of its paths:
//   (1) at every return the scope field holds what it held on entry (the last
//       write stores a value that was loaded from the field before the first
//       write);
//   (2) that last write happens in a deferred call, and the defer is
//       registered before the first call that follows the install (so an error
//       return or a panic further down cannot leave the evaluator in the inner
//       scope);
//   (3) what is installed is a fresh child of the scope found on entry
//       (<old>.New()) or a context the caller handed in as a parameter;
//   (4) nothing else is written to the field.
// Unexported helpers that write the field (a push/pop helper) are judged in
// the functions that call them, not on their own.

import (
	"fmt"
	"go/token"
	"go/types"
	"sort"
	"strings"

	"golang.org/x/tools/go/ssa"
)

func scopeDisciplineRuleSSA(r *Run, rule string) { scopeDisciplineRuleFor(r, rule, nil) }

// scopeDisciplineRuleFor: the same, for the roots that only selects (nil: all of them, and every writer of the scope
// field must then be covered by some root).
func scopeDisciplineRuleFor(r *Run, rule string, only func(root *ssa.Function) bool) {
	w := r.W
	ctxF := w.compilerField("ctx")
	ct := w.compilerType()
	if ctxF == nil || ct == nil {
		r.Lost(rule, "current-scope field of the evaluator")
		return
	}
	w.SSA()
	ctxIdx := fieldIndex(ct.Underlying().(*types.Struct), ctxF)
	pkg := w.SSAPkg("")
	if pkg == nil {
		r.Lost(rule, "root package")
		return
	}
	isCtxAddr := func(v ssa.Value) bool {
		fa, ok := v.(*ssa.FieldAddr)
		if !ok || fa.Field != ctxIdx {
			return false
		}
		if _, fresh := fa.X.(*ssa.Alloc); fresh {
			return false // the field of an evaluator that is being built: its initialisation
		}
		t := fa.X.Type()
		if pt, ok := t.Underlying().(*types.Pointer); ok {
			t = pt.Elem()
		}
		n, ok := t.(*types.Named)
		return ok && n.Obj() == ct.Obj()
	}
	writes := func(fn *ssa.Function) bool {
		for _, b := range fn.Blocks {
			for _, ins := range b.Instrs {
				if st, ok := ins.(*ssa.Store); ok && isCtxAddr(st.Addr) {
					return true
				}
			}
		}
		return false
	}
	all := functionsOf(pkg)
	writer := map[*ssa.Function]bool{}
	for _, fn := range all {
		if writes(fn) {
			writer[fn] = true
		}
	}
	// a helper: an unexported function (or closure) of the package; judged where it is walked in line
	isHelper := func(fn *ssa.Function) bool {
		if fn.Parent() != nil {
			return true
		}
		return fnObject(fn) != nil && !fnObject(fn).Exported() && !w.coreModel().canonicalSet()[fn]
	}
	inline := func(caller, callee *ssa.Function) bool {
		return pkgOf(callee) == pkg && isHelper(callee)
	}
	// roots: functions that are not helpers and reach a writer through helpers
	var reach func(fn *ssa.Function, seen map[*ssa.Function]bool) bool
	reach = func(fn *ssa.Function, seen map[*ssa.Function]bool) bool {
		if seen[fn] {
			return false
		}
		seen[fn] = true
		if writer[fn] || writes(fn) { // (writes: an instance of a generic helper is not a member of the package)
			return true
		}
		for _, a := range fn.AnonFuncs {
			if reach(a, seen) {
				return true
			}
		}
		for _, b := range fn.Blocks {
			for _, ins := range b.Instrs {
				var cc *ssa.CallCommon
				switch x := ins.(type) {
				case *ssa.Call:
					cc = &x.Call
				case *ssa.Defer:
					cc = &x.Call
				}
				if cc == nil {
					continue
				}
				if cal := cc.StaticCallee(); cal != nil && pkgOf(cal) == pkg && isHelper(cal) && reach(cal, seen) {
					return true
				}
			}
		}
		return false
	}
	covered := map[*ssa.Function]bool{}
	coveredAt := map[token.Pos]bool{}
	nRoots := 0
	var roots []*ssa.Function
	for _, fn := range all {
		if fn.Parent() == nil && !isHelper(fn) && reach(fn, map[*ssa.Function]bool{}) {
			roots = append(roots, fn)
		}
	}
	sort.Slice(roots, func(i, j int) bool { return roots[i].Pos() < roots[j].Pos() })
	for _, fn := range roots {
		if only != nil && !only(fn) {
			continue
		}
		name := ssaName(fn)
		pw := &pathWalker{inline: inline, unroll1: true, maxPaths: 100000, maxDepth: 5, runDefers: true}
		pw.walk(fn)
		if pw.overflow {
			r.Lost(rule, "paths of "+name)
			continue
		}
		nRoots++
		var bads []string
		badAt := map[string]token.Pos{}
		addBad := func(s string, at token.Pos) {
			if _, ok := badAt[s]; !ok {
				bads = append(bads, s)
				badAt[s] = at
			}
		}
		nInstall := 0
		how := map[string]bool{}
		for _, p := range pw.paths {
			var stores []int
			for i, ev := range p.events {
				if st, ok := ev.(*ssa.Store); ok && isCtxAddr(p.resolve(st.Addr)) {
					stores = append(stores, i)
					if par := origInstr(st).Parent(); par != nil {
						covered[par] = true
						// (an instance of a generic helper is judged for the helper as written)
						if par.Pos().IsValid() {
							coveredAt[par.Pos()] = true
						}
					}
				}
			}
			if len(stores) == 0 || p.end != "return" {
				continue
			}
			first := stores[0]
			// the scope on entry: loads of the field executed before the first write
			isEntry := func(v ssa.Value) bool {
				v = p.resolve(v)
				for i := 0; i < 4; i++ {
					switch x := v.(type) {
					case *ssa.TypeAssert:
						v = p.resolve(x.X)
						continue
					case *ssa.Extract:
						if ta, ok := x.Tuple.(*ssa.TypeAssert); ok && x.Index == 0 {
							v = p.resolve(ta.X)
							continue
						}
					case *ssa.MakeInterface:
						v = p.resolve(x.X)
						continue
					case *ssa.ChangeInterface:
						v = p.resolve(x.X)
						continue
					}
					break
				}
				ld, ok := v.(*ssa.UnOp)
				if !ok || ld.Op != token.MUL || !isCtxAddr(p.resolve(ld.X)) {
					return false
				}
				at, seen := p.loadAt[ld]
				return seen && at <= first
			}
			inDefer := func(ei int) bool {
				for _, sp := range p.deferSpans {
					if ei >= sp[0] && ei < sp[1] {
						return true
					}
				}
				return false
			}
			last := stores[len(stores)-1]
			lastSt := p.events[last].(*ssa.Store)
			if !isEntry(lastSt.Val) {
				addBad("on some path the function returns with the current scope changed (the last write does not put back the scope found on entry)", lastSt.Pos())
				continue
			}
			if !inDefer(last) {
				addBad("the scope found on entry is put back by an ordinary statement, not by a deferred call: an error return or a panic in between leaves the evaluator in the inner scope", lastSt.Pos())
			}
			// installs: every other write
			for _, si := range stores[:len(stores)-1] {
				st := p.events[si].(*ssa.Store)
				if isEntry(st.Val) {
					continue // an early restore
				}
				nInstall++
				v := p.resolve(stripIface(p.resolve(st.Val)))
				okInstall := false
				if c, ok := v.(*ssa.Call); ok {
					if c.Call.IsInvoke() && c.Call.Method.Name() == "New" && len(c.Call.Args) == 0 && isEntry(c.Call.Value) {
						okInstall = true
						how["a fresh child of the scope found on entry"] = true
					}
					if cal := c.Call.StaticCallee(); cal != nil && cal.Name() == "New" && len(c.Call.Args) == 1 && isEntry(c.Call.Args[0]) {
						okInstall = true
						how["a fresh child of the scope found on entry"] = true
					}
				}
				for i := 0; i < 4 && !okInstall; i++ {
					switch x := v.(type) {
					case *ssa.Parameter:
						if x.Parent() == fn && (namedIs(x.Type(), hctxPath, "Context") || namedIs(x.Type(), modPath, "Context")) {
							okInstall = true
							how["the context handed in by the caller"] = true
						}
					case *ssa.TypeAssert:
						v = p.resolve(x.X)
						continue
					case *ssa.Extract:
						if ta, ok := x.Tuple.(*ssa.TypeAssert); ok && x.Index == 0 {
							v = p.resolve(ta.X)
							continue
						}
					case *ssa.MakeInterface:
						v = p.resolve(x.X)
						continue
					}
					break
				}
				if !okInstall {
					addBad("the installed scope is neither a fresh child of the scope found on entry (<old>.New()) nor a context handed in by the caller", st.Pos())
				}
				// the restoring defer is registered before the first call that follows the install
				deferAt := -1
				for i, ev := range p.events {
					if _, ok := ev.(*ssa.Defer); ok && !inDefer(i) {
						if deferAt < 0 || i < deferAt {
							deferAt = i
						}
					}
				}
				for i := si + 1; i < len(p.events); i++ {
					if inDefer(i) {
						break
					}
					c, ok := p.events[i].(*ssa.Call)
					if !ok {
						continue
					}
					if _, isB := c.Call.Value.(*ssa.Builtin); isB {
						continue
					}
					if deferAt < 0 || deferAt > i {
						addBad("a call follows the install before the restore is deferred: if it panics the evaluator stays in the inner scope", c.Pos())
					}
					break
				}
			}
		}
		if nInstall == 0 && len(bads) == 0 {
			continue
		}
		con := "save / install / restore of the current scope"
		if len(bads) > 0 {
			sort.Strings(bads)
			for _, b := range bads {
				r.Bad(rule, name, con+": "+b, w.Pos(badAt[b]), "the current scope must be saved, replaced by a fresh child (or the caller's context) and put back by a defer on every exit")
			}
			continue
		}
		var hs []string
		for k := range how {
			hs = append(hs, k)
		}
		sort.Strings(hs)
		r.Ok(rule, name, con, w.Pos(fn.Pos()), fmt.Sprintf("%d path(s): installs %v; the entry scope is put back by a deferred call registered before anything can fail", len(pw.paths), hs))
	}
	// every writer must have been judged in some root
	for fn := range writer {
		if only != nil {
			break
		}
		top := fn
		for top.Parent() != nil {
			top = top.Parent()
		}
		if covered[fn] || covered[top] || (fn.Pos().IsValid() && coveredAt[fn.Pos()]) {
			continue
		}
		isRoot := false
		for _, rt := range roots {
			if rt == top {
				isRoot = true
			}
		}
		if !isRoot {
			r.Bad(rule, ssaName(fn), "scope write outside any analysed evaluator", w.Pos(fn.Pos()), "the current scope is written in a function that no exported or dispatching function of the evaluator reaches through its helpers")
		}
	}
	if nRoots == 0 {
		r.Lost(rule, "functions that install a scope")
	}
}

// paramsInChildRuleSSA (C09.R5): on every path of the user-function call
// evaluator (helpers, closures and deferred calls walked in line) each Set on
// the current scope follows a write that installed a scope of the function's
// own, and reads the scope field after that write.
func paramsInChildRuleSSA(r *Run, rule string) {
	w := r.W
	uf := w.userFunctionEval()
	ctxF := w.compilerField("ctx")
	ct := w.compilerType()
	if uf == nil || ctxF == nil || ct == nil {
		r.Lost(rule, "user-function call evaluator")
		return
	}
	w.SSA()
	fn := w.SSAFunc(uf)
	ctxIdx := fieldIndex(ct.Underlying().(*types.Struct), ctxF)
	m := w.coreModel()
	isCtxAddr := func(v ssa.Value) bool {
		fa, ok := v.(*ssa.FieldAddr)
		return ok && fa.Field == ctxIdx && w.isCompilerValue(fa.X)
	}
	pw := &pathWalker{inline: m.inline, unroll1: true, maxPaths: 50000, maxDepth: 5, runDefers: true}
	pw.walk(fn)
	if pw.overflow {
		r.Lost(rule, "paths of the user-function call evaluator")
		return
	}
	nSet, bad := 0, ""
	var badPos token.Pos
	var blockEval *ssa.Function
	if be := w.evalMethod("BlockStatement"); be != nil {
		blockEval = w.SSAFunc(be)
	}
	for _, p := range pw.paths {
		// the scope of the function's own: what the first write to the scope field installs
		install := -1
		var installed ssa.Value
		for i, ev := range p.events {
			if st, ok := ev.(*ssa.Store); ok && isCtxAddr(p.resolve(st.Addr)) && install < 0 {
				install, installed = i, p.resolve(st.Val)
			}
		}
		// the body runs in the function's own scope: its evaluation follows the install on every path
		// (a short cut for functions without parameters would let a `let` in the body write the caller's scope)
		if blockEval != nil {
			for i, ev := range p.events {
				if c, ok := ev.(*ssa.Call); ok && c.Call.StaticCallee() == blockEval && (install < 0 || i < install) {
					bad, badPos = "on some path the body of the function is evaluated before (or without) a scope of the function's own being installed: its let statements write the caller's scope", origInstr(c).Pos()
				}
			}
		}
		for _, ev := range p.events {
			x, ok := ev.(*ssa.Call)
			if !ok || !x.Call.IsInvoke() || x.Call.Method.Name() != "Set" || len(x.Call.Args) != 2 {
				continue
			}
			if !namedIs(x.Call.Value.Type(), hctxPath, "Context") && !namedIs(x.Call.Value.Type(), modPath, "Context") {
				continue
			}
			nSet++
			// the receiver: the installed scope itself -- read from the field after the install, or the
			// very value that is installed (a scope that is filled first and entered afterwards)
			recv := p.resolve(x.Call.Value)
			switch {
			case install < 0:
				bad, badPos = "on some path a parameter is bound although no scope of the function's own was installed: it lands in the scope that happens to be current", x.Pos()
			case recv != installed:
				bad, badPos = "a parameter is bound on another scope than the one the function installs for itself (the scope that was current before, or a scope that is never entered)", x.Pos()
			}
		}
	}
	name := uf.Name()
	switch {
	case nSet == 0:
		r.Bad(rule, name, "no parameter binding", w.Pos(uf.Decl.Pos()), "parameters must be bound with Set on the installed child scope")
	case bad != "":
		r.Bad(rule, name, "parameter binding", w.Pos(badPos), bad)
	default:
		r.Ok(rule, name, "parameter binding", w.Pos(uf.Decl.Pos()), fmt.Sprintf("%d path(s): every Set on the current scope follows the install of the function's own scope", len(pw.paths)))
	}
}

// inLoopFlagRuleSSA (C08.R5): the parser's in-loop flag. Every parser function
// that writes the flag -- directly or through a helper that does (a
// set-and-return-the-restorer helper), with closures and the deferred calls at
// its exits walked in line -- is checked on each of its paths: at every return
// the flag holds what it held on entry, put back by a deferred call; what is
// installed is a constant; and the install (with its restore deferred) comes
// before the first call that can parse a block (the block parser, the
// statement parser, the Pratt entry, a function taken from a registry).
// Helpers whose every caller passes are not judged on their own.
func inLoopFlagRuleSSA(r *Run, rule string) {
	w := r.W
	pm := w.parserModel()
	if len(pm.problems) > 0 {
		r.Lost(rule, "parser model")
		return
	}
	var flag *types.Var
	st := pm.typ.Underlying().(*types.Struct)
	for i := 0; i < st.NumFields(); i++ {
		if isBasicKind(st.Field(i).Type(), types.Bool) {
			flag = st.Field(i)
		}
	}
	if flag == nil {
		r.Lost(rule, "in-loop flag of the parser")
		return
	}
	w.SSA()
	flagIdx := fieldIndex(st, flag)
	pkg := w.SSAPkg("parser")
	if pkg == nil {
		r.Lost(rule, "parser package (SSA)")
		return
	}
	isFlagAddr := func(v ssa.Value) bool {
		fa, ok := v.(*ssa.FieldAddr)
		if !ok || fa.Field != flagIdx {
			return false
		}
		if _, fresh := fa.X.(*ssa.Alloc); fresh {
			return false
		}
		t := fa.X.Type()
		if pt, ok := t.Underlying().(*types.Pointer); ok {
			t = pt.Elem()
		}
		n, ok := t.(*types.Named)
		return ok && n.Obj() == pm.typ.Obj()
	}
	all := functionsOf(pkg)
	writer := map[*ssa.Function]bool{}
	for _, fn := range all {
		for _, b := range fn.Blocks {
			for _, ins := range b.Instrs {
				if stI, ok := ins.(*ssa.Store); ok && isFlagAddr(stI.Addr) {
					top := fn
					for top.Parent() != nil {
						top = top.Parent()
					}
					writer[fn], writer[top] = true, true
				}
			}
		}
	}
	if len(writer) == 0 {
		r.Lost(rule, "writes of the parser's in-loop flag")
		return
	}
	blockParsers := map[*ssa.Function]bool{}
	for _, f := range []*FuncInfo{pm.blockParse, pm.pratt, pm.stmtParse} {
		if f != nil {
			if fn := w.SSAFunc(f); fn != nil {
				blockParsers[fn] = true
			}
		}
	}
	inline := func(caller, callee *ssa.Function) bool {
		return pkgOf(callee) == pkg && (callee.Parent() != nil || writer[callee]) && !blockParsers[callee]
	}
	// functions to analyse: top-level functions that write the flag or call one that does
	var roots []*ssa.Function
	callers := map[*ssa.Function][]*ssa.Function{}
	for _, fn := range all {
		if fn.Parent() != nil {
			continue
		}
		uses := writer[fn]
		var scan func(g *ssa.Function)
		scan = func(g *ssa.Function) {
			for _, b := range g.Blocks {
				for _, ins := range b.Instrs {
					var cc *ssa.CallCommon
					switch x := ins.(type) {
					case *ssa.Call:
						cc = &x.Call
					case *ssa.Defer:
						cc = &x.Call
					}
					if cc != nil {
						if cal := cc.StaticCallee(); cal != nil && cal != fn && writer[cal] && cal.Parent() == nil {
							uses = true
							callers[cal] = append(callers[cal], fn)
						}
					}
				}
			}
			for _, a := range g.AnonFuncs {
				scan(a)
			}
		}
		scan(fn)
		if uses {
			roots = append(roots, fn)
		}
	}
	sort.Slice(roots, func(i, j int) bool { return roots[i].Pos() < roots[j].Pos() })
	type verdict struct {
		bads     []string
		badAt    token.Pos
		installs int
		paths    int
	}
	verdicts := map[*ssa.Function]*verdict{}
	for _, fn := range roots {
		v := &verdict{}
		verdicts[fn] = v
		pw := &pathWalker{inline: inline, unroll1: true, maxPaths: 100000, maxDepth: 5, runDefers: true}
		pw.walk(fn)
		if pw.overflow {
			v.bads = append(v.bads, "too many paths")
			v.badAt = fn.Pos()
			continue
		}
		v.paths = len(pw.paths)
		addBad := func(s string, at token.Pos) {
			for _, b := range v.bads {
				if b == s {
					return
				}
			}
			v.bads = append(v.bads, s)
			if !v.badAt.IsValid() {
				v.badAt = at
			}
		}
		for _, p := range pw.paths {
			var stores []int
			for i, ev := range p.events {
				if stI, ok := ev.(*ssa.Store); ok && isFlagAddr(p.resolve(stI.Addr)) {
					stores = append(stores, i)
				}
			}
			if len(stores) == 0 || p.end != "return" {
				continue
			}
			first := stores[0]
			isEntry := func(val ssa.Value) bool {
				ld, ok := p.resolve(val).(*ssa.UnOp)
				if !ok || ld.Op != token.MUL || !isFlagAddr(p.resolve(ld.X)) {
					return false
				}
				at, seen := p.loadAt[ld]
				return seen && at <= first
			}
			inDefer := func(ei int) bool {
				for _, sp := range p.deferSpans {
					if ei >= sp[0] && ei < sp[1] {
						return true
					}
				}
				return false
			}
			last := stores[len(stores)-1]
			lastSt := p.events[last].(*ssa.Store)
			if !isEntry(lastSt.Val) {
				addBad("on some path the function returns with the in-loop flag changed (it is not put back to what it was on entry; resetting it to a constant makes an enclosing loop body reject break/continue)", lastSt.Pos())
				continue
			}
			if !inDefer(last) {
				addBad("the flag is put back by an ordinary statement, not by a deferred call: an early return in between leaves it set", lastSt.Pos())
			}
			deferAt := -1
			for i, ev := range p.events {
				if _, ok := ev.(*ssa.Defer); ok && !inDefer(i) && (deferAt < 0 || i < deferAt) {
					deferAt = i
				}
			}
			for _, si := range stores[:len(stores)-1] {
				stI := p.events[si].(*ssa.Store)
				if isEntry(stI.Val) {
					continue
				}
				v.installs++
				if _, isC := p.constOf(stI.Val); !isC {
					addBad("the in-loop flag is set from a non-constant outside a deferred restore", stI.Pos())
				}
				// nothing that can parse a block before the install (and before its restore is deferred)
				for i := 0; i < len(p.events); i++ {
					if inDefer(i) {
						continue
					}
					c, ok := p.events[i].(*ssa.Call)
					if !ok {
						continue
					}
					can := blockParsers[c.Call.StaticCallee()]
					if c.Call.StaticCallee() == nil && !c.Call.IsInvoke() {
						if _, isB := c.Call.Value.(*ssa.Builtin); !isB {
							can = true // a function taken from a registry
						}
					}
					if !can {
						continue
					}
					if i < si {
						addBad("the flag is set only after a call that can already parse the body (an iterable that is a call with a block carries the loop body): break/continue in that body are rejected", stI.Pos())
					} else if deferAt < 0 || deferAt > i {
						addBad("a sub-parse follows the install before the restore is deferred", c.Pos())
					}
					break
				}
			}
		}
	}
	// helpers whose every caller was analysed and passes are not judged on their own
	isHelperOK := func(fn *ssa.Function) bool {
		cs := callers[fn]
		if len(cs) == 0 {
			return false
		}
		for _, c := range cs {
			if v := verdicts[c]; v == nil || len(v.bads) > 0 {
				return false
			}
		}
		return true
	}
	n := 0
	for _, fn := range roots {
		v := verdicts[fn]
		name := ssaName(fn)
		con := "save / set / restore of the in-loop flag"
		switch {
		case len(v.bads) > 0 && isHelperOK(fn):
			r.Note("R5: %s changes the flag for its callers (a set-and-restore helper); judged in %d caller(s)", name, len(callers[fn]))
		case len(v.bads) > 0:
			n++
			sort.Strings(v.bads)
			r.Bad(rule, name, con, w.Pos(v.badAt), strings.Join(v.bads, "; "))
		case v.installs > 0:
			n++
			r.Ok(rule, name, con, w.Pos(fn.Pos()), fmt.Sprintf("%d path(s): set to a constant before anything that can parse a block; the entry value is put back by a deferred call", v.paths))
		}
	}
	if n == 0 {
		r.Lost(rule, "functions that set the in-loop flag")
	}
}
