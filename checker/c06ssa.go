package main

// c06ssa.go: the operator tables, their dispatch and the short circuit of the
// infix evaluator, decided on the SSA form with the path walker (pathwalk.go):
// for every operator of the language the operator parameter is seeded with
// that operator's text, the paths of the function are enumerated, and what the
// successful paths return is compared with the operator's Go meaning. The
// surface form (switch, if-chain, order of arms, helper functions, renamed
// parameters, local aliases of node.Operator) does not matter.

import (
	"fmt"
	"go/constant"
	"go/token"
	"go/types"
	"sort"
	"strings"

	"golang.org/x/tools/go/ssa"
)

var c06Operators = []string{"+", "-", "*", "/", "<", "<=", ">", ">=", "==", "!=", "~=", "&&", "||"}

type opTab struct {
	fn   *ssa.Function
	info *FuncInfo
	kind string // int | float | string | iface
}

type infixModel struct {
	w      *World
	eval   *FuncInfo
	fn     *ssa.Function
	truthy *ssa.Function
	tables map[*ssa.Function]*opTab
	order  []*opTab
}

// isNodeEvaluator: a compiler method taking exactly one AST node.
func (w *World) isNodeEvaluator(fn *ssa.Function) bool {
	if fn == nil || fn.Signature.Recv() == nil || fn.Signature.Params().Len() != 1 {
		return false
	}
	return declaredIn(fn.Signature.Params().At(0).Type(), astPath) || isASTRef(fn.Signature.Params().At(0).Type())
}

// isEvalFunc: a method of the evaluator, or an unexported plain function of
// the evaluator's package (the same helper with its unused receiver dropped).
func (w *World) isEvalFunc(fn *ssa.Function) bool {
	if w.isCompilerMethod(fn) {
		return true
	}
	if fn == nil || fn.Signature.Recv() != nil || fn.Parent() != nil {
		return false
	}
	ct := w.compilerType()
	obj := fnObject(fn)
	return ct != nil && obj != nil && !obj.Exported() && obj.Pkg() == ct.Obj().Pkg()
}

// opBase: index of the first operand among fn.Params (behind the receiver, if any).
func opBase(fn *ssa.Function) int {
	if fn.Signature.Recv() != nil {
		return 1
	}
	return 0
}

func (w *World) isCompilerMethod(fn *ssa.Function) bool {
	if fn == nil || fn.Signature.Recv() == nil {
		return false
	}
	ct := w.compilerType()
	if ct == nil {
		return false
	}
	t := fn.Signature.Recv().Type()
	if p, ok := t.(*types.Pointer); ok {
		t = p.Elem()
	}
	n, ok := t.(*types.Named)
	return ok && n.Obj() == ct.Obj()
}

func (w *World) infixModel() *infixModel {
	m := &infixModel{w: w, tables: map[*ssa.Function]*opTab{}}
	m.eval = w.evalMethod("InfixExpression")
	if m.eval == nil {
		return nil
	}
	m.fn = w.SSAFunc(m.eval)
	if t := w.truthyMethod(); t != nil {
		m.truthy = w.SSAFunc(t)
	}
	if m.fn == nil || m.truthy == nil {
		return nil
	}
	// operator functions: compiler methods (l, r, op string) (interface{}, error) reached from the
	// infix evaluator through static calls, possibly through helper methods that are not evaluators
	seen := map[*ssa.Function]bool{m.fn: true}
	work := []*ssa.Function{m.fn}
	for depth := 0; depth < 3 && len(work) > 0; depth++ {
		var next []*ssa.Function
		for _, f := range work {
			for _, b := range f.Blocks {
				for _, ins := range b.Instrs {
					c, ok := ins.(*ssa.Call)
					if !ok {
						continue
					}
					cal := c.Call.StaticCallee()
					if cal == nil || seen[cal] || !w.isEvalFunc(cal) || len(cal.Blocks) == 0 {
						continue
					}
					seen[cal] = true
					sig := cal.Signature
					if isOpSig(sig) && !callsOpFuncs(w, cal) {
						t := &opTab{fn: cal, kind: "iface"}
						switch {
						case isBasicKind(sig.Params().At(0).Type(), types.Int):
							t.kind = "int"
						case isBasicKind(sig.Params().At(0).Type(), types.Float64):
							t.kind = "float"
						case isBasicKind(sig.Params().At(0).Type(), types.String):
							t.kind = "string"
						}
						if obj, ok := cal.Object().(*types.Func); ok {
							t.info = w.FuncOf(obj)
						}
						m.tables[cal] = t
						m.order = append(m.order, t)
						continue
					}
					if !w.coreModel().canonicalSet()[cal] && cal != m.truthy {
						next = append(next, cal)
					}
				}
			}
		}
		work = next
	}
	sort.Slice(m.order, func(i, j int) bool { return m.order[i].fn.Name() < m.order[j].fn.Name() })
	return m
}

func isOpSig(sig *types.Signature) bool {
	// (left, right, operator[, further operands that the callers fix])
	return sig.Params().Len() >= 3 && sig.Results().Len() == 2 && isBasicKind(sig.Params().At(2).Type(), types.String) && isErrorType(sig.Results().At(1).Type())
}

// callsOpFuncs: fn has the operator-function signature itself but only hands
// its operands on to other operator functions (a dispatcher, not a table).
func callsOpFuncs(w *World, fn *ssa.Function) bool {
	for _, b := range fn.Blocks {
		for _, ins := range b.Instrs {
			if c, ok := ins.(*ssa.Call); ok {
				if cal := c.Call.StaticCallee(); cal != nil && cal != fn && w.isEvalFunc(cal) && isOpSig(cal.Signature) {
					return true
				}
			}
		}
	}
	return false
}

// inlineHelpers: walk into compiler methods that are neither node evaluators
// (other than operand wrappers), nor operator functions, nor the predicate.
func (m *infixModel) inlineHelpers(caller, callee *ssa.Function) bool {
	pkg, obj := pkgOf(callee), fnObject(callee)
	if o := callee.Origin(); o != nil {
		pkg, obj = o.Pkg, o.Object() // an instance of a generic helper
	}
	if m.tables[callee] != nil || callee == m.truthy {
		return false
	}
	if callee.Signature.Recv() == nil && pkg != nil && pkg == m.fn.Pkg && obj != nil && !obj.Exported() && len(callee.Blocks) > 0 {
		return true // plain unexported helper of the evaluator's package (a predicate over the operator, ...)
	}
	// a function literal of the package (an entry of an operator table): walked where the table's entry is called
	if lit := callee; lit.Parent() != nil || (lit.Origin() != nil && lit.Origin().Parent() != nil) {
		top := lit
		if top.Origin() != nil {
			top = top.Origin()
		}
		for top.Parent() != nil {
			top = top.Parent()
		}
		if top.Pkg != nil && top.Pkg == m.fn.Pkg && len(callee.Blocks) > 0 && !funcHasLoop(callee) {
			return true
		}
	}
	if !m.w.isCompilerMethod(callee) || m.tables[callee] != nil || callee == m.truthy {
		return false
	}
	if obj, ok := fnObject(callee).(*types.Func); ok {
		if _, isWrapper := m.w.operandWrappers()[obj]; isWrapper {
			return true
		}
	}
	// (an evaluator of a node type that the expression dispatcher hands over to is a fixed point;
	// a method that only this evaluator calls is a part of it, whatever its parameter)
	return !m.w.coreModel().canonicalSet()[callee]
}

func stripIface(v ssa.Value) ssa.Value {
	for {
		switch x := v.(type) {
		case *ssa.MakeInterface:
			v = x.X
		case *ssa.ChangeInterface:
			v = x.X
		default:
			return v
		}
	}
}

// atomOf classifies a value of an operator function as derived from the left
// or right parameter: the parameter, a conversion / assertion of it,
// fmt.Sprint(param), or truthy(param).
func (m *infixModel) atomOf(p *pwPath, t *opTab, v ssa.Value, depth int) (side string, via string) {
	if depth > 6 {
		return "", ""
	}
	v = p.resolve(stripIface(p.resolve(v)))
	// parameters: receiver, l, r, op
	if b := opBase(t.fn); len(t.fn.Params) >= b+3 {
		// an operand the caller hands over as a bool is its own truth value
		how := func(q *ssa.Parameter) string {
			if isBasicKind(q.Type(), types.Bool) {
				return "truthy"
			}
			return ""
		}
		if v == ssa.Value(t.fn.Params[b]) {
			return "l", how(t.fn.Params[b])
		}
		if v == ssa.Value(t.fn.Params[b+1]) {
			return "r", how(t.fn.Params[b+1])
		}
	}
	switch x := v.(type) {
	case *ssa.Convert:
		return m.atomOf(p, t, x.X, depth+1)
	case *ssa.ChangeType:
		return m.atomOf(p, t, x.X, depth+1)
	case *ssa.TypeAssert:
		return m.atomOf(p, t, x.X, depth+1)
	case *ssa.Extract:
		// the value part of a comma-ok assertion (used where ok was found true)
		if ta, ok := x.Tuple.(*ssa.TypeAssert); ok && x.Index == 0 {
			return m.atomOf(p, t, ta.X, depth+1)
		}
	case *ssa.Call:
		cal := x.Call.StaticCallee()
		if cal == m.truthy && len(x.Call.Args) == opBase(m.truthy)+1 {
			s, _ := m.atomOf(p, t, x.Call.Args[len(x.Call.Args)-1], depth+1)
			return s, "truthy"
		}
		if cal != nil && cal.Pkg != nil && cal.Pkg.Pkg.Path() == "fmt" && cal.Name() == "Sprint" && len(x.Call.Args) == 1 {
			// variadic: the argument is a slice literal holding the operand
			if s := m.singleVariadic(p, t, x.Call.Args[0], depth+1); s != "" {
				return s, "Sprint"
			}
		}
	}
	return "", ""
}

// singleVariadic: the []interface{} built for a variadic call holds exactly one element derived from a side.
func (m *infixModel) singleVariadic(p *pwPath, t *opTab, v ssa.Value, depth int) string {
	sl, ok := v.(*ssa.Slice)
	if !ok {
		return ""
	}
	al, ok := sl.X.(*ssa.Alloc)
	if !ok {
		return ""
	}
	side := ""
	n := 0
	for _, ref := range p.referrers(al) {
		ia, ok := ref.(*ssa.IndexAddr)
		if !ok {
			continue
		}
		for _, r2 := range p.referrers(ia) {
			if st, ok := r2.(*ssa.Store); ok {
				n++
				side, _ = m.atomOf(p, t, st.Val, depth+1)
			}
		}
	}
	if n != 1 {
		return ""
	}
	return side
}

func (m *infixModel) seedOp(t *opTab, label string) func(*pwPath, ssa.Value) (constant.Value, bool) {
	return func(_ *pwPath, v ssa.Value) (constant.Value, bool) {
		if b := opBase(t.fn); len(t.fn.Params) >= b+3 && v == ssa.Value(t.fn.Params[b+2]) {
			return constant.MakeString(label), true
		}
		return nil, false
	}
}

func isNilErrorResult(v ssa.Value) bool {
	c, ok := v.(*ssa.Const)
	return ok && c.Value == nil
}

// c06TablesSSA is R4.
func c06TablesSSA(r *Run) {
	w := r.W
	w.SSA()
	m := w.infixModel()
	if m == nil || len(m.order) < 5 {
		r.Lost("R4", "infix evaluator and its per-type operator functions")
		return
	}
	want := map[string][]string{
		"int":    {"+", "-", "*", "/", "<", ">", "<=", ">=", "==", "!="},
		"float":  {"+", "-", "*", "/", "<", ">", "<=", ">=", "==", "!="},
		"string": {"+", "<", ">", "<=", ">=", "==", "!=", "~="},
	}
	kindsSeen := map[string]bool{}
	for _, t := range m.order {
		name := ssaName(t.fn)
		pos := w.Pos(t.fn.Pos())
		// success paths per label
		type succ struct {
			p   *pwPath
			val ssa.Value
		}
		byLabel := map[string][]succ{}
		complete := true
		labels := append(append([]string{}, c06Operators...), "\x00no-such-operator")
		for _, label := range labels {
			paths, ok := walkPaths(t.fn, m.seedOp(t, label), m.inlineHelpers)
			if !ok {
				complete = false
			}
			for _, p := range paths {
				if p.end == "loop" {
					complete = false
				}
				if p.end != "return" || len(p.results) != 2 || !isNilErrorResult(p.results[1]) {
					continue
				}
				byLabel[label] = append(byLabel[label], succ{p, p.results[0]})
			}
		}
		if !complete {
			r.Bad("R4", name, "paths of the operator function", pos, "the operator function contains a loop or too many paths: what it returns per operator cannot be enumerated")
			continue
		}
		// is it a table of binary expressions at all?
		binary := false
		for _, ss := range byLabel {
			for _, s := range ss {
				if _, ok := s.p.resolve(stripIface(s.p.resolve(s.val))).(*ssa.BinOp); ok {
					binary = true
				}
			}
		}
		if !binary {
			r.Note("operator function %s returns no Go binary expression for any operator (e.g. the slice append operator): outside R4", name)
			continue
		}
		kindsSeen[t.kind] = true
		isBoolTable := false
		if t.kind == "iface" {
			for _, b := range t.fn.Blocks {
				for _, ins := range b.Instrs {
					if c, ok := ins.(*ssa.Call); ok && c.Call.StaticCallee() == m.truthy {
						isBoolTable = true
					}
				}
			}
		}
		if len(byLabel["\x00no-such-operator"]) > 0 {
			r.Bad("R4", name, "unknown operator", w.Pos(byLabel["\x00no-such-operator"][0].p.ret.Pos()), "an operator the table does not know must yield an error, not a value")
		} else {
			r.Ok("R4", name, "unknown operator is an error", pos, "no successful path for a text that is not an operator")
		}
		wantSet := map[string]bool{}
		for _, l := range want[t.kind] {
			wantSet[l] = true
		}
		if t.kind == "iface" {
			wantSet["=="], wantSet["!="] = true, true
		}
		for _, label := range c06Operators {
			ss := byLabel[label]
			con := fmt.Sprintf("operator %q", label)
			if len(ss) == 0 {
				if wantSet[label] {
					r.Bad("R4", name, "missing "+con, pos, "operator "+label+" is not handled for "+t.kind+" operands")
				}
				continue
			}
			if t.kind != "iface" && !wantSet[label] {
				r.Bad("R4", name, con+" accepted", w.Pos(ss[0].p.ret.Pos()), "operator "+label+" is not defined on "+t.kind+" operands and must be an error")
				continue
			}
			if isBoolTable {
				m.checkBoolLabel(r, t, label, ss[0].p.ret, func() []*pwPath {
					var ps []*pwPath
					for _, s := range ss {
						ps = append(ps, s.p)
					}
					return ps
				}())
				continue
			}
			bad := ""
			var at token.Pos
			for _, s := range ss {
				at = s.p.ret.Pos()
				if why := m.checkBinaryResult(t, label, s.p, s.val); why != "" {
					bad = why
					break
				}
			}
			if bad != "" {
				r.Bad("R4", name, con, w.Pos(at), bad)
			} else {
				r.Ok("R4", name, con, w.Pos(at), "every successful path returns left "+label+" right")
			}
		}
	}
	for _, k := range []string{"int", "float", "string"} {
		if !kindsSeen[k] {
			r.Lost("R4", "operator function for "+k+" operands")
		}
	}
	c06DispatchSSA(r, m)
}

// checkBinaryResult: the value returned for label is the Go binary expression
// of that operator on (left-derived, right-derived); "" when it is.
func (m *infixModel) checkBinaryResult(t *opTab, label string, p *pwPath, v ssa.Value) string {
	v = p.resolve(stripIface(p.resolve(v)))
	if label == "~=" {
		call, ok := v.(*ssa.Call)
		if !ok || call.Call.StaticCallee() == nil || call.Call.StaticCallee().Name() != "MatchString" || len(call.Call.Args) != 2 {
			return "~= must compile the RIGHT operand as pattern and match the LEFT operand"
		}
		if s, _ := m.atomOf(p, t, call.Call.Args[1], 0); s != "l" {
			return "~= must match the LEFT operand against the pattern"
		}
		re := p.resolve(call.Call.Args[0])
		if ex, ok := re.(*ssa.Extract); ok {
			re = ex.Tuple
		}
		rc, ok := re.(*ssa.Call)
		if !ok || rc.Call.StaticCallee() == nil || rc.Call.StaticCallee().Pkg == nil || rc.Call.StaticCallee().Pkg.Pkg.Path() != "regexp" || len(rc.Call.Args) != 1 {
			return "~= must compile the RIGHT operand with package regexp"
		}
		if s, _ := m.atomOf(p, t, rc.Call.Args[0], 0); s != "r" {
			return "~= must compile the RIGHT operand as the pattern"
		}
		return ""
	}
	goOp, known := goOpFor[label]
	if !known {
		return "label is not an operator of the language"
	}
	be, ok := v.(*ssa.BinOp)
	if !ok {
		return "the successful path must return the Go binary expression for its operator"
	}
	if be.Op != goOp {
		return fmt.Sprintf("operator %q but Go operator %q", label, be.Op.String())
	}
	ls, lhow := m.atomOf(p, t, be.X, 0)
	rs, rhow := m.atomOf(p, t, be.Y, 0)
	if ls != "l" || rs != "r" {
		return "operands must be (left, right) in parameter order"
	}
	if lhow == "truthy" || rhow == "truthy" {
		return "the operands are compared through the truthiness predicate, not as they are: values that are merely both falsy (false, \"\", nil) compare equal"
	}
	// ... computed in the operands' own type: float64(l) / float64(r) in the integer table is another operation
	// (7 / 2 is 3 on integers)
	if t.kind == "int" || t.kind == "float" {
		want := types.Int
		if t.kind == "float" {
			want = types.Float64
		}
		if !isBasicKind(be.X.Type(), want) || !isBasicKind(be.Y.Type(), want) {
			return "the operation is not carried out on the operands as they are: they are converted to another type first, which changes what the operator computes (integer division truncates)"
		}
	}
	if label == "/" && (t.kind == "int" || t.kind == "float") {
		// the path must have decided that the divisor is not zero
		guard := false
		for _, d := range p.decisions {
			bo, ok := d.cond.(*ssa.BinOp)
			if !ok || (bo.Op != token.EQL && bo.Op != token.NEQ) {
				continue
			}
			x, y := bo.X, bo.Y
			if _, isC := x.(*ssa.Const); isC {
				x, y = y, x
			}
			c, isC := y.(*ssa.Const)
			if s, _ := m.atomOf(p, t, x, 0); s != "r" || !isC || c.Value == nil || constant.Sign(c.Value) != 0 {
				continue
			}
			if (bo.Op == token.EQL && !d.truth) || (bo.Op == token.NEQ && d.truth) {
				guard = true
			}
		}
		if !guard {
			return "division must be reached only after the divisor was found non-zero (otherwise an error)"
		}
	}
	return ""
}

// checkBoolLabel: on the truthiness table the result, as a function of
// a = truthy(left) and b = truthy(right), must be the operator's truth table.
func (m *infixModel) checkBoolLabel(r *Run, t *opTab, label string, ret *ssa.Return, paths []*pwPath) {
	w := r.W
	name := ssaName(t.fn)
	con := fmt.Sprintf("operator %q", label)
	var want func(a, b bool) bool
	switch label {
	case "&&":
		want = func(a, b bool) bool { return a && b }
	case "||":
		want = func(a, b bool) bool { return a || b }
	case "==":
		want = func(a, b bool) bool { return a == b }
	case "!=":
		want = func(a, b bool) bool { return a != b }
	case "+":
		r.Note("%s: bool '+' is defined by the table (as logical and); not an operator the property defines on bools", name)
		return
	default:
		r.Bad("R4", name, con+" accepted", w.Pos(ret.Pos()), "operator "+label+" is not defined on boolean operands and must be an error")
		return
	}
	side := func(p *pwPath, v ssa.Value) string {
		s, via := m.atomOf(p, t, v, 0)
		if via == "truthy" {
			return s
		}
		return ""
	}
	var eval func(p *pwPath, v ssa.Value, a, b bool, d int) (bool, bool)
	eval = func(p *pwPath, v ssa.Value, a, b bool, d int) (bool, bool) {
		if d > 8 {
			return false, false
		}
		v = p.resolve(stripIface(p.resolve(v)))
		if c, ok := p.constOf(v); ok && c.Kind() == constant.Bool {
			return constant.BoolVal(c), true
		}
		switch side(p, v) {
		case "l":
			return a, true
		case "r":
			return b, true
		}
		switch x := v.(type) {
		case *ssa.UnOp:
			if x.Op == token.NOT {
				y, ok := eval(p, x.X, a, b, d+1)
				return !y, ok
			}
		case *ssa.BinOp:
			xa, ok1 := eval(p, x.X, a, b, d+1)
			xb, ok2 := eval(p, x.Y, a, b, d+1)
			if ok1 && ok2 {
				switch x.Op {
				case token.EQL:
					return xa == xb, true
				case token.NEQ:
					return xa != xb, true
				case token.AND, token.LAND:
					return xa && xb, true
				case token.OR, token.LOR:
					return xa || xb, true
				}
			}
		}
		return false, false
	}
	for _, a := range []bool{false, true} {
		for _, b := range []bool{false, true} {
			n := 0
			for _, p := range paths {
				consistent := true
				for _, d := range p.decisions {
					switch side(p, d.cond) {
					case "l":
						if d.truth != a {
							consistent = false
						}
					case "r":
						if d.truth != b {
							consistent = false
						}
					}
				}
				if !consistent {
					continue
				}
				n++
				got, ok := eval(p, p.results[0], a, b, 0)
				if !ok {
					r.Bad("R4", name, con, w.Pos(p.ret.Pos()), "the result is not a boolean function of the truthiness of the two operands")
					return
				}
				if got != want(a, b) {
					r.Bad("R4", name, con, w.Pos(p.ret.Pos()), fmt.Sprintf("for truthy(left)=%v, truthy(right)=%v the table yields %v", a, b, got))
					return
				}
			}
			if n == 0 {
				r.Bad("R4", name, con, w.Pos(ret.Pos()), fmt.Sprintf("no successful path for truthy(left)=%v, truthy(right)=%v", a, b))
				return
			}
		}
	}
	r.Ok("R4", name, con, w.Pos(ret.Pos()), "truth table over (truthy(left), truthy(right)) is that of "+label)
}

// operand roots of the infix evaluator on a path
func (m *infixModel) isOperandValue(p *pwPath, v ssa.Value, field string, idx int) bool {
	v = p.resolve(stripIface(p.resolve(v)))
	for i := 0; i < 6; i++ {
		switch x := v.(type) {
		case *ssa.TypeAssert:
			v = p.resolve(x.X)
			continue
		case *ssa.Convert:
			v = p.resolve(x.X)
			continue
		case *ssa.ChangeType:
			v = p.resolve(x.X)
			continue
		case *ssa.Extract:
			if ta, ok := x.Tuple.(*ssa.TypeAssert); ok && x.Index == 0 {
				v = p.resolve(ta.X)
				continue
			}
		}
		break
	}
	ex, ok := v.(*ssa.Extract)
	if !ok || ex.Index != idx {
		return false
	}
	call, ok := ex.Tuple.(*ssa.Call)
	return ok && m.isOperandEval(p, call, field)
}

// isOperandEval: the call evaluates node.<field> with the expression evaluator.
func (m *infixModel) isOperandEval(p *pwPath, call *ssa.Call, field string) bool {
	cal := call.Call.StaticCallee()
	ev := m.w.exprEvaluator()
	if cal == nil || ev == nil || cal != m.w.SSAFunc(ev) || len(call.Call.Args) != 2 {
		return false
	}
	arg := p.resolve(call.Call.Args[1])
	return isParamFieldLoad(p, arg, m.fn, 1, field)
}

func (m *infixModel) seedNodeOp(label string) func(*pwPath, ssa.Value) (constant.Value, bool) {
	return func(p *pwPath, v ssa.Value) (constant.Value, bool) {
		if isParamFieldLoad(p, v, m.fn, 1, "Operator") {
			return constant.MakeString(label), true
		}
		return nil, false
	}
}

func isNilCompare(p *pwPath, cond ssa.Value) (ssa.Value, token.Token, bool) {
	bo, ok := cond.(*ssa.BinOp)
	if !ok || (bo.Op != token.EQL && bo.Op != token.NEQ) {
		return nil, 0, false
	}
	if isNilConst(bo.Y) {
		return bo.X, bo.Op, true
	}
	if isNilConst(bo.X) {
		return bo.Y, bo.Op, true
	}
	return nil, 0, false
}

// c06DispatchSSA: every call of an operator function receives (left value,
// right value, the node's operator), and the typed operator functions are
// reached only after BOTH operands were found non-nil (nil operands go to the
// nil dispatch first).
func c06DispatchSSA(r *Run, m *infixModel) {
	w := r.W
	type verdict struct {
		bad string
		pos token.Pos
		n   int
	}
	sites := map[*ssa.Call]*verdict{}
	nilTables := map[*ssa.Function]bool{}
	complete := true
	for _, label := range c06Operators {
		paths, ok := walkPaths(m.fn, m.seedNodeOp(label), m.inlineHelpers)
		if !ok {
			complete = false
		}
		for _, p := range paths {
			for ei, ev := range p.events {
				call, ok := ev.(*ssa.Call)
				if !ok || m.tables[call.Call.StaticCallee()] == nil || len(call.Call.Args) != opBase(call.Call.StaticCallee())+3 {
					continue
				}
				ab := opBase(call.Call.StaticCallee())
				v := sites[origCall(call)]
				if v == nil {
					v = &verdict{pos: call.Pos()}
					sites[origCall(call)] = v
				}
				v.n++
				okL := m.isOperandValue(p, call.Call.Args[ab], "Left", 0)
				okR := m.isOperandValue(p, call.Call.Args[ab+1], "Right", 0)
				opC, okOp := p.constOf(call.Call.Args[ab+2])
				if !okL || !okR || !okOp || constant.StringVal(opC) != label {
					v.bad = "operator function must receive (left value, right value, the node's operator) in this order"
					continue
				}
				// nil decisions taken before this call
				lNon, rNon, anyNil := false, false, false
				for _, d := range p.decisions[:p.evDecided[ei]] {
					x, op, ok := isNilCompare(p, d.cond)
					if !ok {
						continue
					}
					isNil := d.truth == (op == token.EQL)
					if m.isOperandValue(p, x, "Left", 0) {
						if isNil {
							anyNil = true
						} else {
							lNon = true
						}
					}
					if m.isOperandValue(p, x, "Right", 0) {
						if isNil {
							anyNil = true
						} else {
							rNon = true
						}
					}
				}
				switch {
				case anyNil:
					nilTables[call.Call.StaticCallee()] = true
				case !lNon || !rNon:
					v.bad = "an operator function other than the nil dispatch is reached although an operand may still be nil: nil operands must be dispatched first (only == and != are defined on nil)"
				}
			}
		}
	}
	if !complete {
		r.Lost("R4", "paths of the infix evaluator (too many to enumerate)")
		return
	}
	var calls []*ssa.Call
	for c := range sites {
		calls = append(calls, c)
	}
	sort.Slice(calls, func(i, j int) bool { return calls[i].Pos() < calls[j].Pos() })
	for _, c := range calls {
		v := sites[c]
		con := "dispatch to " + c.Call.StaticCallee().Name()
		fn := ssaName(c.Parent())
		if v.bad != "" {
			r.Bad("R4", fn, con, w.Pos(v.pos), v.bad)
		} else {
			r.Ok("R4", fn, con, w.Pos(v.pos), "(left, right, node.Operator); operands non-nil or the nil dispatch")
		}
	}
	// the table that receives the nil operands compares them as they are: `x == nil` asks whether x IS nil, not
	// whether it is falsy like nil (false == nil, "" == nil)
	for f := range nilTables {
		for _, b := range f.Blocks {
			for _, ins := range b.Instrs {
				if c, ok := ins.(*ssa.Call); ok && c.Call.StaticCallee() == m.truthy {
					r.Bad("R4", ssaName(f), "nil operands compared through the truthiness predicate", w.Pos(c.Pos()),
						"the operator function that receives a nil operand decides == and != on the truth values of its operands: false == nil, \"\" == nil and nil-pointer == nil all become true, where == on nil is identity")
				}
			}
		}
	}
	if len(nilTables) != 1 {
		var ns []string
		for f := range nilTables {
			ns = append(ns, f.Name())
		}
		sort.Strings(ns)
		r.Bad("R4", ssaName(m.fn), "nil dispatch", w.Pos(m.fn.Pos()), "exactly one operator function must receive the nil operands; found: "+strings.Join(ns, ","))
	}
}

// c06ShortCircuitSSA is R5.
func c06ShortCircuitSSA(r *Run) {
	w := r.W
	w.SSA()
	m := w.infixModel()
	if m == nil {
		r.Lost("R5", "infix evaluator / truthiness predicate")
		return
	}
	name := ssaName(m.fn)
	isTruthyOf := func(p *pwPath, v ssa.Value, field string) bool {
		c, ok := p.resolve(stripIface(p.resolve(v))).(*ssa.Call)
		return ok && c.Call.StaticCallee() == m.truthy && len(c.Call.Args) == opBase(m.truthy)+1 && m.isOperandValue(p, c.Call.Args[len(c.Call.Args)-1], field, 0)
	}
	for _, op := range []string{"&&", "||"} {
		paths, ok := walkPaths(m.fn, m.seedNodeOp(op), m.inlineHelpers)
		if !ok {
			r.Lost("R5", "paths of the infix evaluator")
			return
		}
		decisive := op == "||" // the truthiness of the left operand that decides the result
		nShort, nLong := 0, 0
		bad := false
		for _, p := range paths {
			// position of the right operand's evaluation on this path
			evalAt, nEval := -1, 0
			for i, ev := range p.events {
				if c, ok := ev.(*ssa.Call); ok && m.isOperandEval(p, c, "Right") {
					nEval++
					if evalAt < 0 {
						evalAt = p.evDecided[i]
					}
				}
			}
			if nEval > 1 {
				bad = true
				r.Bad("R5", name, "second evaluation of node.Right", w.Pos(m.fn.Pos()), "the right operand is evaluated more than once on a path")
				continue
			}
			// decision on truthy(left)
			lt, li, lfound := p.decidedAs(func(c ssa.Value) bool { return isTruthyOf(p, c, "Left") })
			if evalAt >= 0 {
				if !lfound || li >= evalAt || lt == decisive {
					bad = true
					r.Bad("R5", name, "no short-circuit for "+op+" before node.Right is evaluated", w.Pos(m.fn.Pos()),
						"the right operand of "+op+" is evaluated although the left operand already decides the result (or before the left operand was tested)")
					continue
				}
			}
			if lfound && lt == decisive && p.end == "return" && len(p.results) == 2 && isNilErrorResult(p.results[1]) {
				c, ok := p.constOf(stripIface(p.resolve(p.results[0])))
				if !ok || c.Kind() != constant.Bool || constant.BoolVal(c) != decisive {
					bad = true
					r.Bad("R5", name, fmt.Sprintf("%s with a deciding left operand returns something else than %v", op, decisive), w.Pos(p.ret.Pos()), "short-circuit arm returns the wrong constant or tests the wrong polarity")
					continue
				}
				nShort++
			}
			if lfound && lt != decisive && p.end == "return" && len(p.results) == 2 && isNilErrorResult(p.results[1]) {
				if !isTruthyOf(p, p.results[0], "Right") {
					bad = true
					r.Bad("R5", name, op+" with an undecided left operand", w.Pos(p.ret.Pos()), "the result must be the truthiness of the right operand")
					continue
				}
				nLong++
			}
		}
		if bad {
			continue
		}
		if nShort == 0 || nLong == 0 {
			r.Bad("R5", name, "no short-circuit for "+op+" before node.Right is evaluated", w.Pos(m.fn.Pos()),
				"no path returns the constant for a deciding left operand / the truthiness of the right operand otherwise")
			continue
		}
		r.Ok("R5", name, fmt.Sprintf("%s: deciding left returns %v without evaluating node.Right; otherwise truthy(right)", op, decisive), w.Pos(m.fn.Pos()),
			fmt.Sprintf("%d short and %d long successful path(s)", nShort, nLong))
	}
}

// toleranceOperatorSetSSA (C05.R2): for every operator, enumerate the paths of
// the infix evaluator with node.Operator seeded to it; an operand's
// *ErrUnknownIdentifier is "tolerated" on a path when the typed assertion on
// that operand's error succeeded and the path went on (did not return that
// error). This must be possible exactly for == != && ||, for both operands.
func toleranceOperatorSetSSA(r *Run) {
	w := r.W
	w.SSA()
	m := w.infixModel()
	if m == nil {
		r.Lost("R2", "infix evaluator")
		return
	}
	name := ssaName(m.fn)
	wantSet := map[string]bool{"==": true, "!=": true, "&&": true, "||": true}
	n := 0
	for _, op := range c06Operators {
		paths, ok := walkPaths(m.fn, m.seedNodeOp(op), m.inlineHelpers)
		if !ok {
			r.Lost("R2", "paths of the infix evaluator")
			return
		}
		tol := map[string]bool{}
		for _, p := range paths {
			if p.end != "return" || len(p.results) != 2 {
				continue
			}
			for _, d := range p.decisions {
				ex, ok := d.cond.(*ssa.Extract)
				if !ok || ex.Index != 1 || !d.truth {
					continue
				}
				ta, ok := ex.Tuple.(*ssa.TypeAssert)
				if !ok || !ta.CommaOk || !namedIs(ta.AssertedType, modPath, "ErrUnknownIdentifier") {
					continue
				}
				errV := p.resolve(ta.X)
				for _, side := range []string{"Left", "Right"} {
					if e, ok := errV.(*ssa.Extract); ok && e.Index == 1 {
						if c, ok := e.Tuple.(*ssa.Call); ok && m.isOperandEval(p, c, side) && p.results[1] != errV {
							tol[side] = true
						}
					}
				}
			}
		}
		n++
		con := fmt.Sprintf("unknown identifier as an operand of %q", op)
		switch {
		case wantSet[op] && tol["Left"] && tol["Right"]:
			r.Ok("R2", name, con, w.Pos(m.fn.Pos()), "tolerated (counts as nil) for both operands")
		case wantSet[op]:
			r.Bad("R2", name, con+" operator set -"+op, w.Pos(m.fn.Pos()), "the tolerance no longer covers an operator the property lists (both operands)")
		case tol["Left"] || tol["Right"]:
			r.Bad("R2", name, con+" operator set +"+op, w.Pos(m.fn.Pos()), "the tolerance is widened to operators the property does not list: in the infix evaluator the unknown-identifier tolerance must require the operator to be one of == != && ||")
		default:
			r.Ok("R2", name, con, w.Pos(m.fn.Pos()), "not tolerated: the error is returned")
		}
	}
}
