package main

// c11wiring.go (C11.R5 on paths): the callee wiring of the parser, read from the paths of the wiring
// function with the helpers it delegates to walked in line. A path is classified by the type the
// expression behind the dot was found to have; it must wire the callee for an index, a call and an
// identifier node, and record a syntax error (returning nil) for anything else.

import (
	"fmt"
	"go/types"
	"sort"
	"strings"

	"golang.org/x/tools/go/ssa"
)

func c11ParserWiringSSA(r *Run, pm *parserModel, f *FuncInfo) bool {
	w := r.W
	fn := w.SSAFunc(f)
	if fn == nil || len(fn.Params) != 3 || pm.errorsF == nil {
		return false
	}
	recv, exp, ident := ssa.Value(fn.Params[0]), ssa.Value(fn.Params[1]), ssa.Value(fn.Params[2])
	paths, ok := walkPaths(fn, nil, func(caller, callee *ssa.Function) bool {
		return pkgOf(callee) == fn.Pkg && !funcHasLoop(callee)
	})
	if !ok || len(paths) == 0 {
		return false
	}
	isErrorsStore := func(p *pwPath, st *ssa.Store) bool {
		fa, ok := st.Addr.(*ssa.FieldAddr)
		if !ok || p.resolve(fa.X) != recv {
			return false
		}
		pt, ok := fa.X.Type().Underlying().(*types.Pointer)
		if !ok {
			return false
		}
		s, ok := pt.Elem().Underlying().(*types.Struct)
		return ok && fa.Field < s.NumFields() && s.Field(fa.Field) == pm.errorsF
	}
	wired := map[string]bool{}
	bad := ""
	nOther := 0
	for _, p := range paths {
		if p.end == "panic" {
			continue
		}
		if p.end != "return" || len(p.results) != 1 {
			return false
		}
		kind := ""
		for _, d := range p.decisions {
			ex, ok := d.cond.(*ssa.Extract)
			if !ok || ex.Index != 1 || !d.truth {
				continue
			}
			ta, ok := ex.Tuple.(*ssa.TypeAssert)
			if !ok || !ta.CommaOk || p.resolve(ta.X) != exp {
				continue
			}
			kind = strings.TrimPrefix(typeStr(ta.AssertedType), "*ast.")
		}
		errored, wiresIdent := false, false
		for _, ev := range p.events {
			st, ok := ev.(*ssa.Store)
			if !ok {
				continue
			}
			if isErrorsStore(p, st) {
				errored = true
			}
			if fa, ok := st.Addr.(*ssa.FieldAddr); ok && (p.resolve(st.Val) == ident || p.resolve(stripIface(p.resolve(st.Val))) == ident) {
				if pt, ok := fa.X.Type().Underlying().(*types.Pointer); ok {
					if s, ok := pt.Elem().Underlying().(*types.Struct); ok && fa.Field < s.NumFields() && s.Field(fa.Field).Name() == "Callee" {
						wiresIdent = true
					}
				}
			}
		}
		isNil := isNilConst(p.resolve(p.results[0])) || isNilConst(stripIface(p.resolve(p.results[0])))
		switch {
		case isNil && !errored:
			bad = "the wiring gives up (returns nil) without recording a syntax error"
		case isNil:
			if kind == "" {
				nOther++
			}
		case kind == "":
			bad = "an unsupported continuation must be reported: a node that is neither an index, a call nor an identifier is passed on"
		case !wiresIdent:
			bad = "a path that continues with a " + kind + " node does not wire its callee"
		default:
			wired[kind] = true
		}
	}
	var kinds []string
	for k := range wired {
		kinds = append(kinds, k)
	}
	sort.Strings(kinds)
	pos := w.Pos(f.Decl.Pos())
	if bad != "" {
		r.Bad("R5", f.Name(), "node kinds of the wiring", pos, bad)
		return true
	}
	if wired["IndexExpression"] && wired["CallExpression"] && wired["Identifier"] && len(wired) == 3 {
		r.Ok("R5", f.Name(), "handles index, call and identifier nodes", pos, fmt.Sprintf("on the paths of the wiring function: exactly the three kinds a path can continue with %v", kinds))
	} else {
		r.Bad("R5", f.Name(), "node kinds of the wiring", pos, "a path may continue with an index, a call or an identifier; each needs its callee wired")
	}
	if nOther > 0 {
		r.Ok("R5", f.Name(), "anything else is a syntax error", pos, fmt.Sprintf("%d path(s) for other nodes record an error and return nil", nOther))
	} else {
		r.Bad("R5", f.Name(), "default arm", pos, "an unsupported continuation must be reported")
	}
	return true
}
