package main

// c05cache.go (C05.R6): a failed operation leaves nothing behind. "A failing operation makes Render fail" must
// hold the second time as well: a result that came together with an error, kept in memory that outlives the call
// (a package variable, a map or field reached from one or from a parameter), is found there by the next
// evaluation, which then goes on without the error. Decided on the value graph of every function in the scope of
// C05: a value that is result #i of a call that also returns an error is stored into such memory only where the
// error of that call is known to be nil (the store is dominated by the nil side of a test of it).

import (
	"fmt"
	"go/token"
	"go/types"

	"golang.org/x/tools/go/ssa"
)

func noFailedResultKeptRule(r *Run, rule string) {
	w := r.W
	w.SSA()
	isErr := func(t types.Type) bool { return types.Identical(t, types.Universe.Lookup("error").Type()) }
	// longLived: the address / map lives longer than the activation; a description of where
	var longLived func(v ssa.Value, d int) string
	longLived = func(v ssa.Value, d int) string {
		if v == nil || d > 8 {
			return ""
		}
		switch x := v.(type) {
		case *ssa.Global:
			return "package variable " + x.Name()
		case *ssa.UnOp:
			if x.Op == token.MUL {
				return longLived(x.X, d+1)
			}
		case *ssa.FieldAddr:
			if _, isAlloc := x.X.(*ssa.Alloc); isAlloc {
				return "" // an object built here
			}
			if s := longLived(x.X, d+1); s != "" {
				return s
			}
			if _, isParam := x.X.(*ssa.Parameter); isParam {
				return "a field of " + x.X.Name()
			}
			if ld, isLoad := x.X.(*ssa.UnOp); isLoad && ld.Op == token.MUL {
				return longLived(ld.X, d+1)
			}
		case *ssa.IndexAddr:
			return longLived(x.X, d+1)
		case *ssa.Phi:
			for _, e := range x.Edges {
				if s := longLived(e, d+1); s != "" {
					return s
				}
			}
		}
		return ""
	}
	errNilAt := func(errV ssa.Value, b *ssa.BasicBlock) bool {
		for _, f := range dominatingFacts(b) {
			cond, truth := f.cond, f.truth
			for {
				u, ok := cond.(*ssa.UnOp)
				if !ok || u.Op != token.NOT {
					break
				}
				cond, truth = u.X, !truth
			}
			bo, ok := cond.(*ssa.BinOp)
			if !ok || (bo.Op != token.EQL && bo.Op != token.NEQ) {
				continue
			}
			if (bo.X == errV && isNilConst(bo.Y)) || (bo.Y == errV && isNilConst(bo.X)) {
				if truth == (bo.Op == token.EQL) {
					return true
				}
			}
		}
		return false
	}
	nCalls, nStores := 0, 0
	for _, rel := range c05Scope {
		for _, f := range w.Funcs(rel) {
			fn := w.SSAFunc(f)
			if fn == nil {
				continue
			}
			for _, g := range append([]*ssa.Function{fn}, allAnon(fn)...) {
				for _, b := range g.Blocks {
					for _, ins := range b.Instrs {
						c, ok := ins.(*ssa.Call)
						if !ok {
							continue
						}
						tup, ok := c.Type().(*types.Tuple)
						if !ok || tup.Len() < 2 || !isErr(tup.At(tup.Len()-1).Type()) || c.Referrers() == nil {
							continue
						}
						nCalls++
						var errV ssa.Value
						var vals []ssa.Value
						for _, ref := range *c.Referrers() {
							if ex, isEx := ref.(*ssa.Extract); isEx {
								if ex.Index == tup.Len()-1 {
									errV = ex
								} else {
									vals = append(vals, ex)
								}
							}
						}
						// the values, and what is made of them without looking at them (conversions, a phi)
						seen := map[ssa.Value]bool{}
						var follow func(v ssa.Value, d int)
						follow = func(v ssa.Value, d int) {
							if seen[v] || d > 4 || v.Referrers() == nil {
								return
							}
							seen[v] = true
							for _, ref := range *v.Referrers() {
								var where string
								var at token.Pos
								var blk *ssa.BasicBlock
								switch x := ref.(type) {
								case *ssa.MapUpdate:
									if x.Value == v {
										where, at, blk = longLived(x.Map, 0), x.Pos(), x.Block()
									}
								case *ssa.Store:
									if x.Val == v {
										where, at, blk = longLived(x.Addr, 0), x.Pos(), x.Block()
									}
								case *ssa.MakeInterface:
									follow(x, d+1)
								case *ssa.ChangeType:
									follow(x, d+1)
								}
								if where == "" {
									continue
								}
								nStores++
								con := fmt.Sprintf("result of %s kept in %s", calleeLabel(c), where)
								if errV != nil && errNilAt(errV, blk) {
									r.Ok(rule, ssaName(g), con, w.Pos(at), "stored only where the call's error is known to be nil")
								} else {
									r.Bad(rule, ssaName(g), con, w.Pos(at),
										"what a call returned together with its error is kept in "+where+" without the error having been found nil: after a failure the next evaluation finds the leftover there and goes on as if the operation had succeeded - the failure is reported once and never again")
								}
							}
						}
						for _, v := range vals {
							follow(v, 0)
						}
					}
				}
			}
		}
	}
	if nCalls == 0 {
		r.Lost(rule, "calls that return an error in the scope of C05")
		return
	}
	if nStores == 0 {
		r.Ok(rule, "plush", "no result of a fallible call is kept beyond the call", "-", fmt.Sprintf("%d call(s) with an error result looked at", nCalls))
	}
}
