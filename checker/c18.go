package main

import (
	"fmt"
	"go/ast"
	"go/constant"
	"go/token"
	"go/types"
	"strings"

	"golang.org/x/tools/go/cfg"
	"golang.org/x/tools/go/ssa"
)

func init() {
	register("C18", checkC18, "that every re-layout of a whole program parses to the same tree (only the token-level facts are decided); '-' and '.' adjacency, which the statement exempts")
}

func checkC18(r *Run) {
	r.Rule("R1", "whitespace: the skipper's set is exactly {space, tab, \\n, \\r} and skipping is the first action of the inside-tag token function", 1)
	r.Rule("R2", "line comments: '#' consumes up to the line end or end of input, every comment in a run is skipped (recursion or loop), and the next token is returned without further cursor movement; no other arm re-lexes", 1)
	r.Rule("R3", "tag boundaries: '%>' always yields E_END and leaves code mode; the block parser skips S_START and E_END, the statement parser skips S_START, the program loop drops blank statements", 1)
	r.Rule("R4", "cursor post-condition: every block-bearing parse function (if, else-if, for, fn, call with block) returns with the token cursor on the closing brace of its last block", 1)
	r.Rule("R5", "the statement parsers agree on consuming one optional trailing ';'", 1)
	r.Rule("R6", "node identity: the evaluator keeps no table keyed by a token, a line number or source text (a token has no column: two nodes on one line would share an entry)", 1)
	r.Rule("R7", "lines are only reported: no conditional branch of the token package, the lexer, the parser, the tree or the evaluator is fed by Token.LineNumber or by the lexer's line counter", 1)
	r.Rule("R8", "the parser does not edit tokens: no store into a field of its current or next token (a comment tag that trims the text behind it is not neutral)", 1)
	tokenImmutableRule(r, "R8")
	r.Rule("R9", "the identifier scanner steps over letters, digits, '_', '-' and '.' only (no other byte that begins another token is glued to a name)", 1)
	identifierBytesRuleSSA(r, "R9")
	evaluatorTablesRule(r, "R6")
	lineDecisionsRule(r, "R7")
	lx := analyseLexerArms(r.W)
	whitespaceRuleSSA(r, "R1")
	commentRuleSSA(r, "R2")
	tagBoundaryRule(r, "R3", lx)
	blockCursorRule(r, "R4")
	semicolonRule(r, "R5")
}

func tagBoundaryRule(r *Run, rule string, m *lexerModel) {
	w := r.W
	tagCloseRuleSSA(r, rule)
	pm := w.parserModel()
	if len(pm.problems) > 0 {
		r.Lost(rule, "parser model: "+strings.Join(pm.problems, "; "))
		return
	}
	// block parser: inside its loop the statement parser is reached only when the current token is
	// neither '<%' nor '%>' (skip-and-continue before it, or an enclosing negative test)
	okSkip := false
	for _, c := range callsIn(pm.blockParse.Decl.Body, false) {
		if _, isStmt := pm.isCallOf(c, pm.stmtParse); !isStmt {
			continue
		}
		excluded := func(tok string) bool {
			return w.dominatedBy(pm.info, c, nil, func(cond ast.Expr, truth bool) bool {
				cond = unparen(cond)
				if u, isNot := cond.(*ast.UnaryExpr); isNot && u.Op == token.NOT {
					cond, truth = unparen(u.X), !truth
				}
				cc, ok := pm.isCallOf(cond, pm.curIs)
				if !ok || truth {
					return false
				}
				t, ok := pm.tokenArg(cc)
				return ok && t == tok
			})
		}
		if excluded("<%") && excluded("%>") {
			okSkip = true
		}
	}
	// the paths decide (they also see what else the loop drops); the syntactic form stands in only when the block
	// parser has too many paths to walk
	if viaPaths, walked := blockSkipsTagsSSA(w, pm); walked {
		okSkip = viaPaths
	}
	if okSkip {
		r.Ok(rule, pm.blockParse.Name(), "skips <% and %> between statements", w.Pos(pm.blockParse.Decl.Pos()), "if cur is S_START or E_END { advance; continue }")
	} else {
		r.Bad(rule, pm.blockParse.Name(), "tag delimiters inside a block", w.Pos(pm.blockParse.Decl.Pos()), "the block parser must skip both '<%' and '%>' so that a block may be split over several tags")
	}
	// statement parser: a '<%' in statement position is stepped over and the statement behind it is parsed
	startTagTransparentSSA(r, rule, pm)
	// program loop: blank statements dropped
	blankStatementsRuleSSA(r, rule, pm)
}

// blockSkipsTagsSSA: the same on the paths of the block parser, with the parser's token predicates (bool methods
// without a loop that only ask curTokenIs / peekTokenIs) walked in line: every call of the statement parser comes
// after the current token - as it stands since the last advance - was found to be neither '<%' nor '%>', and the
// loop steps over a token it has not parsed only when that token was found to be one of the two.
func blockSkipsTagsSSA(w *World, pm *parserModel) (holds, walked bool) {
	ps := w.parserSSA()
	fn, stmt := w.SSAFunc(pm.blockParse), w.SSAFunc(pm.stmtParse)
	if ps == nil || fn == nil || stmt == nil {
		return false, false
	}
	inline := func(caller, callee *ssa.Function) bool {
		if callee.Pkg != ps.pkg || callee == ps.curIs || callee == ps.peekIs || callee == ps.next || callee == ps.expect || funcHasLoop(callee) {
			return false
		}
		res := callee.Signature.Results()
		if res.Len() != 1 || !isBasicKind(res.At(0).Type(), types.Bool) {
			return false
		}
		for _, b := range callee.Blocks {
			for _, ins := range b.Instrs {
				if c, isCall := ins.(*ssa.Call); isCall {
					if g := c.Call.StaticCallee(); g != ps.curIs && g != ps.peekIs {
						return false
					}
				}
			}
		}
		return true
	}
	paths, ok := walkPathsUnrolled(fn, nil, inline, 20000)
	if !ok || len(paths) == 0 {
		return false, false
	}
	inLoop := map[*ssa.BasicBlock]bool{}
	for _, b := range fn.Blocks {
		if isLoopHeader(b) {
			for x := range loopBodyOf(b) {
				inLoop[x] = true
			}
		}
	}
	n := 0
	for _, p := range paths {
		from := 0 // decisions made about the token under the cursor now
		parsed := false
		for ei, ev := range p.events {
			c, isCall := ev.(*ssa.Call)
			if !isCall {
				continue
			}
			switch c.Call.StaticCallee() {
			case ps.next:
				// a token of the block's body stepped over without having been parsed: it was found to be '<%' or '%>'
				// (nothing else is dropped between the statements of a block)
				if !parsed && (c.Parent() != fn || inLoop[c.Block()]) {
					isTag := false
					for _, d := range p.decisions[from:p.evDecided[ei]] {
						if tok, which, positive, isTest := ps.tokenTest(p, d.cond); isTest && which == "cur" && d.truth == positive && (tok == "<%" || tok == "%>") {
							isTag = true
						}
					}
					if !isTag {
						return false, true
					}
				}
				from = p.evDecided[ei]
				parsed = false
			case stmt:
				n++
				parsed = true
				not := map[string]bool{}
				for _, d := range p.decisions[from:p.evDecided[ei]] {
					if tok, which, positive, isTest := ps.tokenTest(p, d.cond); isTest && which == "cur" && d.truth != positive {
						not[tok] = true
					}
				}
				if !not["<%"] || !not["%>"] {
					return false, true
				}
			}
		}
	}
	return n > 0, true
}

// startTagTransparentSSA: on every path of the statement parser on which the current token was found to
// be '<%', the first thing that happens is one advance of the token cursor, and then the statement is
// parsed afresh: by a call of the statement parser itself whose result is returned, or by going round
// the loop that made the test.
func startTagTransparentSSA(r *Run, rule string, pm *parserModel) {
	w := r.W
	ps := w.parserSSA()
	fn := w.SSAFunc(pm.stmtParse)
	if ps == nil || fn == nil {
		r.Lost(rule, "statement parser (SSA)")
		return
	}
	paths, ok := walkPathsUnrolled(fn, nil, nil, 20000)
	if !ok {
		r.Lost(rule, "paths of the statement parser")
		return
	}
	nOK, bad := 0, ""
	for _, p := range paths {
		at := -1
		for di, d := range p.decisions {
			if tok, which, positive, ok := ps.tokenTest(p, d.cond); ok && tok == "<%" && which == "cur" && d.truth == positive {
				at = di
				break
			}
		}
		if at < 0 {
			// '<%' is the only token the statement parser steps over to parse what follows in its place: a path that
			// starts the dispatch again without having found '<%' has made another token transparent (a comment tag that
			// swallows its '%>' takes the closing brace of the block it ends with it)
			for _, ev := range p.events {
				if c, isCall := ev.(*ssa.Call); isCall && c.Call.StaticCallee() == fn {
					bad = "the statement parser starts over after stepping over something that was not found to be '<%'"
				}
			}
			continue
		}
		// events after that decision
		var after []ssa.Instruction
		firstEv := len(p.events)
		for ei := range p.events {
			if p.evDecided[ei] > at {
				firstEv = ei
				break
			}
		}
		for ei := firstEv; ei < len(p.events); ei++ {
			if c, ok := p.events[ei].(*ssa.Call); ok {
				if _, isB := c.Call.Value.(*ssa.Builtin); !isB {
					after = append(after, c)
				}
			}
		}
		if len(after) == 0 {
			bad = "the '<%' is not stepped over"
			continue
		}
		if c := after[0].(*ssa.Call); c.Call.StaticCallee() != ps.next {
			bad = "something else than one advance of the cursor follows the '<%'"
			continue
		}
		reparsed := false
		if len(after) > 1 {
			if c := after[1].(*ssa.Call); c.Call.StaticCallee() == fn && p.end == "return" && len(p.results) == 1 && p.resolve(p.results[0]) == ssa.Value(c) {
				reparsed = true
			}
		}
		for _, mk := range p.marks {
			if isLoopHeader(mk.block) && mk.nDecisions > at && mk.fromDecisions <= at {
				// the loop that tested for '<%' goes round: what was consumed in between is exactly the one advance
				n := 0
				for ei := firstEv; ei < mk.nEvents && ei < len(p.events); ei++ {
					if c, ok := p.events[ei].(*ssa.Call); ok {
						if _, isB := c.Call.Value.(*ssa.Builtin); !isB {
							n++
						}
					}
				}
				if n == 1 {
					reparsed = true
				}
			}
		}
		if reparsed {
			nOK++
		} else {
			bad = "after stepping over the '<%' the statement behind it is not parsed by the same dispatch"
		}
	}
	switch {
	case bad != "":
		r.Bad(rule, pm.stmtParse.Name(), "S_START in statement position", w.Pos(pm.stmtParse.Decl.Pos()), "the statement parser must step over '<%' and parse the statement that follows: "+bad)
	case nOK == 0:
		r.Bad(rule, pm.stmtParse.Name(), "S_START in statement position", w.Pos(pm.stmtParse.Decl.Pos()), "the statement parser must step over '<%' and parse the statement that follows")
	default:
		r.Ok(rule, pm.stmtParse.Name(), "case S_START: advance; re-parse", w.Pos(pm.stmtParse.Decl.Pos()), "a '<%' in statement position is transparent")
	}
}

// blankStatementsRuleSSA: on every path of the program loop that appends a
// statement s to the program, s was found to render non-blank
// (strings.TrimSpace(s.String()) != "") or to be a literal-text statement (an
// expression statement holding an *ast.HTMLLiteral). Plain functions of the
// parser package (predicates) are walked in line.
func blankStatementsRuleSSA(r *Run, rule string, pm *parserModel) {
	w := r.W
	w.SSA()
	fn := w.SSAFunc(pm.program)
	if fn == nil {
		r.Lost(rule, "program loop")
		return
	}
	inline := func(caller, callee *ssa.Function) bool {
		return pkgOf(callee) == fn.Pkg && callee.Signature.Recv() == nil && !funcHasLoop(callee)
	}
	paths, ok := walkPathsUnrolled(fn, nil, inline, 50000)
	if !ok {
		r.Lost(rule, "paths of the program loop")
		return
	}
	name := pm.program.Name()
	nApp, bad := 0, false
	var badPos token.Pos
	for _, p := range paths {
		for ei, ev := range p.events {
			c, ok := ev.(*ssa.Call)
			if !ok {
				continue
			}
			b, ok := c.Call.Value.(*ssa.Builtin)
			if !ok || b.Name() != "append" || len(c.Call.Args) != 2 {
				continue
			}
			if _, isStmts := isFieldLoadOf(p.resolve(c.Call.Args[0]), astPath, "Program", "Statements"); !isStmts {
				continue
			}
			els, ok := p.sliceElems(c.Call.Args[1])
			if !ok || len(els) != 1 {
				bad, badPos = true, c.Pos()
				continue
			}
			nApp++
			st := p.resolve(els[0])
			isS := func(v ssa.Value) bool { return p.resolve(stripIface(p.resolve(v))) == st || p.resolve(v) == st }
			licensed := false
			for _, d := range p.decisions[:p.evDecided[ei]] {
				// strings.TrimSpace(s.String()) != ""
				if bo, ok := d.cond.(*ssa.BinOp); ok && (bo.Op == token.NEQ || bo.Op == token.EQL) && d.truth == (bo.Op == token.NEQ) {
					x, y := p.resolve(bo.X), p.resolve(bo.Y)
					if k, ok := p.constOf(x); ok && k.Kind() == constant.String {
						x, y = y, x
					}
					if k, ok := p.constOf(y); ok && k.Kind() == constant.String && constant.StringVal(k) == "" {
						if tc, ok := x.(*ssa.Call); ok {
							if pkg, fname := staticCalleeName(tc); pkg == "strings" && fname == "TrimSpace" && len(tc.Call.Args) == 1 {
								if sc, ok := p.resolve(tc.Call.Args[0]).(*ssa.Call); ok && sc.Call.IsInvoke() && sc.Call.Method.Name() == "String" && isS(sc.Call.Value) {
									licensed = true
								}
							}
						}
					}
				}
				// s.(*ast.ExpressionStatement).Expression.(*ast.HTMLLiteral)
				if ex, ok := d.cond.(*ssa.Extract); ok && ex.Index == 1 && d.truth {
					if ta, ok := ex.Tuple.(*ssa.TypeAssert); ok && ta.CommaOk && namedIs(ta.AssertedType, astPath, "HTMLLiteral") {
						if ld, ok := p.resolve(ta.X).(*ssa.UnOp); ok && ld.Op == token.MUL {
							if fa, ok := ld.X.(*ssa.FieldAddr); ok {
								if e0, ok := p.resolve(fa.X).(*ssa.Extract); ok && e0.Index == 0 {
									if ta0, ok := e0.Tuple.(*ssa.TypeAssert); ok && namedIs(ta0.AssertedType, astPath, "ExpressionStatement") && isS(ta0.X) {
										licensed = true
									}
								}
							}
						}
					}
				}
			}
			if !licensed {
				bad, badPos = true, c.Pos()
			}
		}
	}
	switch {
	case nApp == 0:
		r.Lost(rule, "appends to the program's statements")
	case bad:
		r.Bad(rule, name, "blank statements", w.Pos(badPos), "what a bare '%>' parses to must not become a statement: a statement is appended without having been found to render non-blank (or to be literal text)")
	default:
		r.Ok(rule, name, "blank statements dropped", w.Pos(pm.program.Decl.Pos()), fmt.Sprintf("%d append(s) on the paths of the loop, each behind strings.TrimSpace(stmt.String()) != \"\" or the literal-text test", nApp))
	}
}

// ---- R4 ---------------------------------------------------------------------

const (
	bcNone  = iota // no block parsed yet
	bcOn           // cursor on the closing brace of the last block parsed
	bcMoved        // cursor moved since
	bcCont         // the construct continued under a look-ahead test (e.g. '.chain' after a call's block)
)

func blockCursorRule(r *Run, rule string) {
	w := r.W
	pm := w.parserModel()
	if len(pm.problems) > 0 {
		r.Lost(rule, "parser model: "+strings.Join(pm.problems, "; "))
		return
	}
	// candidates: parse functions that call the block parser
	var cands []*FuncInfo
	for _, f := range pm.methods {
		if f == pm.blockParse {
			continue
		}
		for _, c := range callsIn(f.Decl.Body, false) {
			if calleeOf(pm.info, c) == pm.blockParse.Obj {
				cands = append(cands, f)
				break
			}
		}
	}
	// summaries: endsOn[f] = all success returns of f that parsed a block end with the cursor on '}'
	endsOn := map[*types.Func]bool{pm.blockParse.Obj: true}
	type result struct {
		bad []token.Pos
		n   int
	}
	analyse := func(f *FuncInfo) result {
		var res result
		g := cfgOf(pm.info, f.Decl.Body)
		tr := func(n ast.Node, st int) int {
			for _, c := range nodeCalls(n) {
				cal := calleeOf(pm.info, c)
				switch {
				case cal != nil && endsOn[cal] && cal != f.Obj:
					st = bcOn
				case pm.isMover(c):
					if st == bcOn {
						// consuming a token that a look-ahead test (peekTokenIs) has just
						// recognised continues the construct; anything else steps past '}'
						if underPeekTest(w, pm, c) {
							st = bcCont
						} else {
							st = bcMoved
						}
					}
				}
			}
			return st
		}
		in := forwardStates(g, bcNone, tr, nil)
		for _, b := range g.Blocks {
			if !b.Live || len(b.Nodes) == 0 {
				continue
			}
			ret, ok := b.Nodes[len(b.Nodes)-1].(*ast.ReturnStmt)
			if !ok || len(ret.Results) != 1 || isNilIdent(pm.info, ret.Results[0]) {
				continue
			}
			for st := range in[b] {
				s := st
				for _, n := range b.Nodes[:len(b.Nodes)-1] {
					s = tr(n, s)
				}
				s = tr(ret, s)
				if s == bcNone {
					continue
				}
				res.n++
				if s == bcMoved {
					res.bad = append(res.bad, ret.Pos())
				}
			}
		}
		return res
	}
	// two rounds so that callee summaries (else-if inside if) are available
	results := map[*FuncInfo]result{}
	for round := 0; round < 3; round++ {
		for _, f := range cands {
			res := analyse(f)
			results[f] = res
			endsOn[f.Obj] = len(res.bad) == 0 && res.n > 0
		}
	}
	for _, f := range cands {
		res := results[f]
		if res.n == 0 {
			continue
		}
		if len(res.bad) == 0 {
			r.Ok(rule, f.Name(), "cursor on the closing brace at every success return", w.Pos(f.Decl.Pos()), fmt.Sprintf("%d (return, state) pair(s)", res.n))
		} else {
			r.Bad(rule, f.Name(), "cursor moved past the closing brace", w.Pos(res.bad[0]),
				"after its last block this parse function advances the token cursor again before returning; the statement loops advance after every statement themselves, so the token that follows in the same tag is skipped (siblings return with the cursor ON the closing brace)")
		}
	}
	_ = cfg.KindBody
}

// underPeekTest: the call lies in the body of an if/for whose condition is a
// peek-token test.
func underPeekTest(w *World, pm *parserModel, c *ast.CallExpr) bool {
	var child ast.Node = c
	for p := w.Parent(c); p != nil; child, p = p, w.Parent(p) {
		switch x := p.(type) {
		case *ast.IfStmt:
			if child == ast.Node(x.Body) {
				for _, cj := range conjuncts(x.Cond) {
					if _, ok := pm.isCallOf(cj, pm.peekIs); ok {
						return true
					}
				}
			}
		case *ast.ForStmt:
			if child == ast.Node(x.Body) && x.Cond != nil {
				for _, cj := range conjuncts(x.Cond) {
					if _, ok := pm.isCallOf(cj, pm.peekIs); ok {
						return true
					}
				}
			}
		case *ast.FuncDecl:
			return false
		}
	}
	return false
}

// ---- R5 ---------------------------------------------------------------------

func semicolonRule(r *Run, rule string) {
	w := r.W
	pm := w.parserModel()
	if len(pm.problems) > 0 {
		r.Lost(rule, "parser model: "+strings.Join(pm.problems, "; "))
		return
	}
	// statement-level parsers: those that call the Pratt entry with the lowest level and
	// build a Let/Return/Expression statement or an assignment
	for _, f := range pm.methods {
		kind := ""
		inspectBody(f.Decl.Body, false, func(n ast.Node) bool {
			if cl, ok := n.(*ast.CompositeLit); ok {
				t := pm.info.Types[cl].Type
				for _, k := range []string{"LetStatement", "ReturnStatement", "ExpressionStatement", "AssignExpression"} {
					if namedIs(t, astPath, k) {
						kind = k
					}
				}
			}
			return true
		})
		if kind == "" {
			continue
		}
		// `if peek is ';' { advance }` in the function itself, or in a parameterless helper method it calls
		var skipsSemi func(body ast.Node, depth int) bool
		skipsSemi = func(body ast.Node, depth int) bool {
			found := false
			inspectBody(body, false, func(n ast.Node) bool {
				switch x := n.(type) {
				case *ast.IfStmt:
					if c, ok := pm.isCallOf(x.Cond, pm.peekIs); ok {
						if t, ok := pm.tokenArg(c); ok && t == ";" && len(x.Body.List) == 1 {
							if es, ok := x.Body.List[0].(*ast.ExprStmt); ok {
								if _, ok := pm.isCallOf(es.X, pm.advance); ok {
									found = true
								}
							}
						}
					}
				case *ast.ExprStmt:
					if c, ok := x.X.(*ast.CallExpr); ok && depth < 2 && len(c.Args) == 0 {
						if g := w.FuncOf(calleeOf(pm.info, c)); g != nil && g.Rel == "parser" && g != f && len(g.Decl.Body.List) == 1 {
							if skipsSemi(g.Decl.Body, depth+1) {
								found = true
							}
						}
					}
				}
				return true
			})
			return found
		}
		found := skipsSemi(f.Decl.Body, 0)
		if !found {
			found = skipsSemiSSA(w, pm, f)
		}
		if found {
			r.Ok(rule, f.Name(), kind+": optional ';' consumed", w.Pos(f.Decl.Pos()), "if peek is ';' { advance }")
		} else {
			r.Bad(rule, f.Name(), kind+": trailing ';' not consumed", w.Pos(f.Decl.Pos()), "the sibling statement parsers consume one optional ';' after the expression; this one does not")
		}
	}
}

// skipsSemiSSA: the same on the paths of the statement parser, small helpers of the parser walked in line: behind the
// last call of the expression parser, a path that finds the next token to be ';' advances the cursor exactly once,
// a path that finds it not to be ';' does not advance, and both kinds of path exist.
func skipsSemiSSA(w *World, pm *parserModel, f *FuncInfo) bool {
	ps := w.parserSSA()
	fn := w.SSAFunc(f)
	if ps == nil || fn == nil || pm.pratt == nil {
		return false
	}
	pratt := w.SSAFunc(pm.pratt)
	skip := map[*ssa.Function]bool{ps.next: true, ps.curIs: true, ps.peekIs: true, pratt: true}
	if ps.expect != nil {
		skip[ps.expect] = true
	}
	for _, g := range []*FuncInfo{pm.blockParse, pm.stmtParse} {
		if g != nil {
			skip[w.SSAFunc(g)] = true
		}
	}
	for _, reg := range pm.regs {
		if reg.Fn != nil {
			skip[w.SSAFunc(reg.Fn)] = true
		}
	}
	inline := func(caller, callee *ssa.Function) bool {
		return callee.Pkg == ps.pkg && !skip[callee] && !funcHasLoop(callee) && callee.Signature.Recv() != nil
	}
	paths, ok := walkPathsUnrolled(fn, nil, inline, 20000)
	if !ok {
		return false
	}
	nYes, nNo := 0, 0
	for _, p := range paths {
		last := -1
		for ei, ev := range p.events {
			if c, isCall := ev.(*ssa.Call); isCall && c.Call.StaticCallee() == pratt {
				last = ei
			}
		}
		if last < 0 || p.end != "return" {
			continue
		}
		for di := p.evDecided[last]; di < len(p.decisions); di++ {
			d := p.decisions[di]
			if c, isCall := p.resolve(d.cond).(*ssa.Call); isCall && c.Call.StaticCallee() == ps.expect {
				continue
			}
			tok, which, positive, isTest := ps.tokenTest(p, d.cond)
			if !isTest || tok != ";" || which != "peek" {
				continue
			}
			adv := 0
			for ei := last + 1; ei < len(p.events); ei++ {
				if c, isCall := p.events[ei].(*ssa.Call); isCall && c.Call.StaticCallee() == ps.next && p.evDecided[ei] > di {
					adv++
				}
			}
			if d.truth == positive {
				if adv != 1 {
					return false
				}
				nYes++
			} else {
				if adv != 0 {
					return false
				}
				nNo++
			}
			break
		}
	}
	return nYes > 0 && nNo > 0
}
