package main

// The mutant table. Each entry is a realistic edit that still compiles.
// "revert-*" entries re-introduce a defect that a fix: commit repaired.
func init() {
	// ---- C18 / C06 lexer and parser cursor ----
	addMutant(Mutant{Name: "revert-for-cursor", Prop: "C18", File: "parser/parser.go",
		Old:    "	expression.Block = p.parseBlockStatement()\n\n	return expression\n}\n\nfunc (p *parser) parseIfExpression",
		New:    "	expression.Block = p.parseBlockStatement()\n\n	if p.curTokenIs(token.RBRACE) {\n		p.nextToken()\n	}\n\n	return expression\n}\n\nfunc (p *parser) parseIfExpression",
		Expect: "R4"})
	addMutant(Mutant{Name: "revert-hash-comment-tail", Prop: "C18", File: "lexer/lexer.go",
		Old: "		return l.nextInsideToken()\n	case '[':", New: "		tok = l.nextInsideToken()\n	case '[':", Expect: "R2"})
	addMutant(Mutant{Name: "ws-drop-tab", Prop: "C18", File: "lexer/lexer.go",
		Old: "for l.ch == ' ' || l.ch == '\\t' || l.ch == '\\n' || l.ch == '\\r' {", New: "for l.ch == ' ' || l.ch == '\\n' || l.ch == '\\r' {", Expect: "R1"})
	addMutant(Mutant{Name: "block-no-skip-eend", Prop: "C18", File: "parser/parser.go",
		Old: "if p.curTokenIs(token.S_START) || p.curTokenIs(token.E_END) {", New: "if p.curTokenIs(token.S_START) {", Expect: "R3"})
	addMutant(Mutant{Name: "let-no-semicolon", Prop: "C18", File: "parser/parser.go",
		Old: "	stmt.Value = p.parseExpression(LOWEST)\n\n	if p.peekTokenIs(token.SEMICOLON) {\n		p.nextToken()\n	}\n\n	return stmt",
		New: "	stmt.Value = p.parseExpression(LOWEST)\n\n	return stmt", Expect: "R5"})
	addMutant(Mutant{Name: "equiv-ws-helper", Prop: "C18", File: "lexer/lexer.go", Equivalent: true,
		Old: "for l.ch == ' ' || l.ch == '\\t' || l.ch == '\\n' || l.ch == '\\r' {", New: "for isSpace(l.ch) {",
		Edits: []Edit{{"lexer/lexer.go", "func isDot(ch byte) bool {", "func isSpace(ch byte) bool {\n	return ch == '\\r' || ch == '\\n' || ch == ' ' || ch == '\\t'\n}\n\nfunc isDot(ch byte) bool {"}}})
	addMutant(Mutant{Name: "revert-dot-number-tail", Prop: "C06", File: "lexer/lexer.go",
		Old: "			// readNumber stops behind the number, like the digit arm below\n			tok.LineNumber = l.curLine\n			return tok\n", New: "			break\n", Expect: "R7"})
	addMutant(Mutant{Name: "lteq-forgets-read", Prop: "C06", File: "lexer/lexer.go",
		Old: "		if l.peekChar() == '=' {\n			l.readChar()\n			tok = token.Token{Type: token.LTEQ,", New: "		if l.peekChar() == '=' {\n			tok = token.Token{Type: token.LTEQ,", Expect: "R7"})
	// ---- C06 tables ----
	addMutant(Mutant{Name: "prec-swap-sum-product", Prop: "C06", File: "parser/precedences.go",
		Old: "	token.PLUS:     SUM,", New: "	token.PLUS:     PRODUCT,", Expect: "R1"})
	addMutant(Mutant{Name: "pratt-lteq", Prop: "C06", File: "parser/parser.go",
		Old: "precedence < p.peekPrecedence()", New: "precedence <= p.peekPrecedence()", Expect: "R3"})
	addMutant(Mutant{Name: "infix-prec-minus-one", Prop: "C06", File: "parser/parser.go",
		Old: "expression.Right = p.parseExpression(precedence)", New: "expression.Right = p.parseExpression(precedence - 1)", Expect: "R3"})
	addMutant(Mutant{Name: "ints-lt-gt-swapped", Prop: "C06", File: "compiler.go",
		Old: "	case \"<\":\n		return l < r, nil\n	case \">\":\n		return l > r, nil\n	case \"!=\":\n		return l != r, nil\n	case \">=\":\n		return l >= r, nil\n	case \"<=\":\n		return l <= r, nil\n	case \"==\":\n		return l == r, nil\n	}\n	return nil, fmt.Errorf(\"unknown operator for integer %s\", op)",
		New: "	case \"<\":\n		return l > r, nil\n	case \">\":\n		return l > r, nil\n	case \"!=\":\n		return l != r, nil\n	case \">=\":\n		return l >= r, nil\n	case \"<=\":\n		return l <= r, nil\n	case \"==\":\n		return l == r, nil\n	}\n	return nil, fmt.Errorf(\"unknown operator for integer %s\", op)", Expect: "R4"})
	addMutant(Mutant{Name: "floats-minus-reversed", Prop: "C06", File: "compiler.go",
		Old: "func (c *compiler) floatsOperator(l float64, r float64, op string) (interface{}, error) {\n	switch op {\n	case \"+\":\n		return l + r, nil\n	case \"-\":\n		return l - r, nil",
		New: "func (c *compiler) floatsOperator(l float64, r float64, op string) (interface{}, error) {\n	switch op {\n	case \"+\":\n		return l + r, nil\n	case \"-\":\n		return r - l, nil", Expect: "R4"})
	addMutant(Mutant{Name: "short-circuit-after-right", Prop: "C06", File: "compiler.go",
		Old: "	switch { // fast return\n	case node.Operator == \"&&\" && !c.isTruthy(lres):\n		return false, nil\n	case node.Operator == \"||\" && c.isTruthy(lres):\n		return true, nil\n	}\n",
		New: "", Expect: "R5"})
	addMutant(Mutant{Name: "equiv-short-circuit-ifs", Prop: "C06", File: "compiler.go", Equivalent: true,
		Old: "	switch { // fast return\n	case node.Operator == \"&&\" && !c.isTruthy(lres):\n		return false, nil\n	case node.Operator == \"||\" && c.isTruthy(lres):\n		return true, nil\n	}\n",
		New: "	if node.Operator == \"&&\" && !c.isTruthy(lres) {\n		return false, nil\n	}\n	if c.isTruthy(lres) && node.Operator == \"||\" {\n		return true, nil\n	}\n"})
	addMutant(Mutant{Name: "equiv-pratt-mirrored", Prop: "C06", File: "parser/parser.go", Equivalent: true,
		Old: "precedence < p.peekPrecedence()", New: "p.peekPrecedence() > precedence"})
	addMutant(Mutant{Name: "equiv-renumber-levels", Prop: "C06", File: "parser/precedences.go", Equivalent: true,
		Old: "	_           int = iota\n", New: "	_           int = iota * 10\n"})
	// ---- C15 ----
	addMutant(Mutant{Name: "revert-intliteral-line-prefix", Prop: "C15", File: "parser/parser.go",
		Old: `msg := fmt.Sprintf("line %d: could not parse %q as integer", p.curToken.LineNumber, p.curToken.Literal)`,
		New: `msg := fmt.Sprintf("could not parse %q as integer", p.curToken.Literal)`, Expect: "R1"})
	addMutant(Mutant{Name: "revert-curstmt-reset", Prop: "C15", File: "compiler.go",
		Old: "		// forget the inner statement recorded while an earlier tag ran\n		c.curStmt = nil\n", New: "", Expect: "R3"})
	addMutant(Mutant{Name: "exit-verb-v", Prop: "C15", File: "compiler.go",
		Old: `fmt.Errorf("line %d: %w", s.T().LineNumber, err)`, New: `fmt.Errorf("line %d: %v", s.T().LineNumber, err)`, Expect: "R2"})
	addMutant(Mutant{Name: "token-without-line", Prop: "C15", File: "lexer/lexer.go",
		Old: `tok = token.Token{Type: token.GTEQ, Literal: ">=", LineNumber: l.curLine}`, New: `return token.Token{Type: token.GTEQ, Literal: ">="}`, Expect: "R4"})
	addMutant(Mutant{Name: "count-cr-as-line", Prop: "C15", File: "lexer/lexer.go",
		Old: "	if l.ch == '\\n' {\n		l.curLine++", New: "	if l.ch == '\\n' || l.ch == '\\r' {\n		l.curLine++", Expect: "R5"})
	addMutant(Mutant{Name: "cursor-moved-outside-readchar", Prop: "C15", File: "lexer/lexer.go",
		Old: "func (l *Lexer) readBString() string {\n	position := l.position + 1\n", New: "func (l *Lexer) readBString() string {\n	position := l.position + 1\n	l.readPosition++\n", Expect: "R5"})
	addMutant(Mutant{Name: "equiv-errorf-helper-msg-inline", Prop: "C15", File: "parser/parser.go", Equivalent: true,
		Old: "	msg := fmt.Sprintf(\"line %d: no prefix parse function for %s found\", p.curToken.LineNumber, t)\n	p.errors = append(p.errors, msg)",
		New: "	p.errors = append(p.errors, fmt.Sprintf(\"line %d: no prefix parse function for %s found\", p.curToken.LineNumber, t))"})
}
