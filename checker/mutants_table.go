package main

// The mutant table. Each entry is a realistic edit that still compiles.
// "revert-*" entries re-introduce a defect that a fix: commit repaired.
func init() {
	// ---- C18 / C06 lexer and parser cursor ----
	addMutant(Mutant{Name: "revert-for-cursor", Prop: "C18", File: "parser/parser.go",
		Old:    "	expression.Block = p.parseBlockStatement()\n\n	return expression\n}\n\nfunc (p *parser) parseIfExpression",
		New:    "	expression.Block = p.parseBlockStatement()\n\n	if p.curTokenIs(token.RBRACE) {\n		p.nextToken()\n	}\n\n	return expression\n}\n\nfunc (p *parser) parseIfExpression",
		Expect: "R4"})
	addMutant(Mutant{Name: "revert-hash-comment-tail", Prop: "C18", File: "lexer/lexer.go",
		Old: "		return l.nextInsideToken()\n	case '[':", New: "		tok = l.nextInsideToken()\n	case '[':", Expect: "R2"})
	addMutant(Mutant{Name: "ws-drop-tab", Prop: "C18", File: "lexer/lexer.go",
		Old: "for l.ch == ' ' || l.ch == '\\t' || l.ch == '\\n' || l.ch == '\\r' {", New: "for l.ch == ' ' || l.ch == '\\n' || l.ch == '\\r' {", Expect: "R1"})
	addMutant(Mutant{Name: "block-no-skip-eend", Prop: "C18", File: "parser/parser.go",
		Old: "if p.curTokenIs(token.S_START) || p.curTokenIs(token.E_END) {", New: "if p.curTokenIs(token.S_START) {", Expect: "R3"})
	addMutant(Mutant{Name: "let-no-semicolon", Prop: "C18", File: "parser/parser.go",
		Old: "	stmt.Value = p.parseExpression(LOWEST)\n\n	if p.peekTokenIs(token.SEMICOLON) {\n		p.nextToken()\n	}\n\n	return stmt",
		New: "	stmt.Value = p.parseExpression(LOWEST)\n\n	return stmt", Expect: "R5"})
	addMutant(Mutant{Name: "blank-statements-kept", Prop: "C18", File: "parser/parser.go",
		Old: "		if stmt != nil && strings.TrimSpace(stmt.String()) != \"\" {", New: "		if stmt != nil && stmt.String() != \"\" {", Expect: "R3"})
	addMutant(Mutant{Name: "blank-test-on-other-statement", Prop: "C18", File: "parser/parser.go",
		Old: "		if stmt != nil && strings.TrimSpace(stmt.String()) != \"\" {", New: "		if stmt != nil && (len(program.Statements) == 0 || strings.TrimSpace(program.Statements[0].String()) != \"\") {", Expect: "R3"})
	addMutant(Mutant{Name: "equiv-ws-helper", Prop: "C18", File: "lexer/lexer.go", Equivalent: true,
		Old: "for l.ch == ' ' || l.ch == '\\t' || l.ch == '\\n' || l.ch == '\\r' {", New: "for isSpace(l.ch) {",
		Edits: []Edit{{"lexer/lexer.go", "func isDot(ch byte) bool {", "func isSpace(ch byte) bool {\n	return ch == '\\r' || ch == '\\n' || ch == ' ' || ch == '\\t'\n}\n\nfunc isDot(ch byte) bool {"}}})
	addMutant(Mutant{Name: "revert-dot-number-tail", Prop: "C06", File: "lexer/lexer.go",
		Old: "			// readNumber stops behind the number, like the digit arm below\n			tok.LineNumber = l.curLine\n			return tok\n", New: "			break\n", Expect: "R7"})
	addMutant(Mutant{Name: "lteq-forgets-read", Prop: "C06", File: "lexer/lexer.go",
		Old: "		if l.peekChar() == '=' {\n			l.readChar()\n			tok = token.Token{Type: token.LTEQ,", New: "		if l.peekChar() == '=' {\n			tok = token.Token{Type: token.LTEQ,", Expect: "R7"})
	// ---- C06 tables ----
	addMutant(Mutant{Name: "prec-swap-sum-product", Prop: "C06", File: "parser/precedences.go",
		Old: "	token.PLUS:     SUM,", New: "	token.PLUS:     PRODUCT,", Expect: "R1"})
	addMutant(Mutant{Name: "pratt-lteq", Prop: "C06", File: "parser/parser.go",
		Old: "precedence < p.peekPrecedence()", New: "precedence <= p.peekPrecedence()", Expect: "R3"})
	addMutant(Mutant{Name: "infix-prec-minus-one", Prop: "C06", File: "parser/parser.go",
		Old: "expression.Right = p.parseExpression(precedence)", New: "expression.Right = p.parseExpression(precedence - 1)", Expect: "R3"})
	addMutant(Mutant{Name: "pointer-field-not-followed", Prop: "C11", File: "compiler.go",
		Old: "			if f.IsNil() {\n				return nil, nil\n			}\n\n			f = f.Elem()\n", New: "			if f.IsNil() {\n				return nil, nil\n			}\n", Expect: "R4"})
	addMutant(Mutant{Name: "nil-pointer-field-yields-the-pointer", Prop: "C11", File: "compiler.go",
		Old: "		if f.Kind() == reflect.Ptr {\n			if f.IsNil() {\n				return nil, nil\n			}\n\n			f = f.Elem()\n		}", New: "		if f.Kind() == reflect.Ptr && !f.IsNil() {\n			f = f.Elem()\n		}", Expect: "R4"})
	addMutant(Mutant{Name: "map-key-converted-across-kinds", Prop: "C11", File: "compiler.go",
		Old: "			if kv.Kind() != keyT.Kind() || !kv.Type().ConvertibleTo(keyT) {", New: "			if !kv.Type().ConvertibleTo(keyT) {", Expect: "R8"})
	addMutant(Mutant{Name: "argument-vector-kept-in-evaluator", Prop: "C12", File: "compiler.go",
		Old: "	args := []reflect.Value{}\n", New: "	args := argvScratch[:0]\n	defer func() { argvScratch = args[:0] }()\n",
		Edits: []Edit{{"compiler.go", "func (c *compiler) compile() (string, error) {", "var argvScratch []reflect.Value\n\nfunc (c *compiler) compile() (string, error) {"}}, Expect: "R8"})
	addMutant(Mutant{Name: "infix-level-read-after-advance", Prop: "C06", File: "parser/parser.go",
		Old: "	precedence := p.curPrecedence()\n	p.nextToken()\n	expression.Right = p.parseExpression(precedence)", New: "	p.nextToken()\n	precedence := p.curPrecedence()\n	expression.Right = p.parseExpression(precedence)", Expect: "R3"})
	addMutant(Mutant{Name: "infix-level-of-peek-token", Prop: "C06", File: "parser/parser.go",
		Old: "	precedence := p.curPrecedence()\n	p.nextToken()", New: "	precedence := p.peekPrecedence()\n	p.nextToken()", Expect: "R3"})
	addMutant(Mutant{Name: "pratt-compares-current-level", Prop: "C06", File: "parser/parser.go",
		Old: "precedence < p.peekPrecedence()", New: "precedence < p.curPrecedence()", Expect: "R3"})
	addMutant(Mutant{Name: "peek-lookup-falls-back-higher", Prop: "C06", File: "parser/parser.go",
		Old: "func (p *parser) peekPrecedence() int {\n	if p, ok := precedences[p.peekToken.Type]; ok {\n		return p\n	}\n\n	return LOWEST", New: "func (p *parser) peekPrecedence() int {\n	if p, ok := precedences[p.peekToken.Type]; ok {\n		return p\n	}\n\n	return EQUALS", Expect: "R1"})
	addMutant(Mutant{Name: "ints-lt-gt-swapped", Prop: "C06", File: "compiler.go",
		Old: "	case \"<\":\n		return l < r, nil\n	case \">\":\n		return l > r, nil\n	case \"!=\":\n		return l != r, nil\n	case \">=\":\n		return l >= r, nil\n	case \"<=\":\n		return l <= r, nil\n	case \"==\":\n		return l == r, nil\n	}\n	return nil, fmt.Errorf(\"unknown operator for integer %s\", op)",
		New: "	case \"<\":\n		return l > r, nil\n	case \">\":\n		return l > r, nil\n	case \"!=\":\n		return l != r, nil\n	case \">=\":\n		return l >= r, nil\n	case \"<=\":\n		return l <= r, nil\n	case \"==\":\n		return l == r, nil\n	}\n	return nil, fmt.Errorf(\"unknown operator for integer %s\", op)", Expect: "R4"})
	addMutant(Mutant{Name: "floats-minus-reversed", Prop: "C06", File: "compiler.go",
		Old: "func (c *compiler) floatsOperator(l float64, r float64, op string) (interface{}, error) {\n	switch op {\n	case \"+\":\n		return l + r, nil\n	case \"-\":\n		return l - r, nil",
		New: "func (c *compiler) floatsOperator(l float64, r float64, op string) (interface{}, error) {\n	switch op {\n	case \"+\":\n		return l + r, nil\n	case \"-\":\n		return r - l, nil", Expect: "R4"})
	addMutant(Mutant{Name: "short-circuit-after-right", Prop: "C06", File: "compiler.go",
		Old: "	switch { // fast return\n	case node.Operator == \"&&\" && !c.isTruthy(lres):\n		return false, nil\n	case node.Operator == \"||\" && c.isTruthy(lres):\n		return true, nil\n	}\n",
		New: "", Expect: "R5"})
	addMutant(Mutant{Name: "equiv-short-circuit-ifs", Prop: "C06", File: "compiler.go", Equivalent: true,
		Old: "	switch { // fast return\n	case node.Operator == \"&&\" && !c.isTruthy(lres):\n		return false, nil\n	case node.Operator == \"||\" && c.isTruthy(lres):\n		return true, nil\n	}\n",
		New: "	if node.Operator == \"&&\" && !c.isTruthy(lres) {\n		return false, nil\n	}\n	if c.isTruthy(lres) && node.Operator == \"||\" {\n		return true, nil\n	}\n"})
	addMutant(Mutant{Name: "equiv-pratt-mirrored", Prop: "C06", File: "parser/parser.go", Equivalent: true,
		Old: "precedence < p.peekPrecedence()", New: "p.peekPrecedence() > precedence"})
	addMutant(Mutant{Name: "equiv-renumber-levels", Prop: "C06", File: "parser/precedences.go", Equivalent: true,
		Old: "	_           int = iota\n", New: "	_           int = iota * 10\n"})
	// ---- C15 ----
	addMutant(Mutant{Name: "revert-intliteral-line-prefix", Prop: "C15", File: "parser/parser.go",
		Old: `msg := fmt.Sprintf("line %d: could not parse %q as integer", p.curToken.LineNumber, p.curToken.Literal)`,
		New: `msg := fmt.Sprintf("could not parse %q as integer", p.curToken.Literal)`, Expect: "R1"})
	addMutant(Mutant{Name: "revert-curstmt-reset", Prop: "C15", File: "compiler.go",
		Old: "		// forget the inner statement recorded while an earlier tag ran\n		c.curStmt = nil\n", New: "", Expect: "R3"})
	addMutant(Mutant{Name: "exit-verb-v", Prop: "C15", File: "compiler.go",
		Old: `fmt.Errorf("line %d: %w", s.T().LineNumber, err)`, New: `fmt.Errorf("line %d: %v", s.T().LineNumber, err)`, Expect: "R2"})
	addMutant(Mutant{Name: "token-without-line", Prop: "C15", File: "lexer/lexer.go",
		Old: `tok = token.Token{Type: token.GTEQ, Literal: ">=", LineNumber: l.curLine}`, New: `return token.Token{Type: token.GTEQ, Literal: ">="}`, Expect: "R4"})
	addMutant(Mutant{Name: "count-cr-as-line", Prop: "C15", File: "lexer/lexer.go",
		Old: "	if l.ch == '\\n' {\n		l.curLine++", New: "	if l.ch == '\\n' || l.ch == '\\r' {\n		l.curLine++", Expect: "R5"})
	addMutant(Mutant{Name: "cursor-moved-outside-readchar", Prop: "C15", File: "lexer/lexer.go",
		Old: "func (l *Lexer) readBString() string {\n	position := l.position + 1\n", New: "func (l *Lexer) readBString() string {\n	position := l.position + 1\n	l.readPosition++\n", Expect: "R5"})
	addMutant(Mutant{Name: "equiv-errorf-helper-msg-inline", Prop: "C15", File: "parser/parser.go", Equivalent: true,
		Old: "	msg := fmt.Sprintf(\"line %d: no prefix parse function for %s found\", p.curToken.LineNumber, t)\n	p.errors = append(p.errors, msg)",
		New: "	p.errors = append(p.errors, fmt.Sprintf(\"line %d: no prefix parse function for %s found\", p.curToken.LineNumber, t))"})
	// ---- C03 ----
	addMutant(Mutant{Name: "revert-comment-eof", Prop: "C03", File: "parser/parser.go",
		Old: "for p.curToken.Type != token.E_END && !p.curTokenIs(token.EOF) {", New: "for p.curToken.Type != token.E_END {", Expect: "R2"})
	addMutant(Mutant{Name: "revert-call-nil-left", Prop: "C03", File: "parser/parser.go",
		Old: "	if function == nil {\n		// the left operand failed to parse; its error is already recorded\n		return nil\n	}\n", New: "", Expect: "R5"})
	addMutant(Mutant{Name: "revert-index-nil-left", Prop: "C03", File: "parser/parser.go",
		Old: "	if left == nil {\n		// the left operand failed to parse; its error is already recorded\n		return nil\n	}\n", New: "", Expect: "R5"})
	addMutant(Mutant{Name: "revert-array-printer-guard", Prop: "C03", File: "ast/array_literal.go",
		Old: "		if el != nil {\n			elements = append(elements, el.String())\n		}", New: "		elements = append(elements, el.String())", Expect: "R5"})
	addMutant(Mutant{Name: "revert-for-printer-guard", Prop: "C03", File: "ast/for_expression.go",
		Old: "	if fe.Iterable != nil {\n		out.WriteString(fe.Iterable.String())\n	}", New: "	out.WriteString(fe.Iterable.String())", Expect: "R5"})
	addMutant(Mutant{Name: "revert-elseif-printer-guard", Prop: "C03", File: "ast/if_expression.go",
		Old: "		if elseIf.Condition != nil {\n			out.WriteString(elseIf.Condition.String())\n		}", New: "		out.WriteString(elseIf.Condition.String())", Expect: "R5"})
	addMutant(Mutant{Name: "revert-hash-printer-guard", Prop: "C03", File: "ast/hash_literal.go",
		Old: "		if key != nil {\n			k = key.String()\n		}", New: "		k = key.String()", Expect: "R5"})
	addMutant(Mutant{Name: "revert-index-printer-guard", Prop: "C03", File: "ast/index_expression.go",
		Old: "	if ie.Index != nil {\n		out.WriteString(ie.Index.String())\n	}", New: "	out.WriteString(ie.Index.String())", Expect: "R5"})
	addMutant(Mutant{Name: "revert-readchar-pin", Prop: "C03", File: "lexer/lexer.go",
		Old: "		l.ch = 0\n		l.position = len(l.input)\n		l.readPosition = len(l.input) + 1\n		return\n	}\n\n	l.ch = l.input[l.readPosition]\n",
		New: "		l.ch = 0\n	} else {\n		l.ch = l.input[l.readPosition]\n	}\n", Expect: "R8"})
	addMutant(Mutant{Name: "block-loop-no-eof", Prop: "C03", File: "parser/parser.go",
		Old: "for !p.curTokenIs(token.RBRACE) && !p.curTokenIs(token.EOF) {", New: "for !p.curTokenIs(token.RBRACE) {", Expect: "R2"})
	addMutant(Mutant{Name: "readstring-loop-not-eof-safe", Prop: "C03", File: "lexer/lexer.go",
		Old: "func (l *Lexer) readBString() string {\n	position := l.position + 1\n	for l.ch != 0 {", New: "func (l *Lexer) readBString() string {\n	position := l.position + 1\n	for l.ch != '`' || l.position < position {", Expect: "R1"})
	addMutant(Mutant{Name: "expectpeek-result-ignored", Prop: "C03", File: "parser/parser.go",
		Old: "	if !p.expectPeek(token.RPAREN) {\n		return nil\n	}\n\n	return exp\n}", New: "	p.expectPeek(token.RPAREN)\n\n	return exp\n}", Expect: "R4"})
	addMutant(Mutant{Name: "prefix-recursion-without-consuming", Prop: "C03", File: "parser/parser.go",
		Old: "	p.nextToken()\n	expression.Right = p.parseExpression(PREFIX)", New: "	expression.Right = p.parseExpression(PREFIX)", Expect: "R3"})
	addMutant(Mutant{Name: "unchecked-assertion-on-left", Prop: "C03", File: "parser/parser.go",
		Old: "		ff, ok := ss.Left.(*ast.Identifier)\n		if ok {", New: "		ff := ss.Left.(*ast.Identifier)\n		ok := ff != nil\n		if ok {", Expect: "R6"})
	addMutant(Mutant{Name: "equiv-comment-loop-curtokenis", Prop: "C03", File: "parser/parser.go", Equivalent: true,
		Old: "for p.curToken.Type != token.E_END && !p.curTokenIs(token.EOF) {", New: "for !p.curTokenIs(token.E_END) && !p.curTokenIs(token.EOF) {"})
	addMutant(Mutant{Name: "equiv-guard-early-continue", Prop: "C03", File: "ast/array_literal.go", Equivalent: true,
		Old: "		if el != nil {\n			elements = append(elements, el.String())\n		}", New: "		if el == nil {\n			continue\n		}\n		elements = append(elements, el.String())"})
	// ---- C08 ----
	addMutant(Mutant{Name: "revert-for-flag-reset", Prop: "C08", File: "parser/parser.go",
		Old: "	wasInForBlock := p.inForBlock\n	defer func() { p.inForBlock = wasInForBlock }()\n	p.inForBlock = true\n	s := []string{}",
		New: "	p.inForBlock = true\n	s := []string{}", Expect: "R5"})
	addMutant(Mutant{Name: "revert-fn-flag-reset", Prop: "C08", File: "parser/parser.go",
		Old: "	wasInForBlock := p.inForBlock\n	defer func() { p.inForBlock = wasInForBlock }()\n	p.inForBlock = false\n", New: "	p.inForBlock = false\n", Expect: "R5"})
	addMutant(Mutant{Name: "slice-loop-from-one", Prop: "C08", File: "compiler.go",
		Old: "for i := 0; i < riter.Len(); i++ {", New: "for i := 1; i < riter.Len(); i++ {", Expect: "R2"})
	addMutant(Mutant{Name: "slice-loop-drops-continue-unwrap", Prop: "C08", File: "compiler.go",
		Old: "		for i := 0; i < riter.Len(); i++ {\n			v := riter.Index(i)\n			c.ctx.Set(node.KeyName, i)\n			c.ctx.Set(node.ValueName, v.Interface())\n\n			res, err := c.evalBlockStatement(node.Block)\n			if err != nil {\n				return nil, err\n			}\n\n			breakLoop := false\n			switch val := res.(type) {\n			case continueObject:\n				res = val.Value\n			case breakObject:",
		New: "		for i := 0; i < riter.Len(); i++ {\n			v := riter.Index(i)\n			c.ctx.Set(node.KeyName, i)\n			c.ctx.Set(node.ValueName, v.Interface())\n\n			res, err := c.evalBlockStatement(node.Block)\n			if err != nil {\n				return nil, err\n			}\n\n			breakLoop := false\n			switch val := res.(type) {\n			case breakObject:", Expect: "R1"})
	addMutant(Mutant{Name: "break-loses-partial-output", Prop: "C08", File: "compiler.go",
		Old: "obj = breakObject{Value: append(res, obj.Value...)}", New: "obj = breakObject{Value: obj.Value}", Expect: "R4"})
	addMutant(Mutant{Name: "map-loop-key-value-swapped", Prop: "C08", File: "compiler.go",
		Old: "			c.ctx.Set(node.KeyName, k.Interface())\n			c.ctx.Set(node.ValueName, v.Interface())", New: "			c.ctx.Set(node.KeyName, v.Interface())\n			c.ctx.Set(node.ValueName, k.Interface())", Expect: "R2"})
	addMutant(Mutant{Name: "equiv-slice-loop-neq-header", Prop: "C08", File: "compiler.go", Equivalent: true,
		Old: "for i := 0; i < riter.Len(); i++ {", New: "for i := 0; i != riter.Len(); i++ {"})
	// ---- C16 ----
	addMutant(Mutant{Name: "revert-args-before-bind", Prop: "C16", File: "compiler.go",
		Old: "	vals := make([]interface{}, len(node.Parameters))\n	for i := range node.Parameters {\n		v, err := c.evalExpression(args[i])\n		if err != nil {\n			return nil, err\n		}\n\n		vals[i] = v\n	}\n\n	octx := c.ctx\n	defer func() { c.ctx = octx }()\n\n	c.ctx = c.ctx.New()\n	for i, p := range node.Parameters {\n		c.ctx.Set(p.Value, vals[i])\n	}\n",
		New: "	octx := c.ctx\n	defer func() { c.ctx = octx }()\n\n	c.ctx = c.ctx.New()\n	for i, p := range node.Parameters {\n		v, err := c.evalExpression(args[i])\n		if err != nil {\n			return nil, err\n		}\n\n		c.ctx.Set(p.Value, v)\n	}\n", Expect: "R1"})
	addMutant(Mutant{Name: "revert-arity-guard", Prop: "C16", File: "compiler.go",
		Old: "	if len(args) < len(node.Parameters) {\n		return nil, fmt.Errorf(\"too few arguments in call to function (%d for %d)\", len(args), len(node.Parameters))\n	}\n", New: "", Expect: "R2"})
	addMutant(Mutant{Name: "bind-next-argument", Prop: "C16", File: "compiler.go",
		Old: "		c.ctx.Set(p.Value, vals[i])", New: "		c.ctx.Set(p.Value, vals[len(vals)-1-i])", Expect: "R2"})
	addMutant(Mutant{Name: "return-nil-not-wrapped", Prop: "C16", File: "compiler.go",
		Old: "	res, err := c.evalExpression(node.ReturnValue)\n	if err != nil {\n		return nil, err\n	}\n\n	if node.Type == token.RETURN {",
		New: "	res, err := c.evalExpression(node.ReturnValue)\n	if err != nil || res == nil {\n		return nil, err\n	}\n\n	if node.Type == token.RETURN {", Expect: "R7"})
	addMutant(Mutant{Name: "equiv-bind-by-index", Prop: "C16", File: "compiler.go", Equivalent: true,
		Old: "	for i, p := range node.Parameters {\n		c.ctx.Set(p.Value, vals[i])\n	}", New: "	for i := range node.Parameters {\n		c.ctx.Set(node.Parameters[i].Value, vals[i])\n	}"})
	// ---- C12 ----
	addMutant(Mutant{Name: "revert-variadic-nil-elem", Prop: "C12", File: "compiler.go",
		Old: "			var ar reflect.Value\n			if v != nil {\n				ar = reflect.ValueOf(v)\n			} else {\n				ar = reflect.New(expectedT).Elem()\n			}",
		New: "			var ar reflect.Value\n			if v != nil {\n				ar = reflect.ValueOf(v)\n			} else {\n				ar = reflect.New(expectedT)\n			}", Expect: "R4"})
	addMutant(Mutant{Name: "revert-helper-context-assignable", Prop: "C12", File: "compiler.go",
		Old: "				hv := reflect.ValueOf(hargs)\n				switch {\n				case hv.Type().AssignableTo(arg):\n					args = append(args, hv)\n					return",
		New: "				hv := reflect.ValueOf(hargs)\n				switch {\n				case true:\n					args = append(args, hv)\n					return", Expect: "R2"})
	addMutant(Mutant{Name: "revert-nil-func-guard", Prop: "C12", File: "compiler.go",
		Old: "	if rv.IsNil() {\n		return nil, fmt.Errorf(\"%+v is a nil function\", node.String())\n	}\n", New: "", Expect: "R3"})
	addMutant(Mutant{Name: "fixed-branch-skips-assignable-test", Prop: "C12", File: "compiler.go",
		Old: "			actualT := ar.Type()\n			if !actualT.AssignableTo(expectedT) {\n				return nil, fmt.Errorf(\"%+v (%T) is an invalid argument for %s at pos %d: expected (%s)\", v, v, node.Function.String(), pos, expectedT)\n			}\n\n			args = append(args, ar)\n		}\n\n		hc := func",
		New: "			args = append(args, ar)\n		}\n\n		hc := func", Expect: "R2"})
	addMutant(Mutant{Name: "block-not-handed-to-helper", Prop: "C12", File: "compiler.go",
		Old: "					block:    node.Block,", New: "					block:    nil,", Expect: "R5"})
	addMutant(Mutant{Name: "value-is-last-result", Prop: "C12", File: "compiler.go",
		Old: "		return res[0].Interface(), nil\n	}\n\n	return nil, nil", New: "		return res[len(res)-1].Interface(), nil\n	}\n\n	return nil, nil", Expect: "R6"})
	addMutant(Mutant{Name: "equiv-zero-instead-of-new-elem", Prop: "C12", File: "compiler.go", Equivalent: true,
		Old: "			var ar reflect.Value\n			if v != nil {\n				ar = reflect.ValueOf(v)\n			} else {\n				ar = reflect.New(expectedT).Elem()\n			}\n\n			actualT := ar.Type()\n			if !actualT.AssignableTo(expectedT) {\n				return nil, fmt.Errorf(\"%+v (%T) is an invalid argument for %s at pos %d: expected (%s)\", v, v, node.Function.String(), pos, expectedT)\n			}\n\n			args = append(args, ar)\n		}\n	}\n\n	res := rv.Call(args)",
		New: "			var ar reflect.Value\n			if v != nil {\n				ar = reflect.ValueOf(v)\n			} else {\n				ar = reflect.Zero(expectedT)\n			}\n\n			actualT := ar.Type()\n			if !actualT.AssignableTo(expectedT) {\n				return nil, fmt.Errorf(\"%+v (%T) is an invalid argument for %s at pos %d: expected (%s)\", v, v, node.Function.String(), pos, expectedT)\n			}\n\n			args = append(args, ar)\n		}\n	}\n\n	res := rv.Call(args)"})
	// ---- C01 / C02 ----
	addMutant(Mutant{Name: "string-arm-verbatim", Prop: "C01", File: "compiler.go",
		Old: "		bb.Write(unsafeGetBytes(template.HTMLEscaper(t)))", New: "		bb.Write(unsafeGetBytes(fmt.Sprint(t)))", Expect: "R2"})
	addMutant(Mutant{Name: "html-arm-after-stringer", Prop: "C01", File: "compiler.go",
		Old: "	case template.HTML:\n		bb.Write(unsafeGetBytes(string(t)))\n	case HTMLer:", New: "	case HTMLer:",
		Edits: []Edit{{"compiler.go", "	case fmt.Stringer:\n		bb.Write(unsafeGetBytes(t.String()))\n", "	case fmt.Stringer:\n		bb.Write(unsafeGetBytes(t.String()))\n	case template.HTML:\n		bb.Write(unsafeGetBytes(template.HTMLEscaper(string(t))))\n"}}, Expect: "R2"})
	addMutant(Mutant{Name: "slice-arm-joins-and-writes", Prop: "C01", File: "compiler.go",
		Old: "	case []string:\n		for _, ii := range t {\n			c.write(bb, ii)\n		}", New: "	case []string:\n		bb.Write(unsafeGetBytes(strings.Join(t, \"\")))", Expect: "R2"})
	addMutant(Mutant{Name: "contentof-wraps-data-as-html", Prop: "C01", File: "helpers/content/of.go",
		Old: "		return template.HTML(body), nil", New: "		return template.HTML(body + name), nil", Expect: "R4"})
	addMutant(Mutant{Name: "write-from-compile-directly", Prop: "C01", File: "compiler.go",
		Old: "		c.write(bb, res)\n	}\n\n	return bb.String(), nil", New: "		if s, ok := res.(string); ok {\n			bb.WriteString(s)\n			continue\n		}\n		c.write(bb, res)\n	}\n\n	return bb.String(), nil", Expect: "R1"})
	addMutant(Mutant{Name: "revert-block-filter-on-value-type", Prop: "C02", File: "compiler.go",
		Old: "		switch s.(type) {\n		case exitBlockStatment, ast.Printable:\n			return s, err\n		}", New: "		switch s.(type) {\n		case exitBlockStatment, ast.Printable, template.HTML:\n			return s, err\n		}", Expect: "R2"})
	addMutant(Mutant{Name: "toplevel-expression-value-printed", Prop: "C02", File: "compiler.go",
		Old: "				_, err = c.evalExpression(node.Expression)", New: "				res, err = c.evalExpression(node.Expression)", Expect: "R2"})
	addMutant(Mutant{Name: "double-write", Prop: "C02", File: "compiler.go",
		Old: "		c.write(bb, res)\n	}\n\n	return bb.String(), nil", New: "		c.write(bb, res)\n		if _, ok := stmt.(*ast.ReturnStatement); ok && len(c.program.Statements) == 1 {\n			c.write(bb, res)\n		}\n	}\n\n	return bb.String(), nil", Expect: "R1"})
	addMutant(Mutant{Name: "literal-text-trimmed", Prop: "C02", File: "compiler.go",
		Old: "				res = template.HTML(h.Value)", New: "				res = template.HTML(strings.TrimRight(h.Value, \" \"))", Expect: "R3"})
	addMutant(Mutant{Name: "bstring-honours-backslash-escape", Prop: "C02", File: "lexer/lexer.go",
		Old: "		l.readChar()\n		if l.ch == '`' {\n			break\n		}", New: "		l.readChar()\n		if l.ch == '\\\\' && l.peekChar() == '`' {\n			l.readChar()\n			l.readChar()\n		}\n		if l.ch == '`' {\n			break\n		}", Expect: "R6"})
	addMutant(Mutant{Name: "string-escape-skips-any-char", Prop: "C02", File: "lexer/lexer.go",
		Old: "		if l.ch == '\\\\' && l.peekChar() == '\"' {", New: "		if l.ch == '\\\\' {", Expect: "R6"})
	addMutant(Mutant{Name: "bstring-unescapes", Prop: "C02", File: "lexer/lexer.go",
		Old: "	s := l.input[position:l.position]\n	return s\n}", New: "	s := l.input[position:l.position]\n	return strings.Replace(s, \"\\\\\\\"\", \"\\\"\", -1)\n}", Expect: "R6"})
	addMutant(Mutant{Name: "string-not-unescaped", Prop: "C02", File: "lexer/lexer.go",
		Old: "	return strings.Replace(s, \"\\\\\\\"\", \"\\\"\", -1)", New: "	return s", Expect: "R6"})
	addMutant(Mutant{Name: "equiv-string-scanners-merged", Prop: "C02", File: "lexer/lexer.go", Equivalent: true,
		Old: "func (l *Lexer) readBString() string {\n	position := l.position + 1\n	for l.ch != 0 {\n		l.readChar()\n		if l.ch == '`' {\n			break\n		}\n	}\n	s := l.input[position:l.position]\n	return s\n}",
		New: "func (l *Lexer) readBString() string {\n	return l.readRaw('`')\n}\n\nfunc (l *Lexer) readRaw(q byte) string {\n	start := l.position\n	for {\n		if l.ch == 0 {\n			break\n		}\n		l.readChar()\n		if q == l.ch {\n			break\n		}\n	}\n	return l.input[start+1 : l.position]\n}"})
	// ---- C17 ----
	addMutant(Mutant{Name: "block-rendered-twice", Prop: "C17", File: "helper_context.go",
		Old: "	bb := &strings.Builder{}\n	h.compiler.write(bb, i)\n", New: "	bb := &strings.Builder{}\n	h.compiler.write(bb, i)\n	if bb.Len() == 0 {\n		h.compiler.write(bb, i)\n	}\n", Expect: "R1"})
	addMutant(Mutant{Name: "contentof-ignores-data", Prop: "C17", File: "helpers/content/of.go",
		Old: "		hc := help.New()\n		for k, v := range data {\n			hc.Set(k, v)\n		}", New: "		hc := help.New()", Expect: "R3"})
	addMutant(Mutant{Name: "contentfor-returns-body", Prop: "C17", File: "helpers/content/for.go",
		Old: "func ContentFor(name string, help hctx.HelperContext) {", New: "func ContentFor(name string, help hctx.HelperContext) string {",
		Edits: []Edit{{"helpers/content/for.go", "		return template.HTML(body), nil\n	})\n}", "		return template.HTML(body), nil\n	})\n	return \"\"\n}"}}, Expect: "R2"})
	addMutant(Mutant{Name: "js-escape-after-layout", Prop: "C17", File: "partial_helper.go",
		Old: "	if ct, ok := help.Value(\"contentType\").(string); ok {\n		ext := filepath.Ext(name)\n		if strings.Contains(ct, \"javascript\") && ext != \".js\" && ext != \"\" {\n			part = template.JSEscapeString(string(part))\n		}\n	}\n\n	if layout, ok := data[\"layout\"].(string); ok {\n		return PartialHelper(\n			layout,\n			map[string]interface{}{\"yield\": template.HTML(part)},\n			help)\n	}\n",
		New: "	if layout, ok := data[\"layout\"].(string); ok {\n		return PartialHelper(\n			layout,\n			map[string]interface{}{\"yield\": template.HTML(part)},\n			help)\n	}\n\n	if ct, ok := help.Value(\"contentType\").(string); ok {\n		ext := filepath.Ext(name)\n		if strings.Contains(ct, \"javascript\") && ext != \".js\" && ext != \"\" {\n			part = template.JSEscapeString(string(part))\n		}\n	}\n", Expect: "R4"})
	// ---- C20 ----
	addMutant(Mutant{Name: "revert-truncate-unchecked-opts", Prop: "C20", File: "helpers/text/truncate.go",
		Old: "	size := 50\n	if v, ok := opts[\"size\"].(int); ok {\n		size = v\n	}", New: "	size := 50\n	if opts[\"size\"] != nil {\n		size = opts[\"size\"].(int)\n	}", Expect: "R6"})
	addMutant(Mutant{Name: "truncate-slices-bytes", Prop: "C20", File: "helpers/text/truncate.go",
		Old: "	return string(runesS[:size-len(runesTrail)]) + trail", New: "	return s[:size-len(runesTrail)] + trail", Expect: "R4"})
	addMutant(Mutant{Name: "truncate-drops-trail-guard", Prop: "C20", File: "helpers/text/truncate.go",
		Old: "	if len(runesTrail) >= size {\n		return trail\n	}\n", New: "", Expect: "R5"})
	addMutant(Mutant{Name: "htmlescape-appends-after-escaping", Prop: "C20", File: "helpers/escapes/html.go",
		Old: "	return template.HTMLEscapeString(s), nil", New: "	return template.HTMLEscapeString(s) + \"\", nil", Expect: "R1"})
	addMutant(Mutant{Name: "json-without-html-escaping", Prop: "C20", File: "helpers/encoders/json.go",
		Old:   "	b, err := json.Marshal(v)\n	if err != nil {\n		return \"\", err\n	}\n	return template.HTML(b), nil",
		New:   "	var sb strings.Builder\n	enc := json.NewEncoder(&sb)\n	enc.SetEscapeHTML(false)\n	if err := enc.Encode(v); err != nil {\n		return \"\", err\n	}\n	return template.HTML(strings.TrimSpace(sb.String())), nil",
		Edits: []Edit{{"helpers/encoders/json.go", "	\"html/template\"\n", "	\"html/template\"\n	\"strings\"\n"}}, Expect: "R3"})
	// ---- C19 ----
	addMutant(Mutant{Name: "next-lteq", Prop: "C19", File: "helpers/iterators/range.go",
		Old: "	if r.pos < r.end {", New: "	if r.pos <= r.end {", Expect: "R1"})
	addMutant(Mutant{Name: "next-post-increment", Prop: "C19", File: "helpers/iterators/range.go",
		Old: "		r.pos++\n		return r.pos", New: "		v := r.pos\n		r.pos++\n		return v", Expect: "R1"})
	addMutant(Mutant{Name: "between-off-by-one", Prop: "C19", File: "helpers/iterators/between.go",
		Old: "&ranger{pos: a, end: b - 1}", New: "&ranger{pos: a, end: b}", Expect: "R1"})
	addMutant(Mutant{Name: "copies-drift-root-range", Prop: "C19", File: "iterators.go",
		Old: "	return &ranger{pos: a - 1, end: b}", New: "	return &ranger{pos: a, end: b}", Expect: "R"})
	addMutant(Mutant{Name: "groupby-floor-not-ceil", Prop: "C19", File: "helpers/iterators/group_by.go",
		Old: "		if u.Len()%size != 0 {\n			groupSize++\n		}\n", New: "", Expect: "R4"})
	addMutant(Mutant{Name: "groupby-drops-clamp", Prop: "C19", File: "helpers/iterators/group_by.go",
		Old: "			if e > u.Len() {\n				e = u.Len()\n			}\n", New: "", Expect: "R4"})
	addMutant(Mutant{Name: "revert-len-kind-guard", Prop: "C19", File: "helpers/meta/len.go",
		Old: "	switch rv.Kind() {\n	case reflect.Array, reflect.Chan, reflect.Map, reflect.Slice, reflect.String:\n		return rv.Len()\n	}\n	// nothing else has a length (this includes a nil pointer)\n	return 0",
		New: "	return rv.Len()", Expect: "R5"})
	addMutant(Mutant{Name: "revert-groupby-array-copy", Prop: "C19", File: "helpers/iterators/group_by.go",
		Old: "		if u.Kind() == reflect.Array && !u.CanAddr() {\n			// an array held by value cannot be sliced; slice a copy\n			a := reflect.New(u.Type()).Elem()\n			a.Set(u)\n			u = a\n		}\n\n", New: "", Expect: "R5"})
	// ---- C04 / C11 (reverts of the repaired panics) ----
	addMutant(Mutant{Name: "revert-negative-index-read", Prop: "C04", File: "compiler.go",
		Old: "			if i < 0 || rv.Len()-1 < i {\n				err = fmt.Errorf(\"array index out of bounds, got index %d, while array size is %d\", index, rv.Len())",
		New: "			if rv.Len()-1 < i {\n				err = fmt.Errorf(\"array index out of bounds, got index %d, while array size is %d\", index, rv.Len())", Expect: "Index"})
	addMutant(Mutant{Name: "revert-negative-index-write", Prop: "C11", File: "compiler.go",
		Old: "			if i < 0 || rv.Len()-1 < i {\n				err = fmt.Errorf(\"array index out of bounds, got index %d, while array size is %v\", i, rv.Len())",
		New: "			if rv.Len()-1 < i {\n				err = fmt.Errorf(\"array index out of bounds, got index %d, while array size is %v\", i, rv.Len())", Expect: "Index"})
	addMutant(Mutant{Name: "revert-setmapindex-guards", Prop: "C04", File: "compiler.go",
		Old: "		case !kv.IsValid() || !kv.Type().AssignableTo(rv.Type().Key()) || !kv.Type().Comparable():\n			err = fmt.Errorf(\"cannot use %v (%T) as %s value in map index\", index, index, rv.Type().Key())\n", New: "", Expect: "SetMapIndex"})
	addMutant(Mutant{Name: "revert-setmapindex-nil-map", Prop: "C04", File: "compiler.go",
		Old: "		case rv.IsNil():\n			err = fmt.Errorf(\"cannot assign to an entry of a nil map (%T)\", left)\n", New: "", Expect: "SetMapIndex"})
	addMutant(Mutant{Name: "revert-slice-assign-nil-value", Prop: "C04", File: "compiler.go",
		Old: "				if !vv.IsValid() {\n					// nil: the element type's zero value\n					vv = reflect.Zero(elemType)\n				}\n", New: "", Expect: "Type on"})
	addMutant(Mutant{Name: "revert-slice-assign-canset", Prop: "C04", File: "compiler.go",
		Old: "				} else if !rv.Index(i).CanSet() {\n					err = fmt.Errorf(\"cannot assign to an element of %T: not addressable\", left)\n				}", New: "				}", Expect: "Set on"})
	addMutant(Mutant{Name: "revert-map-key-nil", Prop: "C11", File: "compiler.go",
		Old: "		if !kv.IsValid() {\n			return nil, fmt.Errorf(\"cannot use nil as %s value in map index\", rv.Type().Key())\n		}\n", New: "", Expect: "R3"})
	addMutant(Mutant{Name: "revert-map-key-comparable", Prop: "C04", File: "compiler.go",
		Old: "		if !kv.Type().Comparable() {\n			return nil, fmt.Errorf(\"cannot use %v (%T) as map index: not comparable\", index, index)\n		}\n", New: "", Expect: "MapIndex"})
	addMutant(Mutant{Name: "revert-nil-receiver-method", Prop: "C11", File: "compiler.go",
		Old: "		if !rc.IsValid() {\n			return nil, fmt.Errorf(\"'%s' is nil, cannot call its method '%s' (%s.%s)\", node.Callee.String(), mname, node.Callee.String(), mname)\n		}\n", New: "", Expect: "R3"})
	addMutant(Mutant{Name: "revert-unknown-method-returns-receiver", Prop: "C11", File: "compiler.go",
		Old: "		if !rv.IsValid() {\n			return nil, fmt.Errorf(\"'%s' does not have a method named '%s' (%s.%s)\", node.Callee.String(), mname, node.Callee.String(), mname)\n		}\n	} else {",
		New: "		if !rv.IsValid() {\n			return rc.Interface(), nil\n		}\n	} else {", Expect: "R2"})
	addMutant(Mutant{Name: "revert-array-append", Prop: "C04", File: "compiler.go",
		Old: "		if lv.Kind() != reflect.Slice {\n			return nil, fmt.Errorf(\"cannot append to %T: not a slice\", l)\n		}\n", New: "", Expect: "Append"})
	addMutant(Mutant{Name: "revert-nil-time-pointer", Prop: "C04", File: "compiler.go",
		Old: "		if t != nil {\n			c.write(bb, *t)\n		}", New: "		c.write(bb, *t)", Expect: "dereference"})
	addMutant(Mutant{Name: "revert-userfn-arity", Prop: "C04", File: "compiler.go",
		Old: "	if len(args) < len(node.Parameters) {\n		return nil, fmt.Errorf(\"too few arguments in call to function (%d for %d)\", len(args), len(node.Parameters))\n	}\n", New: "", Expect: "index"})
	addMutant(Mutant{Name: "revert-len-kind", Prop: "C04", File: "helpers/meta/len.go",
		Old: "	switch rv.Kind() {\n	case reflect.Array, reflect.Chan, reflect.Map, reflect.Slice, reflect.String:\n		return rv.Len()\n	}\n	// nothing else has a length (this includes a nil pointer)\n	return 0",
		New: "	return rv.Len()", Expect: "Len"})
	addMutant(Mutant{Name: "revert-groupby-unaddressable", Prop: "C04", File: "iterators.go",
		Old: "		if u.Kind() == reflect.Array && !u.CanAddr() {\n			// an array held by value cannot be sliced; slice a copy\n			a := reflect.New(u.Type()).Elem()\n			a.Set(u)\n			u = a\n		}\n\n", New: "", Expect: ""})
	addMutant(Mutant{Name: "revert-pathfor-nil-pointer", Prop: "C04", File: "helpers/paths/path_for.go",
		Old: "	if !rv.IsValid() {\n		return \"\", errors.New(\"can not calculate path to a nil pointer\")\n	}\n", New: "", Expect: "Type on"})
	addMutant(Mutant{Name: "revert-truncate-assertions", Prop: "C04", File: "helpers/text/truncate.go",
		Old: "	size := 50\n	if v, ok := opts[\"size\"].(int); ok {\n		size = v\n	}", New: "	size := opts[\"size\"].(int)", Expect: "assertion"})
	addMutant(Mutant{Name: "revert-foreign-context-assertion", Prop: "C04", File: "compiler.go",
		Old: "	octx, ok := c.ctx.(*Context)\n	if !ok {\n		return nil, fmt.Errorf(\"expected *Context, got %T\", c.ctx)\n	}\n	defer func() {\n		c.ctx = octx\n	}()\n\n	c.ctx = octx.New()\n	// must copy all data from original (it includes application defined helpers)\n	for k, v := range octx.data {\n		c.ctx.Set(k, v)\n	}\n\n	iter, err",
		New: "	octx := c.ctx.(*Context)\n	defer func() {\n		c.ctx = octx\n	}()\n\n	c.ctx = octx.New()\n	// must copy all data from original (it includes application defined helpers)\n	for k, v := range octx.data {\n		c.ctx.Set(k, v)\n	}\n\n	iter, err", Expect: "assertion"})
	addMutant(Mutant{Name: "revert-nil-func-call", Prop: "C04", File: "compiler.go",
		Old: "	if rv.IsNil() {\n		return nil, fmt.Errorf(\"%+v is a nil function\", node.String())\n	}\n", New: "", Expect: "Call"})
	addMutant(Mutant{Name: "identifier-drops-struct-test", Prop: "C11", File: "compiler.go",
		Old: "		if rv.Kind() != reflect.Struct {\n			return nil, fmt.Errorf(\"'%s' does not have a field or method named '%s' (%s)\", node.Callee.String(), node.Value, node)\n		}\n", New: "", Expect: "FieldByName"})
	addMutant(Mutant{Name: "index-minus-one", Prop: "C11", File: "compiler.go",
		Old: "					returnValue = rv.Index(i).Interface()", New: "					returnValue = rv.Index(i - 1).Interface()", Expect: "R"})
	addMutant(Mutant{Name: "member-named-by-callee", Prop: "C11", File: "compiler.go",
		Old: "		f := rv.FieldByName(node.Value)", New: "		f := rv.FieldByName(node.Callee.Value)", Expect: "R1"})
	addMutant(Mutant{Name: "equiv-bounds-test-reordered", Prop: "C04", File: "compiler.go", Equivalent: true,
		Old: "			if i < 0 || rv.Len()-1 < i {\n				err = fmt.Errorf(\"array index out of bounds, got index %d, while array size is %d\", index, rv.Len())",
		New: "			if i >= rv.Len() || 0 > i {\n				err = fmt.Errorf(\"array index out of bounds, got index %d, while array size is %d\", index, rv.Len())"})
	addMutant(Mutant{Name: "equiv-kind-if-instead-of-switch", Prop: "C04", File: "helpers/meta/len.go", Equivalent: true,
		Old: "	switch rv.Kind() {\n	case reflect.Array, reflect.Chan, reflect.Map, reflect.Slice, reflect.String:\n		return rv.Len()\n	}",
		New: "	if k := rv.Kind(); k == reflect.Array || k == reflect.Chan || k == reflect.Map || k == reflect.Slice || k == reflect.String {\n		return rv.Len()\n	}"})
}
