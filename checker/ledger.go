package main

import (
	"fmt"
	"go/constant"
	"go/token"
	"go/types"
	"sort"
	"strings"
	"sync"

	"golang.org/x/tools/go/ssa"
)

// The panic-obligation ledger (primitive A of DESIGN.md): for a set of
// functions, enumerate every operation that can panic, state its precondition
// as predicates over SSA values, and discharge each predicate only by
//   - construction (the defining instruction cannot yield the bad case),
//   - a dominating branch edge that establishes it,
//   - agreement of all predecessor edges at a join (disjunctive guards),
//   - all phi inputs, or all static callers for a parameter.
// What cannot be discharged is a violation. No program path is executed and
// no solver is consulted; inequalities use a small difference-constraint closure.

type predKind int

const (
	pValid predKind = iota
	pNotValid
	pKindIn      // reflect.Value kind in set
	pTypeKindIn  // reflect.Type kind in set
	pNotNilValue // reflect.Value !IsNil
	pIfaceNonNil // interface / pointer / func value != nil
	pTypeNonNil  // reflect.Type != nil
	pCanSet
	pCanAddr
	pCanInterface
	pAssignable // Type a assignable to Type b (keys)
	pConvertible
	pComparable
	pDynType   // interface x has dynamic type T
	pNonZero   // integer != 0
	pNotNilPtr // reflect.Value is not a nil pointer: its kind is not Ptr, or it is not nil (Indirect yields a valid Value)
)

type pred struct {
	kind  predKind
	v     ssa.Value // subject
	kinds uint64    // bit set of reflect.Kind for kind predicates
	b     ssa.Value // second subject (assignable: target type value)
	bKey  string    // or a canonical key for the target
	typ   types.Type
}

func kindSet(ks ...int) uint64 {
	var s uint64
	for _, k := range ks {
		s |= 1 << uint(k)
	}
	return s
}

// reflect.Kind numbers
const (
	kInvalid   = 0
	kBool      = 1
	kInt       = 2
	kArray     = 17
	kChan      = 18
	kFunc      = 19
	kInterface = 20
	kMap       = 21
	kPtr       = 22
	kSlice     = 23
	kString    = 24
	kStruct    = 25
	kUnsafePtr = 26
)

var kindNames = map[int]string{0: "Invalid", 17: "Array", 18: "Chan", 19: "Func", 20: "Interface", 21: "Map", 22: "Ptr", 23: "Slice", 24: "String", 25: "Struct", 26: "UnsafePointer"}

func kindSetString(s uint64) string {
	var out []string
	for k := 0; k < 27; k++ {
		if s&(1<<uint(k)) != 0 {
			n := kindNames[k]
			if n == "" {
				n = fmt.Sprint(k)
			}
			out = append(out, n)
		}
	}
	return "{" + strings.Join(out, ",") + "}"
}

type ledger struct {
	noPhiLen bool       // set while the lengths flowing into a slice phi are judged (no recursion into the same question)
	extra    []edgeFact // facts assumed while one incoming edge of a join is examined
	w        *World
	fn       *ssa.Function
	keys     map[ssa.Value]string
	// statistics
	depth int
}

func newLedger(w *World, fn *ssa.Function) *ledger {
	if fn != nil && fn.Prog != nil {
		worldByProg.Store(fn.Prog, w)
	}
	return &ledger{w: w, fn: fn, keys: map[ssa.Value]string{}}
}

// worldByProg: the World an SSA program belongs to (several Worlds are analysed side by side in
// the corpus replay; nothing of one may leak into another).
var worldByProg sync.Map

func worldOfProg(p *ssa.Program) *World {
	if v, ok := worldByProg.Load(p); ok {
		return v.(*World)
	}
	return nil
}

// predSubst maps the parameters of a predicate function (a small bool function
// with a single call site, e.g. `isFullURL(s)`) to the arguments of that call:
// the facts that dominate its non-false return hold, in terms of the
// arguments, wherever the call is known to have returned true.
// (kept per World, in World.predSubst)

// importPredicateFacts: the call is known to have returned true.
func importPredicateFacts(call *ssa.Call, depth int, root *ssa.Function) []edgeFact {
	var w *World
	if call.Parent() != nil {
		w = worldOfProg(call.Parent().Prog)
	}
	g := call.Call.StaticCallee()
	if w == nil || g == nil || depth > 3 || len(g.Blocks) == 0 || len(g.Blocks) > 24 || !inModule(g) || funcHasLoop(g) {
		return nil
	}
	if g.Signature.Results().Len() != 1 || !isBasicKind(g.Signature.Results().At(0).Type(), types.Bool) {
		return nil
	}
	if len(g.Params) != len(call.Call.Args) || root == nil {
		return nil
	}
	// the parameters of the predicate stand for the arguments of THIS call while the function `root` is
	// analysed: within one such function the predicate may be called once (elsewhere it has other operands)
	nHere := 0
	for _, s := range w.staticCallSites(g) {
		for f := s.Parent(); f != nil; f = f.Parent() {
			if f == call.Parent() {
				nHere++
				break
			}
		}
	}
	if nHere != 1 {
		return nil
	}
	var rets []*ssa.Return
	for _, b := range g.Blocks {
		if r, ok := b.Instrs[len(b.Instrs)-1].(*ssa.Return); ok && len(r.Results) == 1 {
			if c, isC := r.Results[0].(*ssa.Const); isC && c.Value != nil && c.Value.Kind() == constant.Bool && !constant.BoolVal(c.Value) {
				continue
			}
			rets = append(rets, r)
		}
	}
	if len(rets) != 1 {
		return nil
	}
	for i, prm := range g.Params {
		w.predSubst.Store(predParam{prm, root}, call.Call.Args[i])
	}
	out := dominatingFactsIn(rets[0].Block(), root)
	if _, isC := rets[0].Results[0].(*ssa.Const); !isC {
		out = append(out, expandFact(edgeFact{rets[0].Results[0], true}, depth+1, root)...)
	}
	return out
}

// postBounds: call is `r..., flag := g(args...)` of a module function and the flag result (an error
// known to be nil, or a bool known to be true) says that g succeeded. For every int result r_i the
// bounds that hold at EVERY successful return of g -- 0 <= r_i, r_i < Len(param), r_i < len(param)
// -- are returned in terms of the call's results and arguments.
func (lg *ledger) postBounds(call *ssa.Call, flagIdx int) []diffC {
	g := call.Call.StaticCallee()
	if g == nil || !inModule(g) || len(g.Blocks) == 0 || len(g.Blocks) > 40 || g == lg.fn || len(g.Params) != len(call.Call.Args) {
		return nil
	}
	type post struct {
		res   int
		kind  string // nonneg | Len | len | samelen | LenField
		param int
		field int    // LenField: the reflect.Value is field `field` of the struct parameter `param` (passed by value)
		fkey  string // LenField: the callee's key of that field
	}
	w := lg.w
	w.memoMu.Lock()
	if w.postMemo == nil {
		w.postMemo = map[string]interface{}{}
	}
	mk := fmt.Sprintf("%p/%d", g, flagIdx)
	cached, have := w.postMemo[mk]
	w.memoMu.Unlock()
	var posts []post
	if have {
		posts = cached.([]post)
	} else {
		lgG := newLedger(w, g)
		lgG.depth = 2 // what g guarantees is established inside g: its callers are not consulted (and cannot consult g again)
		var cands []post
		nres := g.Signature.Results().Len()
		for i := 0; i < nres; i++ {
			// a slice result as long as a slice parameter (a loop that fills make([]T, len(p)))
			if i != flagIdx && isSliceType(g.Signature.Results().At(i).Type()) {
				for k, prm := range g.Params {
					if isSliceType(prm.Type()) {
						cands = append(cands, post{res: i, kind: "samelen", param: k})
					}
				}
			}
			if i == flagIdx || !isIntType(g.Signature.Results().At(i).Type()) {
				continue
			}
			cands = append(cands, post{res: i, kind: "nonneg", param: -1})
			// the length of a reflect.Value kept in a field of a struct parameter (x indexed; x.rv.Len())
			for _, b := range g.Blocks {
				for _, ins := range b.Instrs {
					v, isV := ins.(ssa.Value)
					if !isV || !namedIs(v.Type(), "reflect", "Value") {
						continue
					}
					if sp, fi, isField := structFieldOfParam(v); isField {
						for k, prm := range g.Params {
							if prm == sp {
								dup := false
								for _, c := range cands {
									if c.kind == "LenField" && c.res == i && c.param == k && c.field == fi {
										dup = true
									}
								}
								if !dup {
									cands = append(cands, post{res: i, kind: "LenField", param: k, field: fi, fkey: lgG.key(v)})
								}
							}
						}
					}
				}
			}
			for k, prm := range g.Params {
				switch {
				case namedIs(prm.Type(), "reflect", "Value"):
					cands = append(cands, post{res: i, kind: "Len", param: k})
				case isSliceType(prm.Type()) || isBasicKind(prm.Type(), types.String):
					cands = append(cands, post{res: i, kind: "len", param: k})
				}
			}
		}
		nRet := 0
		for _, b := range g.Blocks {
			r, isRet := b.Instrs[len(b.Instrs)-1].(*ssa.Return)
			if !isRet || len(r.Results) != nres {
				continue
			}
			// a failing return: the flag is a non-nil error / false
			fv := r.Results[flagIdx]
			if c, isC := fv.(*ssa.Const); isC {
				if c.Value != nil && c.Value.Kind() == constant.Bool && !constant.BoolVal(c.Value) {
					continue
				}
			} else if definitelyNonNil(fv) {
				continue
			} else if isErrorType(fv.Type()) {
				// `if err != nil { return nil, err }`: the error is known to be non-nil where it is returned
				if ok, _ := lgG.prove(pred{kind: pIfaceNonNil, v: fv}, b); ok {
					continue
				}
			}
			nRet++
			facts := lgG.boundFacts(b)
			var keep []post
			for _, c := range cands {
				if c.kind == "samelen" {
					lk, pk := "len("+lgG.key(r.Results[c.res])+")", "len("+lgG.key(g.Params[c.param])+")"
					if entails(facts, lk, pk, 0) && entails(facts, pk, lk, 0) {
						keep = append(keep, c)
					}
					continue
				}
				rb, ro := lgG.term(r.Results[c.res])
				ok := false
				switch c.kind {
				case "nonneg":
					ok = entails(facts, "0", rb, ro) // 0 - (rb+ro) <= 0
				case "Len":
					ok = entails(facts, rb, "Len("+lgG.key(g.Params[c.param])+")", -1-ro)
				case "LenField":
					ok = entails(facts, rb, "Len("+c.fkey+")", -1-ro)
				case "len":
					ok = entails(facts, rb, "len("+lgG.key(g.Params[c.param])+")", -1-ro)
				}
				if ok {
					keep = append(keep, c)
				}
			}
			cands = keep
		}
		if nRet > 0 {
			posts = cands
		}
		w.memoMu.Lock()
		w.postMemo[mk] = posts
		w.memoMu.Unlock()
	}
	var out []diffC
	for _, ps := range posts {
		var ex ssa.Value
		for _, ref := range *call.Referrers() {
			if e, ok := ref.(*ssa.Extract); ok && e.Index == ps.res {
				ex = e
			}
		}
		if ex == nil {
			continue
		}
		switch ps.kind {
		case "nonneg":
			out = append(out, diffC{"0", lg.key(ex), 0})
		case "Len":
			out = append(out, diffC{lg.key(ex), "Len(" + lg.key(call.Call.Args[ps.param]) + ")", -1})
		case "LenField":
			if fv := fieldValueAt(call.Call.Args[ps.param], ps.field, lg.fn); fv != nil {
				out = append(out, diffC{lg.key(ex), "Len(" + lg.key(fv) + ")", -1})
			}
		case "len":
			out = append(out, diffC{lg.key(ex), "len(" + lg.key(call.Call.Args[ps.param]) + ")", -1})
		case "samelen":
			lk, pk := "len("+lg.key(ex)+")", "len("+lg.key(call.Call.Args[ps.param])+")"
			out = append(out, diffC{lk, pk, 0}, diffC{pk, lk, 0})
		}
	}
	return out
}

// elemPost: what a function of the module guarantees about every element of the []int it returns.
type elemPost struct {
	kind  string // nonneg | ltParam (element <= parameter - 1)
	param int
}

// elemPostsOf: g returns nil or a slice literal on every return; each element, under the facts known at
// that return (including that its int parameters are >= 0 where every call site passes such values), is
// >= 0 / below an int parameter.
func (w *World) elemPostsOf(g *ssa.Function) []elemPost {
	if g == nil || !inModule(g) || len(g.Blocks) == 0 || len(g.Blocks) > 40 || g.Signature.Results().Len() != 1 {
		return nil
	}
	sl, ok := g.Signature.Results().At(0).Type().Underlying().(*types.Slice)
	if !ok || !isIntType(sl.Elem()) {
		return nil
	}
	mk := fmt.Sprintf("elems/%p", g)
	w.memoMu.Lock()
	if w.postMemo == nil {
		w.postMemo = map[string]interface{}{}
	}
	cached, have := w.postMemo[mk]
	if !have {
		w.postMemo[mk] = []elemPost(nil) // in progress: nothing is known yet (a recursive question gets no answer)
	}
	w.memoMu.Unlock()
	if have {
		return cached.([]elemPost)
	}
	lgG := newLedger(w, g)
	lgG.depth = 1
	cands := []elemPost{{"nonneg", -1}}
	for k, prm := range g.Params {
		if isIntType(prm.Type()) {
			cands = append(cands, elemPost{"ltParam", k})
		}
	}
	nRet := 0
	for _, b := range g.Blocks {
		r, isRet := b.Instrs[len(b.Instrs)-1].(*ssa.Return)
		if !isRet {
			continue
		}
		ops := retOperands(r)
		if len(ops) != 1 {
			return nil
		}
		nRet++
		if isNilConst(ops[0]) {
			continue
		}
		lit, isSl := ops[0].(*ssa.Slice)
		if !isSl || lit.Low != nil || lit.High != nil || lit.Max != nil {
			return nil
		}
		al, isAl := lit.X.(*ssa.Alloc)
		if !isAl {
			return nil
		}
		var elems []ssa.Value
		for _, ref := range *al.Referrers() {
			switch x := ref.(type) {
			case *ssa.IndexAddr:
				for _, r2 := range *x.Referrers() {
					st, isSt := r2.(*ssa.Store)
					if !isSt || st.Addr != ssa.Value(x) {
						return nil
					}
					elems = append(elems, st.Val)
				}
			case *ssa.Slice:
				if x != lit {
					return nil
				}
			case *ssa.DebugRef:
			default:
				return nil
			}
		}
		if at, isArr := al.Type().Underlying().(*types.Pointer).Elem().Underlying().(*types.Array); !isArr || int64(len(elems)) != at.Len() {
			return nil // an element keeps the zero value, or is written more than once
		}
		facts := lgG.subFacts(lgG.boundFacts(b))
		var keep []elemPost
		for _, c := range cands {
			okAll := true
			for _, e := range elems {
				eb, eo := lgG.term(e)
				switch c.kind {
				case "nonneg":
					okAll = okAll && entails(facts, "0", eb, eo)
				case "ltParam":
					okAll = okAll && entails(facts, eb, lgG.key(g.Params[c.param]), -1-eo)
				}
			}
			if okAll {
				keep = append(keep, c)
			}
		}
		cands = keep
	}
	if nRet == 0 {
		cands = nil
	}
	w.memoMu.Lock()
	w.postMemo[mk] = cands
	w.memoMu.Unlock()
	return cands
}

// exportedNameTable: v is the value of a package-level []string that only its initialiser writes, every element an exported name.
func exportedNameTable(v ssa.Value) bool {
	var g *ssa.Global
	switch x := v.(type) {
	case *ssa.UnOp:
		// the value of a slice variable
		if x.Op == token.MUL {
			g, _ = x.X.(*ssa.Global)
			// the value of a local array written out as a literal
			if a, isAlloc := x.X.(*ssa.Alloc); isAlloc && localExportedNames(a, 0) {
				return true
			}
		}
	case *ssa.Slice:
		// a local slice written out as a literal: the whole of a local array
		if a, isAlloc := x.X.(*ssa.Alloc); isAlloc && x.Low == nil && x.High == nil && localExportedNames(a, 0) {
			return true
		}
	case *ssa.Global:
		// an array variable indexed in place
		g = x
	case *ssa.Alloc:
		// the copy of an array variable that a range statement walks
		n := 0
		for _, ref := range *x.Referrers() {
			if st, isSt := ref.(*ssa.Store); isSt && st.Addr == ssa.Value(x) {
				n++
				if ld, isLd := st.Val.(*ssa.UnOp); isLd && ld.Op == token.MUL {
					g, _ = ld.X.(*ssa.Global)
				}
			}
		}
		if n != 1 {
			g = nil
		}
		if g == nil && localExportedNames(x, 0) {
			return true
		}
	}
	if g == nil || g.Pkg == nil {
		return false
	}
	t := constTablesOf(g.Pkg)[g]
	if t == nil || !t.isArray || len(t.vals) == 0 {
		return false
	}
	if t.isSlice && int64(len(t.vals)) != t.length {
		return false
	}
	if !t.isSlice {
		if at, isArr := g.Type().(*types.Pointer).Elem().Underlying().(*types.Array); !isArr || int64(len(t.vals)) != at.Len() {
			return false
		}
	}
	for _, e := range t.vals {
		c, isC := e.(*ssa.Const)
		if !isC || c.Value == nil || c.Value.Kind() != constant.String {
			return false
		}
		name := constant.StringVal(c.Value)
		if name == "" || name[0] < 'A' || name[0] > 'Z' {
			return false
		}
	}
	return true
}

// localExportedNames: a is a local array of strings written out as a literal ([...]string{"Slug", "ID"}): every
// element is stored once, a constant exported name, and nothing else writes the array (a copy made for a range
// statement is followed to its source).
func localExportedNames(a *ssa.Alloc, depth int) bool {
	pt, ok := a.Type().Underlying().(*types.Pointer)
	if !ok || depth > 2 || a.Referrers() == nil {
		return false
	}
	at, ok := pt.Elem().Underlying().(*types.Array)
	if !ok || at.Len() == 0 {
		return false
	}
	set := map[int64]bool{}
	for _, ref := range *a.Referrers() {
		switch x := ref.(type) {
		case *ssa.IndexAddr:
			if x.X != ssa.Value(a) || x.Referrers() == nil {
				continue
			}
			for _, r2 := range *x.Referrers() {
				st, isSt := r2.(*ssa.Store)
				if !isSt {
					if _, isLd := r2.(*ssa.UnOp); isLd {
						continue
					}
					if _, isDbg := r2.(*ssa.DebugRef); isDbg {
						continue
					}
					return false // the element's address goes elsewhere
				}
				if st.Addr != ssa.Value(x) {
					return false
				}
				ic, isC := x.Index.(*ssa.Const)
				c, isCV := st.Val.(*ssa.Const)
				if !isC || !isCV || c.Value == nil || c.Value.Kind() != constant.String {
					return false
				}
				name := constant.StringVal(c.Value)
				if name == "" || name[0] < 'A' || name[0] > 'Z' || set[ic.Int64()] {
					return false
				}
				set[ic.Int64()] = true
			}
		case *ssa.Store:
			if x.Addr == ssa.Value(a) {
				// the whole array copied in: from another literal
				ld, isLd := x.Val.(*ssa.UnOp)
				if !isLd || ld.Op != token.MUL {
					return false
				}
				src, isAlloc := ld.X.(*ssa.Alloc)
				if !isAlloc || !localExportedNames(src, depth+1) {
					return false
				}
				for i := int64(0); i < at.Len(); i++ {
					set[i] = true
				}
			}
		case *ssa.UnOp, *ssa.DebugRef:
		case *ssa.Slice:
			// the whole array as a slice ([]string{"Slug", "ID"}), only read through
			if x.Low != nil || x.High != nil || x.Max != nil || x.Referrers() == nil {
				return false
			}
			for _, r2 := range *x.Referrers() {
				switch y := r2.(type) {
				case *ssa.IndexAddr:
					if y.Referrers() != nil {
						for _, r3 := range *y.Referrers() {
							if _, isLd := r3.(*ssa.UnOp); !isLd {
								if _, isDbg := r3.(*ssa.DebugRef); !isDbg {
									return false
								}
							}
						}
					}
				case *ssa.Call:
					if b, isB := y.Call.Value.(*ssa.Builtin); !isB || b.Name() != "len" {
						return false
					}
				case *ssa.DebugRef:
				default:
					return false
				}
			}
		default:
			return false
		}
	}
	return int64(len(set)) == at.Len()
}

// kindTableSet: v is the value of a package-level []reflect.Kind that only its initialiser writes; the set of its elements.
func kindTableSet(v ssa.Value) (uint64, bool) {
	ld, isLd := v.(*ssa.UnOp)
	if !isLd || ld.Op != token.MUL {
		return 0, false
	}
	g, isG := ld.X.(*ssa.Global)
	if !isG || g.Pkg == nil {
		return 0, false
	}
	t := constTablesOf(g.Pkg)[g]
	if t == nil || !t.isSlice || int64(len(t.vals)) != t.length {
		return 0, false
	}
	var set uint64
	for _, e := range t.vals {
		c, isC := e.(*ssa.Const)
		if !isC || c.Value == nil || c.Value.Kind() != constant.Int {
			return 0, false
		}
		n, exact := constant.Int64Val(c.Value)
		if !exact || n < 0 || n >= 64 {
			return 0, false
		}
		set |= 1 << uint(n)
	}
	return set, true
}

// fieldSetOnlyAtConstruction: field idx of the struct type nt is stored to, anywhere in the module, only
// directly on a freshly allocated object of the function that stores (the composite literal that builds
// it): a function that receives a pointer to such an object cannot change the field.
func (w *World) fieldSetOnlyAtConstruction(nt *types.Named, idx int) bool {
	key := fmt.Sprintf("fieldctor/%p/%d", nt, idx)
	w.memoMu.Lock()
	if w.postMemo == nil {
		w.postMemo = map[string]interface{}{}
	}
	v, have := w.postMemo[key]
	w.memoMu.Unlock()
	if have {
		return v.(bool)
	}
	ok := true
	for _, rel := range []string{"", "parser", "lexer", "ast"} {
		for _, f := range w.Funcs(rel) {
			fn := w.SSAFunc(f)
			if fn == nil {
				continue
			}
			for _, g := range append([]*ssa.Function{fn}, allAnon(fn)...) {
				for _, b := range g.Blocks {
					for _, ins := range b.Instrs {
						fa, isFA := ins.(*ssa.FieldAddr)
						if !isFA || fa.Field != idx {
							continue
						}
						pt, isPtr := fa.X.Type().Underlying().(*types.Pointer)
						if !isPtr || !types.Identical(pt.Elem(), nt) {
							continue
						}
						for _, ref := range *fa.Referrers() {
							switch r := ref.(type) {
							case *ssa.Store:
								if r.Addr != ssa.Value(fa) {
									ok = false // the field's address is stored somewhere
								} else if _, fresh := fa.X.(*ssa.Alloc); !fresh {
									ok = false
								}
							case *ssa.UnOp, *ssa.DebugRef:
							default:
								ok = false // the address of the field escapes
							}
						}
					}
				}
			}
		}
	}
	w.memoMu.Lock()
	w.postMemo[key] = ok
	w.memoMu.Unlock()
	return ok
}

// structFieldOfParam: v reads field fi of a struct parameter passed by value: Field(param, fi), or a load of
// field fi of the cell the parameter was spilled into (and which nothing else is stored to).
func structFieldOfParam(v ssa.Value) (*ssa.Parameter, int, bool) {
	switch x := v.(type) {
	case *ssa.Field:
		if prm, ok := x.X.(*ssa.Parameter); ok {
			return prm, x.Field, true
		}
	case *ssa.UnOp:
		if x.Op != token.MUL {
			return nil, 0, false
		}
		fa, ok := x.X.(*ssa.FieldAddr)
		if !ok {
			return nil, 0, false
		}
		al, ok := fa.X.(*ssa.Alloc)
		if !ok {
			return nil, 0, false
		}
		var prm *ssa.Parameter
		for _, ref := range *al.Referrers() {
			switch r := ref.(type) {
			case *ssa.Store:
				if r.Addr != ssa.Value(al) {
					return nil, 0, false
				}
				q, isP := r.Val.(*ssa.Parameter)
				if !isP || prm != nil {
					return nil, 0, false
				}
				prm = q
			case *ssa.FieldAddr:
				// fields of the cell may be read; a store to a field changes what the parameter held
				for _, r2 := range *r.Referrers() {
					if st, isSt := r2.(*ssa.Store); isSt && st.Addr == ssa.Value(r) {
						return nil, 0, false
					}
				}
			case *ssa.UnOp, *ssa.DebugRef:
			default:
				return nil, 0, false
			}
		}
		if prm != nil {
			return prm, fa.Field, true
		}
	}
	return nil, 0, false
}

// fieldValueAt: a value of fn that is field fi of the struct value arg (as fn reads it itself).
func fieldValueAt(arg ssa.Value, fi int, fn *ssa.Function) ssa.Value {
	var base ssa.Value // the cell arg was loaded from, or arg itself
	if ld, ok := arg.(*ssa.UnOp); ok && ld.Op == token.MUL {
		base = ld.X
	}
	for _, b := range fn.Blocks {
		for _, ins := range b.Instrs {
			switch x := ins.(type) {
			case *ssa.Field:
				if x.X == arg && x.Field == fi {
					return x
				}
			case *ssa.UnOp:
				if x.Op == token.MUL && base != nil {
					if fa, ok := x.X.(*ssa.FieldAddr); ok && fa.X == base && fa.Field == fi {
						return x
					}
				}
			}
		}
	}
	// the struct is a local that fn builds and never reads itself (res := resource{value: rv}; res.m()): the one
	// value it stores into that field
	if al, ok := base.(*ssa.Alloc); ok && al.Referrers() != nil {
		var stored ssa.Value
		n := 0
		for _, ref := range *al.Referrers() {
			switch x := ref.(type) {
			case *ssa.FieldAddr:
				if x.Field != fi || x.Referrers() == nil {
					continue
				}
				for _, r2 := range *x.Referrers() {
					if st, isSt := r2.(*ssa.Store); isSt && st.Addr == ssa.Value(x) {
						n++
						stored = st.Val
					}
				}
			case *ssa.Store:
				if x.Addr == ssa.Value(al) {
					n += 2 // the whole struct is overwritten somewhere
				}
			}
		}
		if n == 1 {
			return stored
		}
	}
	return nil
}

// ---- canonical keys ---------------------------------------------------------

// pureCallName returns a name for calls whose result depends only on their
// operands (so that two textual occurrences denote the same value).
func pureCallName(c *ssa.Call) string {
	cc := c.Common()
	if cc.IsInvoke() {
		if namedIs(cc.Value.Type(), "reflect", "Type") {
			switch cc.Method.Name() {
			case "Kind", "Elem", "Key", "NumIn", "IsVariadic", "In", "Comparable":
				return "Type." + cc.Method.Name()
			}
		}
		return ""
	}
	if b, ok := cc.Value.(*ssa.Builtin); ok && (b.Name() == "len" || b.Name() == "cap") {
		return b.Name()
	}
	pkg, name := staticCalleeName(c)
	if pkg != "reflect" {
		return ""
	}
	switch name {
	case "ValueOf", "TypeOf", "Indirect", "PtrTo", "PointerTo":
		return name
	case "(Value).Type", "(Value).Kind", "(Value).Len", "(Value).IsValid", "(Value).IsNil", "(Value).Elem", "(Value).Index", "(Value).CanSet", "(Value).CanInterface", "(Value).CanAddr":
		return strings.TrimPrefix(name, "(Value).")
	}
	return ""
}

func (lg *ledger) key(v ssa.Value) string {
	if v == nil {
		return "<nil>"
	}
	if prm, isParam := v.(*ssa.Parameter); isParam && prm.Parent() != lg.fn {
		if a, ok := lg.w.predSubst.Load(predParam{prm, lg.fn}); ok && a.(ssa.Value) != v {
			return lg.key(a.(ssa.Value))
		}
	}
	if k, ok := lg.keys[v]; ok {
		return k
	}
	lg.keys[v] = "…" // cycle guard
	k := ""
	switch x := v.(type) {
	case *ssa.Const:
		if x.Value == nil {
			k = "nil"
		} else {
			k = "const(" + x.Value.ExactString() + ")"
		}
	case *ssa.Call:
		if n := pureCallName(x); n != "" {
			var as []string
			if x.Call.IsInvoke() {
				as = append(as, lg.key(x.Call.Value))
			}
			for _, a := range x.Call.Args {
				as = append(as, lg.key(a))
			}
			k = n + "(" + strings.Join(as, ",") + ")"
		}
	case *ssa.ChangeInterface:
		k = lg.key(x.X)
	case *ssa.ChangeType:
		k = lg.key(x.X)
	case *ssa.Convert:
		k = lg.key(x.X)
	case *ssa.BinOp:
		if x.Op == token.ADD || x.Op == token.SUB {
			k = "(" + lg.key(x.X) + x.Op.String() + lg.key(x.Y) + ")"
		}
	case *ssa.UnOp:
		if x.Op == token.MUL {
			if al, ok := x.X.(*ssa.Alloc); ok {
				if singleStoreCell(al) {
					k = "cell(" + al.Name() + fmt.Sprintf("@%p)", al)
				}
				if sv := cellValue(x); sv != nil {
					k = lg.key(sv) // the value the variable holds at this load (the write that reaches it, or an equal earlier load)
				}
			}
			if _, ok := x.X.(*ssa.FreeVar); ok {
				if sv := cellValue(x); sv != nil {
					k = lg.key(sv) // a write-once variable of the enclosing function
				}
			}
			// a package variable that only its initialiser writes and that holds a reflect.Type: that type
			if g, ok := x.X.(*ssa.Global); ok && g.Pkg != nil && namedIs(x.Type(), "reflect", "Type") {
				if st := lg.w.globalInitStore(g); st != nil {
					k = lg.key(st.Val)
				}
			}
			// loads of a field of the receiver/parameter: stable if never stored in this function
			if fa, ok := x.X.(*ssa.FieldAddr); ok {
				// equal to every other load of the same field that no store can precede
				if !lg.storeMayPrecede(fa, x) {
					k = "load(" + lg.key(fa.X) + fmt.Sprintf(".%d)", fa.Field)
				}
			}
		}
	case *ssa.Extract:
		if ta, ok := x.Tuple.(*ssa.TypeAssert); ok && x.Index == 0 {
			k = "assert(" + lg.key(ta.X) + "," + typeStr(ta.AssertedType) + ")"
		}
	case *ssa.MakeInterface:
		k = "iface(" + lg.key(x.X) + ")"
	}
	if k == "" {
		k = fmt.Sprintf("%s@%p", v.Name(), v)
	}
	lg.keys[v] = k
	return k
}

// storeMayPrecede: some store to the same field can execute before the load
// (same block earlier, or a block from which the load's block is reachable).
func (lg *ledger) storeMayPrecede(fa *ssa.FieldAddr, load ssa.Instruction) bool {
	for _, b := range lg.fn.Blocks {
		for i, ins := range b.Instrs {
			st, ok := ins.(*ssa.Store)
			if !ok {
				continue
			}
			fa2, ok := st.Addr.(*ssa.FieldAddr)
			if !ok || fa2.Field != fa.Field || lg.key(fa2.X) != lg.key(fa.X) {
				continue
			}
			if b == load.Block() {
				for j, in2 := range b.Instrs {
					if in2 == load && i < j {
						return true
					}
				}
				// a store later in the same block precedes the load only through a cycle
				if blockReaches(b, b, true) {
					return true
				}
				continue
			}
			if blockReaches(b, load.Block(), false) {
				return true
			}
		}
	}
	// calls may store through the pointer too: only receiver/parameter bases of module methods are handled;
	// a call that receives the base pointer could modify the field
	return false
}

func blockReaches(from, to *ssa.BasicBlock, strict bool) bool {
	seen := map[*ssa.BasicBlock]bool{}
	var walk func(b *ssa.BasicBlock) bool
	walk = func(b *ssa.BasicBlock) bool {
		for _, s := range b.Succs {
			if s == to {
				return true
			}
			if !seen[s] {
				seen[s] = true
				if walk(s) {
					return true
				}
			}
		}
		return false
	}
	if !strict && from == to {
		return true
	}
	return walk(from)
}

// ---- edge facts -----------------------------------------------------------------

type edgeFact struct {
	cond  ssa.Value
	truth bool
}

// dominatingFacts: conditions known at the entry of b from exclusive edges of
// its dominators.
func dominatingFacts(b *ssa.BasicBlock) []edgeFact { return dominatingFactsIn(b, b.Parent()) }

// predParam: a parameter of a predicate function, as it is bound while the function root is analysed.
type predParam struct {
	prm  *ssa.Parameter
	root *ssa.Function
}

// dominatingFactsIn: the facts that dominate b, with the predicates they call expanded for the analysis of root.
func dominatingFactsIn(b *ssa.BasicBlock, root *ssa.Function) []edgeFact {
	var out []edgeFact
	for cur := b; cur != nil; cur = cur.Idom() {
		if len(cur.Preds) != 1 {
			continue
		}
		p := cur.Preds[0]
		if ifi, ok := p.Instrs[len(p.Instrs)-1].(*ssa.If); ok && p.Succs[0] != p.Succs[1] {
			out = append(out, expandFact(edgeFact{ifi.Cond, p.Succs[0] == cur}, 0, root)...)
		}
	}
	return out
}

// expandFact: go/ssa materialises `a || b` and `a && b` in value position
// (tagless switch cases, assignments) as a bool phi. If the phi is known to be
// false (for ||) or true (for &&) only one incoming edge is feasible: the fact
// then holds for that edge's value, together with everything known at the end
// of that predecessor.
func expandFact(f edgeFact, depth int, root *ssa.Function) []edgeFact {
	out := []edgeFact{f}
	if depth > 6 {
		return out
	}
	cond, truth := f.cond, f.truth
	for {
		u, ok := cond.(*ssa.UnOp)
		if !ok || u.Op != token.NOT {
			break
		}
		cond, truth = u.X, !truth
	}
	if call, isCall := cond.(*ssa.Call); isCall && truth {
		out = append(out, importPredicateFacts(call, depth, root)...)
		return out
	}
	phi, ok := cond.(*ssa.Phi)
	if !ok {
		return out
	}
	if bt, isB := phi.Type().Underlying().(*types.Basic); !isB || bt.Kind() != types.Bool {
		return out
	}
	feasible := -1
	n := 0
	for i, e := range phi.Edges {
		if c, isC := e.(*ssa.Const); isC && c.Value != nil && c.Value.Kind() == constant.Bool {
			if constant.BoolVal(c.Value) != truth {
				continue // this edge would give the other truth value
			}
		}
		feasible = i
		n++
	}
	if n != 1 {
		return out
	}
	pb := phi.Block().Preds[feasible]
	if _, isC := phi.Edges[feasible].(*ssa.Const); !isC {
		out = append(out, expandFact(edgeFact{phi.Edges[feasible], truth}, depth+1, root)...)
	}
	out = append(out, dominatingFactsIn(pb, root)...)
	return out
}

func edgeCond(from, to *ssa.BasicBlock) (edgeFact, bool) {
	if ifi, ok := from.Instrs[len(from.Instrs)-1].(*ssa.If); ok && from.Succs[0] != from.Succs[1] {
		return edgeFact{ifi.Cond, from.Succs[0] == to}, true
	}
	return edgeFact{}, false
}

// edgeFacts: what is known when control moves along from -> to.
func edgeFacts(from, to *ssa.BasicBlock) []edgeFact {
	var out []edgeFact
	if f, ok := edgeCond(from, to); ok {
		out = append(out, expandFact(f, 0, from.Parent())...)
	}
	return out
}

// proveEdge: p holds when control moves along from -> to.
func (lg *ledger) proveEdge(p pred, from, to *ssa.BasicBlock, ctx *proofCtx) (bool, string) {
	efs := edgeFacts(from, to)
	for _, f := range efs {
		if lg.implies(f, p) {
			return true, "edge " + lg.condString(f)
		}
	}
	if ok, why := lg.proveIn(p, from, ctx); ok {
		return true, why
	}
	// what the edge's own condition says may be needed further down (ValueOf(v) is valid on the edge
	// `v != nil`): prove at the source block with the edge's facts assumed (in a context of its own, so
	// that nothing proven under the assumption is remembered without it)
	if len(efs) > 0 && ctx.depth < 24 {
		ctx2 := &proofCtx{visited: map[string]bool{}, done: map[string]string{}, failed: map[string]bool{}, nilPhis: ctx.nilPhis,
			extra: append(append([]edgeFact(nil), ctx.extra...), efs...), depth: ctx.depth + 1}
		if ok, why := lg.proveIn(p, from, ctx2); ok {
			return true, why + " (on this edge)"
		}
	}
	return false, ""
}

// reflectMethod: c is a call of reflect.Value.<name>; returns the receiver.
func reflectValueCall(v ssa.Value, name string) (recv ssa.Value, args []ssa.Value, ok bool) {
	v = throughCell(v)
	c, isCall := v.(*ssa.Call)
	if !isCall || c.Call.IsInvoke() {
		return nil, nil, false
	}
	pkg, n := staticCalleeName(c)
	if pkg == "reflect" && n == "(Value)."+name && len(c.Call.Args) >= 1 {
		return c.Call.Args[0], c.Call.Args[1:], true
	}
	return nil, nil, false
}

func reflectTypeInvoke(v ssa.Value, name string) (recv ssa.Value, args []ssa.Value, ok bool) {
	v = throughCell(v)
	c, isCall := v.(*ssa.Call)
	if !isCall || !c.Call.IsInvoke() || c.Call.Method.Name() != name {
		return nil, nil, false
	}
	if !namedIs(c.Call.Value.Type(), "reflect", "Type") {
		return nil, nil, false
	}
	return c.Call.Value, c.Call.Args, true
}

func reflectFunc(v ssa.Value, name string) (args []ssa.Value, ok bool) {
	v = throughCell(v)
	c, isCall := v.(*ssa.Call)
	if !isCall || c.Call.IsInvoke() {
		return nil, false
	}
	pkg, n := staticCalleeName(c)
	if pkg == "reflect" && n == name {
		return c.Call.Args, true
	}
	return nil, false
}

// throughCell: a write-once variable that lives in a cell (a closure captures it) is the value written to it.
func throughCell(v ssa.Value) ssa.Value {
	for i := 0; i < 3; i++ {
		ld, ok := v.(*ssa.UnOp)
		if !ok {
			break
		}
		sv := cellValue(ld)
		if sv == nil {
			break
		}
		v = sv
	}
	return v
}

func constKind(v ssa.Value) (int, bool) {
	c, ok := v.(*ssa.Const)
	if !ok || c.Value == nil || c.Value.Kind() != constant.Int {
		return 0, false
	}
	i, ok := constant.Int64Val(c.Value)
	return int(i), ok
}

// implies: does the fact (cond has value truth) establish p?
func (lg *ledger) implies(f edgeFact, p pred) bool {
	cond, truth := f.cond, f.truth
	for {
		u, ok := cond.(*ssa.UnOp)
		if !ok || u.Op != token.NOT {
			break
		}
		cond, truth = u.X, !truth
	}
	same := func(a, b ssa.Value) bool { return a != nil && b != nil && lg.key(a) == lg.key(b) }
	switch p.kind {
	case pValid, pNotValid:
		if recv, _, ok := reflectValueCall(cond, "IsValid"); ok && same(recv, p.v) {
			return truth == (p.kind == pValid)
		}
		// Kind() == K (K != Invalid) implies valid; Kind() != Invalid
		if p.kind == pValid {
			if ks, ok := lg.kindFact(cond, truth, p.v, false); ok && ks&(1<<kInvalid) == 0 {
				return true
			}
		}
	case pKindIn:
		if ks, ok := lg.kindFact(cond, truth, p.v, false); ok && ks&^p.kinds == 0 {
			return true
		}
	case pTypeKindIn:
		if ks, ok := lg.kindFact(cond, truth, p.v, true); ok && ks&^p.kinds == 0 {
			return true
		}
	case pNotNilPtr:
		if recv, _, ok := reflectValueCall(cond, "IsNil"); ok && same(recv, p.v) && !truth {
			return true
		}
		if ks, ok := lg.kindFact(cond, truth, p.v, false); ok && ks&(1<<kPtr) == 0 {
			return true
		}
	case pNotNilValue:
		if recv, _, ok := reflectValueCall(cond, "IsNil"); ok && same(recv, p.v) {
			return !truth
		}
	case pCanSet:
		if recv, _, ok := reflectValueCall(cond, "CanSet"); ok && same(recv, p.v) {
			return truth
		}
	case pCanInterface:
		if recv, _, ok := reflectValueCall(cond, "CanInterface"); ok && same(recv, p.v) {
			return truth
		}
	case pCanAddr:
		if recv, _, ok := reflectValueCall(cond, "CanAddr"); ok && same(recv, p.v) {
			return truth
		}
	case pIfaceNonNil, pTypeNonNil:
		if bo, ok := cond.(*ssa.BinOp); ok && (bo.Op == token.EQL || bo.Op == token.NEQ) {
			var other ssa.Value
			switch {
			case same(bo.X, p.v):
				other = bo.Y
			case same(bo.Y, p.v):
				other = bo.X
			}
			if other != nil && isNilConst(other) {
				return truth == (bo.Op == token.NEQ)
			}
		}
		// a successful comma-ok assertion of x implies x != nil
		if ex, ok := cond.(*ssa.Extract); ok && ex.Index == 1 && truth {
			if ta, ok := ex.Tuple.(*ssa.TypeAssert); ok && same(ta.X, p.v) {
				return true
			}
		}
		// ValueOf(x).IsValid() is x != nil
		if recv, _, ok := reflectValueCall(cond, "IsValid"); ok && truth {
			if args, ok := reflectFunc(recv, "ValueOf"); ok && same(args[0], p.v) {
				return true
			}
		}
	case pAssignable, pConvertible:
		name := "AssignableTo"
		if p.kind == pConvertible {
			name = "ConvertibleTo"
		}
		// the two types were found identical (t == u on reflect.Type values)
		if bo, ok := cond.(*ssa.BinOp); ok && (bo.Op == token.EQL || bo.Op == token.NEQ) && truth == (bo.Op == token.EQL) &&
			namedIs(bo.X.Type(), "reflect", "Type") && namedIs(bo.Y.Type(), "reflect", "Type") {
			kx, ky, kv := lg.key(bo.X), lg.key(bo.Y), lg.key(p.v)
			kb := p.bKey
			if p.b != nil {
				kb = lg.key(p.b)
			}
			if kb != "" && ((kx == kv && ky == kb) || (ky == kv && kx == kb)) {
				return true
			}
		}
		if recv, args, ok := reflectTypeInvoke(cond, name); ok && truth && len(args) == 1 {
			if lg.key(recv) == lg.key(p.v) {
				if p.b != nil && lg.key(args[0]) == lg.key(p.b) {
					return true
				}
				if p.bKey != "" && lg.key(args[0]) == p.bKey {
					return true
				}
			}
		}
	case pComparable:
		if recv, _, ok := reflectTypeInvoke(cond, "Comparable"); ok && truth && lg.key(recv) == lg.key(p.v) {
			return true
		}
		// identical to the key type of a map: key types are comparable
		if bo, ok := cond.(*ssa.BinOp); ok && (bo.Op == token.EQL || bo.Op == token.NEQ) && truth == (bo.Op == token.EQL) &&
			namedIs(bo.X.Type(), "reflect", "Type") && namedIs(bo.Y.Type(), "reflect", "Type") {
			other := ssa.Value(nil)
			switch lg.key(p.v) {
			case lg.key(bo.X):
				other = bo.Y
			case lg.key(bo.Y):
				other = bo.X
			}
			if other != nil {
				// (the subject must be the type of a value that came out of reflect.ValueOf: a concrete dynamic type)
				if _, _, isKey := reflectTypeInvoke(throughCell(other), "Key"); isKey {
					if val, _, isType := reflectValueCall(throughCell(p.v), "Type"); isType {
						if _, isVO := reflectFunc(throughCell(val), "ValueOf"); isVO {
							return true
						}
					}
				}
			}
		}
	case pDynType:
		if ex, ok := cond.(*ssa.Extract); ok && ex.Index == 1 && truth {
			if ta, ok := ex.Tuple.(*ssa.TypeAssert); ok && same(ta.X, p.v) && types.Identical(ta.AssertedType, p.typ) {
				return true
			}
		}
	case pNonZero:
		if bo, ok := cond.(*ssa.BinOp); ok {
			x, y, op := bo.X, bo.Y, bo.Op
			if same(y, p.v) {
				x, y, op = y, x, flipOp(op)
			}
			if same(x, p.v) {
				if c, ok := y.(*ssa.Const); ok && c.Value != nil && c.Value.Kind() == constant.Int {
					k, _ := constant.Int64Val(c.Value)
					switch {
					case op == token.EQL && k == 0:
						return !truth
					case op == token.NEQ && k == 0:
						return truth
					case op == token.LEQ && k == 0, op == token.LSS && k == 1:
						return !truth // not (x <= 0)  => x >= 1
					case op == token.GTR && k == 0, op == token.GEQ && k == 1:
						return truth
					}
				}
			}
		}
	}
	return false
}

// kindFact: cond (with truth) constrains the kind of subject to a set.
func (lg *ledger) kindFact(cond ssa.Value, truth bool, subject ssa.Value, isType bool) (uint64, bool) {
	// table[Kind(v)] for a constant table map[reflect.Kind]bool: true selects the kinds listed with true
	if lk, isLk := cond.(*ssa.Lookup); isLk && !lk.CommaOk && !isType {
		if ld, isLd := lk.X.(*ssa.UnOp); isLd && ld.Op == token.MUL {
			if g, isG := ld.X.(*ssa.Global); isG {
				if t := constTablesOf(g.Pkg)[g]; t != nil && isBasicKind(t.valType, types.Bool) {
					if recv, _, ok := reflectValueCall(lk.Index, "Kind"); ok && lg.key(recv) == lg.key(subject) {
						var set uint64
						for i, k := range t.keys {
							c, isC := t.vals[i].(*ssa.Const)
							if !isC || c.Value == nil || c.Value.Kind() != constant.Bool || k.Kind() != constant.Int {
								return 0, false
							}
							if n, exact := constant.Int64Val(k); exact && n >= 0 && n < 64 && constant.BoolVal(c.Value) {
								set |= 1 << uint(n)
							}
						}
						if truth {
							return set, true
						}
						return ^uint64(0) &^ set, true
					}
				}
			}
		}
	}
	// _, ok := set[Kind(v)] for a constant table used as a set (map[reflect.Kind]struct{} or any value type): ok
	// selects the kinds that are keys
	if ex, isEx := cond.(*ssa.Extract); isEx && ex.Index == 1 && !isType {
		if lk, isLk := ex.Tuple.(*ssa.Lookup); isLk && lk.CommaOk {
			if ld, isLd := lk.X.(*ssa.UnOp); isLd && ld.Op == token.MUL {
				if g, isG := ld.X.(*ssa.Global); isG && g.Pkg != nil {
					if t := constTablesOf(g.Pkg)[g]; t != nil && !t.isArray && len(t.keys) > 0 {
						if recv, _, ok := reflectValueCall(lk.Index, "Kind"); ok && lg.key(recv) == lg.key(subject) {
							var set uint64
							for _, k := range t.keys {
								if k.Kind() != constant.Int {
									return 0, false
								}
								n, exact := constant.Int64Val(k)
								if !exact || n < 0 || n >= 64 {
									return 0, false
								}
								set |= 1 << uint(n)
							}
							if truth {
								return set, true
							}
							return ^uint64(0) &^ set, true
						}
					}
				}
			}
		}
	}
	// table[Kind(v)] for a constant array table [N]bool indexed by kind
	if ld, isLd := cond.(*ssa.UnOp); isLd && ld.Op == token.MUL && !isType {
		if ia, isIA := ld.X.(*ssa.IndexAddr); isIA {
			if g, isG := ia.X.(*ssa.Global); isG && g.Pkg != nil {
				if t := constTablesOf(g.Pkg)[g]; t != nil && t.isArray && !t.isSlice && isBasicKind(t.valType, types.Bool) {
					idx := ia.Index
					if cv, isConv := idx.(*ssa.Convert); isConv {
						idx = cv.X
					}
					if recv, _, ok := reflectValueCall(idx, "Kind"); ok && lg.key(recv) == lg.key(subject) {
						var set uint64
						for i, k := range t.keys {
							c, isC := t.vals[i].(*ssa.Const)
							if !isC || c.Value == nil || c.Value.Kind() != constant.Bool || k.Kind() != constant.Int {
								return 0, false
							}
							if n, exact := constant.Int64Val(k); exact && n >= 0 && n < 64 && constant.BoolVal(c.Value) {
								set |= 1 << uint(n)
							}
						}
						if truth {
							return set, true
						}
						return ^uint64(0) &^ set, true
					}
				}
			}
		}
	}
	// slices.Contains(table, Kind(v)) for a constant table []reflect.Kind
	if call, isCall := cond.(*ssa.Call); isCall && !isType && len(call.Call.Args) == 2 {
		if pkg, name := staticCalleeName(call); pkg == "slices" && name == "Contains" {
			if set, ok := kindTableSet(call.Call.Args[0]); ok {
				if recv, _, ok := reflectValueCall(call.Call.Args[1], "Kind"); ok && lg.key(recv) == lg.key(subject) {
					if truth {
						return set, true
					}
					return ^uint64(0) &^ set, true
				}
			}
		}
	}
	// a predicate of the module on the subject: isList(v), hasLength(v.Kind()) ... - the kinds for which it
	// can return that truth value (from the paths of the predicate)
	if call, isCall := cond.(*ssa.Call); isCall && !isType {
		if g := call.Call.StaticCallee(); g != nil && inModule(g) && len(g.Blocks) > 0 && g.Signature.Results().Len() == 1 && isBasicKind(g.Signature.Results().At(0).Type(), types.Bool) && len(g.Params) == len(call.Call.Args) {
			for i, a := range call.Call.Args {
				// the kind itself handed to the predicate: sliceable(v.Kind())
				if namedIs(a.Type(), "reflect", "Kind") {
					if recv, _, isKind := reflectValueCall(a, "Kind"); isKind && lg.key(recv) == lg.key(subject) {
						if whenTrue, whenFalse, ok := lg.w.kindPredicate(g, i); ok {
							if truth {
								return whenTrue, true
							}
							return whenFalse, true
						}
					}
					continue
				}
				if lg.key(a) != lg.key(subject) || !namedIs(a.Type(), "reflect", "Value") {
					continue
				}
				if whenTrue, whenFalse, ok := lg.w.kindPredicate(g, i); ok {
					if truth {
						return whenTrue, true
					}
					return whenFalse, true
				}
			}
		}
	}
	bo, ok := cond.(*ssa.BinOp)
	if !ok || (bo.Op != token.EQL && bo.Op != token.NEQ) {
		return 0, false
	}
	x, y := bo.X, bo.Y
	if _, isC := constKind(x); isC {
		x, y = y, x
	}
	k, isC := constKind(y)
	if !isC {
		return 0, false
	}
	// the subject IS a kind (the parameter of a predicate over kinds): k == reflect.Slice
	if !isType && namedIs(subject.Type(), "reflect", "Kind") && lg.key(x) == lg.key(subject) {
		if truth == (bo.Op == token.EQL) {
			return 1 << uint(k), true
		}
		return ^uint64(0) &^ (1 << uint(k)), true
	}
	var recv ssa.Value
	if isType {
		r, _, ok := reflectTypeInvoke(x, "Kind")
		if !ok {
			return 0, false
		}
		recv = r
	} else {
		r, _, ok := reflectValueCall(x, "Kind")
		if !ok {
			// a kind kept in a variable next to the value it belongs to: k := v.Kind(); if k == Ptr { v = v.Elem(); k = v.Kind() }
			// - the two phis take corresponding inputs on every edge
			if kp, isPhi := x.(*ssa.Phi); isPhi {
				if sp, isSP := throughCell(subject).(*ssa.Phi); isSP && sp.Block() == kp.Block() && len(sp.Edges) == len(kp.Edges) {
					all := true
					for i := range kp.Edges {
						kr, _, isKind := reflectValueCall(kp.Edges[i], "Kind")
						if !isKind || lg.key(kr) != lg.key(sp.Edges[i]) {
							all = false
						}
					}
					if all {
						r, ok = subject, true
					}
				}
			}
		}
		if !ok {
			// the kind of v.Type() is the kind of v
			if tr, _, ok2 := reflectTypeInvoke(x, "Kind"); ok2 {
				if vr, _, ok3 := reflectValueCall(tr, "Type"); ok3 {
					r, ok = vr, true
				} else if args, ok4 := reflectFunc(tr, "TypeOf"); ok4 {
					// TypeOf(x).Kind() is ValueOf(x).Kind()
					if sargs, ok5 := reflectFunc(subject, "ValueOf"); ok5 && lg.key(sargs[0]) == lg.key(args[0]) {
						r, ok = subject, true
					}
				}
			}
			if !ok {
				return 0, false
			}
		}
		recv = r
	}
	if lg.key(recv) != lg.key(subject) {
		// for types: Type(v).Kind() vs the subject type value
		return 0, false
	}
	eq := truth == (bo.Op == token.EQL)
	if eq {
		return 1 << uint(k), true
	}
	return ^uint64(0) &^ (1 << uint(k)), true
}

// ---- the prover ----------------------------------------------------------------------

type proofCtx struct {
	nilPhis map[*ssa.Phi]bool // phis assumed nil (from a dominating `err == nil` test)
	assumed map[string]bool
	extra   []edgeFact        // additional facts assumed for this proof (one arm of a disjunction)
	visited map[string]bool   // in progress (cycle guard)
	done    map[string]string // proven: key -> justification
	failed  map[string]bool
	depth   int
	below   []edgeFact // what dominates the block the obligation sits in: an incoming edge of a join further up that contradicts it cannot be on the way there
}

func (lg *ledger) prove(p pred, at *ssa.BasicBlock) (bool, string) {
	ctx := &proofCtx{visited: map[string]bool{}, done: map[string]string{}, failed: map[string]bool{}, nilPhis: map[*ssa.Phi]bool{}}
	ctx.below = dominatingFacts(at)
	for _, f := range ctx.below {
		if bo, ok := f.cond.(*ssa.BinOp); ok && (bo.Op == token.EQL || bo.Op == token.NEQ) {
			isNil := f.truth == (bo.Op == token.EQL)
			if phi, ok := bo.X.(*ssa.Phi); ok && isNilConst(bo.Y) && isNil {
				ctx.nilPhis[phi] = true
			}
			if phi, ok := bo.Y.(*ssa.Phi); ok && isNilConst(bo.X) && isNil {
				ctx.nilPhis[phi] = true
			}
		}
	}
	return lg.proveIn(p, at, ctx)
}

// proveAssuming: prove with additional facts known to hold (the branch through which a function value reached a call).
func (lg *ledger) proveAssuming(p pred, at *ssa.BasicBlock, assume []edgeFact) (bool, string) {
	if len(assume) == 0 {
		return lg.prove(p, at)
	}
	if ok, why := lg.prove(p, at); ok {
		return true, why
	}
	ctx := &proofCtx{visited: map[string]bool{}, done: map[string]string{}, failed: map[string]bool{}, nilPhis: map[*ssa.Phi]bool{}, extra: assume}
	return lg.proveIn(p, at, ctx)
}

func (lg *ledger) predKey(p pred, at *ssa.BasicBlock) string {
	return fmt.Sprintf("%d|%s|%x|%s|%s|%d", p.kind, lg.key(p.v), p.kinds, lg.key(p.b), p.bKey, at.Index)
}

func (lg *ledger) proveIn(p pred, at *ssa.BasicBlock, ctx *proofCtx) (bool, string) {
	if ctx.depth > 40 {
		return false, ""
	}
	k := lg.predKey(p, at)
	if why, ok := ctx.done[k]; ok {
		return true, why
	}
	if ctx.failed[k] {
		return false, ""
	}
	if ctx.visited[k] {
		// a cycle in the control-flow graph: predicates are about immutable SSA
		// values, so it suffices that every path ENTERING the cycle establishes
		// them; assume the fact here (coinduction) and remember that we did
		if ctx.assumed == nil {
			ctx.assumed = map[string]bool{}
		}
		ctx.assumed[k] = true
		return true, "loop invariant"
	}
	ctx.visited[k] = true
	ctx.depth++
	ok, why := lg.proveStep(p, at, ctx)
	ctx.depth--
	delete(ctx.visited, k)
	if ok {
		ctx.done[k] = why
	} else {
		ctx.failed[k] = true
		if ctx.assumed[k] {
			// something was proven assuming this node: discard those results
			ctx.done = map[string]string{}
		}
	}
	return ok, why
}

func (lg *ledger) proveStep(p pred, at *ssa.BasicBlock, ctx *proofCtx) (bool, string) {
	if why := lg.byConstruction(p, at, ctx); why != "" {
		return true, why
	}
	for _, f := range dominatingFacts(at) {
		if lg.implies(f, p) {
			return true, "dominating branch " + lg.condString(f)
		}
	}
	for _, f := range ctx.extra {
		if lg.implies(f, p) {
			return true, "this arm of the guard: " + lg.condString(f)
		}
	}
	if why := lg.byCalleeReturns(p, at, ctx); why != "" {
		return true, why
	}
	if why := lg.byGlobalInit(p, ctx); why != "" {
		return true, why
	}
	if why := lg.byEnclosing(p, ctx); why != "" {
		return true, why
	}
	// a guard that is a conjunction / disjunction computed into a bool (a && b tested as one value): the
	// predicate holds if it holds under each of the alternatives that give the guard its known value
	if len(ctx.extra) == 0 && ctx.depth < 12 {
		if alts := disjunctiveFacts(at); len(alts) > 1 {
			all := true
			for _, fs := range alts {
				ctx2 := &proofCtx{visited: map[string]bool{}, done: map[string]string{}, failed: map[string]bool{}, nilPhis: ctx.nilPhis, extra: fs, depth: ctx.depth + 1}
				if ok, _ := lg.proveIn(p, at, ctx2); !ok {
					all = false
					break
				}
			}
			if all {
				return true, "under each alternative of the dominating guard"
			}
		}
	}
	switch len(at.Preds) {
	case 0:
		return false, ""
	case 1:
		// a join further up may establish it on all of its incoming edges
		return lg.proveIn(p, at.Preds[0], ctx)
	}
	var whys []string
	for i, pb := range at.Preds {
		if lg.edgeInfeasible(at, i, ctx) {
			whys = append(whys, "edge excluded by the error-variable test")
			continue
		}
		if okp, why := lg.proveEdge(p, pb, at, ctx); okp {
			whys = append(whys, why)
			continue
		}
		return false, ""
	}
	return true, "every feasible incoming edge establishes it (" + strings.Join(dedupe(whys), " | ") + ")"
}

// byCalleeReturns: the subject is a result of a static call of a module
// function; the predicate holds if it holds for that result at every return of
// the callee -- except the returns that a dominating test of another (bool)
// result of the same call excludes (`v, ok := f(); if ok { use v }`).
func (lg *ledger) byCalleeReturns(p pred, at *ssa.BasicBlock, ctx *proofCtx) string {
	switch p.kind {
	case pValid, pKindIn, pNotNilValue, pIfaceNonNil, pCanInterface, pTypeNonNil:
	default:
		return ""
	}
	if ctx.depth > 30 {
		return ""
	}
	// the single result of a module function: the predicate holds for what every return yields
	if call, isCall := p.v.(*ssa.Call); isCall {
		var gs []*ssa.Function
		if g := call.Call.StaticCallee(); g != nil {
			gs = []*ssa.Function{g}
		} else if !call.Call.IsInvoke() {
			gs = lg.w.calleesOfValue(call.Call.Value, 0) // a function value that is one of a few known functions
		}
		if len(gs) == 0 {
			return ""
		}
		var names []string
		for _, g := range gs {
			if len(g.Blocks) == 0 || g == lg.fn || g.Signature.Results().Len() != 1 {
				return ""
			}
			if !inModule(g) && !strings.HasPrefix(g.Synthetic, "bound method wrapper") {
				return ""
			}
			lgG := newLedger(lg.w, g)
			n := 0
			for _, b := range g.Blocks {
				r, isRet := b.Instrs[len(b.Instrs)-1].(*ssa.Return)
				if !isRet || len(r.Results) != 1 {
					continue
				}
				n++
				q := p
				q.v = r.Results[0]
				if okq, _ := lgG.prove(q, b); !okq {
					return ""
				}
			}
			if n == 0 {
				return ""
			}
			names = append(names, g.Name())
		}
		return "holds for the result at every return of " + strings.Join(names, ", ")
	}
	ex, ok := p.v.(*ssa.Extract)
	if !ok {
		return ""
	}
	call, ok := ex.Tuple.(*ssa.Call)
	if !ok {
		return ""
	}
	g := call.Call.StaticCallee()
	if g == nil || len(g.Blocks) == 0 || !inModule(g) || g == lg.fn {
		return ""
	}
	// flags known true here
	flags := map[int]bool{}
	nilErrs := map[int]bool{}
	for _, f := range dominatingFacts(at) {
		cond, truth := f.cond, f.truth
		for {
			u, isNot := cond.(*ssa.UnOp)
			if !isNot || u.Op != token.NOT {
				break
			}
			cond, truth = u.X, !truth
		}
		if fe, isEx := cond.(*ssa.Extract); isEx && fe.Tuple == ex.Tuple && truth {
			flags[fe.Index] = true
		}
		// an error result known to be nil here
		if bo, isBO := cond.(*ssa.BinOp); isBO && (bo.Op == token.EQL || bo.Op == token.NEQ) && truth == (bo.Op == token.EQL) {
			for _, side := range [][2]ssa.Value{{bo.X, bo.Y}, {bo.Y, bo.X}} {
				if fe, isEx := side[0].(*ssa.Extract); isEx && fe.Tuple == ex.Tuple && isNilConst(side[1]) && isErrorType(fe.Type()) {
					nilErrs[fe.Index] = true
				}
			}
		}
	}
	lgG := newLedger(lg.w, g)
	n := 0
	for _, b := range g.Blocks {
		r, isRet := b.Instrs[len(b.Instrs)-1].(*ssa.Return)
		if !isRet || ex.Index >= len(r.Results) {
			continue
		}
		excluded := false
		for j := range flags {
			if j < len(r.Results) {
				if c, isC := r.Results[j].(*ssa.Const); isC && c.Value != nil && c.Value.Kind() == constant.Bool && !constant.BoolVal(c.Value) {
					excluded = true
				}
			}
		}
		for j := range nilErrs {
			if j < len(r.Results) && definitelyNonNil(r.Results[j]) {
				excluded = true // this return reports an error; the caller knows there was none
			}
		}
		if excluded {
			continue
		}
		n++
		q := p
		q.v = r.Results[ex.Index]
		if okq, _ := lgG.prove(q, b); !okq {
			return ""
		}
	}
	if n == 0 {
		return ""
	}
	return "holds for this result at every return of " + g.Name() + " that the tested flag allows"
}

// byEnclosing: inside a function literal, the subject is a value of the enclosing function (a
// write-once captured variable): the predicate holds if the enclosing function establishes it where
// the literal is turned into a value.
func (lg *ledger) byEnclosing(p pred, ctx *proofCtx) string {
	if p.b != nil || ctx.depth > 30 || lg.fn.Parent() == nil {
		return ""
	}
	v := throughCell(p.v)
	if v == p.v {
		return ""
	}
	var owner *ssa.Function
	switch x := v.(type) {
	case ssa.Instruction:
		owner = x.Parent()
	case *ssa.Parameter:
		owner = x.Parent()
	}
	if owner == nil || owner != lg.fn.Parent() {
		return ""
	}
	mc := closureSite(lg.fn)
	if mc == nil {
		return ""
	}
	l2 := newLedger(lg.w, owner)
	q := p
	q.v = v
	if ok, why := l2.prove(q, mc.Block()); ok {
		return "established by " + ssaName(owner) + " before the function literal is made (" + why + ")"
	}
	return ""
}

// byGlobalInit: the subject is read from a package variable that is written exactly once, by its
// initialiser, and never has its address taken: the predicate holds if it holds for the initial value.
func (lg *ledger) byGlobalInit(p pred, ctx *proofCtx) string {
	if p.b != nil || ctx.depth > 30 {
		return ""
	}
	ld, ok := p.v.(*ssa.UnOp)
	if !ok || ld.Op != token.MUL {
		return ""
	}
	g, ok := ld.X.(*ssa.Global)
	if !ok || g.Pkg == nil || !strings.HasPrefix(g.Pkg.Pkg.Path(), modPath) {
		return ""
	}
	st := lg.w.globalInitStore(g)
	if st == nil {
		return ""
	}
	l2 := newLedger(lg.w, st.Parent())
	q := p
	q.v = st.Val
	if ok, why := l2.prove(q, st.Block()); ok {
		return "package variable " + g.Name() + " is only written by its initialiser, whose value satisfies it (" + why + ")"
	}
	return ""
}

// globalInitStore: the single store to g in the module, if it is in the package initialiser and
// g is otherwise only loaded.
func (w *World) globalInitStore(g *ssa.Global) *ssa.Store {
	w.memoMu.Lock()
	if w.globalInit == nil {
		w.globalInit = map[*ssa.Global]*ssa.Store{}
		w.globalInitDone = map[*ssa.Global]bool{}
	}
	if w.globalInitDone[g] {
		st := w.globalInit[g]
		w.memoMu.Unlock()
		return st
	}
	w.memoMu.Unlock()
	initFn := g.Pkg.Func("init")
	var only *ssa.Store
	n, bad := 0, false
	var scan []*ssa.Package
	for _, p := range g.Pkg.Prog.AllPackages() {
		if p.Pkg != nil && strings.HasPrefix(p.Pkg.Path(), modPath) {
			if p == g.Pkg || (g.Object() != nil && g.Object().Exported()) {
				scan = append(scan, p)
			}
		}
	}
	for _, p := range scan {
		for _, f := range functionsOf(p) {
			for _, b := range f.Blocks {
				for _, ins := range b.Instrs {
					var buf [8]*ssa.Value
					for _, op := range ins.Operands(buf[:0]) {
						if op == nil || *op != ssa.Value(g) {
							continue
						}
						switch x := ins.(type) {
						case *ssa.UnOp:
							if x.Op != token.MUL {
								bad = true
							}
						case *ssa.Store:
							if x.Addr == ssa.Value(g) && f == initFn {
								n++
								only = x
							} else {
								bad = true
							}
						case *ssa.DebugRef:
						default:
							bad = true
						}
					}
				}
			}
		}
	}
	if bad || n != 1 {
		only = nil
	}
	w.memoMu.Lock()
	w.globalInit[g] = only
	w.globalInitDone[g] = true
	w.memoMu.Unlock()
	return only
}

// edgeInfeasible: the proof runs under the assumption that some phi (an
// error variable) is nil; an incoming edge of the phi's block that feeds it a
// freshly constructed error cannot have been taken.
func (lg *ledger) edgeInfeasible(at *ssa.BasicBlock, i int, ctx *proofCtx) bool {
	// the edge is taken under a condition whose opposite is known where the obligation sits
	// (if op == "/" && r == 0 { return }; switch op { case "/": l / r }: the edge `op != "/"` into the
	// switch does not lead to the division)
	if i < len(at.Preds) {
		if f, ok := edgeCond(at.Preds[i], at); ok {
			for _, g := range ctx.below {
				if g.truth != f.truth && lg.sameCond(f.cond, g.cond) {
					return true
				}
			}
		}
	}
	for phi := range ctx.nilPhis {
		if phi.Block() != at || i >= len(phi.Edges) {
			continue
		}
		if definitelyNonNil(phi.Edges[i]) {
			return true
		}
	}
	return false
}

// sameCond: two conditions that compare the same operands in the same way (different instructions of the same test).
func (lg *ledger) sameCond(a, b ssa.Value) bool {
	if a == b {
		return true
	}
	x, ok1 := a.(*ssa.BinOp)
	y, ok2 := b.(*ssa.BinOp)
	if !ok1 || !ok2 || x.Op != y.Op {
		return false
	}
	switch x.Op {
	case token.EQL, token.NEQ, token.LSS, token.LEQ, token.GTR, token.GEQ:
	default:
		return false
	}
	pure := func(v ssa.Value) bool {
		switch v.(type) {
		case *ssa.Parameter, *ssa.Const:
			return true
		}
		return false
	}
	// (operands that cannot change between the two tests: parameters and constants)
	if !pure(x.X) || !pure(x.Y) || !pure(y.X) || !pure(y.Y) {
		return false
	}
	return lg.key(x.X) == lg.key(y.X) && lg.key(x.Y) == lg.key(y.Y)
}

func definitelyNonNil(v ssa.Value) bool {
	switch x := v.(type) {
	case *ssa.Call:
		pkg, name := staticCalleeName(x)
		switch pkg + "." + name {
		case "fmt.Errorf", "errors.New":
			return true
		}
	case *ssa.MakeInterface:
		if _, isAlloc := x.X.(*ssa.Alloc); isAlloc {
			return true
		}
	}
	return false
}

func (lg *ledger) condString(f edgeFact) string {
	s := f.cond.String()
	if c, ok := f.cond.(*ssa.Call); ok {
		s = lg.key(c)
	}
	if bo, ok := f.cond.(*ssa.BinOp); ok {
		s = lg.key(bo.X) + " " + bo.Op.String() + " " + lg.key(bo.Y)
	}
	if len(s) > 90 {
		s = s[:87] + "..."
	}
	if f.truth {
		return "[" + s + "] true"
	}
	return "[" + s + "] false"
}

// byConstruction: the defining instruction of the subject cannot yield the bad case.
func (lg *ledger) byConstruction(p pred, at *ssa.BasicBlock, ctx *proofCtx) string {
	if ld, ok := p.v.(*ssa.UnOp); ok {
		if sv := cellValue(ld); sv != nil {
			p.v = sv
		}
	}
	v := p.v
	// phi: every input, evaluated in its predecessor
	if phi, ok := v.(*ssa.Phi); ok {
		for i, e := range phi.Edges {
			if lg.edgeInfeasible(phi.Block(), i, ctx) {
				continue
			}
			q := p
			q.v = e
			if ok, _ := lg.proveEdge(q, phi.Block().Preds[i], phi.Block(), ctx); !ok {
				return ""
			}
		}
		return "all phi inputs"
	}
	switch p.kind {
	case pValid:
		if args, ok := reflectFunc(v, "ValueOf"); ok {
			if ok, why := lg.proveIn(pred{kind: pIfaceNonNil, v: args[0]}, at, ctx); ok {
				return "ValueOf of a non-nil value (" + why + ")"
			}
			return ""
		}
		for _, n := range []string{"New", "Zero", "Append", "MakeSlice", "MakeMap", "MakeFunc", "AppendSlice"} {
			if _, ok := reflectFunc(v, n); ok {
				return "reflect." + n + " always yields a valid Value"
			}
		}
		for _, n := range []string{"Index", "Field", "Slice", "Convert", "Addr", "FieldByIndex"} {
			if _, _, ok := reflectValueCall(v, n); ok {
				return "result of " + n + " is valid"
			}
		}
		// Indirect(x): x itself unless x is a pointer, then what it points to - valid when x is valid and not a nil pointer
		if args, ok := reflectFunc(v, "Indirect"); ok && len(args) == 1 {
			if ok1, why1 := lg.proveIn(pred{kind: pValid, v: args[0]}, at, ctx); ok1 {
				if ok2, why2 := lg.proveIn(pred{kind: pNotNilPtr, v: args[0]}, at, ctx); ok2 {
					return "Indirect of a valid Value that is not a nil pointer (" + why1 + "; " + why2 + ")"
				}
			}
		}
		if recv, _, ok := reflectValueCall(v, "Elem"); ok {
			if _, isNew := reflectFunc(recv, "New"); isNew {
				return "reflect.New(T).Elem()"
			}
			if ok1, _ := lg.proveIn(pred{kind: pNotNilValue, v: recv}, at, ctx); ok1 {
				return "Elem of a non-nil pointer/interface"
			}
		}
		// an element of the slice returned by Value.Call or Value.MapKeys
		if src := elementOfReflectSlice(v); src != "" {
			return "element of the result of " + src
		}
		// MapIndex with a key enumerated from the same map
		if recv, args, ok := reflectValueCall(v, "MapIndex"); ok {
			if m := mapKeysSource(args[0]); m != nil && lg.key(m) == lg.key(recv) {
				return "MapIndex with a key taken from MapKeys() of the same map"
			}
		}
	case pKindIn:
		if _, ok := reflectFunc(v, "New"); ok && p.kinds&(1<<kPtr) != 0 {
			return "reflect.New yields a pointer"
		}
		if args, ok := reflectFunc(v, "ValueOf"); ok {
			if k, ok := staticKindOf(args[0]); ok && p.kinds&(1<<uint(k)) != 0 {
				return "static type of the operand"
			}
		}
		// reflect.New(Type(u)).Elem() has the kind of u
		if recv, _, ok := reflectValueCall(v, "Elem"); ok {
			if args, ok := reflectFunc(recv, "New"); ok {
				if u, _, ok := reflectValueCall(args[0], "Type"); ok {
					if ok1, why := lg.proveIn(pred{kind: pKindIn, v: u, kinds: p.kinds}, at, ctx); ok1 {
						return "a fresh value of the type of another value whose kind is known: " + why
					}
				}
			}
		}
		if _, ok := reflectFunc(v, "Append"); ok && p.kinds&(1<<kSlice) != 0 {
			return "reflect.Append yields a slice"
		}
		// v.Slice(i, j) is a slice when v is an array or a slice (and a string when v is a string)
		if recv, _, ok := reflectValueCall(v, "Slice"); ok && p.kinds&(1<<kSlice) != 0 {
			if ok1, why := lg.proveIn(pred{kind: pKindIn, v: recv, kinds: kindSet(kArray, kSlice)}, at, ctx); ok1 {
				return "Slice of an array or slice is a slice (" + why + ")"
			}
		}
	case pTypeKindIn:
		// the last parameter of a variadic function is a slice: T.In(T.NumIn()-1) under T.IsVariadic()
		if recv, args, ok := reflectTypeInvoke(v, "In"); ok && len(args) == 1 && p.kinds&(1<<kSlice) != 0 {
			ib, io := lg.term(args[0])
			if ib == "Type.NumIn("+lg.key(recv)+")" && io == -1 {
				for _, f := range dominatingFacts(at) {
					cond, truth := f.cond, f.truth
					for {
						u, ok := cond.(*ssa.UnOp)
						if !ok || u.Op != token.NOT {
							break
						}
						cond, truth = u.X, !truth
					}
					if r2, _, ok := reflectTypeInvoke(cond, "IsVariadic"); ok && truth && lg.key(r2) == lg.key(recv) {
						return "the last parameter of a variadic function (IsVariadic() is true here) is a slice type"
					}
				}
				// the function type is a parameter of a helper: every call site is under IsVariadic() of the argument
				if prm, isP := throughCell(recv).(*ssa.Parameter); isP && lg.w.variadicParam(prm, 0) {
					return "the last parameter of a variadic function: every call site of this helper is under IsVariadic() of the type it passes"
				}
			}
		}
		// Type(v).Kind() == Kind(v)
		if recv, _, ok := reflectValueCall(v, "Type"); ok {
			if ok1, why := lg.proveIn(pred{kind: pKindIn, v: recv, kinds: p.kinds}, at, ctx); ok1 {
				return "kind of the value: " + why
			}
		}
		if args, ok := reflectFunc(v, "TypeOf"); ok {
			if k, ok := staticKindOf(args[0]); ok && p.kinds&(1<<uint(k)) != 0 {
				return "static type of the operand"
			}
			// find a ValueOf of the same operand in this function
			for _, b := range lg.fn.Blocks {
				for _, ins := range b.Instrs {
					if c, isCall := ins.(*ssa.Call); isCall {
						if a2, ok2 := reflectFunc(c, "ValueOf"); ok2 && lg.key(a2[0]) == lg.key(args[0]) {
							if ok1, why := lg.proveIn(pred{kind: pKindIn, v: c, kinds: p.kinds}, at, ctx); ok1 {
								return "kind of ValueOf of the same operand: " + why
							}
						}
					}
				}
			}
		}
	case pDynType:
		// x.(I) where I is the static interface type of x already: fails only for a nil interface
		if p.typ != nil && types.IsInterface(p.typ) && types.Identical(p.typ, v.Type()) {
			k := pIfaceNonNil
			if namedIs(p.typ, "reflect", "Type") {
				k = pTypeNonNil
			}
			if ok1, why := lg.proveIn(pred{kind: k, v: v}, at, ctx); ok1 {
				return "asserting the value's own interface type only requires it to be non-nil (" + why + ")"
			}
		}
	case pComparable:
		// the key type of a map is comparable as a type; a VALUE of it is hashable unless the key type is an
		// interface type holding something unhashable - excluded when its kind was found equal to the kind
		// of the type of a value that came out of reflect.ValueOf (never Interface)
		if _, _, ok := reflectTypeInvoke(v, "Key"); ok {
			for _, f := range append(append([]edgeFact(nil), dominatingFacts(at)...), ctx.extra...) {
				bo, isBO := f.cond.(*ssa.BinOp)
				if !isBO || (bo.Op != token.EQL && bo.Op != token.NEQ) || f.truth != (bo.Op == token.EQL) {
					continue
				}
				ka, _, okA := reflectTypeInvoke(bo.X, "Kind")
				kb, _, okB := reflectTypeInvoke(bo.Y, "Kind")
				if !okA || !okB {
					continue
				}
				other := ssa.Value(nil)
				switch lg.key(v) {
				case lg.key(ka):
					other = kb
				case lg.key(kb):
					other = ka
				}
				if other == nil {
					continue
				}
				if val, _, isType := reflectValueCall(throughCell(other), "Type"); isType {
					if _, isVO := reflectFunc(throughCell(val), "ValueOf"); isVO {
						return "a map's key type whose kind equals that of a concrete dynamic type: not an interface, hence hashable"
					}
				}
			}
		}
	case pNotNilValue:
		if _, ok := reflectFunc(v, "New"); ok {
			return "reflect.New is never nil"
		}
	case pIfaceNonNil:
		switch x := v.(type) {
		case *ssa.MakeInterface:
			return "an interface made from a concrete value is never the nil interface"
		case *ssa.Alloc, *ssa.MakeClosure, *ssa.Function, *ssa.MakeMap, *ssa.MakeSlice:
			return "freshly allocated"
		case *ssa.Const:
			if x.Value != nil {
				return "constant"
			}
		case *ssa.Call:
			// error constructors and the like are not modelled
		}
	case pTypeNonNil:
		if _, _, ok := reflectValueCall(v, "Type"); ok {
			return "Value.Type() is never nil (the call itself requires a valid Value)"
		}
		if args, ok := reflectFunc(v, "TypeOf"); ok {
			if ok1, why := lg.proveIn(pred{kind: pIfaceNonNil, v: args[0]}, at, ctx); ok1 {
				return "TypeOf of a non-nil value (" + why + ")"
			}
			return ""
		}
		for _, n := range []string{"Elem", "Key", "In", "Out"} {
			if _, _, ok := reflectTypeInvoke(v, n); ok {
				return "result of Type." + n
			}
		}
		if _, ok := reflectFunc(v, "PtrTo"); ok {
			return "reflect.PtrTo"
		}
		if _, ok := reflectFunc(v, "PointerTo"); ok {
			return "reflect.PointerTo"
		}
		if _, isParam := v.(*ssa.Parameter); isParam {
			return lg.byAllCallers(p, ctx)
		}
		if _, isFree := v.(*ssa.FreeVar); isFree {
			return ""
		}
	case pCanSet, pCanAddr:
		if recv, _, ok := reflectValueCall(v, "Elem"); ok {
			if _, isNew := reflectFunc(recv, "New"); isNew {
				return "reflect.New(T).Elem() is addressable and settable"
			}
		}
	case pCanInterface:
		if !lg.mayBeReadOnly(v, 0) {
			return "not derived from an unexported struct field"
		}
	case pAssignable:
		// identical by construction: Type(x) vs the type x was made from
		if p.b != nil && lg.key(p.v) == lg.key(p.b) {
			return "identical type"
		}
		if p.bKey != "" && lg.key(p.v) == p.bKey {
			return "identical type"
		}
	case pNonZero:
		if c, ok := v.(*ssa.Const); ok && c.Value != nil && c.Value.Kind() == constant.Int {
			if k, _ := constant.Int64Val(c.Value); k != 0 {
				return "non-zero constant"
			}
		}
	}
	// parameters: all static callers establish it
	if _, isParam := v.(*ssa.Parameter); isParam {
		return lg.byAllCallers(p, ctx)
	}
	// ... also for a field of a struct parameter passed by value
	if _, _, isField := structFieldOfParam(v); isField {
		return lg.byAllCallers(p, ctx)
	}
	return ""
}

// mayBeReadOnly: the Value may carry the read-only flag (obtained through an
// unexported struct field), in which case Interface() panics.
func (lg *ledger) mayBeReadOnly(v ssa.Value, depth int) bool {
	if depth > 10 {
		return true
	}
	switch x := v.(type) {
	case *ssa.Phi:
		for _, e := range x.Edges {
			if lg.mayBeReadOnly(e, depth+1) {
				return true
			}
		}
		return false
	case *ssa.Parameter, *ssa.FreeVar:
		return lg.paramMayBeReadOnly(x)
	case *ssa.Call:
		if recv, args, ok := reflectValueCall(x, "FieldByName"); ok {
			if c, isC := args[0].(*ssa.Const); isC && c.Value != nil && c.Value.Kind() == constant.String {
				name := constant.StringVal(c.Value)
				if name != "" && name[0] >= 'A' && name[0] <= 'Z' {
					return lg.mayBeReadOnly(recv, depth+1)
				}
			}
			// a name taken from a constant table of exported names: for _, name := range idFields { v.FieldByName(name) }
			if ld, isLd := args[0].(*ssa.UnOp); isLd && ld.Op == token.MUL {
				if ia, isIA := ld.X.(*ssa.IndexAddr); isIA {
					if exportedNameTable(ia.X) {
						return lg.mayBeReadOnly(recv, depth+1)
					}
				}
			}
			if ix, isIx := args[0].(*ssa.Index); isIx && exportedNameTable(ix.X) {
				return lg.mayBeReadOnly(recv, depth+1) // an element of the array's value
			}
			return true
		}
		for _, n := range []string{"Field", "FieldByIndex", "FieldByNameFunc"} {
			if _, _, ok := reflectValueCall(x, n); ok {
				return true
			}
		}
		for _, n := range []string{"Elem", "Index", "MapIndex", "Slice", "Convert", "Addr"} {
			if recv, _, ok := reflectValueCall(x, n); ok {
				return lg.mayBeReadOnly(recv, depth+1)
			}
		}
		if args, ok := reflectFunc(x, "Indirect"); ok {
			return lg.mayBeReadOnly(args[0], depth+1)
		}
		return false
	}
	return false
}

func (lg *ledger) paramMayBeReadOnly(v ssa.Value) bool {
	p, ok := v.(*ssa.Parameter)
	if !ok {
		return true
	}
	idx := -1
	for i, q := range lg.fn.Params {
		if q == p {
			idx = i
		}
	}
	if idx < 0 {
		return true
	}
	sites := lg.w.staticCallSites(lg.fn)
	if len(sites) == 0 {
		return true
	}
	for _, s := range sites {
		l2 := newLedger(lg.w, s.Parent())
		if idx >= len(s.Common().Args) || l2.mayBeReadOnly(s.Common().Args[idx], 0) {
			return true
		}
	}
	return false
}

// byAllCallers: a predicate about a parameter holds if it holds for the
// argument at every static call site in the module.
func (lg *ledger) byAllCallers(p pred, ctx *proofCtx) string {
	param, ok := p.v.(*ssa.Parameter)
	if !ok {
		// a field of a struct handed over by value (x indexed; ... x.rv ...): what every call site knows about
		// that field of the struct it passes
		if sp, fi, isField := structFieldOfParam(p.v); isField && sp.Parent() == lg.fn && p.b == nil && ctx.depth <= 20 {
			idx := -1
			for i, q := range lg.fn.Params {
				if q == sp {
					idx = i
				}
			}
			sites, complete := lg.w.callSitesAll(lg.fn)
			if idx < 0 || len(sites) == 0 || !complete {
				return ""
			}
			for _, s := range sites {
				if idx >= len(s.args) {
					return ""
				}
				fv := fieldValueAt(s.args[idx], fi, s.Parent())
				if fv == nil {
					return ""
				}
				l2 := newLedger(lg.w, s.Parent())
				q := p
				q.v = fv
				if ok, _ := l2.proveAssuming(q, s.Block(), s.assume); !ok {
					return ""
				}
			}
			return fmt.Sprintf("established for that field of the struct passed at all %d call site(s) of %s", len(sites), ssaName(lg.fn))
		}
		return ""
	}
	idx := -1
	for i, q := range lg.fn.Params {
		if q == param {
			idx = i
		}
	}
	if idx < 0 || ctx.depth > 20 {
		return ""
	}
	// (calls by name, and calls of values that can only be this function: a method value, a callback)
	sites, complete := lg.w.callSitesAll(lg.fn)
	if len(sites) == 0 || !complete {
		return ""
	}
	for _, s := range sites {
		if idx >= len(s.args) {
			return ""
		}
		l2 := newLedger(lg.w, s.Parent())
		q := p
		q.v = s.args[idx]
		if p.b != nil {
			return "" // relational predicates are not transported across calls
		}
		if ok, _ := l2.proveAssuming(q, s.Block(), s.assume); !ok {
			return ""
		}
	}
	return fmt.Sprintf("established at all %d call site(s) of %s", len(sites), ssaName(lg.fn))
}

// staticCallSites returns the call instructions in module functions whose
// static callee is fn.
func (w *World) staticCallSites(fn *ssa.Function) []ssa.CallInstruction {
	if w.callSites == nil {
		w.callSites = map[*ssa.Function][]ssa.CallInstruction{}
		for _, p := range w.All {
			sp := w.SSA().Package(p.Types)
			if sp == nil {
				continue
			}
			var fns []*ssa.Function
			for _, m := range sp.Members {
				if f, ok := m.(*ssa.Function); ok {
					fns = append(fns, f)
				}
				if t, ok := m.(*ssa.Type); ok {
					for _, tt := range []types.Type{t.Type(), types.NewPointer(t.Type())} {
						ms := w.SSA().MethodSets.MethodSet(tt)
						for i := 0; i < ms.Len(); i++ {
							if f := w.SSA().MethodValue(ms.At(i)); f != nil && inModule(f) {
								fns = append(fns, f)
							}
						}
					}
				}
			}
			seen := map[*ssa.Function]bool{}
			var visit func(f *ssa.Function)
			visit = func(f *ssa.Function) {
				if seen[f] || f.Blocks == nil {
					return
				}
				seen[f] = true
				for _, b := range f.Blocks {
					for _, ins := range b.Instrs {
						if c, ok := ins.(ssa.CallInstruction); ok {
							if callee := c.Common().StaticCallee(); callee != nil {
								w.callSites[callee] = append(w.callSites[callee], c)
							}
						}
					}
				}
				for _, a := range f.AnonFuncs {
					visit(a)
				}
			}
			for _, f := range fns {
				visit(f)
			}
		}
	}
	return w.callSites[fn]
}

// ---- integer bounds ---------------------------------------------------------------

type diffC struct {
	x, y string // x - y <= c
	c    int64
}

// term renders an int-valued SSA value as (base key, constant offset).
func (lg *ledger) term(v ssa.Value) (string, int64) {
	// a variable kept in a cell (a closure captures it) is the value that reaches the load
	if ld, ok := v.(*ssa.UnOp); ok && ld.Op == token.MUL {
		if sv := cellValue(ld); sv != nil && sv != v {
			return lg.term(sv)
		}
	}
	switch x := v.(type) {
	case *ssa.Const:
		if x.Value != nil && x.Value.Kind() == constant.Int {
			k, _ := constant.Int64Val(x.Value)
			return "0", k
		}
	case *ssa.BinOp:
		if x.Op == token.ADD || x.Op == token.SUB {
			if c, ok := x.Y.(*ssa.Const); ok && c.Value != nil && c.Value.Kind() == constant.Int {
				k, _ := constant.Int64Val(c.Value)
				b, o := lg.term(x.X)
				if x.Op == token.SUB {
					k = -k
				}
				return b, o + k
			}
			// a - (a - z) = z  (e.g. first := n - missing with missing := n - len(args))
			if inner, ok := x.Y.(*ssa.BinOp); ok && x.Op == token.SUB && inner.Op == token.SUB {
				ab, ao := lg.term(x.X)
				ib, io := lg.term(inner.X)
				if ab == ib {
					zb, zo := lg.term(inner.Y)
					return zb, zo + ao - io
				}
			}
		}
	case *ssa.Convert:
		return lg.term(x.X)
	}
	return lg.key(v), 0
}

// boundFacts collects difference constraints known at block b.
func (lg *ledger) boundFacts(b *ssa.BasicBlock) (out []diffC) {
	add := func(x ssa.Value, op token.Token, y ssa.Value) {
		// (a - b) op c  with a, b variables: a difference constraint between a and b
		if bo, ok := x.(*ssa.BinOp); ok && bo.Op == token.SUB {
			if _, isC := bo.Y.(*ssa.Const); !isC {
				if _, yc := lg.term(y); true {
					yb2, _ := lg.term(y)
					if yb2 == "0" {
						ab, ao := lg.term(bo.X)
						bb, bo2 := lg.term(bo.Y)
						// (ab+ao) - (bb+bo2) op yc
						d := yc - ao + bo2
						switch op {
						case token.LSS:
							out = append(out, diffC{ab, bb, d - 1})
						case token.LEQ:
							out = append(out, diffC{ab, bb, d})
						case token.GTR:
							out = append(out, diffC{bb, ab, -d - 1})
						case token.GEQ:
							out = append(out, diffC{bb, ab, -d})
						case token.EQL:
							out = append(out, diffC{ab, bb, d}, diffC{bb, ab, -d})
						}
					}
				}
			}
		}
		xb, xo := lg.term(x)
		yb, yo := lg.term(y)
		// (xb+xo) op (yb+yo)
		switch op {
		case token.LSS: // x < y  => xb - yb <= yo - xo - 1
			out = append(out, diffC{xb, yb, yo - xo - 1})
		case token.LEQ:
			out = append(out, diffC{xb, yb, yo - xo})
		case token.GTR:
			out = append(out, diffC{yb, xb, xo - yo - 1})
		case token.GEQ:
			out = append(out, diffC{yb, xb, xo - yo})
		case token.EQL:
			out = append(out, diffC{xb, yb, yo - xo}, diffC{yb, xb, xo - yo})
		}
	}
	var eqFalse [][2]ssa.Value
	neg := map[token.Token]token.Token{token.LSS: token.GEQ, token.LEQ: token.GTR, token.GTR: token.LEQ, token.GEQ: token.LSS, token.NEQ: token.EQL}
	for _, f := range lg.domFacts(b) {
		cond, truth := f.cond, f.truth
		for {
			u, ok := cond.(*ssa.UnOp)
			if !ok || u.Op != token.NOT {
				break
			}
			cond, truth = u.X, !truth
		}
		bo, ok := cond.(*ssa.BinOp)
		if !ok {
			continue
		}
		if bt, ok := bo.X.Type().Underlying().(*types.Basic); !ok || bt.Info()&types.IsInteger == 0 {
			continue
		}
		op := bo.Op
		if !truth {
			n, ok := neg[op]
			if !ok {
				// not (x == c): together with x >= c (lengths are >= 0) this gives x >= c+1
				if op == token.EQL {
					eqFalse = append(eqFalse, [2]ssa.Value{bo.X, bo.Y})
				}
				continue
			}
			op = n
		}
		if op == token.NEQ {
			eqFalse = append(eqFalse, [2]ssa.Value{bo.X, bo.Y})
			continue
		}
		add(bo.X, op, bo.Y)
	}
	// T.IsVariadic() known true: a variadic function has at least one parameter
	for _, f := range lg.domFacts(b) {
		cond, truth := f.cond, f.truth
		for {
			u, ok := cond.(*ssa.UnOp)
			if !ok || u.Op != token.NOT {
				break
			}
			cond, truth = u.X, !truth
		}
		if recv, _, ok := reflectTypeInvoke(cond, "IsVariadic"); ok && truth {
			out = append(out, diffC{"0", "Type.NumIn(" + lg.key(recv) + ")", -1})
		}
	}
	// ... also for a function type that is a parameter (or a captured parameter of the enclosing function)
	// every call site of which is under IsVariadic() of what it passes
	for f := lg.fn; f != nil; f = f.Parent() {
		for _, prm := range f.Params {
			if namedIs(prm.Type(), "reflect", "Type") && lg.w.variadicParam(prm, 0) {
				out = append(out, diffC{"0", "Type.NumIn(" + lg.key(prm) + ")", -1})
			}
		}
	}
	// results of a validating helper: `i, err := check(x, ...)` with err known to be nil here
	// (or `i, ok := ...` with ok known true): what the helper guarantees about i on its successful returns
	for _, f := range lg.domFacts(b) {
		cond, truth := f.cond, f.truth
		for {
			u, ok := cond.(*ssa.UnOp)
			if !ok || u.Op != token.NOT {
				break
			}
			cond, truth = u.X, !truth
		}
		var flag *ssa.Extract
		if bo, ok := cond.(*ssa.BinOp); ok && (bo.Op == token.EQL || bo.Op == token.NEQ) {
			isNil := truth == (bo.Op == token.EQL)
			if ex, ok := bo.X.(*ssa.Extract); ok && isNilConst(bo.Y) && isNil {
				flag = ex
			}
			if ex, ok := bo.Y.(*ssa.Extract); ok && isNilConst(bo.X) && isNil {
				flag = ex
			}
		}
		if ex, ok := cond.(*ssa.Extract); ok && truth && isBasicKind(ex.Type(), types.Bool) {
			flag = ex
		}
		if flag == nil {
			continue
		}
		call, ok := flag.Tuple.(*ssa.Call)
		if !ok {
			continue
		}
		out = append(out, lg.postBounds(call, flag.Index)...)
	}
	defer func() {
		// x != c with x >= c known  =>  x >= c+1 (applied after the structural facts were added)
		for _, pr := range eqFalse {
			xb, xo := lg.term(pr[0])
			yb, yo := lg.term(pr[1])
			if yb != "0" {
				xb, xo, yb, yo = yb, yo, xb, xo
			}
			if yb != "0" {
				continue
			}
			c := yo - xo                   // xb != c
			if entails(out, "0", xb, -c) { // xb >= c
				out = append(out, diffC{"0", xb, -(c + 1)})
			}
		}
	}()
	// an int parameter that every call site (static, or a call of the function literal's value in
	// the enclosing function) feeds with a value known to be >= 0 there
	if lg.depth < 2 {
		for i, prm := range lg.fn.Params {
			if !isIntType(prm.Type()) {
				continue
			}
			sites, complete := lg.w.callSitesAll(lg.fn)
			if len(sites) == 0 || !complete {
				continue
			}
			all := true
			for _, st := range sites {
				if i >= len(st.args) {
					all = false
					break
				}
				l2 := newLedger(lg.w, st.Parent())
				l2.depth = lg.depth + 1
				ab, ao := l2.term(st.args[i])
				if !entails(l2.subFacts(l2.boundFacts(st.Block())), "0", ab, ao) {
					all = false
					break
				}
			}
			if all {
				out = append(out, diffC{"0", lg.key(prm), 0})
			}
		}
	}
	// what every static call site knows about the arguments, restated for the parameters (relations
	// between parameters -- "pos < len(node.Arguments)", "len(vals) == len(f.Parameters)" -- are
	// established by the callers of an extracted helper)
	out = append(out, lg.callerFacts()...)
	// structural facts
	for phi, lb := range lg.nonNegPhis() {
		out = append(out, diffC{"0", lg.key(phi), -lb}) // phi >= lb
	}
	for _, blk := range lg.fn.Blocks {
		for _, ins := range blk.Instrs {
			switch x := ins.(type) {
			case *ssa.BinOp:
				// k = a - b with b >= 0 known structurally  =>  k <= a ; handled lazily in entailsSub
				_ = x
			case *ssa.UnOp:
				func() {
					// an element of the []int a function of the module returned: what the function guarantees about its elements
					if x.Op != token.MUL || !isIntType(x.Type()) || lg.depth >= 2 {
						return
					}
					ia, isIA := x.X.(*ssa.IndexAddr)
					if !isIA {
						return
					}
					call, isCall := ia.X.(*ssa.Call)
					if !isCall || call.Call.StaticCallee() == nil || call.Call.StaticCallee() == lg.fn {
						return
					}
					g := call.Call.StaticCallee()
					if len(g.Params) != len(call.Call.Args) {
						return
					}
					for _, ps := range lg.w.elemPostsOf(g) {
						switch ps.kind {
						case "nonneg":
							out = append(out, diffC{"0", lg.key(x), 0})
						case "ltParam":
							ab, ao := lg.term(call.Call.Args[ps.param])
							out = append(out, diffC{lg.key(x), ab, ao - 1})
						}
					}
				}()
				// a load of an int field that is only ever incremented from a non-negative start
				if x.Op == token.MUL {
					if fa, ok := x.X.(*ssa.FieldAddr); ok && isIntType(x.Type()) && lg.w.fieldNonNeg(fa) {
						out = append(out, diffC{"0", lg.key(x), 0})
					}
				}
			case *ssa.Phi:
				// a slice (or string) that is non-empty on every way into the join is non-empty:
				// for len(segments) >= 2 { segments = segments[1:] ... }; return segments[0]
				if _, isSl := x.Type().Underlying().(*types.Slice); isSl && !lg.noPhiLen && lg.depth < 2 && len(x.Edges) <= 4 {
					all := true
					for i, e := range x.Edges {
						pb := x.Block().Preds[i]
						lg.noPhiLen = true
						saved := lg.extra
						lg.extra = edgeFacts(pb, x.Block())
						cs := lg.subFacts(lg.boundFacts(pb))
						lg.extra = saved
						lg.noPhiLen = false
						if !entails(cs, "0", "len("+lg.key(e)+")", -1) {
							all = false
							break
						}
					}
					if all {
						out = append(out, diffC{"0", "len(" + lg.key(x) + ")", -1})
					}
					continue
				}
				// induction variable: phi(c0, phi + k) with k >= 0  =>  phi >= c0
				if bt, ok := x.Type().Underlying().(*types.Basic); !ok || bt.Info()&types.IsInteger == 0 {
					continue
				}
				var c0, c1 *int64 // smallest / largest constant start
				var startB string
				var startO int64
				nStart := 0
				up, down := true, true // every step is >= 0 / <= 0
				for _, e := range x.Edges {
					eb, eo := lg.term(e)
					switch {
					case eb == "0":
						v := eo
						if c0 == nil || v < *c0 {
							c0 = &v
						}
						w := eo
						if c1 == nil || w > *c1 {
							c1 = &w
						}
					case eb == lg.key(x):
						if eo < 0 {
							up = false
						}
						if eo > 0 {
							down = false
						}
					default:
						startB, startO = eb, eo
						nStart++
					}
				}
				if up && c0 != nil && nStart == 0 {
					out = append(out, diffC{"0", lg.key(x), -*c0}) // 0 - phi <= -c0
				}
				// phi(start, phi+k) with k >= 0 and a symbolic start: phi >= start
				if up && c0 == nil && nStart == 1 && len(x.Edges) == 2 {
					out = append(out, diffC{startB, lg.key(x), -startO})
				}
				// a counter that only goes down never exceeds where it started: phi <= start
				if down && !up {
					if c1 != nil && nStart == 0 {
						out = append(out, diffC{lg.key(x), "0", *c1})
					}
					if c1 == nil && nStart == 1 && len(x.Edges) == 2 {
						out = append(out, diffC{lg.key(x), startB, startO})
					}
				}
			case *ssa.Extract:
				// the key of a range over a string, read where the range has produced one: 0 <= key < len(s)
				if nx, isNext := x.Tuple.(*ssa.Next); isNext && nx.IsString && x.Index == 1 {
					rg, isRange := nx.Iter.(*ssa.Range)
					if !isRange || len(nx.Block().Instrs) == 0 {
						continue
					}
					iff, isIf := nx.Block().Instrs[len(nx.Block().Instrs)-1].(*ssa.If)
					if !isIf {
						continue
					}
					okx, isEx := iff.Cond.(*ssa.Extract)
					if !isEx || okx.Tuple != ssa.Value(nx) || okx.Index != 0 {
						continue
					}
					body := nx.Block().Succs[0]
					if len(body.Preds) != 1 || !body.Dominates(x.Block()) {
						continue
					}
					lk := "len(" + lg.key(rg.X) + ")"
					out = append(out, diffC{"0", lg.key(x), 0}, diffC{lg.key(x), lk, -1})
				}
			case *ssa.Index:
				if arr, isArr := x.X.Type().Underlying().(*types.Array); isArr {
					k := "len(" + lg.key(x.X) + ")"
					out = append(out, diffC{k, "0", arr.Len()}, diffC{"0", k, -arr.Len()})
				}
			case *ssa.IndexAddr:
				// indexing an array (or pointer to one): its length is the type's constant
				t := x.X.Type().Underlying()
				if pt, isPtr := t.(*types.Pointer); isPtr {
					t = pt.Elem().Underlying()
				}
				if arr, isArr := t.(*types.Array); isArr {
					k := "len(" + lg.key(x.X) + ")"
					out = append(out, diffC{k, "0", arr.Len()}, diffC{"0", k, -arr.Len()})
				}
			case *ssa.Slice:
				// len(x[:h]) == h ; len(x[c:]) == len(x) - c for a constant c
				k := "len(" + lg.key(x) + ")"
				switch {
				case x.Low == nil && x.High != nil:
					hb, ho := lg.term(x.High)
					out = append(out, diffC{k, hb, ho}, diffC{hb, k, -ho})
				case x.High == nil && x.Max == nil:
					if _, isStr := x.X.Type().Underlying().(*types.Basic); isStr || isSliceType(x.X.Type()) {
						lo := int64(0)
						okc := x.Low == nil
						if c, isC := x.Low.(*ssa.Const); isC && c.Value != nil && c.Value.Kind() == constant.Int {
							lo, okc = c.Int64(), true
						}
						if okc {
							xk := "len(" + lg.key(x.X) + ")"
							out = append(out, diffC{k, xk, -lo}, diffC{xk, k, lo})
						}
					}
				}
			case *ssa.MakeSlice:
				// len(make([]T, n)) == n
				lb, lo := lg.term(x.Len)
				k := "len(" + lg.key(x) + ")"
				out = append(out, diffC{k, lb, lo}, diffC{lb, k, -lo})
			case *ssa.Call:
				if n := pureCallName(x); n == "len" || n == "Len" || n == "Type.NumIn" || n == "cap" {
					out = append(out, diffC{"0", lg.key(x), 0}) // >= 0
				}
				// a kind is one of reflect's constants: Invalid (0) .. UnsafePointer (26)
				if _, _, isKind := reflectValueCall(x, "Kind"); isKind {
					out = append(out, diffC{"0", lg.key(x), 0}, diffC{lg.key(x), "0", 26})
				} else if _, _, isKind := reflectTypeInvoke(x, "Kind"); isKind {
					out = append(out, diffC{"0", lg.key(x), 0}, diffC{lg.key(x), "0", 26})
				}
				if pkg, name := staticCalleeName(x); pkg == "unicode/utf8" && strings.HasPrefix(name, "RuneCount") {
					out = append(out, diffC{"0", lg.key(x), 0}) // a count is >= 0
				}
				if pkg, name := staticCalleeName(x); (pkg == "strings" || pkg == "bytes") && len(x.Call.Args) >= 1 {
					// the index functions return -1 or a position inside their first operand
					lk := "len(" + lg.key(x.Call.Args[0]) + ")"
					switch name {
					case "IndexByte", "IndexRune", "IndexAny", "LastIndexByte", "LastIndexAny", "IndexFunc", "LastIndexFunc":
						out = append(out, diffC{lg.key(x), lk, -1}, diffC{"0", lg.key(x), 1}) // -1 <= r <= len-1
					case "Index", "LastIndex":
						out = append(out, diffC{lg.key(x), lk, 0}, diffC{"0", lg.key(x), 1}) // -1 <= r <= len
						// a constant separator of k bytes fits behind the position: r <= len - k
						if len(x.Call.Args) == 2 {
							if sc, isC := x.Call.Args[1].(*ssa.Const); isC && sc.Value != nil && sc.Value.Kind() == constant.String {
								if k := int64(len(constant.StringVal(sc.Value))); k >= 1 {
									out = append(out, diffC{lg.key(x), lk, -k})
								}
							}
						}
					case "Count":
						out = append(out, diffC{"0", lg.key(x), 0}, diffC{lg.key(x), lk, 1}) // 0 <= r <= len+1
					}
				}
				if pkg, name := staticCalleeName(x); pkg == "strings" && name == "Split" {
					out = append(out, diffC{"0", "len(" + lg.key(x) + ")", -1}) // len >= 1
				}
			}
		}
	}
	return out
}

// entails: do the constraints imply x - y <= c ?
func entails(cs []diffC, x, y string, c int64) bool {
	if x == y {
		return c >= 0
	}
	idx := map[string]int{}
	id := func(s string) int {
		if i, ok := idx[s]; ok {
			return i
		}
		idx[s] = len(idx)
		return idx[s]
	}
	id(x)
	id(y)
	for _, k := range cs {
		id(k.x)
		id(k.y)
	}
	n := len(idx)
	const inf = int64(1) << 60
	d := make([][]int64, n)
	for i := range d {
		d[i] = make([]int64, n)
		for j := range d[i] {
			if i != j {
				d[i][j] = inf
			}
		}
	}
	for _, k := range cs {
		i, j := idx[k.x], idx[k.y]
		if k.c < d[i][j] {
			d[i][j] = k.c // x - y <= c
		}
	}
	for m := 0; m < n; m++ {
		for i := 0; i < n; i++ {
			for j := 0; j < n; j++ {
				if d[i][m] < inf && d[m][j] < inf && d[i][m]+d[m][j] < d[i][j] {
					d[i][j] = d[i][m] + d[m][j]
				}
			}
		}
	}
	return d[idx[x]][idx[y]] <= c
}

// subFacts: for k = a - b (both variables): b >= 0 gives k <= a; b <= a gives k >= 0.
func (lg *ledger) subFacts(cs []diffC) []diffC {
	out := cs
	for _, blk := range lg.fn.Blocks {
		for _, ins := range blk.Instrs {
			bo, ok := ins.(*ssa.BinOp)
			if !ok || bo.Op != token.SUB || !isIntType(bo.Type()) {
				continue
			}
			if _, isC := bo.Y.(*ssa.Const); isC {
				continue
			}
			k := lg.key(bo)
			ab, ao := lg.term(bo.X)
			bb, bo2 := lg.term(bo.Y)
			if entails(cs, "0", bb, bo2) { // b >= 0
				out = append(out, diffC{k, ab, ao})
			}
			if entails(cs, bb, ab, ao-bo2) { // b <= a
				out = append(out, diffC{"0", k, 0})
			}
			// exact relation when b is known relative to a by a constant is covered by the two above for our uses
		}
	}
	return lg.sumFacts(out)
}

// sumFacts: for v = a + i (both variables): a >= 0 and i >= 0 give v >= 0 and v >= a; and when i is known to be
// below the length of x[a:] (the index of a range over the rest of x), v is below the length of x:
// `for i := range xs[k:] { ... xs[k+i] ... }`.
func (lg *ledger) sumFacts(cs []diffC) []diffC {
	out := cs
	var rests []*ssa.Slice
	for _, blk := range lg.fn.Blocks {
		for _, ins := range blk.Instrs {
			if sl, ok := ins.(*ssa.Slice); ok && sl.Low != nil && sl.High == nil && sl.Max == nil {
				if _, isC := sl.Low.(*ssa.Const); !isC {
					if _, isStr := sl.X.Type().Underlying().(*types.Basic); isStr || isSliceType(sl.X.Type()) {
						rests = append(rests, sl)
					}
				}
			}
		}
	}
	for _, blk := range lg.fn.Blocks {
		for _, ins := range blk.Instrs {
			bo, ok := ins.(*ssa.BinOp)
			if !ok || bo.Op != token.ADD || !isIntType(bo.Type()) {
				continue
			}
			if _, isC := bo.Y.(*ssa.Const); isC {
				continue
			}
			if _, isC := bo.X.(*ssa.Const); isC {
				continue
			}
			v := lg.key(bo)
			for _, pr := range [][2]ssa.Value{{bo.X, bo.Y}, {bo.Y, bo.X}} {
				a, i := pr[0], pr[1]
				ab, ao := lg.term(a)
				ib, io := lg.term(i)
				aNonNeg := entails(cs, "0", ab, ao)
				iNonNeg := entails(cs, "0", ib, io)
				if aNonNeg && iNonNeg {
					out = append(out, diffC{"0", v, 0})
				}
				if iNonNeg {
					out = append(out, diffC{ab, v, -ao}) // a <= v
				}
				for _, sl := range rests {
					lb, lo := lg.term(sl.Low)
					if lb != ab || lo != ao {
						continue
					}
					lenS := "len(" + lg.key(sl) + ")"
					// i <= len(x[a:]) - 1  =>  a + i <= len(x) - 1   (x[a:] was taken without panicking: a <= len(x))
					if entails(cs, ib, lenS, -1-io) {
						out = append(out, diffC{v, "len(" + lg.key(sl.X) + ")", -1})
					}
				}
			}
		}
	}
	return out
}

// callerFacts: difference constraints over the parameters of lg.fn that hold at every static call
// site of the function (an unexported function of the module with at most four call sites): the
// facts known at each site are restated by replacing the key of each argument by the key of the
// parameter it is bound to, and only what all sites agree on is kept.
func (lg *ledger) callerFacts() []diffC {
	if lg.depth >= 2 || lg.fn.Parent() != nil || !inModule(lg.fn) {
		return nil
	}
	if o := lg.fn.Object(); o == nil || o.Exported() {
		return nil
	}
	sites := lg.w.staticCallSites(lg.fn)
	if len(sites) == 0 || len(sites) > 4 {
		return nil
	}
	type key struct{ x, y string }
	var agreed map[key]int64
	for si, st := range sites {
		args := st.Common().Args
		if len(args) != len(lg.fn.Params) || st.Parent() == lg.fn {
			return nil
		}
		l2 := newLedger(lg.w, st.Parent())
		l2.depth = lg.depth + 1
		type rep struct{ from, to string }
		var reps []rep
		// an int argument base+k: the term `base` of the caller is the parameter minus k
		exact := map[string]struct {
			to  string
			off int64
		}{}
		for i, prm := range lg.fn.Params {
			ak := l2.key(args[i])
			if ak == "" || strings.HasPrefix(ak, "const(") || ak == "nil" {
				continue
			}
			reps = append(reps, rep{ak, lg.key(prm)})
			if isIntType(prm.Type()) {
				if ab, ao := l2.term(args[i]); ab != "0" {
					exact[ab] = struct {
						to  string
						off int64
					}{lg.key(prm), ao}
				}
			}
		}
		// a pointer to a struct built at the call site whose fields nobody writes after construction: what the
		// callee reads through the parameter is what the literal stored (args := &callArgs{node: node}; args.bind(...))
		for i, prm := range lg.fn.Params {
			al, isAlloc := args[i].(*ssa.Alloc)
			if !isAlloc {
				continue
			}
			pt, isPtr := al.Type().Underlying().(*types.Pointer)
			if !isPtr {
				continue
			}
			nt, isNamed := pt.Elem().(*types.Named)
			sty, isStruct := pt.Elem().Underlying().(*types.Struct)
			if !isNamed || !isStruct {
				continue
			}
			for fi := 0; fi < sty.NumFields(); fi++ {
				if !lg.w.fieldSetOnlyAtConstruction(nt, fi) {
					continue
				}
				var init ssa.Value
				var initAt *ssa.Store
				n := 0
				for _, ref := range *al.Referrers() {
					fa, isFA := ref.(*ssa.FieldAddr)
					if !isFA || fa.Field != fi {
						continue
					}
					for _, r2 := range *fa.Referrers() {
						if sto, isSt := r2.(*ssa.Store); isSt && sto.Addr == ssa.Value(fa) {
							init, initAt = sto.Val, sto
							n++
						}
					}
				}
				if n != 1 || init == nil {
					continue
				}
				// the store comes before the call
				if initAt.Block() == st.Block() {
					before := false
					for _, ins := range st.Block().Instrs {
						if ins == ssa.Instruction(initAt) {
							before = true
						}
						if ins == st.(ssa.Instruction) {
							break
						}
					}
					if !before {
						continue
					}
				} else if !initAt.Block().Dominates(st.Block()) {
					continue
				}
				ik := l2.key(init)
				if ik == "" || strings.HasPrefix(ik, "const(") || ik == "nil" {
					continue
				}
				reps = append(reps, rep{ik, fmt.Sprintf("load(%s.%d)", lg.key(prm), fi)})
			}
		}
		sort.Slice(reps, func(i, j int) bool { return len(reps[i].from) > len(reps[j].from) })
		// tr: the term in the callee's vocabulary, and the constant d with  callerTerm = calleeTerm - d
		tr := func(s string) (string, int64, bool) {
			if e, ok := exact[s]; ok {
				return e.to, e.off, true
			}
			hit := false
			for _, r := range reps {
				if strings.Contains(s, r.from) {
					s = strings.ReplaceAll(s, r.from, r.to)
					hit = true
				}
			}
			return s, 0, hit
		}
		here := map[key]int64{}
		// the closure of what the caller knows, between the terms that are about the arguments (and 0)
		cs := l2.subFacts(l2.boundFacts(st.Block()))
		idx := map[string]int{}
		var names []string
		id := func(t string) int {
			if i, ok := idx[t]; ok {
				return i
			}
			idx[t] = len(names)
			names = append(names, t)
			return idx[t]
		}
		id("0")
		for _, f := range cs {
			id(f.x)
			id(f.y)
		}
		n := len(names)
		if n > 80 {
			return nil
		}
		const inf = int64(1) << 60
		d := make([][]int64, n)
		for i := range d {
			d[i] = make([]int64, n)
			for j := range d[i] {
				if i != j {
					d[i][j] = inf
				}
			}
		}
		for _, f := range cs {
			if i, j := idx[f.x], idx[f.y]; f.c < d[i][j] {
				d[i][j] = f.c
			}
		}
		for m := 0; m < n; m++ {
			for i := 0; i < n; i++ {
				for j := 0; j < n; j++ {
					if d[i][m] < inf && d[m][j] < inf && d[i][m]+d[m][j] < d[i][j] {
						d[i][j] = d[i][m] + d[m][j]
					}
				}
			}
		}
		for i := 0; i < n; i++ {
			x, dx, hx := tr(names[i])
			if !hx && names[i] != "0" {
				continue
			}
			for j := 0; j < n; j++ {
				if i == j || d[i][j] >= inf {
					continue
				}
				y, dy, hy := tr(names[j])
				if (!hy && names[j] != "0") || (!hx && !hy) {
					continue
				}
				// (x - dx) - (y - dy) <= d  =>  x - y <= d + dx - dy
				c2 := d[i][j] + dx - dy
				k := key{x, y}
				if c, ok := here[k]; !ok || c2 < c {
					here[k] = c2
				}
			}
		}
		if si == 0 {
			agreed = here
			continue
		}
		for k, c := range agreed {
			c2, ok := here[k]
			if !ok {
				delete(agreed, k)
			} else if c2 > c {
				agreed[k] = c2 // the weaker of the two
			}
		}
	}
	var out []diffC
	for k, c := range agreed {
		out = append(out, diffC{k.x, k.y, c})
	}
	sort.Slice(out, func(i, j int) bool {
		if out[i].x != out[j].x {
			return out[i].x < out[j].x
		}
		return out[i].y < out[j].y
	})
	return out
}

// domFacts: the branch facts that dominate b, plus those assumed for the proof in progress (one incoming edge).
func (lg *ledger) domFacts(b *ssa.BasicBlock) []edgeFact {
	fs := dominatingFacts(b)
	if len(lg.extra) > 0 {
		fs = append(append([]edgeFact(nil), fs...), lg.extra...)
	}
	return fs
}

// inBounds: 0 <= i < lenTerm at block b.
func (lg *ledger) inBounds(i ssa.Value, lenKey string, b *ssa.BasicBlock) (bool, string) {
	cs := lg.subFacts(lg.boundFacts(b))
	ib, io := lg.term(i)
	lower := entails(cs, "0", ib, io)       // 0 - ib <= io   i.e. ib + io >= 0
	upper := entails(cs, ib, lenKey, -io-1) // ib - len <= -io-1  i.e. ib+io <= len-1
	if !(lower && upper) && len(b.Preds) > 1 && len(lg.extra) == 0 {
		// no single fact covers every way into the block: each incoming edge on its own
		all := true
		phi, _ := i.(*ssa.Phi)
		if phi != nil && phi.Block() != b {
			phi = nil
		}
		for k, pr := range b.Preds {
			lg.extra = edgeFacts(pr, b)
			cs2 := lg.subFacts(lg.boundFacts(pr))
			lg.extra = nil
			ib, io := ib, io
			if phi != nil && k < len(phi.Edges) {
				// the index is the value that comes in over this edge (i, or the i+1 of a guarded step)
				ib, io = lg.term(phi.Edges[k])
			}
			if !(entails(cs2, "0", ib, io) && entails(cs2, ib, lenKey, -io-1)) {
				all = false
				break
			}
		}
		if all {
			return true, "0 <= index < length on every incoming edge"
		}
	}
	switch {
	case lower && upper:
		return true, "0 <= index < length by the dominating comparisons"
	case !lower && !upper:
		return false, "neither bound is established"
	case !lower:
		return false, "no lower bound (index may be negative)"
	}
	return false, "no upper bound"
}

func sortStrings(s []string) []string { sort.Strings(s); return s }

// staticKindOf: v is an interface made from a concrete (non-interface) value;
// its reflect.Kind follows from the static type.
func staticKindOf(v ssa.Value) (int, bool) {
	mi, ok := v.(*ssa.MakeInterface)
	if !ok {
		return 0, false
	}
	switch t := mi.X.Type().Underlying().(type) {
	case *types.Pointer:
		return kPtr, true
	case *types.Map:
		return kMap, true
	case *types.Slice:
		return kSlice, true
	case *types.Struct:
		return kStruct, true
	case *types.Array:
		return kArray, true
	case *types.Signature:
		return kFunc, true
	case *types.Chan:
		return kChan, true
	case *types.Basic:
		if t.Info()&types.IsString != 0 {
			return kString, true
		}
		if t.Kind() == types.Bool {
			return kBool, true
		}
		if t.Kind() == types.Int {
			return kInt, true
		}
	}
	return 0, false
}

// elementOfReflectSlice: v is loaded from an element of the []reflect.Value
// returned by Value.Call or Value.MapKeys.
func elementOfReflectSlice(v ssa.Value) string {
	ld, ok := v.(*ssa.UnOp)
	if !ok || ld.Op != token.MUL {
		return ""
	}
	ia, ok := ld.X.(*ssa.IndexAddr)
	if !ok {
		return ""
	}
	src := ia.X
	// a slice handed to a single-use helper is the slice its one call site passes
	for i := 0; i < 3; i++ {
		prm, isP := src.(*ssa.Parameter)
		if !isP {
			break
		}
		a := singleSiteArg(prm)
		if a == nil {
			break
		}
		src = a
	}
	for _, n := range []string{"Call", "MapKeys"} {
		if _, _, ok := reflectValueCall(src, n); ok {
			return "reflect.Value." + n
		}
	}
	return ""
}

// mapKeysSource: k is an element of m.MapKeys(); returns m.
func mapKeysSource(k ssa.Value) ssa.Value {
	ld, ok := k.(*ssa.UnOp)
	if !ok || ld.Op != token.MUL {
		return nil
	}
	ia, ok := ld.X.(*ssa.IndexAddr)
	if !ok {
		return nil
	}
	if recv, _, ok := reflectValueCall(ia.X, "MapKeys"); ok {
		return recv
	}
	return nil
}

// nonNegPhis: the int phis that are provably >= 0 by induction: every input
// is a non-negative constant, a length, or a non-negative phi plus a
// non-negative constant (greatest fixpoint).
func (lg *ledger) nonNegPhis() map[*ssa.Phi]int64 {
	cand := map[*ssa.Phi]bool{}
	rangeIdx := map[*ssa.Phi]bool{}
	for _, b := range lg.fn.Blocks {
		for _, ins := range b.Instrs {
			if phi, ok := ins.(*ssa.Phi); ok && isIntType(phi.Type()) {
				cand[phi] = true
			}
		}
	}
	var nonNegVal func(v ssa.Value) bool
	nonNegVal = func(v ssa.Value) bool {
		switch x := v.(type) {
		case *ssa.Const:
			if x.Value != nil && x.Value.Kind() == constant.Int {
				k, _ := constant.Int64Val(x.Value)
				return k >= 0
			}
		case *ssa.Phi:
			return cand[x] && !rangeIdx[x]
		case *ssa.BinOp:
			if x.Op == token.ADD {
				// (rangeindex phi) + 1 >= 0
				if phi, ok := x.X.(*ssa.Phi); ok && rangeIdx[phi] && cand[phi] {
					if c, isC := x.Y.(*ssa.Const); isC && c.Value != nil {
						if k, _ := constant.Int64Val(c.Value); k >= 1 {
							return true
						}
					}
				}
				return nonNegVal(x.X) && nonNegVal(x.Y)
			}
		case *ssa.Call:
			n := pureCallName(x)
			return n == "len" || n == "cap" || n == "Len" || n == "Type.NumIn"
		}
		return false
	}
	for changed := true; changed; {
		changed = false
		for phi := range cand {
			for _, e := range phi.Edges {
				ok := nonNegVal(e)
				// the rotated range loop: phi(-1, phi+1) used only as phi+1
				if !ok {
					if c, isC := e.(*ssa.Const); isC && c.Value != nil {
						if k, _ := constant.Int64Val(c.Value); k == -1 && strings.HasPrefix(phi.Comment, "rangeindex") {
							rangeIdx[phi] = true
							continue
						}
					}
					delete(cand, phi)
					changed = true
					break
				}
			}
		}
	}
	out := map[*ssa.Phi]int64{}
	for phi := range cand {
		if rangeIdx[phi] {
			out[phi] = -1
		} else {
			out[phi] = 0
		}
	}
	return out
}

// fieldNonNeg: an int field of a module struct that is never assigned
// anything but increments, and starts at its zero value or a non-negative constant.
func (w *World) fieldNonNeg(fa *ssa.FieldAddr) bool {
	st, ok := deref(fa.X.Type()).Underlying().(*types.Struct)
	if !ok || fa.Field >= st.NumFields() {
		return false
	}
	fld := st.Field(fa.Field)
	if fld.Pkg() == nil || !strings.HasPrefix(fld.Pkg().Path(), modPath) {
		return false
	}
	if w.nonNegFields == nil {
		w.nonNegFields = map[*types.Var]int{}
	}
	if v, ok := w.nonNegFields[fld]; ok {
		return v == 1
	}
	res := 1
	for _, p := range w.All {
		sp := w.SSA().Package(p.Types)
		if sp == nil {
			continue
		}
		for _, fn := range allFuncsOf(w, sp) {
			for _, b := range fn.Blocks {
				for _, ins := range b.Instrs {
					stt, ok := ins.(*ssa.Store)
					if !ok {
						continue
					}
					fa2, ok := stt.Addr.(*ssa.FieldAddr)
					if !ok {
						continue
					}
					st2, ok := deref(fa2.X.Type()).Underlying().(*types.Struct)
					if !ok || fa2.Field >= st2.NumFields() || st2.Field(fa2.Field) != fld {
						continue
					}
					// allowed: field = field + c (c >= 0), or a non-negative constant
					okStore := false
					if c, isC := stt.Val.(*ssa.Const); isC && c.Value != nil && c.Value.Kind() == constant.Int {
						if k, _ := constant.Int64Val(c.Value); k >= 0 {
							okStore = true
						}
					}
					if bo, isB := stt.Val.(*ssa.BinOp); isB && bo.Op == token.ADD {
						if ld, isL := bo.X.(*ssa.UnOp); isL && ld.Op == token.MUL {
							if fa3, isF := ld.X.(*ssa.FieldAddr); isF && fa3.Field == fa2.Field && fa3.X == fa2.X {
								if c, isC := bo.Y.(*ssa.Const); isC && c.Value != nil {
									if k, _ := constant.Int64Val(c.Value); k >= 0 {
										okStore = true
									}
								}
							}
						}
					}
					if !okStore {
						res = 0
					}
				}
			}
		}
	}
	w.nonNegFields[fld] = res
	return res == 1
}

func allFuncsOf(w *World, sp *ssa.Package) []*ssa.Function {
	var out []*ssa.Function
	seen := map[*ssa.Function]bool{}
	var add func(f *ssa.Function)
	add = func(f *ssa.Function) {
		if f == nil || seen[f] || f.Blocks == nil {
			return
		}
		seen[f] = true
		out = append(out, f)
		for _, a := range f.AnonFuncs {
			add(a)
		}
	}
	for _, m := range sp.Members {
		if f, ok := m.(*ssa.Function); ok {
			add(f)
		}
		if t, ok := m.(*ssa.Type); ok {
			for _, tt := range []types.Type{t.Type(), types.NewPointer(t.Type())} {
				ms := w.SSA().MethodSets.MethodSet(tt)
				for i := 0; i < ms.Len(); i++ {
					add(w.SSA().MethodValue(ms.At(i)))
				}
			}
		}
	}
	return out
}

// singleStoreCell: a local cell (a parameter or variable captured by a closure)
// that is stored exactly once in its function and never through a closure.
// cellValue: ld loads a local variable that is written exactly once (it lives in a cell because a
// closure captures it) and that write comes before the load on every path: the value written.
func cellValue(ld *ssa.UnOp) ssa.Value {
	if fv, isFV := ld.X.(*ssa.FreeVar); isFV && ld.Op == token.MUL {
		// inside the closure: the captured variable, if the enclosing function writes it exactly once,
		// before the closure is made
		mc, al := closureBinding(fv)
		if mc == nil || al == nil {
			return nil
		}
		if !singleStoreCell(al) {
			// written several times: the write that reaches the place where the closure is made, provided
			// no write can follow it once the closure exists
			if v := reachingStore(al, mc, true); v != nil {
				return v
			}
			// or what the enclosing function itself last read from the variable before it made the closure
			if rep := cellEpochLoad(al, mc, true); rep != nil {
				return rep
			}
			return nil
		}
		for _, ref := range *al.Referrers() {
			st, ok := ref.(*ssa.Store)
			if !ok || st.Addr != ssa.Value(al) {
				continue
			}
			if st.Block() == mc.Block() {
				for _, ins := range st.Block().Instrs {
					if ins == ssa.Instruction(st) {
						return st.Val
					}
					if ins == ssa.Instruction(mc) {
						return nil
					}
				}
			}
			if st.Block().Dominates(mc.Block()) {
				return st.Val
			}
		}
		return nil
	}
	al, ok := ld.X.(*ssa.Alloc)
	if !ok || ld.Op != token.MUL {
		return nil
	}
	if !singleStoreCell(al) {
		if v := reachingStore(al, ld, false); v != nil {
			return v
		}
		// several writes may reach the load (an if that re-assigns the variable): the load still equals an
		// earlier load of the variable when no write can run between the two
		if rep := cellEpochLoad(al, ld, false); rep != nil {
			return rep
		}
		return nil
	}
	for _, ref := range *al.Referrers() {
		st, ok := ref.(*ssa.Store)
		if !ok || st.Addr != ssa.Value(al) {
			continue
		}
		if st.Block() == ld.Block() {
			for _, ins := range st.Block().Instrs {
				if ins == ssa.Instruction(st) {
					return st.Val
				}
				if ins == ssa.Instruction(ld) {
					return nil
				}
			}
		}
		if st.Block().Dominates(ld.Block()) {
			return st.Val
		}
	}
	return nil
}

// reachingStore: the cell al (a local that lives in memory because a closure captures it) is written
// several times by its function and by nothing else; returns the value of the one write that reaches
// the instruction at, or nil when that is not a single write. With noLater (at is the place where a
// closure is made, the question is what the closure will read) no write may be reachable from at.
func reachingStore(al *ssa.Alloc, at ssa.Instruction, noLater bool) ssa.Value {
	if al.Referrers() == nil || at == nil || at.Block() == nil {
		return nil
	}
	var stores []*ssa.Store
	for _, ref := range *al.Referrers() {
		switch x := ref.(type) {
		case *ssa.Store:
			if x.Addr != ssa.Value(al) {
				return nil // the address itself is stored somewhere
			}
			stores = append(stores, x)
		case *ssa.UnOp, *ssa.DebugRef:
		case *ssa.MakeClosure:
			fn, ok := x.Fn.(*ssa.Function)
			if !ok {
				return nil
			}
			for i, b := range x.Bindings {
				if b != ssa.Value(al) || i >= len(fn.FreeVars) {
					continue
				}
				for _, r2 := range *fn.FreeVars[i].Referrers() {
					if st, ok := r2.(*ssa.Store); ok && st.Addr == ssa.Value(fn.FreeVars[i]) {
						return nil // the closure writes the variable
					}
					if _, ok := r2.(*ssa.MakeClosure); ok {
						return nil
					}
				}
			}
		default:
			return nil
		}
	}
	pos := func(ins ssa.Instruction) int {
		for i, x := range ins.Block().Instrs {
			if x == ins {
				return i
			}
		}
		return -1
	}
	before := func(a, b ssa.Instruction) bool { // a is executed before b on every path to b
		if a.Block() == b.Block() {
			return pos(a) < pos(b)
		}
		return a.Block().Dominates(b.Block())
	}
	inLoop := func(b *ssa.BasicBlock) bool { return blockReaches(b, b, true) }
	// the latest write before at
	var best *ssa.Store
	for _, st := range stores {
		if !before(st, at) {
			continue
		}
		if best == nil || before(best, st) {
			best = st
		}
	}
	if best == nil {
		return nil
	}
	for _, st := range stores {
		if st == best {
			continue
		}
		if before(st, best) && !inLoop(best.Block()) {
			continue // overwritten by best
		}
		// any other write must be unable to run between best and at (or, with noLater, after at)
		if st.Block() == at.Block() {
			if pos(st) > pos(at) && !inLoop(at.Block()) && !noLater {
				continue
			}
			return nil
		}
		if blockReaches(st.Block(), at.Block(), true) || (before(st, best) && inLoop(best.Block())) {
			return nil
		}
		if noLater && blockReaches(at.Block(), st.Block(), true) {
			return nil
		}
	}
	if noLater && inLoop(at.Block()) {
		for _, st := range stores {
			if st != best && st.Block() == at.Block() {
				return nil
			}
		}
	}
	return best.Val
}

// cellStores: the writes to the cell al by its own function, when nothing else can write it (its
// address is not stored anywhere and the closures that capture it only read it).
func cellStores(al *ssa.Alloc) ([]*ssa.Store, bool) {
	if al.Referrers() == nil {
		return nil, false
	}
	var stores []*ssa.Store
	for _, ref := range *al.Referrers() {
		switch x := ref.(type) {
		case *ssa.Store:
			if x.Addr != ssa.Value(al) {
				return nil, false
			}
			stores = append(stores, x)
		case *ssa.UnOp, *ssa.DebugRef:
		case *ssa.MakeClosure:
			fn, ok := x.Fn.(*ssa.Function)
			if !ok {
				return nil, false
			}
			for i, b := range x.Bindings {
				if b != ssa.Value(al) || i >= len(fn.FreeVars) {
					continue
				}
				for _, r2 := range *fn.FreeVars[i].Referrers() {
					if st, ok := r2.(*ssa.Store); ok && st.Addr == ssa.Value(fn.FreeVars[i]) {
						return nil, false
					}
					if _, ok := r2.(*ssa.MakeClosure); ok {
						return nil, false
					}
				}
			}
		default:
			return nil, false
		}
	}
	return stores, true
}

// cellEpochLoad: the earliest load of the cell that is executed before at on every path and is
// separated from at by no write to the cell (with noLater: and no write can follow at); the value
// in the cell at `at` is the value that load read. nil when there is none (or only at itself).
func cellEpochLoad(al *ssa.Alloc, at ssa.Instruction, noLater bool) *ssa.UnOp {
	stores, ok := cellStores(al)
	if !ok || at == nil || at.Block() == nil {
		return nil
	}
	pos := func(ins ssa.Instruction) int {
		for i, x := range ins.Block().Instrs {
			if x == ins {
				return i
			}
		}
		return -1
	}
	before := func(a, b ssa.Instruction) bool {
		if a.Block() == b.Block() {
			return pos(a) < pos(b)
		}
		return a.Block().Dominates(b.Block())
	}
	mayReach := func(a, b ssa.Instruction) bool {
		if a.Block() == b.Block() {
			return pos(a) < pos(b) || blockReaches(a.Block(), a.Block(), true)
		}
		return blockReaches(a.Block(), b.Block(), true)
	}
	if noLater {
		for _, st := range stores {
			if mayReach(at, st) {
				return nil
			}
		}
	}
	var best *ssa.UnOp
	for _, ref := range *al.Referrers() {
		ld, isLd := ref.(*ssa.UnOp)
		if !isLd || ld.Op != token.MUL || ssa.Instruction(ld) == at || !before(ld, at) {
			continue
		}
		clean := true
		for _, st := range stores {
			if mayReach(ld, st) && mayReach(st, at) {
				clean = false
				break
			}
		}
		if clean && (best == nil || before(ld, best)) {
			best = ld
		}
	}
	return best
}

// closureBinding: the one place where the closure owning fv is made, and the cell bound to fv there.
func closureBinding(fv *ssa.FreeVar) (*ssa.MakeClosure, *ssa.Alloc) {
	fn := fv.Parent()
	if fn == nil || fn.Parent() == nil {
		return nil, nil
	}
	idx := -1
	for i, v := range fn.FreeVars {
		if v == fv {
			idx = i
		}
	}
	var site *ssa.MakeClosure
	for _, b := range fn.Parent().Blocks {
		for _, ins := range b.Instrs {
			if mc, ok := ins.(*ssa.MakeClosure); ok && mc.Fn == ssa.Value(fn) {
				if site != nil {
					return nil, nil
				}
				site = mc
			}
		}
	}
	if site == nil || idx < 0 || idx >= len(site.Bindings) {
		return nil, nil
	}
	al, _ := site.Bindings[idx].(*ssa.Alloc)
	return site, al
}

// closureSite: where the function literal fn is turned into a value (exactly one place), or nil.
func closureSite(fn *ssa.Function) *ssa.MakeClosure {
	if fn == nil || fn.Parent() == nil {
		return nil
	}
	var site *ssa.MakeClosure
	for _, b := range fn.Parent().Blocks {
		for _, ins := range b.Instrs {
			if mc, ok := ins.(*ssa.MakeClosure); ok && mc.Fn == ssa.Value(fn) {
				if site != nil {
					return nil
				}
				site = mc
			}
		}
	}
	return site
}

// possibleCallees: the functions a call of the function value v may run, when v is (a phi / a
// write-once variable of) closures made in this function; nil when that is not known.
func possibleCallees(v ssa.Value, depth int) []*ssa.Function {
	if depth > 4 {
		return nil
	}
	v = throughCell(v)
	switch x := v.(type) {
	case *ssa.MakeClosure:
		if f, ok := x.Fn.(*ssa.Function); ok {
			return []*ssa.Function{f}
		}
	case *ssa.Function:
		return []*ssa.Function{x}
	case *ssa.Phi:
		var out []*ssa.Function
		for _, e := range x.Edges {
			fs := possibleCallees(e, depth+1)
			if fs == nil {
				return nil
			}
			out = append(out, fs...)
		}
		return out
	}
	return nil
}

func singleStoreCell(al *ssa.Alloc) bool {
	stores := 0
	for _, ref := range *al.Referrers() {
		switch x := ref.(type) {
		case *ssa.Store:
			if x.Addr == ssa.Value(al) {
				stores++
			} else {
				return false // the address itself is stored somewhere
			}
		case *ssa.UnOp:
		case *ssa.MakeClosure:
			// find the free variable bound to this cell and look for stores through it
			fn, ok := x.Fn.(*ssa.Function)
			if !ok {
				return false
			}
			for i, b := range x.Bindings {
				if b != ssa.Value(al) || i >= len(fn.FreeVars) {
					continue
				}
				fv := fn.FreeVars[i]
				for _, r2 := range *fv.Referrers() {
					if st, ok := r2.(*ssa.Store); ok && st.Addr == ssa.Value(fv) {
						return false
					}
					if _, ok := r2.(*ssa.MakeClosure); ok {
						return false
					}
				}
			}
		case *ssa.DebugRef:
		default:
			return false
		}
	}
	return stores == 1
}

// disjunctiveFacts: for a bool phi known to be `truth` with several feasible
// incoming edges, the alternatives: for each feasible edge, the facts that
// hold if control came that way.
func disjunctiveFacts(b *ssa.BasicBlock) [][]edgeFact {
	var raw []edgeFact
	for cur := b; cur != nil; cur = cur.Idom() {
		if len(cur.Preds) != 1 {
			continue
		}
		p := cur.Preds[0]
		if ifi, ok := p.Instrs[len(p.Instrs)-1].(*ssa.If); ok && p.Succs[0] != p.Succs[1] {
			raw = append(raw, edgeFact{ifi.Cond, p.Succs[0] == cur})
		}
	}
	for _, f := range raw {
		cond, truth := f.cond, f.truth
		for {
			u, ok := cond.(*ssa.UnOp)
			if !ok || u.Op != token.NOT {
				break
			}
			cond, truth = u.X, !truth
		}
		phi, ok := cond.(*ssa.Phi)
		if !ok {
			continue
		}
		var alts [][]edgeFact
		for i, e := range phi.Edges {
			if c, isC := e.(*ssa.Const); isC && c.Value != nil && c.Value.Kind() == constant.Bool {
				if constant.BoolVal(c.Value) != truth {
					continue
				}
				alts = append(alts, append([]edgeFact{}, edgeFactsInto(phi.Block().Preds[i], phi.Block())...))
				continue
			}
			fs := expandFact(edgeFact{e, truth}, 0, phi.Parent())
			fs = append(fs, edgeFactsInto(phi.Block().Preds[i], phi.Block())...)
			alts = append(alts, fs)
		}
		if len(alts) >= 2 {
			return alts
		}
	}
	return nil
}

// edgeFactsInto: facts that hold when control arrives from `from` at `to`.
func edgeFactsInto(from, to *ssa.BasicBlock) []edgeFact {
	out := edgeFacts(from, to)
	out = append(out, dominatingFacts(from)...)
	return out
}

// proveAny: under each alternative of a disjunctive guard, one of the predicates holds.
func (lg *ledger) proveAnyUnderAlternatives(b *ssa.BasicBlock, try func(ctx *proofCtx) bool) bool {
	alts := disjunctiveFacts(b)
	if alts == nil {
		return false
	}
	for _, fs := range alts {
		ctx := &proofCtx{visited: map[string]bool{}, done: map[string]string{}, failed: map[string]bool{}, nilPhis: map[*ssa.Phi]bool{}, extra: fs}
		if !try(ctx) {
			return false
		}
	}
	return true
}

func isSliceType(t types.Type) bool {
	_, ok := t.Underlying().(*types.Slice)
	return ok
}

// kindPredicate: for a boolean function g of the module and its reflect.Value parameter number i, the
// kinds (bit set) the argument can have when g returns true and when it returns false: on every path
// of g the kind tests it passes narrow the set; a path that returns the value of a last kind test
// contributes to both. ok = false when nothing is learnt.
func (w *World) kindPredicate(g *ssa.Function, i int) (whenTrue, whenFalse uint64, ok bool) {
	type res struct {
		t, f uint64
		ok   bool
	}
	key := fmt.Sprintf("kindPredicate|%p|%d", g, i)
	if v, hit := w.predSubst.Load(key); hit {
		r := v.(res)
		return r.t, r.f, r.ok
	}
	out := res{}
	defer func() { w.predSubst.Store(key, out) }()
	if funcHasLoop(g) || i >= len(g.Params) {
		return 0, 0, false
	}
	paths, walked := walkPaths(g, nil, nil)
	if !walked || len(paths) == 0 || len(paths) > 256 {
		return 0, 0, false
	}
	lg := newLedger(w, g)
	subject := ssa.Value(g.Params[i])
	all := ^uint64(0)
	for _, p := range paths {
		if p.end != "return" || len(p.results) != 1 {
			return 0, 0, false
		}
		set := all
		for _, d := range p.decisions {
			if ks, known := lg.kindFact(d.cond, d.truth, subject, false); known {
				set &= ks
			}
		}
		r := p.resolve(p.results[0])
		if c, isConst := p.constOf(r); isConst && c.Kind() == constant.Bool {
			if constant.BoolVal(c) {
				out.t |= set
			} else {
				out.f |= set
			}
			continue
		}
		neg := false
		for {
			u, isNot := r.(*ssa.UnOp)
			if !isNot || u.Op != token.NOT {
				break
			}
			r, neg = p.resolve(u.X), !neg
		}
		st, sf := set, set
		if ks, known := lg.kindFact(r, !neg, subject, false); known {
			st &= ks
		}
		if ks, known := lg.kindFact(r, neg, subject, false); known {
			sf &= ks
		}
		out.t |= st
		out.f |= sf
	}
	out.ok = out.t != all || out.f != all
	return out.t, out.f, out.ok
}

// variadicParam: prm is a reflect.Type parameter and at every call site of its function (by name or
// through a value of it; the set must be complete) IsVariadic() of the argument is known to be true.
func (w *World) variadicParam(prm *ssa.Parameter, depth int) bool {
	key := fmt.Sprintf("variadicParam|%p", prm)
	if v, hit := w.predSubst.Load(key); hit {
		return v.(bool)
	}
	res := false
	defer func() { w.predSubst.Store(key, res) }()
	fn := prm.Parent()
	if fn == nil || depth > 3 || !namedIs(prm.Type(), "reflect", "Type") {
		return false
	}
	idx := -1
	for i, q := range fn.Params {
		if q == prm {
			idx = i
		}
	}
	sites, complete := w.callSitesAll(fn)
	if idx < 0 || !complete || len(sites) == 0 {
		return false
	}
	for _, st := range sites {
		if idx >= len(st.args) {
			return false
		}
		l2 := newLedger(w, st.Parent())
		arg := throughCell(st.args[idx])
		found := false
		for _, f := range append(append([]edgeFact(nil), dominatingFacts(st.Block())...), st.assume...) {
			cond, truth := f.cond, f.truth
			for {
				u, ok := cond.(*ssa.UnOp)
				if !ok || u.Op != token.NOT {
					break
				}
				cond, truth = u.X, !truth
			}
			if r2, _, ok := reflectTypeInvoke(throughCell(cond), "IsVariadic"); ok && truth && l2.key(r2) == l2.key(arg) {
				found = true
			}
		}
		if !found {
			if p2, isP := arg.(*ssa.Parameter); isP && w.variadicParam(p2, depth+1) {
				found = true
			}
		}
		if !found {
			return false
		}
	}
	res = true
	return true
}

// staticRTypeOf: c is reflect.TypeOf(x) or reflect.ValueOf(x).Type() with x of a concrete static type: that type.
func staticRTypeOf(c *ssa.Call) types.Type {
	var operand ssa.Value
	if a, ok := reflectFunc(c, "TypeOf"); ok && len(a) == 1 {
		operand = a[0]
	} else if recv, _, ok := reflectValueCall(c, "Type"); ok {
		if a, ok := reflectFunc(throughCell(recv), "ValueOf"); ok && len(a) == 1 {
			operand = a[0]
		}
	}
	if operand == nil {
		// reflect.TypeOf((*T)(nil)).Elem(): the way to name an interface type
		if recv, _, ok := reflectTypeInvoke(c, "Elem"); ok {
			if rc, isCall := throughCell(recv).(*ssa.Call); isCall {
				if pt, isPtr := staticRTypeOf(rc).(*types.Pointer); isPtr {
					return pt.Elem()
				}
			}
			return nil
		}
		// a helper of the module without parameters that names a type: typeOf[T]() as instantiated
		if g := c.Call.StaticCallee(); g != nil && inModule(g) && len(g.Params) == 0 && len(g.Blocks) == 1 && len(c.Call.Args) == 0 {
			if ret, isRet := g.Blocks[0].Instrs[len(g.Blocks[0].Instrs)-1].(*ssa.Return); isRet && len(ret.Results) == 1 {
				if rc, isCall := ret.Results[0].(*ssa.Call); isCall && rc.Parent() == g {
					return staticRTypeOf(rc)
				}
			}
		}
		return nil
	}
	if mi, ok := throughCell(operand).(*ssa.MakeInterface); ok && !types.IsInterface(mi.X.Type()) {
		return mi.X.Type()
	}
	return nil
}

// rtypeKey: a canonical name for the reflect.Type value v when the type it describes is known statically:
// reflect.TypeOf(x) / reflect.ValueOf(x).Type() with x concrete, or a package variable initialised with one.
func (lg *ledger) rtypeKey(v ssa.Value) string {
	v = throughCell(v)
	switch x := v.(type) {
	case *ssa.Call:
		if st := staticRTypeOf(x); st != nil {
			return "rtype(" + types.TypeString(st, nil) + ")"
		}
	case *ssa.UnOp:
		if g, ok := x.X.(*ssa.Global); ok && x.Op == token.MUL && g.Pkg != nil && namedIs(x.Type(), "reflect", "Type") {
			if st := lg.w.globalInitStore(g); st != nil {
				return lg.rtypeKey(st.Val)
			}
		}
	}
	return ""
}

// rtypeKeyOfValue: the same for the type of the reflect.Value v (reflect.ValueOf(x) with x concrete).
func (lg *ledger) rtypeKeyOfValue(v ssa.Value) string {
	if a, ok := reflectFunc(throughCell(v), "ValueOf"); ok && len(a) == 1 {
		if mi, ok := throughCell(a[0]).(*ssa.MakeInterface); ok && !types.IsInterface(mi.X.Type()) {
			return "rtype(" + types.TypeString(mi.X.Type(), nil) + ")"
		}
	}
	return ""
}
