package main

import (
	"fmt"
	"go/ast"
	"go/token"
	"go/types"
	"os"
	"sort"
	"strings"
	"sync"

	"golang.org/x/tools/go/callgraph"
	"golang.org/x/tools/go/packages"
	"golang.org/x/tools/go/ssa"
	"golang.org/x/tools/go/ssa/ssautil"
)

const modPath = "github.com/gobuffalo/plush/v5"

// World is the type-checked program under analysis: every non-test package of
// the plush module as it stands in the working tree (plus optional in-memory
// overlays used by the mutant self-test).
type World struct {
	Dir    string
	Config string // description of the build configuration
	Fset   *token.FileSet
	Pkgs   map[string]*packages.Package // key: path relative to module ("" = root)
	All    []*packages.Package          // module packages, sorted

	allRoots       []*packages.Package
	cg             *callgraph.Graph
	reach          map[*ssa.Function]bool
	pm             *parserModel
	callSites      map[*ssa.Function][]ssa.CallInstruction
	fnFlowMemo     *fnFlowInfo
	lexModel       *lexSSAModel
	memo           map[string]interface{}
	coreMdl        *coreModel
	coreOnce       sync.Once
	postMemo       map[string]interface{}
	predSubst      sync.Map // parameter of a single-site predicate function -> the argument of that call
	globalInit     map[*ssa.Global]*ssa.Store
	globalInitDone map[*ssa.Global]bool
	memoMu         sync.Mutex
	callMdl        *callModel
	nonNegFields   map[*types.Var]int
	prog           *ssa.Program
	ssaPkgs        map[string]*ssa.Package
	parents        map[ast.Node]ast.Node
}

type LoadOpts struct {
	Dir     string
	Tags    string
	GOARCH  string
	Overlay map[string][]byte
}

func repoDir() string {
	if d := os.Getenv("PLUSH_REPO"); d != "" {
		return d
	}
	return "/repo"
}

// Load type-checks ./... of the module in dir. Any load or type error is
// returned: a static tool only sees what was parsed.
func Load(o LoadOpts) (*World, error) {
	if o.Dir == "" {
		o.Dir = repoDir()
	}
	env := []string{}
	for _, e := range os.Environ() {
		if strings.HasPrefix(e, "GOWORK=") || strings.HasPrefix(e, "GOFLAGS=") || strings.HasPrefix(e, "GOARCH=") {
			continue
		}
		env = append(env, e)
	}
	env = append(env, "GOFLAGS=-mod=mod", "GOPROXY=off", "GOSUMDB=off", "GOTOOLCHAIN=local", "GOWORK=off")
	if o.GOARCH != "" {
		env = append(env, "GOARCH="+o.GOARCH)
	}
	cfg := &packages.Config{
		Mode:    packages.LoadAllSyntax,
		Dir:     o.Dir,
		Env:     env,
		Tests:   false,
		Fset:    token.NewFileSet(),
		Overlay: o.Overlay,
	}
	if o.Tags != "" {
		cfg.BuildFlags = []string{"-tags=" + o.Tags}
	}
	pkgs, err := packages.Load(cfg, "./...")
	if err != nil {
		return nil, fmt.Errorf("packages.Load: %v", err)
	}
	w := &World{Dir: o.Dir, Fset: cfg.Fset, Pkgs: map[string]*packages.Package{}}
	w.Config = fmt.Sprintf("tags=%q GOARCH=%q overlay=%d", o.Tags, o.GOARCH, len(o.Overlay))
	var errs []string
	packages.Visit(pkgs, nil, func(p *packages.Package) {
		for _, e := range p.Errors {
			errs = append(errs, e.Error())
		}
	})
	if len(errs) > 0 {
		sort.Strings(errs)
		if len(errs) > 8 {
			errs = errs[:8]
		}
		return nil, fmt.Errorf("type-check errors: %s", strings.Join(errs, "; "))
	}
	for _, p := range pkgs {
		if p.PkgPath != modPath && !strings.HasPrefix(p.PkgPath, modPath+"/") {
			continue
		}
		rel := strings.TrimPrefix(strings.TrimPrefix(p.PkgPath, modPath), "/")
		w.Pkgs[rel] = p
		w.All = append(w.All, p)
	}
	sort.Slice(w.All, func(i, j int) bool { return w.All[i].PkgPath < w.All[j].PkgPath })
	if len(w.All) == 0 {
		return nil, fmt.Errorf("no packages of %s loaded from %s", modPath, o.Dir)
	}
	for _, need := range []string{"", "ast", "lexer", "parser", "token", "helpers", "helpers/hctx"} {
		if w.Pkgs[need] == nil {
			return nil, fmt.Errorf("package %q of the module not found", need)
		}
	}
	w.allRoots = pkgs
	return w, nil
}

// SSA builds (once) the SSA form of the whole program.
func (w *World) SSA() *ssa.Program {
	if w.prog != nil {
		return w.prog
	}
	prog, _ := ssautil.AllPackages(w.allRootsList(), ssa.InstantiateGenerics)
	prog.Build()
	w.prog = prog
	worldByProg.Store(prog, w)
	w.ssaPkgs = map[string]*ssa.Package{}
	for rel, p := range w.Pkgs {
		w.ssaPkgs[rel] = prog.Package(p.Types)
	}
	return prog
}

func (w *World) allRootsList() []*packages.Package { return w.allRoots }

func (w *World) SSAPkg(rel string) *ssa.Package {
	w.SSA()
	return w.ssaPkgs[rel]
}

// ---- positions ------------------------------------------------------------

func (w *World) Pos(p token.Pos) string {
	if !p.IsValid() {
		return "-"
	}
	pp := w.Fset.Position(p)
	f := strings.TrimPrefix(pp.Filename, w.Dir+"/")
	return fmt.Sprintf("%s:%d", f, pp.Line)
}

func (w *World) PosCol(p token.Pos) string {
	if !p.IsValid() {
		return "-"
	}
	pp := w.Fset.Position(p)
	f := strings.TrimPrefix(pp.Filename, w.Dir+"/")
	return fmt.Sprintf("%s:%d:%d", f, pp.Line, pp.Column)
}

// ---- declarations -----------------------------------------------------------

// FuncInfo bundles a function declaration with its package.
type FuncInfo struct {
	Pkg  *packages.Package
	Rel  string
	Decl *ast.FuncDecl
	Obj  *types.Func
}

func (f *FuncInfo) Name() string {
	if f == nil {
		return "<nil>"
	}
	n := f.Decl.Name.Name
	if r := recvTypeName(f.Decl); r != "" {
		n = r + "." + n
	}
	p := f.Rel
	if p == "" {
		p = "plush"
	}
	return p + "." + n
}

func recvTypeName(d *ast.FuncDecl) string {
	if d.Recv == nil || len(d.Recv.List) == 0 {
		return ""
	}
	t := d.Recv.List[0].Type
	if s, ok := t.(*ast.StarExpr); ok {
		t = s.X
	}
	if id, ok := t.(*ast.Ident); ok {
		return id.Name
	}
	return ""
}

// Funcs returns every function declaration (with a body) of package rel.
func (w *World) Funcs(rel string) []*FuncInfo {
	w.memoMu.Lock()
	if w.memo == nil {
		w.memo = map[string]interface{}{}
	}
	k := "Funcs/" + rel
	if v, ok := w.memo[k]; ok {
		w.memoMu.Unlock()
		return v.([]*FuncInfo)
	}
	w.memoMu.Unlock()
	v := w.FuncsUncached(rel)
	w.memoMu.Lock()
	w.memo[k] = v
	w.memoMu.Unlock()
	return v
}

func (w *World) FuncsUncached(rel string) []*FuncInfo {
	p := w.Pkgs[rel]
	if p == nil {
		return nil
	}
	var out []*FuncInfo
	for _, f := range p.Syntax {
		for _, d := range f.Decls {
			fd, ok := d.(*ast.FuncDecl)
			if !ok || fd.Body == nil {
				continue
			}
			obj, _ := p.TypesInfo.Defs[fd.Name].(*types.Func)
			out = append(out, &FuncInfo{Pkg: p, Rel: rel, Decl: fd, Obj: obj})
		}
	}
	return out
}

// AllFuncs returns the function declarations of every module package.
func (w *World) AllFuncs() []*FuncInfo {
	var out []*FuncInfo
	rels := []string{}
	for rel := range w.Pkgs {
		rels = append(rels, rel)
	}
	sort.Strings(rels)
	for _, rel := range rels {
		out = append(out, w.Funcs(rel)...)
	}
	return out
}

// Func finds a function or method by name: Func("parser","parser.parseExpression")
// or Func("lexer","New"). It is the by-name fallback; role-based anchors are
// preferred (see anchors.go).
func (w *World) Func(rel, name string) *FuncInfo {
	for _, f := range w.Funcs(rel) {
		n := f.Decl.Name.Name
		if r := recvTypeName(f.Decl); r != "" {
			n = r + "." + n
		}
		if n == name {
			return f
		}
	}
	return nil
}

// FuncOf returns the declaration of a types.Func of the module (nil otherwise).
func (w *World) FuncOf(obj *types.Func) *FuncInfo {
	if obj == nil || obj.Pkg() == nil {
		return nil
	}
	for rel, p := range w.Pkgs {
		if p.Types != obj.Pkg() {
			continue
		}
		for _, f := range w.Funcs(rel) {
			if f.Obj == obj {
				return f
			}
		}
	}
	return nil
}

// NamedType looks up a named type of a module package.
func (w *World) NamedType(rel, name string) *types.Named {
	p := w.Pkgs[rel]
	if p == nil {
		return nil
	}
	o := p.Types.Scope().Lookup(name)
	if o == nil {
		return nil
	}
	n, _ := o.Type().(*types.Named)
	return n
}

// Parent returns the syntactic parent of n (computed lazily for all files).
func (w *World) Parent(n ast.Node) ast.Node {
	if w.parents == nil {
		w.parents = map[ast.Node]ast.Node{}
		for _, p := range w.All {
			for _, f := range p.Syntax {
				var stack []ast.Node
				ast.Inspect(f, func(n ast.Node) bool {
					if n == nil {
						stack = stack[:len(stack)-1]
						return true
					}
					if len(stack) > 0 {
						w.parents[n] = stack[len(stack)-1]
					}
					stack = append(stack, n)
					return true
				})
			}
		}
	}
	return w.parents[n]
}

// EnclosingFunc returns the FuncDecl or FuncLit lexically enclosing n.
func (w *World) EnclosingFuncDecl(n ast.Node) *ast.FuncDecl {
	for p := w.Parent(n); p != nil; p = w.Parent(p) {
		if fd, ok := p.(*ast.FuncDecl); ok {
			return fd
		}
	}
	return nil
}

func (w *World) Src(n ast.Node) string {
	return nodeString(w.Fset, n)
}
