package main

// lexrules.go: the lexer rules of C03, C06, C15 and C18 on top of the SSA lexer
// model (lexssa.go).

import (
	"fmt"
	"go/constant"
	"go/token"
	"go/types"
	"sort"
	"strings"

	"golang.org/x/tools/go/ssa"
)

func (lm *lexSSAModel) ok() bool { return lm != nil && len(lm.problems) == 0 && lm.inside != nil }

func (lm *lexSSAModel) why() string { return "lexer model: " + strings.Join(lm.problems, "; ") }

// uniquePaths drops paths that are indistinguishable for reporting.
func uniquePaths(lm *lexSSAModel, ps []*lexTokPath) []*lexTokPath {
	seen := map[string]bool{}
	var out []*lexTokPath
	for _, p := range ps {
		k := lm.outcomeSig([]*lexTokPath{p})
		if !seen[k] {
			seen[k] = true
			out = append(out, p)
		}
	}
	return out
}

func (p *lexTokPath) describe() string {
	s := ""
	if len(p.peek) > 0 {
		var offs []int
		for o := range p.peek {
			offs = append(offs, o)
		}
		sort.Ints(offs)
		var bs []string
		for _, o := range offs {
			bs = append(bs, fmt.Sprintf("%q", rune(p.peek[o])))
		}
		s += " then " + strings.Join(bs, ",")
	}
	if p.typeOK {
		s += " -> " + p.tokType
	}
	return s
}

// ---- C03.R1 -------------------------------------------------------------------

func lexerEOFRuleSSA(r *Run, rule string) {
	w := r.W
	lm := w.lexSSA()
	if !lm.ok() {
		r.Lost(rule, lm.why())
		return
	}
	// (a) with the current character pinned to NUL (end of input) no loop can go round again
	nulHook := func(p *pwPath, ld *ssa.UnOp) (constant.Value, bool) {
		if lm.isFieldLoad(p, ld, lm.chIdx) {
			return constant.MakeInt64(0), true
		}
		return nil, false
	}
	nulSeed := func(p *pwPath, v ssa.Value) (constant.Value, bool) {
		if c, ok := v.(*ssa.Call); ok && c.Call.StaticCallee() == lm.peekChar {
			return constant.MakeInt64(0), true
		}
		return nil, false
	}
	// ... and the same for the loops that sit behind a decision on the current character (the arms of the token
	// switch): there the character is pinned to NUL behind the first cursor movement, so that every arm is entered
	// (the hooks run in the walker's worker goroutines: they keep no state of their own)
	moved := func(p *pwPath) bool {
		reads, _ := lm.moves(p, len(p.events))
		return reads > 0
	}
	armHook := func(p *pwPath, ld *ssa.UnOp) (constant.Value, bool) {
		// the input ends behind the first character the arm steps over: from then on the cursor reads NUL
		if lm.isFieldLoad(p, ld, lm.chIdx) && moved(p) {
			return constant.MakeInt64(0), true
		}
		return nil, false
	}
	armSeed := func(p *pwPath, v ssa.Value) (constant.Value, bool) {
		if c, ok := v.(*ssa.Call); ok && c.Call.StaticCallee() == lm.peekChar && moved(p) {
			return constant.MakeInt64(0), true
		}
		return nil, false
	}
	for _, f := range lm.m.methods {
		fn := w.SSAFunc(f)
		if fn == nil || !lm.hasLoop[fn] {
			continue
		}
		if fn == lm.inside || fn == lm.outer {
			apw := &pathWalker{loadHook: armHook, seed: armSeed, maxPaths: 200000, rounds: 2, inline: func(caller, callee *ssa.Function) bool {
				return pkgOf(callee) == fn.Pkg && callee != lm.readChar && callee != lm.peekChar && !lm.hasLoop[callee] && !funcHasLoop(callee) && callee != lm.inside && callee != lm.outer
			}}
			apw.walk(fn)
			armBad := false
			for _, p := range apw.paths {
				if p.end == "loop" && p.loopFree {
					armBad = true
					pos := fn.Pos()
					if p.loopHead != nil && len(p.loopHead.Instrs) > 0 {
						pos = firstPos(p.loopHead)
					}
					r.Bad(rule, f.Name(), "loop of a token arm at end of input", w.Pos(pos), "with the current character at the NUL sentinel (end of input) where the loop reads it, the loop goes round again without any open condition: a template that ends inside this token never finishes lexing")
					break
				}
			}
			if !armBad && !apw.overflow {
				r.Ok(rule, f.Name(), "loops of the token arms stop at end of input", w.Pos(fn.Pos()), "every arm entered; with ch = 0 (and peek = 0) inside the loops no loop header is reached twice without an open condition")
			}
		}
		pw := &pathWalker{loadHook: nulHook, seed: nulSeed, inline: func(caller, callee *ssa.Function) bool {
			return pkgOf(callee) == fn.Pkg && callee != lm.readChar && callee != lm.peekChar && !lm.hasLoop[callee] && !funcHasLoop(callee) && callee != lm.inside && callee != lm.outer
		}}
		pw.walk(fn)
		bad := false
		for _, p := range pw.paths {
			if p.end == "loop" && p.loopFree {
				bad = true
				pos := fn.Pos()
				if p.loopHead != nil && len(p.loopHead.Instrs) > 0 {
					pos = firstPos(p.loopHead)
				}
				r.Bad(rule, f.Name(), "loop at end of input", w.Pos(pos), "with the current character at the NUL sentinel (end of input) the loop goes round again without any open condition: at end of input it never ends")
				break
			}
		}
		if pw.overflow {
			bad = true
			r.Bad(rule, f.Name(), "loops of "+f.Decl.Name.Name, w.Pos(fn.Pos()), "too many paths to enumerate")
		}
		if !bad {
			r.Ok(rule, f.Name(), "loops stop at end of input", w.Pos(fn.Pos()), "with ch = 0 (and peek = 0) no loop header is reached twice without an open condition")
		}
	}
	// (b) both token functions return EOF on NUL
	for _, cfg := range []struct {
		fn     *ssa.Function
		inside bool
		what   string
		why    string
	}{{lm.outer, false, "EOF token on NUL", "outside a tag the lexer must return EOF once the input is exhausted"},
		{lm.inside, true, "case 0 -> EOF", "inside a tag the lexer must return EOF once the input is exhausted"}} {
		ps := lm.tokenPaths(cfg.fn, 0, cfg.inside)
		ok := len(ps) > 0
		for _, p := range ps {
			if p.end != "return" || !p.typeOK || p.tokType != "EOF" {
				ok = false
			}
		}
		if ok {
			r.Ok(rule, ssaName(cfg.fn), cfg.what, w.Pos(cfg.fn.Pos()), "every path taken for ch = 0 returns a token of type EOF")
		} else {
			r.Bad(rule, ssaName(cfg.fn), cfg.what, w.Pos(cfg.fn.Pos()), cfg.why)
		}
	}
}

// ---- readChar (C03.R8, C15.R5) ---------------------------------------------------

type readCharSum struct {
	ok                          bool
	why                         string
	nulAtEnd, pinned, indexedOK bool
	advances                    bool // in range: position = old readPosition, readPosition+1, ch = input[readPosition]
	lineOnLF, lineSomewhereElse bool
	aheadIdx, posIdx            int
}

func (lm *lexSSAModel) readCharSummary() *readCharSum {
	s := &readCharSum{aheadIdx: -1, posIdx: -1}
	fn := lm.readChar
	if fn == nil || len(fn.Params) != 1 {
		s.why = "no SSA form of readChar"
		return s
	}
	recv := ssa.Value(fn.Params[0])
	rcw := &pathWalker{splitMinMax: true, inline: func(caller, callee *ssa.Function) bool { return pkgOf(callee) == fn.Pkg && !funcHasLoop(callee) }}
	rcw.walk(fn)
	paths, ok := rcw.paths, !rcw.overflow
	if !ok || len(paths) == 0 {
		s.why = "paths of readChar cannot be enumerated"
		return s
	}
	isLenInput := func(p *pwPath, v ssa.Value) bool {
		c, ok := p.resolve(v).(*ssa.Call)
		if !ok {
			return false
		}
		b, ok := c.Call.Value.(*ssa.Builtin)
		return ok && b.Name() == "len" && len(c.Call.Args) == 1 && lm.isFieldLoad(p, p.resolve(c.Call.Args[0]), lm.inputIdx)
	}
	// the ahead cursor: the field input is indexed with
	for _, p := range paths {
		for _, ev := range p.events {
			if lkX, lkIndex, ok := stringIndexOp(ev); ok && lm.isFieldLoad(p, p.resolve(lkX), lm.inputIdx) {
				if u, ok := p.resolve(lkIndex).(*ssa.UnOp); ok && u.Op == token.MUL {
					if fa, ok := u.X.(*ssa.FieldAddr); ok && lm.posIdx[fa.Field] {
						s.aheadIdx = fa.Field
					}
				}
			}
		}
	}
	if s.aheadIdx < 0 {
		s.why = "readChar does not index the input with a cursor field"
		return s
	}
	for i := range lm.posIdx {
		if i != s.aheadIdx {
			s.posIdx = i
		}
	}
	atom := func(p *pwPath) func(ssa.Value) string {
		return func(v ssa.Value) string {
			if lm.isFieldLoad(p, v, s.aheadIdx) && p.resolve(v) == v {
				return "ahead"
			}
			if isLenInput(p, v) {
				return "len"
			}
			return ""
		}
	}
	s.nulAtEnd, s.pinned, s.indexedOK, s.advances, s.lineOnLF = true, true, true, true, true
	nEnd, nIn := 0, 0
	const inf = int64(1) << 40
	// rangeOf: the interval of d = ahead - len(input) implied by the first n decisions of the path
	// (ahead: the value of the ahead cursor on entry); feasible = false when they contradict each other
	rangeOf := func(p *pwPath, n int) (lo, hi int64, feasible bool) {
		at := atom(p)
		lo, hi = -inf, inf
		for _, d := range p.decisions[:n] {
			bo, ok := d.cond.(*ssa.BinOp)
			if !ok {
				continue
			}
			a, b := linOf(p, bo.X, at, 0), linOf(p, bo.Y, at, 0)
			if !a.ok || !b.ok {
				continue
			}
			op := bo.Op
			if !d.truth {
				switch op {
				case token.LSS:
					op = token.GEQ
				case token.LEQ:
					op = token.GTR
				case token.GTR:
					op = token.LEQ
				case token.GEQ:
					op = token.LSS
				case token.EQL:
					op = token.NEQ
				case token.NEQ:
					op = token.EQL
				default:
					continue
				}
			}
			if a.atom == "len" && b.atom == "ahead" {
				a, b = b, a
				switch op {
				case token.LSS:
					op = token.GTR
				case token.LEQ:
					op = token.GEQ
				case token.GTR:
					op = token.LSS
				case token.GEQ:
					op = token.LEQ
				}
			}
			switch {
			case a.atom == b.atom:
				// the same quantity on both sides: a comparison of constants
				holds, known := false, true
				switch op {
				case token.LSS:
					holds = a.c < b.c
				case token.LEQ:
					holds = a.c <= b.c
				case token.GTR:
					holds = a.c > b.c
				case token.GEQ:
					holds = a.c >= b.c
				case token.EQL:
					holds = a.c == b.c
				case token.NEQ:
					holds = a.c != b.c
				default:
					known = false
				}
				if known && !holds {
					return lo, hi, false
				}
			case a.atom == "ahead" && b.atom == "len":
				k := b.c - a.c // d op k
				switch op {
				case token.LSS:
					if k-1 < hi {
						hi = k - 1
					}
				case token.LEQ:
					if k < hi {
						hi = k
					}
				case token.GTR:
					if k+1 > lo {
						lo = k + 1
					}
				case token.GEQ:
					if k > lo {
						lo = k
					}
				case token.EQL:
					if k < hi {
						hi = k
					}
					if k > lo {
						lo = k
					}
				}
			}
		}
		return lo, hi, lo <= hi
	}
	// offsetOf: the range of v - len(input) under the interval [lo, hi] of ahead - len(input)
	offsetOf := func(p *pwPath, v ssa.Value, lo, hi int64) (omin, omax int64, ok bool) {
		l := linOf(p, v, atom(p), 0)
		switch {
		case !l.ok:
			return 0, 0, false
		case l.atom == "len":
			return l.c, l.c, true
		case l.atom == "ahead":
			return lo + l.c, hi + l.c, true
		}
		return 0, 0, false
	}
	for _, p := range paths {
		if p.end != "return" {
			continue
		}
		at := atom(p)
		lo, hi, feasible := rangeOf(p, len(p.decisions))
		if !feasible {
			continue
		}
		inRange, known := false, false
		switch {
		case hi <= -1:
			inRange, known = true, true
		case lo >= 0:
			inRange, known = false, true
		}
		var lookups []ssa.Value
		for ei, ev := range p.events {
			if lkX, lkIndex, ok := stringIndexOp(ev); ok && lm.isFieldLoad(p, p.resolve(lkX), lm.inputIdx) {
				lookups = append(lookups, ev.(ssa.Value))
				// what is known when the byte is read: the index lies at or after the cursor and before the end
				_, ehi, ok := rangeOf(p, p.evDecided[ei])
				l := linOf(p, lkIndex, at, 0)
				if !ok || !l.ok || l.atom != "ahead" || l.c < 0 || ehi+l.c > -1 {
					s.indexedOK = false
				}
			}
		}
		field := func(idx int) (ssa.Value, bool) { return p.fieldOfObj(recv, idx) }
		if !known {
			s.indexedOK = false
			continue
		}
		if !inRange {
			nEnd++
			if v, ok := field(lm.chIdx); !ok {
				s.nulAtEnd = false
			} else if c, ok := p.constOf(v); !ok || c.Kind() != constant.Int || constant.Sign(c) != 0 {
				s.nulAtEnd = false
			}
			if s.posIdx >= 0 {
				if v, ok := field(s.posIdx); !ok {
					s.pinned = false
				} else if omin, omax, ok := offsetOf(p, v, lo, hi); !ok || omin != 0 || omax != 0 {
					s.pinned = false
				}
			}
			if v, ok := field(s.aheadIdx); ok {
				// the ahead cursor must stay at or behind the end
				if omin, _, ok := offsetOf(p, v, lo, hi); !ok || omin < 0 {
					s.pinned = false
				}
			}
			continue
		}
		nIn++
		if len(lookups) != 1 {
			s.advances = false
			continue
		}
		if v, ok := field(lm.chIdx); !ok || p.resolve(v) != lookups[0] {
			s.advances = false
		}
		if v, ok := field(s.aheadIdx); !ok {
			s.advances = false
		} else if l := linOf(p, v, at, 0); !(l.ok && l.atom == "ahead" && l.c == 1) {
			s.advances = false
		}
		if s.posIdx >= 0 {
			if v, ok := field(s.posIdx); !ok {
				s.advances = false
			} else if l := linOf(p, v, at, 0); !(l.ok && l.atom == "ahead" && l.c == 0) {
				s.advances = false
			}
		}
		// the line counter
		_, bumped := field(lm.lineIdx)
		isLF, lfKnown := false, false
		for _, d := range p.decisions {
			bo, ok := d.cond.(*ssa.BinOp)
			if !ok || (bo.Op != token.EQL && bo.Op != token.NEQ) {
				continue
			}
			x, y := p.resolve(bo.X), p.resolve(bo.Y)
			if y == lookups[0] {
				x, y = y, x
			}
			if x != lookups[0] {
				continue
			}
			if c, ok := p.constOf(y); ok && c.Kind() == constant.Int {
				if n, _ := constant.Int64Val(c); n == '\n' {
					isLF, lfKnown = d.truth == (bo.Op == token.EQL), true
				} else if bumped && d.truth == (bo.Op == token.EQL) {
					s.lineSomewhereElse = true
				}
			}
		}
		if bumped {
			v, _ := field(lm.lineIdx)
			lineAtom := func(x ssa.Value) string {
				if lm.isFieldLoad(p, x, lm.lineIdx) {
					return "line"
				}
				return ""
			}
			if l := linOf(p, v, lineAtom, 0); !(l.ok && l.atom == "line" && l.c == 1) {
				s.lineOnLF = false
			}
		}
		if bumped != (lfKnown && isLF) {
			s.lineOnLF = false
		}
	}
	if nEnd == 0 || nIn == 0 {
		s.why = "readChar needs an end-of-input case and an in-range case"
		return s
	}
	s.ok = true
	return s
}

// stringIndexOp: the instruction is s[i] on a string (or array) value.
func stringIndexOp(ins ssa.Instruction) (x, idx ssa.Value, ok bool) {
	switch v := ins.(type) {
	case *ssa.Lookup:
		if _, isMap := v.X.Type().Underlying().(*types.Map); !isMap {
			return v.X, v.Index, true
		}
	case *ssa.Index:
		return v.X, v.Index, true
	}
	return nil, nil, false
}

func cursorInvariantRuleSSA(r *Run, rule string) {
	w := r.W
	lm := w.lexSSA()
	if len(lm.problems) > 0 && lm.readChar == nil {
		r.Lost(rule, lm.why())
		return
	}
	s := lm.readCharSummary()
	name := ssaName(lm.readChar)
	pos := w.Pos(lm.readChar.Pos())
	if !s.ok {
		r.Bad(rule, name, "no end-of-input branch", pos, "readChar must test 'readPosition >= len(input)' before indexing: "+s.why)
		return
	}
	if s.nulAtEnd {
		r.Ok(rule, name, "ch = 0 at end of input", pos, "NUL sentinel")
	} else {
		r.Bad(rule, name, "ch = 0 at end of input", pos, "the sentinel that ends every lexer loop is not set")
	}
	if s.pinned {
		r.Ok(rule, name, "position pinned at len(input)", pos, "position = len(input) on every end-of-input path -- hence input[a:position] is always in range")
	} else {
		r.Bad(rule, name, "position not pinned at end of input", pos,
			"readChar keeps advancing position after the input is exhausted; a scanner that reads past the end (readHTML's escape arm reads three bytes under a one-byte look-ahead) then slices input[start:position] out of range")
	}
	if s.indexedOK {
		r.Ok(rule, name, "input indexed under the in-range test", pos, "every input[readPosition] is preceded on its path by readPosition < len(input)")
	} else {
		r.Bad(rule, name, "input indexed without the in-range test", pos, "input[readPosition] may be out of range")
	}
}

// ---- C06.R7 / C18.R2: the cursor ends exactly behind the token ----------------------

func lexerCursorRuleSSA(r *Run, rule string, sel func(g lexGroup) bool) {
	w := r.W
	lm := w.lexSSA()
	if !lm.ok() {
		r.Lost(rule, lm.why())
		return
	}
	fn := ssaName(lm.inside)
	for _, g := range lm.groups(lm.inside, true) {
		if !sel(g) {
			continue
		}
		for _, p := range uniquePaths(lm, g.paths) {
			con := g.label + p.describe()
			pos := w.Pos(p.pos)
			if !p.pos.IsValid() {
				pos = w.Pos(lm.inside.Pos())
			}
			switch {
			case p.end == "overflow":
				r.Bad(rule, fn, g.label+" too many paths", pos, "the paths of the token function cannot be enumerated for this character")
			case p.end != "return":
				r.Bad(rule, fn, con+" does not return", pos, "a path of the token function ends in a loop or panic")
			case len(g.bytes) == 1 && g.bytes[0] == 0:
				r.Ok(rule, fn, con, pos, "end of input: the cursor is pinned, movement is irrelevant")
			case p.recursive:
				if p.retRecur {
					r.Ok(rule, fn, con+" (re-lex after comment)", pos, "result of the recursive token call returned without further cursor movement")
				} else {
					r.Bad(rule, fn, con+" recursive token call then more", pos,
						"after skipping a comment the next token is fetched by a recursive call, which leaves the cursor behind that token; the path must return that token directly, but it continues and consumes one more byte")
				}
			case contains(p.scans, "behind"):
				if p.readsAfter == 0 && len(p.scans) == 1 {
					r.Ok(rule, fn, con+" (scanner stops behind the token)", pos, "returns without further cursor movement")
				} else {
					r.Bad(rule, fn, con+" behind-scanner then more movement", pos,
						"the identifier/number scanner already leaves the cursor behind the token; the path must return directly, but it moves the cursor again (shared tail or extra readChar) and swallows the next byte")
				}
			case contains(p.scans, "on"):
				if p.readsAfter == 1 && len(p.scans) == 1 {
					r.Ok(rule, fn, con+" (scanner stops on the closing quote)", pos, "exactly one step over the closing quote follows")
				} else {
					r.Bad(rule, fn, con+" on-scanner then wrong movement", pos,
						"the string scanner stops ON the closing quote; exactly one readChar must follow")
				}
			case len(p.scans) > 0:
				r.Bad(rule, fn, con+" loop in a token arm", pos, "unrecognised scanning loop inside a token arm: cursor movement cannot be determined")
			case !p.literalOK:
				r.Bad(rule, fn, con+" literal unknown", pos, "the token literal cannot be determined statically, so the cursor post-condition cannot be checked")
			default:
				n := len(p.literal)
				if p.literal == string(rune(p.b)) {
					n = 1
				}
				if p.reads == n {
					r.Ok(rule, fn, fmt.Sprintf("%s literal %q", con, litForReport(p)), pos, fmt.Sprintf("cursor moves %d = len(literal)", p.reads))
				} else {
					r.Bad(rule, fn, fmt.Sprintf("%s literal %q moves %d", con, litForReport(p), p.reads), pos,
						fmt.Sprintf("token %q is %d byte(s) long but the cursor moves %d byte(s) on this path", litForReport(p), n, p.reads))
				}
			}
		}
	}
}

func litForReport(p *lexTokPath) string {
	if p.literal == string(rune(p.b)) && (p.b < 0x20 || p.b >= 0x7f) {
		return "<the byte>"
	}
	return p.literal
}

// productions: (token type -> literals) the inside-tag token function can produce.
func (lm *lexSSAModel) productions() map[string][]string {
	out := map[string][]string{}
	for _, g := range lm.groups(lm.inside, true) {
		for _, p := range g.paths {
			if p.typeOK && p.literalOK && p.end == "return" {
				dup := false
				for _, l := range out[p.tokType] {
					if l == p.literal {
						dup = true
					}
				}
				if !dup {
					out[p.tokType] = append(out[p.tokType], p.literal)
				}
			}
		}
	}
	for k := range out {
		sort.Strings(out[k])
	}
	return out
}

// ---- C15.R4 ---------------------------------------------------------------------

func tokenLineRuleSSA(r *Run, rule string) {
	w := r.W
	lm := w.lexSSA()
	if !lm.ok() || lm.lineIdx < 0 {
		r.Lost(rule, lm.why())
		return
	}
	for _, cfg := range []struct {
		fn     *ssa.Function
		inside bool
	}{{lm.inside, true}, {lm.outer, false}} {
		fn := ssaName(cfg.fn)
		for _, g := range lm.groups(cfg.fn, cfg.inside) {
			for _, p := range uniquePaths(lm, g.paths) {
				if p.end != "return" {
					continue
				}
				pos := w.Pos(p.pos)
				con := g.label + p.describe()
				switch {
				case p.retRecur:
					r.Ok(rule, fn, con+" (token of the inside-tag function)", pos, "delegates to the token function, which stamps its tokens")
				case p.lineSet:
					r.Ok(rule, fn, con, pos, "LineNumber is the lexer's line counter")
				case p.lineOther:
					r.Bad(rule, fn, con+" LineNumber from something else", pos, "a token's line must be the lexer's line counter at that moment")
				default:
					r.Bad(rule, fn, con+" without LineNumber", pos, "a token leaves the lexer without its line: errors about it would say 'line 0'")
				}
			}
		}
	}
}

// ---- C18.R1 ---------------------------------------------------------------------

func whitespaceRuleSSA(r *Run, rule string) {
	w := r.W
	lm := w.lexSSA()
	if !lm.ok() {
		r.Lost(rule, lm.why())
		return
	}
	if lm.skipper == nil {
		r.Lost(rule, "whitespace skipper of the lexer")
		return
	}
	// the set of bytes the skipper steps over: with ch = b, some path (that is not the
	// end-of-input special case) calls readChar
	var set []byte
	complete := true
	for b := 1; b < 256; b++ {
		hook := func(p *pwPath, ld *ssa.UnOp) (constant.Value, bool) {
			if lm.isFieldLoad(p, ld, lm.chIdx) {
				reads, _ := lm.moves(p, len(p.events))
				if reads == 0 {
					return constant.MakeInt64(int64(b)), true
				}
			}
			return nil, false
		}
		pw := &pathWalker{loadHook: hook, unroll1: true, inline: lm.inlinePolicy(lm.skipper)}
		pw.walk(lm.skipper)
		if pw.overflow {
			complete = false
		}
		skips := false
		for _, p := range pw.paths {
			// ignore the branch that is taken only at the end of the input (cursor compared with len(input))
			atEnd := false
			for _, d := range p.decisions {
				if bo, ok := d.cond.(*ssa.BinOp); ok {
					for _, side := range []ssa.Value{bo.X, bo.Y} {
						if c, ok := p.resolve(side).(*ssa.Call); ok {
							if bi, ok := c.Call.Value.(*ssa.Builtin); ok && bi.Name() == "len" {
								if (bo.Op == token.GEQ && d.truth) || (bo.Op == token.LSS && !d.truth) || (bo.Op == token.GTR && d.truth) || (bo.Op == token.LEQ && !d.truth) ||
									(bo.Op == token.EQL && d.truth) || (bo.Op == token.NEQ && !d.truth) {
									atEnd = true
								}
							}
						}
					}
				}
			}
			if atEnd {
				continue
			}
			for _, ev := range p.events {
				if c, ok := ev.(*ssa.Call); ok && c.Call.StaticCallee() == lm.readChar {
					skips = true
				}
			}
		}
		if skips {
			set = append(set, byte(b))
		}
	}
	name := ssaName(lm.skipper)
	pos := w.Pos(lm.skipper.Pos())
	want := []byte{'\t', '\n', '\r', ' '}
	switch {
	case !complete:
		r.Bad(rule, name, "whitespace set", pos, "the paths of the skipper cannot be enumerated")
	case string(set) == string(want):
		r.Ok(rule, name, "whitespace set {tab, LF, CR, space}", pos, "skipper walked for all 256 byte values")
	default:
		r.Bad(rule, name, fmt.Sprintf("whitespace set %q", string(set)), pos,
			fmt.Sprintf("inside a tag exactly space, tab, LF and CR are insignificant; the skipper accepts %q", string(set)))
	}
	// the skipper runs before the current character is looked at, for every character
	first := true
	for _, g := range lm.groups(lm.inside, true) {
		for _, p := range g.paths {
			if !p.skipFirst && p.end == "return" {
				first = false
			}
		}
	}
	if first {
		r.Ok(rule, ssaName(lm.inside), "skip whitespace first", w.Pos(lm.inside.Pos()), "on every path the skipper is the first cursor movement")
	} else {
		r.Bad(rule, ssaName(lm.inside), "first action is not the whitespace skipper", w.Pos(lm.inside.Pos()), "whitespace must be skipped before every token inside a tag")
	}
}

// ---- C18.R2 ---------------------------------------------------------------------

func commentRuleSSA(r *Run, rule string) {
	w := r.W
	lm := w.lexSSA()
	if !lm.ok() {
		r.Lost(rule, lm.why())
		return
	}
	fn := ssaName(lm.inside)
	pos := w.Pos(lm.inside.Pos())
	// which characters re-lex (fetch another token recursively)?
	var hashGroup *lexGroup
	groups := lm.groups(lm.inside, true)
	for i := range groups {
		g := &groups[i]
		rec := false
		for _, p := range g.paths {
			if p.recursive {
				rec = true
			}
		}
		isHash := len(g.bytes) == 1 && g.bytes[0] == '#'
		if isHash {
			hashGroup = g
			if !rec {
				r.Bad(rule, fn, "no handling of '#'", pos, "line comments are not skipped: after '#' the next token must be fetched")
				return
			}
			continue
		}
		if rec {
			r.Bad(rule, fn, g.label+" re-lexes", pos,
				"an arm other than the comment arm fetches another token recursively: the token it was looking at is dropped")
		}
	}
	if hashGroup == nil {
		r.Bad(rule, fn, "no handling of '#'", pos, "line comments are not skipped")
		return
	}
	// where does the comment end? walk the token function for '#', with every byte c as "the character
	// after one more readChar": c ends the comment when some path leaves the scanning after exactly one read
	var stops []byte
	for c := 0; c < 256; c++ {
		hook := func(p *pwPath, ld *ssa.UnOp) (constant.Value, bool) {
			if !lm.isFieldLoad(p, ld, lm.chIdx) {
				if lm.isFieldLoad(p, ld, lm.insIdx) {
					return constant.MakeBool(true), true
				}
				return nil, false
			}
			reads, scanned := lm.moves(p, len(p.events))
			if scanned {
				return nil, false
			}
			if reads == 0 {
				return constant.MakeInt64('#'), true
			}
			return constant.MakeInt64(int64(c)), true
		}
		// (a comment loop that lives in its own function is walked in line here)
		base := lm.inlinePolicy(lm.inside)
		inline := func(caller, callee *ssa.Function) bool {
			if base(caller, callee) {
				return true
			}
			return pkgOf(callee) == lm.inside.Pkg && callee != lm.skipper && callee != lm.readChar && callee != lm.peekChar && callee != lm.inside && callee != lm.outer &&
				lm.hasLoop[callee] && callee.Signature.Results().Len() == 0 && callee.Signature.Params().Len() == 0
		}
		pw := &pathWalker{loadHook: hook, inline: inline, unroll1: true, maxPaths: 5000, stopCall: lm.redispatchStop(lm.inside)}
		pw.walk(lm.inside)
		ended := false
		for _, p := range pw.paths {
			if p.end != "return" && p.end != "stop" {
				continue
			}
			reads := 0
			for _, ev := range p.events {
				if call, ok := ev.(*ssa.Call); ok {
					if call.Call.StaticCallee() == lm.readChar {
						reads++
					}
					if call.Call.StaticCallee() == lm.inside {
						break
					}
				}
			}
			if reads == 1 {
				ended = true
			}
		}
		if ended {
			stops = append(stops, byte(c))
		}
	}
	switch string(stops) {
	case "\x00\n\r":
		r.Ok(rule, fn, "comment ends at LF/CR or end of input", pos, "stop set computed for all 256 byte values")
	default:
		hasNul, hasLF := false, false
		for _, b := range stops {
			if b == 0 {
				hasNul = true
			}
			if b == '\n' {
				hasLF = true
			}
		}
		switch {
		case !hasNul:
			r.Bad(rule, fn, "comment loop does not stop at end of input", pos, "an unterminated comment must end at end of input")
		case !hasLF:
			r.Bad(rule, fn, "comment loop has no line-end exit", pos, "a # comment ends at the end of its line")
		default:
			r.Bad(rule, fn, fmt.Sprintf("comment ends at %q", string(stops)), pos, "a # comment must end exactly at the end of its line")
		}
	}
	lexerCursorRuleSSA(r, rule, func(g lexGroup) bool { return len(g.bytes) == 1 && g.bytes[0] == '#' })
}

// ---- C18.R3 (lexer part) -------------------------------------------------------

func tagCloseRuleSSA(r *Run, rule string) {
	w := r.W
	lm := w.lexSSA()
	if !lm.ok() {
		r.Lost(rule, lm.why())
		return
	}
	fn := ssaName(lm.inside)
	n := 0
	leaves := true
	var at token.Pos = lm.inside.Pos()
	for _, p := range uniquePaths(lm, lm.tokenPaths(lm.inside, '%', true)) {
		if c, ok := p.peek[1]; !ok || c != '>' {
			continue
		}
		n++
		if p.pos.IsValid() {
			at = p.pos
		}
		if p.typeOK && p.tokType == "%>" && !p.recursive && p.end == "return" {
			r.Ok(rule, fn, "'%>' -> E_END", w.Pos(at), "token produced on the path where '%' is followed by '>'")
		} else {
			r.Bad(rule, fn, "'%>' does not yield E_END on some path", w.Pos(at), "every '%>' must close the tag: the parser relies on E_END tokens to find tag boundaries")
		}
		if p.inside == nil || *p.inside {
			leaves = false
		}
	}
	if n == 0 {
		r.Bad(rule, fn, "no '%>' path", w.Pos(at), "the tag-closing delimiter is not recognised")
		return
	}
	if leaves {
		r.Ok(rule, fn, "'%>' leaves code mode", w.Pos(at), "inside = false")
	} else {
		r.Bad(rule, fn, "'%>' does not leave code mode", w.Pos(at), "after '%>' the lexer must return to literal text")
	}
}

// ---- C02.R4 ---------------------------------------------------------------------

// textScannerRuleSSA: in the literal-text scanner every byte that is stepped
// over has first been examined: either it was tested for being a tag start
// ('<' followed by '%') and is not one, or it is a known byte other than '<'
// (the backslash of an escape), or it is the '<' directly behind such a
// backslash (the escaped tag start).
func textScannerRuleSSA(r *Run, rule string) {
	w := r.W
	lm := w.lexSSA()
	if !lm.ok() {
		r.Lost(rule, lm.why())
		return
	}
	var scan *ssa.Function
	for _, b := range []byte{'a', ' ', '\\'} {
		for _, p := range lm.tokenPaths(lm.outer, b, false) {
			if p.litScanFn != nil {
				scan = p.litScanFn
			}
		}
	}
	if scan == nil {
		r.Lost(rule, "literal-text scanner")
		return
	}
	pw := &pathWalker{unroll1: true, maxPaths: 20000, inline: func(caller, callee *ssa.Function) bool {
		return pkgOf(callee) == scan.Pkg && callee != lm.readChar && callee != lm.peekChar && !funcHasLoop(callee)
	}}
	pw.walk(scan)
	if pw.overflow || len(pw.paths) == 0 {
		r.Lost(rule, "paths of the literal-text scanner")
		return
	}
	name := ssaName(scan)
	bad := false
	nReads := 0
	for _, p := range pw.paths {
		evIndex := map[ssa.Instruction]int{}
		for i, ev := range p.events {
			evIndex[ev] = i
		}
		prevRead := -1       // event index of the previous read
		prevEscaped := false // the previous read stepped over a known non-'<' byte with '<' established behind it
		for ei, ev := range p.events {
			c, ok := ev.(*ssa.Call)
			if !ok || c.Call.StaticCallee() != lm.readChar {
				continue
			}
			nReads++
			lo := 0
			if prevRead >= 0 {
				lo = p.evDecided[prevRead]
			}
			hi := p.evDecided[ei]
			tested, knownOther, peekLT := false, false, false
			chIsLT := false
			for _, d := range p.decisions[lo:hi] {
				bo, ok := d.cond.(*ssa.BinOp)
				if !ok || (bo.Op != token.EQL && bo.Op != token.NEQ) {
					continue
				}
				eq := d.truth == (bo.Op == token.EQL)
				x, y := p.resolve(bo.X), p.resolve(bo.Y)
				cv, okc := p.constOf(y)
				if !okc {
					cv, okc = p.constOf(x)
					x = y
				}
				if !okc || cv.Kind() != constant.Int {
					continue
				}
				n, _ := constant.Int64Val(cv)
				// the operand must have been read after the previous cursor movement
				fresh := func(v ssa.Value) bool {
					ins, ok := v.(ssa.Instruction)
					if !ok {
						return false
					}
					if call, ok := v.(*ssa.Call); ok {
						i, ok := evIndex[call]
						return ok && i > prevRead
					}
					_ = ins
					return true
				}
				switch {
				case lm.isChLoad(p, x):
					if n == '<' && !eq {
						tested = true
					}
					if n == '<' && eq {
						chIsLT = true
					}
					if n != '<' && n != 0 && eq {
						knownOther = true
					}
				default:
					if call, ok := x.(*ssa.Call); ok && call.Call.StaticCallee() == lm.peekChar && fresh(call) {
						if n == '%' && !eq && chIsLT {
							tested = true
						}
						if n == '<' && eq {
							peekLT = true
						}
					}
				}
			}
			licensed := tested || knownOther || prevEscaped
			if !licensed && !bad {
				bad = true
				r.Bad(rule, name, "byte stepped over without the tag-start test", w.Pos(c.Pos()),
					"some path through the loop body (for example the one through the escape handling) reaches a readChar without having tested 'ch == '<' && peekChar() == '%'' for the byte it steps over: a live tag directly behind an escape is swallowed as text")
			}
			prevEscaped = knownOther && peekLT && !prevEscaped
			prevRead = ei
		}
	}
	if nReads == 0 {
		r.Lost(rule, "cursor movements of the literal-text scanner")
		return
	}
	if !bad {
		r.Ok(rule, name, "tag-start test on every path to a cursor movement", w.Pos(scan.Pos()), fmt.Sprintf("%d path(s): every byte stepped over was tested (not '<%%'), is an escape's backslash, or the escaped '<'", len(pw.paths)))
	}
}

var _ = types.Typ

// stringScannerRuleSSA (C02.R6): the scanners of quoted strings never step over
// a closing quote unexamined. Decided on the paths of each scanner (its loop
// explored for one iteration, package helpers walked in line, the scanner's
// constant arguments -- a quote parameter -- bound as at its call in the token
// function): every cursor movement except the first (which steps over the
// opening quote, or over a byte the previous iteration examined) steps over a
// byte that this path knows is not the closing quote -- or, in the
// double-quoted scanner only, over a quote directly behind a backslash that
// was itself stepped over (the \" escape); every way round the loop has found
// the current byte not to be the closing quote; and the back-quoted scanner
// returns the bytes of the input as they are, the double-quoted one after
// replacing \" by " and nothing else.
func stringScannerRuleSSA(r *Run, rule string) {
	w := r.W
	lm := w.lexSSA()
	if !lm.ok() {
		r.Lost(rule, lm.why())
		return
	}
	// the quoting characters are exactly " and `: a token arm that runs a scanner which stops ON a closing
	// byte (and so reads across %>, newlines and comment ends until it finds it) for any other first byte
	// makes that byte a quote everywhere inside tags - in comments and in code that was inert before
	var extra []byte
	for _, g := range lm.groups(lm.inside, true) {
		quotes := false
		for _, p := range g.paths {
			if contains(p.scans, "on") {
				quotes = true
			}
		}
		if !quotes {
			continue
		}
		for _, b := range g.bytes {
			if b != '"' && b != '`' {
				extra = append(extra, b)
			}
		}
	}
	if len(extra) == 0 {
		r.Ok(rule, ssaName(lm.inside), "quoting characters are \" and `", w.Pos(lm.inside.Pos()), "no other first byte runs a scanner that stops on a closing byte")
	} else {
		r.Bad(rule, ssaName(lm.inside), fmt.Sprintf("quoting character(s) %q", string(extra)), w.Pos(lm.inside.Pos()),
			"a byte other than \" and ` opens a quoted string: inside tags - also inside <%# comments %> - that byte was inert, now it swallows everything up to its partner, including %> and the text and tags behind it")
	}
	for _, q := range []byte{'"', '`'} {
		kind := map[byte]string{'"': "double-quoted", '`': "back-quoted"}[q]
		var scan *ssa.Function
		var site *ssa.Call
		var sitePath *pwPath
		outerUnescapes := 0
		for _, tp := range lm.tokenPaths(lm.inside, q, true) {
			if tp.litScanFn == nil || tp.p == nil {
				continue
			}
			for _, ev := range tp.p.events {
				if c, ok := ev.(*ssa.Call); ok && c.Call.StaticCallee() == tp.litScanFn {
					scan, site, sitePath = tp.litScanFn, c, tp.p
					outerUnescapes = tp.litUnescapes
				}
			}
		}
		if scan == nil {
			r.Lost(rule, "scanner of "+kind+" strings")
			continue
		}
		bound := map[*ssa.Parameter]constant.Value{}
		for i, prm := range scan.Params {
			if i < len(site.Call.Args) {
				if c, ok := sitePath.constOf(site.Call.Args[i]); ok {
					bound[prm] = c
				}
			}
		}
		seed := func(p *pwPath, v ssa.Value) (constant.Value, bool) {
			if prm, ok := v.(*ssa.Parameter); ok {
				c, ok := bound[prm]
				return c, ok
			}
			return nil, false
		}
		pw := &pathWalker{unroll1: true, maxPaths: 20000, seed: seed, inline: func(caller, callee *ssa.Function) bool {
			return pkgOf(callee) == scan.Pkg && callee != lm.readChar && callee != lm.peekChar
		}}
		pw.walk(scan)
		name := ssaName(scan)
		if pw.overflow || len(pw.paths) == 0 {
			r.Lost(rule, "paths of the scanner of "+kind+" strings")
			continue
		}
		var bads []string
		addBad := func(s string) {
			for _, b := range bads {
				if b == s {
					return
				}
			}
			bads = append(bads, s)
		}
		nReads, nRound, nRet := 0, 0, 0
		for _, p := range pw.paths {
			var reads []int
			for ei, ev := range p.events {
				if c, ok := ev.(*ssa.Call); ok && c.Call.StaticCallee() == lm.readChar {
					reads = append(reads, ei)
				}
			}
			readCallAt := func(i int) int { return reads[i] }
			// what the decisions in a window say about the current byte and the one behind it
			type know struct {
				isQuote, notQuote, isBackslash bool
				nextIsQuote                    bool
			}
			evIndex := map[ssa.Instruction]int{}
			for i, ev := range p.events {
				evIndex[ev] = i
			}
			window := func(lo, hi int, after int) know {
				var k know
				for _, d := range p.decisions[lo:hi] {
					bo, ok := d.cond.(*ssa.BinOp)
					if !ok || (bo.Op != token.EQL && bo.Op != token.NEQ) {
						continue
					}
					eq := d.truth == (bo.Op == token.EQL)
					x, y := p.resolve(bo.X), p.resolve(bo.Y)
					cv, okc := p.constOf(y)
					if !okc {
						cv, okc = p.constOf(x)
						x = y
					}
					if !okc || cv.Kind() != constant.Int {
						continue
					}
					n, _ := constant.Int64Val(cv)
					switch {
					case lm.isChLoad(p, x):
						if after >= 0 && p.loadAt[x] <= after {
							continue // a byte that was loaded before the cursor moved
						}
						if n == int64(q) {
							k.isQuote, k.notQuote = k.isQuote || eq, k.notQuote || !eq
						} else if eq {
							k.notQuote = true
							if n == '\\' {
								k.isBackslash = true
							}
						}
					default:
						if call, ok := x.(*ssa.Call); ok && call.Call.StaticCallee() == lm.peekChar {
							if after >= 0 && evIndex[call] <= after {
								continue
							}
							if n == int64(q) && eq {
								k.nextIsQuote = true
							}
						}
					}
				}
				return k
			}
			prev := know{}
			prevLicensedBackslash := false
			for i := range reads {
				if len(p.marks) > 0 && reads[i] >= p.marks[0].nEvents {
					break // the next iteration (explored only as far as the forced exit): judged on its own paths
				}
				nReads++
				if i == 0 {
					// the first movement: over the opening quote / the byte the previous iteration examined
					prev = window(0, p.evDecided[reads[0]], -1)
					prevLicensedBackslash = false
					continue
				}
				k := window(p.evDecided[reads[i-1]], p.evDecided[reads[i]], readCallAt(i-1))
				// what an earlier look-ahead said about this byte
				carriedQuote := prev.nextIsQuote
				switch {
				case k.notQuote && !carriedQuote:
					prevLicensedBackslash = k.isBackslash
				case q == '"' && carriedQuote && prevLicensedBackslash && !k.notQuote:
					prevLicensedBackslash = false // the escaped quote
				default:
					if q == '`' {
						addBad("a byte that may be the closing back-quote is stepped over (back-quoted strings are taken raw: nothing escapes the closing quote)")
					} else {
						addBad("a byte that may be the closing quote is stepped over without being the quote of a \\\" escape")
					}
					prevLicensedBackslash = false
				}
				prev = k
			}
			if len(reads) > 0 && len(p.marks) > 0 {
				// round the loop: the byte under the cursor was found not to be the closing quote
				// (between the last cursor movement before the loop went round and that moment)
				mk := p.marks[0]
				last := -1
				for i, ei := range reads {
					if ei < mk.nEvents {
						last = i
					}
				}
				if last >= 0 {
					nRound++
					k := window(p.evDecided[reads[last]], mk.nDecisions, readCallAt(last))
					if !k.notQuote {
						// a loop that tests at its head (read; for ch != quote { read }): the comparison of the byte just
						// read is the first thing behind the way round, before any further cursor movement
						hi := len(p.decisions)
						for _, ei := range reads {
							if ei >= mk.nEvents {
								hi = p.evDecided[ei]
								break
							}
						}
						k2 := window(p.evDecided[reads[last]], hi, readCallAt(last))
						if k2.notQuote || k2.isQuote {
							k.notQuote = true
						}
					}
					if !k.notQuote {
						addBad("the loop goes round without having compared the current byte with the closing quote")
					}
				}
			}
			if p.end == "return" && len(p.results) == 1 {
				nRet++
				res := p.resolve(p.results[0])
				if emptyWhenBoundsCross(p, scan, res) {
					continue // `if end < start { return "" }` in front of input[start:end]: no text between crossed bounds
				}
				isInputSlice := func(v ssa.Value) bool {
					sl, ok := p.resolve(v).(*ssa.Slice)
					return ok && lm.isFieldLoad(p, p.resolve(sl.X), lm.inputIdx)
				}
				// layers of un-escaping: in the scanner itself plus in the token function around its call
				layers, okForm := outerUnescapes, true
				v := ssa.Value(res)
				for i := 0; i < 3; i++ {
					n, inner, ok := unescapeLayer(p, v)
					if n == 0 {
						break
					}
					if !ok {
						okForm = false
					}
					layers++
					v = p.resolve(inner)
				}
				// "nothing to un-escape": the text was found not to contain \" at all - returning it as it is IS the
				// un-escaped text (the fast path in front of strings.ReplaceAll)
				if q == '"' && layers == outerUnescapes && okForm && isInputSlice(v) {
					for _, d := range p.decisions {
						c, isCall := p.resolve(d.cond).(*ssa.Call)
						if !isCall || d.truth || len(c.Call.Args) != 2 {
							continue
						}
						if pkg, fname := staticCalleeName(c); pkg != "strings" || fname != "Contains" {
							continue
						}
						sub, isC := p.constOf(c.Call.Args[1])
						if isC && sub.Kind() == constant.String && constant.StringVal(sub) == "\\\"" && p.resolve(c.Call.Args[0]) == p.resolve(v) {
							layers++
						}
					}
				}
				switch {
				case !okForm || !isInputSlice(v):
					addBad("the scanner's result is not the input between the quotes (raw for back-quoted strings, with \\\" replaced by \" for double-quoted ones)")
				case q == '`' && layers != 0:
					addBad("the back-quoted scanner rewrites the bytes between the quotes (back-quoted strings are taken raw)")
				case q == '"' && layers != 1:
					addBad("the double-quoted string is not un-escaped exactly once: \\\" must stand for a quote")
				}
			}
		}
		if nReads == 0 || nRound == 0 || nRet == 0 {
			r.Lost(rule, fmt.Sprintf("cursor movements / loop / result of the scanner of %s strings (%d, %d, %d)", kind, nReads, nRound, nRet))
			continue
		}
		con := "scanner of " + kind + " strings"
		if len(bads) > 0 {
			sort.Strings(bads)
			r.Bad(rule, name, con, w.Pos(scan.Pos()), strings.Join(bads, "; "))
		} else {
			r.Ok(rule, name, con, w.Pos(scan.Pos()), fmt.Sprintf("%d path(s): no closing quote is stepped over unexamined; result is the input between the quotes", len(pw.paths)))
		}
	}
}

// emptyWhenBoundsCross: the path returns "" after finding hi < lo, where the scanner elsewhere returns x[lo:hi]
// (the guard in front of a slice expression that would otherwise panic: between crossed bounds there is no text).
func emptyWhenBoundsCross(p *pwPath, scan *ssa.Function, res ssa.Value) bool {
	c, ok := res.(*ssa.Const)
	if !ok || c.Value == nil || c.Value.Kind() != constant.String || constant.StringVal(c.Value) != "" {
		return false
	}
	type pair struct{ lo, hi ssa.Value }
	var pairs []pair
	for _, b := range scan.Blocks {
		for _, ins := range b.Instrs {
			if sl, isSlice := ins.(*ssa.Slice); isSlice && sl.Low != nil && sl.High != nil {
				pairs = append(pairs, pair{sl.Low, sl.High})
			}
		}
	}
	for _, d := range p.decisions {
		bo, isBin := d.cond.(*ssa.BinOp)
		if !isBin {
			continue
		}
		small, big := bo.X, bo.Y // small < big holds on this path
		switch {
		case bo.Op == token.LSS && d.truth, bo.Op == token.GEQ && !d.truth:
		case bo.Op == token.GTR && d.truth, bo.Op == token.LEQ && !d.truth:
			small, big = big, small
		default:
			continue
		}
		for _, pr := range pairs {
			if pr.hi == small && pr.lo == big {
				return true
			}
		}
	}
	return false
}

// identifierBytesRuleSSA (C18.R9): the identifier scanner steps over letters, digits, '_', '-' and '.' only. Whether two
// tokens may be written without a blank between them must not change what they are: a name that swallows a byte
// which begins another token ("a!=b" read as the name "a!" and "=") makes the blank significant. Decided like the
// whitespace set: the scanner that the token function runs for a letter is walked once for each of the 256 byte
// values under the cursor; the bytes for which it moves the cursor are its alphabet.
func identifierBytesRuleSSA(r *Run, rule string) {
	w := r.W
	lm := w.lexSSA()
	if !lm.ok() {
		r.Lost(rule, lm.why())
		return
	}
	var scan *ssa.Function
	for _, tp := range lm.tokenPaths(lm.inside, 'a', true) {
		if tp.litScanFn == nil || tp.p == nil {
			continue
		}
		scan = tp.litScanFn
		// a scanner that is handed its alphabet (readWhile(accept)) is walked from the function that hands it over
		for _, ev := range tp.p.events {
			if c, ok := ev.(*ssa.Call); ok && c.Call.StaticCallee() == tp.litScanFn {
				if outer := origInstr(c).Parent(); outer != nil && outer != lm.inside && outer != lm.outer && outer.Parent() == nil {
					scan = outer
				}
			}
		}
	}
	if scan == nil {
		r.Lost(rule, "the scanner the token function runs for a letter")
		return
	}
	inline := func(caller, callee *ssa.Function) bool {
		return (pkgOf(callee) == pkgOf(scan) || callee.Parent() != nil) && callee != lm.readChar && callee != lm.peekChar && callee != lm.inside && callee != lm.outer
	}
	var set []byte
	complete := true
	for b := 1; b < 256; b++ {
		hook := func(p *pwPath, ld *ssa.UnOp) (constant.Value, bool) {
			if lm.isFieldLoad(p, ld, lm.chIdx) {
				reads, _ := lm.moves(p, len(p.events))
				if reads == 0 {
					return constant.MakeInt64(int64(b)), true
				}
			}
			return nil, false
		}
		pw := &pathWalker{loadHook: hook, unroll1: true, inline: inline}
		pw.walk(scan)
		if pw.overflow {
			complete = false
		}
		steps := false
		for _, p := range pw.paths {
			for _, ev := range p.events {
				if c, ok := ev.(*ssa.Call); ok && c.Call.StaticCallee() == lm.readChar {
					steps = true
				}
			}
		}
		if steps {
			set = append(set, byte(b))
		}
	}
	var want []byte
	for b := 1; b < 256; b++ {
		c := byte(b)
		if c >= '0' && c <= '9' || c >= 'a' && c <= 'z' || c >= 'A' && c <= 'Z' || c == '_' || c == '-' || c == '.' {
			want = append(want, c)
		}
	}
	name := ssaName(scan)
	pos := w.Pos(scan.Pos())
	switch {
	case !complete:
		r.Bad(rule, name, "alphabet of names", pos, "the paths of the identifier scanner cannot be enumerated")
	case string(set) == string(want):
		r.Ok(rule, name, "alphabet of names {letters, digits, _, -, .}", pos, "scanner walked for all 256 byte values: it steps over nothing else")
	default:
		var extra, missing []byte
		in := map[byte]bool{}
		for _, c := range set {
			in[c] = true
		}
		wanted := map[byte]bool{}
		for _, c := range want {
			wanted[c] = true
			if !in[c] {
				missing = append(missing, c)
			}
		}
		for _, c := range set {
			if !wanted[c] {
				extra = append(extra, c)
			}
		}
		r.Bad(rule, name, fmt.Sprintf("alphabet of names: also %q, not %q", string(extra), string(missing)), pos,
			"a name (a path) is made of letters, digits, '_', '-' and '.': a scanner that also steps over a byte which begins another token glues that token to the name when no blank separates them (a!=b), so removing a blank changes what is lexed")
	}
}
