package main

// c15pipe.go (C15.R8): the error pipeline. The parser's message list and the top-level evaluator's
// "line %d: %w" error are the only producers of the line prefix; every function of the root package
// between them and the caller (Template.Parse, Template.Exec, Parse, Render, RenderR, the partial
// helper, ...) must hand that error on as the very value it received. A wrapper -- fmt.Errorf with the
// error as an operand, a struct holding it, errors.Join -- puts text in front of 'line N:'.

import (
	"fmt"
	"go/token"
	"sort"

	"golang.org/x/tools/go/ssa"
)

func errorPipelineRule(r *Run, rule string) {
	w := r.W
	w.SSA()
	// producers
	var producers []*ssa.Function
	if pf := w.Func("parser", "Parse"); pf != nil {
		if fn := w.SSAFunc(pf); fn != nil {
			producers = append(producers, fn)
		}
	}
	if m := w.coreModel(); m != nil && m.top != nil {
		producers = append(producers, m.top)
	}
	if len(producers) < 2 {
		r.Lost(rule, "parser entry point / top-level evaluator")
		return
	}
	errIdx := func(fn *ssa.Function) int {
		res := fn.Signature.Results()
		if res.Len() == 0 || !isErrorType(res.At(res.Len()-1).Type()) {
			return -1
		}
		return res.Len() - 1
	}
	// the pipeline: functions of the root package whose error result can be (an alias of) the error of a pipeline call
	inPipe := map[*ssa.Function]bool{}
	for _, p := range producers {
		inPipe[p] = true
	}
	var rootFns []*ssa.Function
	for _, f := range w.Funcs("") {
		if fn := w.SSAFunc(f); fn != nil {
			rootFns = append(rootFns, fn)
			rootFns = append(rootFns, allAnon(fn)...)
		}
	}
	// the error value of a call of g in fn
	errOfCall := func(c *ssa.Call, g *ssa.Function) ssa.Value {
		i := errIdx(g)
		if i < 0 {
			return nil
		}
		if g.Signature.Results().Len() == 1 {
			return c
		}
		for _, ref := range *c.Referrers() {
			if ex, ok := ref.(*ssa.Extract); ok && ex.Index == i {
				return ex
			}
		}
		return nil
	}
	pipeErrs := func(fn *ssa.Function) []ssa.Value {
		var out []ssa.Value
		for _, b := range fn.Blocks {
			for _, ins := range b.Instrs {
				c, ok := ins.(*ssa.Call)
				if !ok {
					continue
				}
				g := c.Call.StaticCallee()
				if g == nil || !inPipe[g] || g == fn && false {
					continue
				}
				if e := errOfCall(c, g); e != nil {
					out = append(out, e)
				}
			}
		}
		return out
	}
	returnsAlias := func(fn *ssa.Function, al map[ssa.Value]bool) bool {
		i := errIdx(fn)
		if i < 0 {
			return false
		}
		for _, b := range fn.Blocks {
			if ret, ok := b.Instrs[len(b.Instrs)-1].(*ssa.Return); ok {
				if ops := retOperands(ret); i < len(ops) && al[ops[i]] {
					return true
				}
			}
		}
		return false
	}
	// wrapped: v is built from a pipeline error without being it
	var derived func(v ssa.Value, al map[ssa.Value]bool, depth int, seen map[ssa.Value]bool) bool
	derived = func(v ssa.Value, al map[ssa.Value]bool, depth int, seen map[ssa.Value]bool) bool {
		if v == nil || depth > 10 || seen[v] {
			return false
		}
		seen[v] = true
		if al[v] {
			return true
		}
		switch x := v.(type) {
		case *ssa.Call:
			for _, a := range x.Call.Args {
				if derived(a, al, depth+1, seen) {
					return true
				}
			}
			if x.Call.IsInvoke() {
				return derived(x.Call.Value, al, depth+1, seen)
			}
		case *ssa.Extract:
			return derived(x.Tuple, al, depth+1, seen)
		case *ssa.MakeInterface:
			return derived(x.X, al, depth+1, seen)
		case *ssa.ChangeInterface:
			return derived(x.X, al, depth+1, seen)
		case *ssa.Phi:
			for _, e := range x.Edges {
				if derived(e, al, depth+1, seen) {
					return true
				}
			}
		case *ssa.Slice:
			return derived(x.X, al, depth+1, seen)
		case *ssa.UnOp:
			if x.Op == token.MUL {
				return derived(x.X, al, depth+1, seen)
			}
		case *ssa.Alloc:
			// a struct / array the error was put into
			for _, ref := range *x.Referrers() {
				switch y := ref.(type) {
				case *ssa.Store:
					if y.Addr == ssa.Value(x) && derived(y.Val, al, depth+1, seen) {
						return true
					}
				case *ssa.FieldAddr:
					for _, r2 := range *y.Referrers() {
						if st, ok := r2.(*ssa.Store); ok && st.Addr == ssa.Value(y) && derived(st.Val, al, depth+1, seen) {
							return true
						}
					}
				case *ssa.IndexAddr:
					for _, r2 := range *y.Referrers() {
						if st, ok := r2.(*ssa.Store); ok && st.Addr == ssa.Value(y) && derived(st.Val, al, depth+1, seen) {
							return true
						}
					}
				}
			}
		}
		return false
	}
	for changed := true; changed; {
		changed = false
		for _, fn := range rootFns {
			if inPipe[fn] || errIdx(fn) < 0 {
				continue
			}
			for _, e := range pipeErrs(fn) {
				al := aliasesOf(e)
				member := returnsAlias(fn, al)
				if !member {
					// ... or something built from it (the rule below reports that)
					i := errIdx(fn)
					for _, b := range fn.Blocks {
						if ret, ok := b.Instrs[len(b.Instrs)-1].(*ssa.Return); ok {
							if ops := retOperands(ret); i < len(ops) && derived(ops[i], al, 0, map[ssa.Value]bool{}) {
								member = true
							}
						}
					}
				}
				if member {
					inPipe[fn] = true
					changed = true
					break
				}
			}
		}
	}
	var names []string
	n := 0
	var pipeFns []*ssa.Function
	for fn := range inPipe {
		pipeFns = append(pipeFns, fn)
	}
	sort.Slice(pipeFns, func(i, j int) bool { return ssaName(pipeFns[i]) < ssaName(pipeFns[j]) })
	for _, fn := range pipeFns {
		isProducer := false
		for _, p := range producers {
			if p == fn {
				isProducer = true
			}
		}
		if isProducer || pkgOf(fn) == nil {
			continue
		}
		names = append(names, fn.Name())
		i := errIdx(fn)
		for _, e := range pipeErrs(fn) {
			al := aliasesOf(e)
			for _, b := range fn.Blocks {
				ret, ok := b.Instrs[len(b.Instrs)-1].(*ssa.Return)
				if !ok {
					continue
				}
				ops := retOperands(ret)
				if i >= len(ops) {
					continue
				}
				// (with a defer in the function the results travel through cells: what is returned is what was stored)
				vals := []ssa.Value{ops[i]}
				if ld, isLd := ops[i].(*ssa.UnOp); isLd && ld.Op == token.MUL {
					if cell, isCell := ld.X.(*ssa.Alloc); isCell && isResultSpill(cell) {
						vals = nil
						for _, ref := range *cell.Referrers() {
							if st, isSt := ref.(*ssa.Store); isSt && st.Addr == ssa.Value(cell) {
								vals = append(vals, st.Val)
							}
						}
					}
				}
				wrapped := false
				for _, v := range vals {
					if al[v] || isNilConst(v) {
						continue
					}
					if derived(v, al, 0, map[ssa.Value]bool{}) {
						wrapped = true
					}
				}
				if wrapped {
					n++
					r.Bad(rule, ssaName(fn), "error wrapped on its way out", w.Pos(ret.Pos()),
						"an error that carries the 'line N:' prefix is returned inside another error (text in front of the prefix, or a new error type): the message no longer starts with the line")
				}
			}
		}
	}
	if n == 0 {
		r.Ok(rule, "-", "errors of the parser and of the top-level evaluator are handed on unchanged", "-",
			fmt.Sprintf("%d function(s) between the producers and the caller return the very error value they received: %v", len(names), names))
	}
}
