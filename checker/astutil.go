package main

import (
	"bytes"
	"go/ast"
	"go/constant"
	"go/printer"
	"go/token"
	"go/types"
	"strings"

	"golang.org/x/tools/go/types/typeutil"
)

func nodeString(fset *token.FileSet, n ast.Node) string {
	if n == nil {
		return "<nil>"
	}
	var b bytes.Buffer
	printer.Fprint(&b, fset, n)
	s := b.String()
	s = strings.Join(strings.Fields(s), " ")
	return s
}

// short renders an expression compactly for use in finding keys.
func short(fset *token.FileSet, n ast.Node) string {
	s := nodeString(fset, n)
	if len(s) > 120 {
		s = s[:117] + "..."
	}
	return s
}

func unparen(e ast.Expr) ast.Expr {
	for {
		p, ok := e.(*ast.ParenExpr)
		if !ok {
			return e
		}
		e = p.X
	}
}

// calleeOf resolves the called function or method (nil for dynamic calls,
// conversions and builtins).
func calleeOf(info *types.Info, call *ast.CallExpr) *types.Func {
	f, _ := typeutil.Callee(info, call).(*types.Func)
	return f
}

func builtinName(info *types.Info, call *ast.CallExpr) string {
	if id, ok := unparen(call.Fun).(*ast.Ident); ok {
		if b, ok := info.Uses[id].(*types.Builtin); ok {
			return b.Name()
		}
	}
	return ""
}

// isConversion reports whether call is a type conversion and returns the target type.
func isConversion(info *types.Info, call *ast.CallExpr) (types.Type, bool) {
	tv, ok := info.Types[call.Fun]
	if ok && tv.IsType() {
		return tv.Type, true
	}
	return nil, false
}

// funcIs reports whether f is the package-level function pkgPath.name.
func funcIs(f *types.Func, pkgPath, name string) bool {
	if f == nil || f.Pkg() == nil {
		return false
	}
	sig := f.Type().(*types.Signature)
	return sig.Recv() == nil && f.Pkg().Path() == pkgPath && f.Name() == name
}

// methodIs reports whether f is method name on the named type pkgPath.typ
// (pointer or value receiver, or an interface method of that named interface).
func methodIs(f *types.Func, pkgPath, typ, name string) bool {
	if f == nil || f.Name() != name {
		return false
	}
	sig := f.Type().(*types.Signature)
	if sig.Recv() == nil {
		return false
	}
	return namedIs(sig.Recv().Type(), pkgPath, typ)
}

func deref(t types.Type) types.Type {
	if p, ok := t.Underlying().(*types.Pointer); ok {
		return p.Elem()
	}
	if p, ok := t.(*types.Pointer); ok {
		return p.Elem()
	}
	return t
}

func namedIs(t types.Type, pkgPath, name string) bool {
	t = deref(t)
	if a, ok := t.(*types.Alias); ok {
		t = types.Unalias(a)
	}
	n, ok := t.(*types.Named)
	if !ok {
		return false
	}
	o := n.Obj()
	if o.Name() != name {
		return false
	}
	if o.Pkg() == nil {
		return pkgPath == ""
	}
	return o.Pkg().Path() == pkgPath
}

// constString returns the constant string value of e, if it has one.
func constString(info *types.Info, e ast.Expr) (string, bool) {
	tv, ok := info.Types[e]
	if !ok || tv.Value == nil || tv.Value.Kind() != constant.String {
		return "", false
	}
	return constant.StringVal(tv.Value), true
}

func constInt(info *types.Info, e ast.Expr) (int64, bool) {
	tv, ok := info.Types[e]
	if !ok || tv.Value == nil {
		return 0, false
	}
	if tv.Value.Kind() != constant.Int {
		return 0, false
	}
	v, ok := constant.Int64Val(tv.Value)
	return v, ok
}

func isNilIdent(info *types.Info, e ast.Expr) bool {
	id, ok := unparen(e).(*ast.Ident)
	if !ok {
		return false
	}
	_, isNil := info.Uses[id].(*types.Nil)
	return isNil
}

// objOf returns the object an identifier expression refers to.
func objOf(info *types.Info, e ast.Expr) types.Object {
	id, ok := unparen(e).(*ast.Ident)
	if !ok {
		return nil
	}
	if o := info.Uses[id]; o != nil {
		return o
	}
	return info.Defs[id]
}

// fieldOf: if e is a selector x.f denoting a struct field, returns (x, field).
func fieldOf(info *types.Info, e ast.Expr) (ast.Expr, *types.Var) {
	sel, ok := unparen(e).(*ast.SelectorExpr)
	if !ok {
		return nil, nil
	}
	s := info.Selections[sel]
	if s == nil || s.Kind() != types.FieldVal {
		return nil, nil
	}
	v, _ := s.Obj().(*types.Var)
	return sel.X, v
}

// walkFunc visits every node of body except nested function literals when
// skipLits is set.
func inspectBody(body ast.Node, skipLits bool, f func(ast.Node) bool) {
	ast.Inspect(body, func(n ast.Node) bool {
		if n == nil {
			return false
		}
		if _, ok := n.(*ast.FuncLit); ok && skipLits && n != body {
			return false
		}
		return f(n)
	})
}

// calls returns every call expression in body.
func callsIn(body ast.Node, skipLits bool) []*ast.CallExpr {
	var out []*ast.CallExpr
	inspectBody(body, skipLits, func(n ast.Node) bool {
		if c, ok := n.(*ast.CallExpr); ok {
			out = append(out, c)
		}
		return true
	})
	return out
}

// returnsIn returns every return statement of body that belongs to body
// itself (not to nested function literals).
func returnsIn(body ast.Node) []*ast.ReturnStmt {
	var out []*ast.ReturnStmt
	inspectBody(body, true, func(n ast.Node) bool {
		if r, ok := n.(*ast.ReturnStmt); ok {
			out = append(out, r)
		}
		return true
	})
	return out
}

// typeString with package-relative qualifier.
func typeStr(t types.Type) string {
	return types.TypeString(t, func(p *types.Package) string { return p.Name() })
}

// binaryOpString of token
func flipOp(op token.Token) token.Token {
	switch op {
	case token.LSS:
		return token.GTR
	case token.GTR:
		return token.LSS
	case token.LEQ:
		return token.GEQ
	case token.GEQ:
		return token.LEQ
	}
	return op
}

// sameObjExpr reports whether two expressions are the same simple access
// path (identifiers and field selections compared by object).
func sameObjExpr(info *types.Info, a, b ast.Expr) bool {
	a, b = unparen(a), unparen(b)
	switch x := a.(type) {
	case *ast.Ident:
		y, ok := b.(*ast.Ident)
		if !ok {
			return false
		}
		ox, oy := objOf(info, x), objOf(info, y)
		return ox != nil && ox == oy
	case *ast.SelectorExpr:
		y, ok := b.(*ast.SelectorExpr)
		if !ok {
			return false
		}
		sx, sy := info.Selections[x], info.Selections[y]
		if sx == nil || sy == nil || sx.Obj() != sy.Obj() {
			// qualified identifiers
			if sx == nil && sy == nil {
				return info.Uses[x.Sel] != nil && info.Uses[x.Sel] == info.Uses[y.Sel]
			}
			return false
		}
		return sameObjExpr(info, x.X, y.X)
	case *ast.StarExpr:
		y, ok := b.(*ast.StarExpr)
		return ok && sameObjExpr(info, x.X, y.X)
	case *ast.CallExpr:
		// pure accessor calls with identical callee and identical args,
		// e.g. rv.Len() == rv.Len(): compared structurally
		y, ok := b.(*ast.CallExpr)
		if !ok || len(x.Args) != len(y.Args) {
			return false
		}
		if !sameObjExpr(info, x.Fun, y.Fun) {
			return false
		}
		for i := range x.Args {
			if !sameObjExpr(info, x.Args[i], y.Args[i]) {
				return false
			}
		}
		return true
	case *ast.BasicLit:
		y, ok := b.(*ast.BasicLit)
		return ok && x.Kind == y.Kind && x.Value == y.Value
	}
	return false
}

// ---- facts that dominate a statement (syntactic, structured control flow) ----

// dominatedBy reports whether some branch condition that is known to have a
// definite truth value at `at` satisfies implies(cond, truth). Known
// conditions are: each conjunct of an enclosing `if` (true in its body), each
// disjunct of an enclosing if's condition (false in its else branch), and
// each disjunct of an earlier sibling `if` without else whose body always
// leaves (false afterwards), on every enclosing block level up to the
// function. A fact about one of `objs` is dropped when a statement between
// the test and `at` assigns that object.
func (w *World) dominatedBy(info *types.Info, at ast.Node, objs []types.Object, implies func(cond ast.Expr, truth bool) bool) bool {
	assigns := func(n ast.Node) bool {
		if len(objs) == 0 || n == nil {
			return false
		}
		found := false
		ast.Inspect(n, func(x ast.Node) bool {
			switch s := x.(type) {
			case *ast.FuncLit:
				return false
			case *ast.AssignStmt:
				for _, l := range s.Lhs {
					o := objOf(info, l)
					for _, q := range objs {
						if o != nil && o == q {
							found = true
						}
					}
				}
			case *ast.IncDecStmt:
				o := objOf(info, s.X)
				for _, q := range objs {
					if o != nil && o == q {
						found = true
					}
				}
			}
			return !found
		})
		return found
	}
	var child ast.Node = at
	for p := w.Parent(at); p != nil; child, p = p, w.Parent(p) {
		switch x := p.(type) {
		case *ast.FuncDecl, *ast.FuncLit:
			return false
		case *ast.IfStmt:
			if child == ast.Node(x.Body) {
				for _, cj := range conjuncts(x.Cond) {
					if implies(cj, true) {
						return true
					}
				}
			} else if x.Else != nil && child == ast.Node(x.Else) {
				for _, dj := range disjuncts(x.Cond) {
					if implies(dj, false) {
						return true
					}
				}
			}
		case *ast.BlockStmt, *ast.CaseClause:
			var list []ast.Stmt
			if b, ok := x.(*ast.BlockStmt); ok {
				list = b.List
			} else {
				list = x.(*ast.CaseClause).Body
			}
			idx := -1
			for i, s := range list {
				if ast.Node(s) == child {
					idx = i
				}
			}
			for i := 0; i < idx; i++ {
				ifs, ok := list[i].(*ast.IfStmt)
				if !ok || ifs.Else != nil || !terminates(ifs.Body.List) {
					continue
				}
				hit := false
				for _, dj := range disjuncts(ifs.Cond) {
					if implies(dj, false) {
						hit = true
					}
				}
				if !hit {
					continue
				}
				killed := false
				for j := i + 1; j < idx; j++ {
					if assigns(list[j]) {
						killed = true
					}
				}
				if !killed {
					return true
				}
			}
		}
	}
	return false
}

// nilFact builds an implies-function: "the expression matched by isX is nil
// (wantNil) / non-nil (!wantNil)".
func nilFact(info *types.Info, isX func(ast.Expr) bool, wantNil bool) func(ast.Expr, bool) bool {
	return func(cond ast.Expr, truth bool) bool {
		cond = unparen(cond)
		if u, ok := cond.(*ast.UnaryExpr); ok && u.Op == token.NOT {
			cond, truth = unparen(u.X), !truth
		}
		be, ok := cond.(*ast.BinaryExpr)
		if !ok || (be.Op != token.EQL && be.Op != token.NEQ) {
			return false
		}
		x := be.X
		if isNilIdent(info, be.X) {
			x = be.Y
		} else if !isNilIdent(info, be.Y) {
			return false
		}
		if !isX(unparen(x)) {
			return false
		}
		isNil := (be.Op == token.EQL) == truth
		return isNil == wantNil
	}
}
