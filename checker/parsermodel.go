package main

import (
	"go/ast"
	"go/token"
	"go/types"
)

// parserModel is the role-resolved view of package parser.
type parserModel struct {
	w          *World
	info       *types.Info
	typ        *types.Named
	cur, peek  *types.Var
	advance    *FuncInfo // nextToken
	expectPeek *FuncInfo
	curIs      *FuncInfo
	peekIs     *FuncInfo
	pratt      *FuncInfo
	blockParse *FuncInfo // returns *ast.BlockStatement
	stmtParse  *FuncInfo // returns ast.Statement
	program    *FuncInfo // returns *ast.Program
	errorsF    *types.Var
	methods    []*FuncInfo
	regs       []Registration
	movers     map[*types.Func]bool // methods that may advance the token cursor
	problems   []string
}

func (w *World) parserModel() *parserModel {
	if w.pm != nil {
		return w.pm
	}
	m := &parserModel{w: w, info: w.Pkgs["parser"].TypesInfo, movers: map[*types.Func]bool{}}
	w.pm = m
	m.typ = w.parserType()
	if m.typ == nil {
		m.problems = append(m.problems, "parser struct type")
		return m
	}
	m.methods = w.parserMethods()
	m.cur, m.peek, m.advance = w.parserTokenFields()
	if m.advance == nil {
		m.problems = append(m.problems, "token-advancing method")
		return m
	}
	m.pratt = w.prattFn()
	m.regs = w.registrations()
	st := m.typ.Underlying().(*types.Struct)
	for i := 0; i < st.NumFields(); i++ {
		f := st.Field(i)
		if n, ok := f.Type().(*types.Named); ok {
			if sl, ok := n.Underlying().(*types.Slice); ok {
				if b, ok := sl.Elem().(*types.Basic); ok && b.Kind() == types.String {
					m.errorsF = f
				}
			}
		}
	}
	for _, f := range m.methods {
		sig := f.Obj.Type().(*types.Signature)
		if sig.Results().Len() == 1 {
			rt := sig.Results().At(0).Type()
			switch {
			case namedIs(rt, astPath, "BlockStatement"):
				m.blockParse = f
			case namedIs(rt, astPath, "Statement") && sig.Params().Len() == 0:
				m.stmtParse = f
			case namedIs(rt, astPath, "Program"):
				m.program = f
			}
			if b, ok := rt.(*types.Basic); ok && b.Kind() == types.Bool && sig.Params().Len() == 1 && namedIs(sig.Params().At(0).Type(), tokPath, "Type") {
				// curTokenIs / peekTokenIs / expectPeek
				callsAdvance := false
				for _, c := range callsIn(f.Decl.Body, false) {
					if calleeOf(m.info, c) == m.advance.Obj {
						callsAdvance = true
					}
				}
				if callsAdvance {
					m.expectPeek = f
					continue
				}
				if len(f.Decl.Body.List) == 1 {
					if ret, ok := f.Decl.Body.List[0].(*ast.ReturnStmt); ok && len(ret.Results) == 1 {
						if be, ok := unparen(ret.Results[0]).(*ast.BinaryExpr); ok && be.Op == token.EQL {
							if x, fld := fieldOf(m.info, be.X); fld != nil && fld.Name() == "Type" {
								if _, tf := fieldOf(m.info, x); tf == m.cur {
									m.curIs = f
								} else if tf == m.peek {
									m.peekIs = f
								}
							}
						}
					}
				}
			}
		}
	}
	for name, v := range map[string]interface{}{"Pratt entry": m.pratt, "block parser": m.blockParse, "statement parser": m.stmtParse, "program parser": m.program, "expectPeek": m.expectPeek, "curTokenIs": m.curIs, "peekTokenIs": m.peekIs} {
		if fi, _ := v.(*FuncInfo); fi == nil {
			m.problems = append(m.problems, name)
		}
	}
	// movers: fixpoint over static calls and registry calls
	m.movers[m.advance.Obj] = true
	changed := true
	for changed {
		changed = false
		for _, f := range m.methods {
			if m.movers[f.Obj] {
				continue
			}
			for _, c := range callsIn(f.Decl.Body, false) {
				cal := calleeOf(m.info, c)
				if cal != nil && m.movers[cal] {
					m.movers[f.Obj] = true
					changed = true
					break
				}
				if cal == nil && m.isRegistryCall(c) {
					m.movers[f.Obj] = true
					changed = true
					break
				}
			}
		}
	}
	return m
}

// isRegistryCall: a dynamic call of a function value taken from one of the
// parser's registries (prefix() / infix(left)).
func (m *parserModel) isRegistryCall(c *ast.CallExpr) bool {
	// the callee must be a local variable of function type (prefix := p.prefixParseFns[...]; prefix())
	id, isIdent := unparen(c.Fun).(*ast.Ident)
	if !isIdent {
		return false
	}
	if v, isVar := m.info.Uses[id].(*types.Var); !isVar || v.IsField() {
		return false
	}
	tv, ok := m.info.Types[c.Fun]
	if !ok {
		return false
	}
	if _, isSig := tv.Type.Underlying().(*types.Signature); !isSig {
		return false
	}
	if calleeOf(m.info, c) != nil {
		return false
	}
	if _, isConv := isConversion(m.info, c); isConv {
		return false
	}
	return builtinName(m.info, c) == ""
}

func (m *parserModel) isMover(c *ast.CallExpr) bool {
	cal := calleeOf(m.info, c)
	if cal != nil {
		return m.movers[cal]
	}
	return m.isRegistryCall(c)
}

// tokenArg: c is X(tok) for a one-argument token predicate; returns the
// token constant's string value.
func (m *parserModel) tokenArg(c *ast.CallExpr) (string, bool) {
	if len(c.Args) != 1 {
		return "", false
	}
	return constString(m.info, c.Args[0])
}

func (m *parserModel) isCallOf(e ast.Expr, f *FuncInfo) (*ast.CallExpr, bool) {
	c, ok := unparen(e).(*ast.CallExpr)
	if !ok || f == nil || calleeOf(m.info, c) != f.Obj {
		return nil, false
	}
	return c, true
}

// isErrorsLHS: e, the left side of an assignment, is the parser's error list: the field itself, or -- in a
// method of the list's own type with a pointer receiver -- the list the receiver points to (*e = append(*e, ...)).
func (m *parserModel) isErrorsLHS(e ast.Expr) bool {
	if m.errorsF == nil {
		return false
	}
	if _, fld := fieldOf(m.info, e); fld != nil && fld == m.errorsF {
		return true
	}
	st, ok := unparen(e).(*ast.StarExpr)
	if !ok {
		return false
	}
	o, _ := objOf(m.info, st.X).(*types.Var)
	if o == nil {
		return false
	}
	pt, ok := o.Type().(*types.Pointer)
	if !ok || !types.Identical(pt.Elem(), m.errorsF.Type()) {
		return false
	}
	// the receiver of the enclosing method
	for _, f := range m.w.Funcs("parser") {
		if sig := f.Obj.Type().(*types.Signature); sig.Recv() == o {
			return true
		}
	}
	return false
}

// recordsInto: the call c of a method of the error list's type is made on the parser's error list field.
func (m *parserModel) callOnErrors(c *ast.CallExpr) bool {
	sel, ok := unparen(c.Fun).(*ast.SelectorExpr)
	if !ok {
		return false
	}
	_, fld := fieldOf(m.info, sel.X)
	return fld != nil && fld == m.errorsF
}
