package main

import (
	"fmt"
	"go/ast"
	"go/constant"
	"go/token"
	"go/types"
	"strings"

	"golang.org/x/tools/go/ssa"
)

func init() {
	register("C05", checkC05, "errors raised and swallowed inside application-supplied helpers; an unknown identifier nested inside an operand (e.g. as a call argument) is typed like any other unknown identifier and tolerated with it")
}

var errorType = types.Universe.Lookup("error").Type()

func isErrorType(t types.Type) bool { return t != nil && types.Identical(t, errorType) }

// c05Scope: packages whose functions are on the render path.
var c05Scope = []string{"", "helpers/content", "helpers/escapes", "helpers/encoders", "helpers/iterators", "helpers/paths", "helpers/env", "helpers/meta", "helpers/text", "helpers/debug"}

// exceptions: one symbol each, with the reason.
var c05DropExceptions = map[string]string{
	"strings.(Builder).Write":       "documented to always return a nil error",
	"strings.(Builder).WriteString": "documented to always return a nil error",
	"strings.(Builder).WriteByte":   "documented to always return a nil error",
	"strings.(Builder).WriteRune":   "documented to always return a nil error",
	"bytes.(Buffer).Write":          "documented to always return a nil error",
	"bytes.(Buffer).WriteString":    "documented to always return a nil error",
	"bytes.(Buffer).WriteByte":      "documented to always return a nil error",
	"bytes.(Buffer).WriteRune":      "documented to always return a nil error",
	"fmt.Print":                     "RunScript's print helper writes to stdout; not part of rendering",
	"fmt.Println":                   "RunScript's println helper writes to stdout; not part of rendering",
}

var c05FuncExceptions = map[string]string{
	"plush.init":         "init discards the always-nil results of HelperMap.Add/AddMany; not on the render path",
	"helpers/paths.join": "uses url.ParseRequestURI's error as the predicate 'is this a full URL?'; failure is the ordinary case and the function has no error result",
}

func checkC05(r *Run) {
	r.Rule("R1", "propagate or convert: every error produced by a call on the render path is, on every path, tested or returned; on its non-nil side the function returns a non-nil error without rejoining the normal flow", 15)
	r.Rule("R2", "the only tolerance is the typed one (*ErrUnknownIdentifier), only in the prefix/if/else-if/infix evaluators, and in the infix evaluator only for == != && ||", 1)
	r.Rule("R3", "every fmt.Errorf that is given an error operand wraps it with %w", 1)
	r.Rule("R4", "error implies empty result: a (string|template.HTML, error) function on the render path never returns a non-empty first result together with a possibly non-nil error", 5)
	r.Rule("R5", "the reflect call site inspects the trailing error result and returns before the first result is used", 1)
	r.Rule("R6", "a failed operation leaves nothing behind: what a call returns together with an error is stored into memory that outlives the call (package variables, maps and fields reached from them or from a parameter) only where that error is known to be nil", 1)
	noFailedResultKeptRule(r, "R6")
	r.Rule("R7", "an error produced inside a loop is tested in that iteration: it is not merely carried round the loop to be looked at behind it (all but the last would be dropped)", 1)
	loopCarriedErrorRule(r, "R7")
	w := r.W
	w.SSA()
	licensed := map[*types.Func]bool{}
	for _, n := range []string{"PrefixExpression", "IfExpression", "InfixExpression"} {
		for _, f := range w.evalMethods(n) {
			licensed[f.Obj] = true
		}
	}
	tolerated := map[string]bool{}
	var tols []tolRecord
	for _, rel := range c05Scope {
		for _, f := range w.Funcs(rel) {
			fn := w.SSAFunc(f)
			if fn == nil {
				continue
			}
			fns := append([]*ssa.Function{fn}, allAnon(fn)...)
			for _, g := range fns {
				name := ssaName(g)
				if why, ok := c05FuncExceptions[strings.SplitN(strings.SplitN(name, "$", 2)[0], "#", 2)[0]]; ok {
					r.Note("R1 exception %s: %s", name, why)
					continue
				}
				for _, t := range errorFlow(r, g, f) {
					t.anon = g != fn
					tols = append(tols, t)
					tolerated[name] = true
				}
				emptyOnError(r, g)
			}
		}
	}
	if len(tolerated) == 0 {
		r.Lost("R2", "typed unknown-identifier tolerance in the licensed evaluators")
	}
	// a helper of the licensed evaluators ("evaluate this operand; an unknown identifier is nil")
	// carries the licence of its callers: it is licensed when it is an unexported function and every
	// use of it in the module is a static call from a licensed function. (For call sites in the infix evaluator the operator set is decided on the
	// paths of the infix evaluator with the helper walked in line -- toleranceOperatorSetSSA.)
	// (the licence also passes through helpers that tolerate nothing themselves: the if evaluator's
	// "select the branch" phase calling "evaluate the condition")
	cand := map[*types.Func]bool{}
	for _, f := range w.Funcs("") {
		if !licensed[f.Obj] && !f.Obj.Exported() {
			cand[f.Obj] = true
		}
	}
	for changed := true; changed; {
		changed = false
		for wr := range cand {
			if licensed[wr] {
				continue
			}
			nSites, okSites := 0, true
			for _, f := range w.Funcs("") {
				info := f.Pkg.TypesInfo
				callIdents := map[*ast.Ident]bool{}
				for _, c := range callsIn(f.Decl.Body, false) {
					if calleeOf(info, c) == wr {
						nSites++
						if !licensed[f.Obj] {
							okSites = false
						}
						switch fun := unparen(c.Fun).(type) {
						case *ast.Ident:
							callIdents[fun] = true
						case *ast.SelectorExpr:
							callIdents[fun.Sel] = true
						}
					}
				}
				ast.Inspect(f.Decl.Body, func(n ast.Node) bool {
					if id, ok := n.(*ast.Ident); ok && info.Uses[id] == wr && !callIdents[id] {
						// used as a value: its callers are not known - unless the value only goes into a local of a
						// licensed function that is called there and nowhere else (eval := c.evalOrNil; eval(x))
						if licensed[f.Obj] && methodValueStaysLocal(w, info, f, id) {
							nSites++
							return true
						}
						okSites = false
					}
					return true
				})
			}
			if nSites > 0 && okSites {
				licensed[wr] = true
				changed = true
			}
		}
	}
	for _, t := range tols {
		if licensed[t.decl.Obj] && !t.anon {
			r.Ok("R2", t.name, t.con+" tolerated when unknown identifier", t.pos, "licensed site: typed assertion on the ok edge")
		} else {
			r.Bad("R2", t.name, t.con+" tolerated when unknown identifier", t.pos,
				"the unknown-identifier tolerance is licensed only in the prefix, if/else-if and infix evaluators (and helpers that only they call)")
		}
	}
	toleranceOperatorSetSSA(r)
	wrapVerbRule(r)
	reflectResultRule(r)
}

func allAnon(fn *ssa.Function) []*ssa.Function {
	var out []*ssa.Function
	for _, a := range fn.AnonFuncs {
		out = append(out, a)
		out = append(out, allAnon(a)...)
	}
	return out
}

func isErrConstructor(c ssa.CallInstruction) bool {
	pkg, name := staticCalleeName(c)
	switch pkg + "." + name {
	case "fmt.Errorf", "errors.New", "errors.Join":
		return true
	}
	return false
}

// errSources returns the error values produced by calls in fn.
type errSource struct {
	val  ssa.Value
	call ssa.CallInstruction
}

func errSourcesOf(fn *ssa.Function) []errSource {
	var out []errSource
	for _, b := range fn.Blocks {
		for _, ins := range b.Instrs {
			c, ok := ins.(*ssa.Call)
			if !ok {
				continue
			}
			if isErrConstructor(c) {
				continue
			}
			res := c.Call.Signature().Results()
			if res.Len() == 0 || !isErrorType(res.At(res.Len()-1).Type()) {
				continue
			}
			if res.Len() == 1 {
				out = append(out, errSource{c, c})
				continue
			}
			found := false
			for _, ref := range *c.Referrers() {
				if ex, ok := ref.(*ssa.Extract); ok && ex.Index == res.Len()-1 {
					out = append(out, errSource{ex, c})
					found = true
				}
			}
			if !found {
				out = append(out, errSource{nil, c})
			}
		}
	}
	return out
}

// aliasesOf: the value, phis it flows into, and loads of cells it is stored in.
func aliasesOf(v ssa.Value) map[ssa.Value]bool {
	al := map[ssa.Value]bool{v: true}
	work := []ssa.Value{v}
	for len(work) > 0 {
		x := work[len(work)-1]
		work = work[:len(work)-1]
		refs := x.Referrers()
		if refs == nil {
			continue
		}
		for _, ref := range *refs {
			switch y := ref.(type) {
			case *ssa.Phi:
				if !al[y] {
					al[y] = true
					work = append(work, y)
				}
			case *ssa.Store:
				if y.Val == x {
					if a, ok := y.Addr.(*ssa.Alloc); ok && !isResultSpill(a) {
						for _, r2 := range *a.Referrers() {
							if ld, ok := r2.(*ssa.UnOp); ok && ld.Op == token.MUL && !al[ld] {
								al[ld] = true
								work = append(work, ld)
							}
						}
					}
				}
			case *ssa.ChangeInterface:
				if !al[y] {
					al[y] = true
					work = append(work, y)
				}
			}
		}
	}
	return al
}

// retOperands returns the operands of a Return with defer-spilled results
// resolved: in a function with defers go/ssa stores each result into a local
// cell, runs the defers and returns the loaded cells; the value returned is
// the last store to that cell in the same block.
func retOperands(ret *ssa.Return) []ssa.Value {
	out := make([]ssa.Value, len(ret.Results))
	for i, v := range ret.Results {
		out[i] = v
		ld, ok := v.(*ssa.UnOp)
		if !ok || ld.Op != token.MUL {
			continue
		}
		a, ok := ld.X.(*ssa.Alloc)
		if !ok {
			continue
		}
		b := ret.Block()
		for j := len(b.Instrs) - 1; j >= 0; j-- {
			if st, ok := b.Instrs[j].(*ssa.Store); ok && st.Addr == a {
				out[i] = st.Val
				break
			}
		}
	}
	return out
}

// isResultSpill: an Alloc whose loads feed only Return instructions.
func isResultSpill(a *ssa.Alloc) bool {
	n := 0
	for _, ref := range *a.Referrers() {
		ld, ok := ref.(*ssa.UnOp)
		if !ok {
			continue
		}
		for _, r2 := range *ld.Referrers() {
			if _, isRet := r2.(*ssa.Return); !isRet {
				return false
			}
			n++
		}
	}
	return n > 0
}

func isNilConst(v ssa.Value) bool {
	c, ok := v.(*ssa.Const)
	return ok && c.IsNil()
}

// nilTest: ins is `If (a != nil)` / `If (a == nil)` on an alias; returns the
// non-nil and nil successors.
func nilTest(b *ssa.BasicBlock, al map[ssa.Value]bool) (nonnil, nilb *ssa.BasicBlock, ok bool) {
	if len(b.Instrs) == 0 {
		return
	}
	ifi, isIf := b.Instrs[len(b.Instrs)-1].(*ssa.If)
	if !isIf {
		return
	}
	bo, isBin := ifi.Cond.(*ssa.BinOp)
	if !isBin || (bo.Op != token.NEQ && bo.Op != token.EQL) {
		return
	}
	var other ssa.Value
	switch {
	case al[bo.X]:
		other = bo.Y
	case al[bo.Y]:
		other = bo.X
	default:
		return
	}
	if !isNilConst(other) {
		return
	}
	if bo.Op == token.NEQ {
		return b.Succs[0], b.Succs[1], true
	}
	return b.Succs[1], b.Succs[0], true
}

type tolRecord struct {
	name, con string
	pos       string
	decl      *FuncInfo
	anon      bool
}

func errorFlow(r *Run, fn *ssa.Function, decl *FuncInfo) (tols []tolRecord) {
	w := r.W
	name := ssaName(fn)
	for _, src := range errSourcesOf(fn) {
		pkg, cname := staticCalleeName(src.call)
		callee := strings.TrimPrefix(pkg+"."+cname, ".")
		if cname == "" {
			callee = "dynamic call " + src.call.Common().Value.Name()
		}
		con := "error of " + shortCallee(callee)
		pos := w.Pos(src.call.Pos())
		if src.val == nil {
			key := strings.TrimPrefix(cname, "")
			if why, ok := c05DropExceptions[shortCallee(callee)]; ok {
				_ = key
				r.Ok("R1", name, con, pos, "exception: "+why)
				continue
			}
			r.Bad("R1", name, con+" discarded", pos, "the error result of this call is never looked at")
			continue
		}
		al := aliasesOf(src.val)
		// (1) must-consume: every path from the definition reaches a test, a return of it, or a use
		if drop := firstDroppingExit(fn, src, al); drop != nil {
			r.Bad("R1", name, con+" dropped on a path", pos,
				fmt.Sprintf("on a path from this call to the return at %s the error is neither tested nor returned", w.Pos(drop.Pos())))
			continue
		}
		// (2) every nil test: the non-nil side must leave with a non-nil error
		okAll := true
		how := "returned or tested on every path"
		for _, b := range fn.Blocks {
			// the typed assertion made on the error itself, without a nil test in front of it
			// (`if _, unknown := err.(*ErrUnknownIdentifier); unknown { return res, nil }`): its ok side is the tolerance
			if iff, isIf := b.Instrs[len(b.Instrs)-1].(*ssa.If); isIf {
				if ex, isEx := iff.Cond.(*ssa.Extract); isEx && ex.Index == 1 {
					if ta, isTA := ex.Tuple.(*ssa.TypeAssert); isTA && ta.CommaOk && al[ta.X] {
						if pt, isPtr := ta.AssertedType.(*types.Pointer); isPtr && namedIs(pt.Elem(), modPath, "ErrUnknownIdentifier") {
							how = "typed tolerance of *ErrUnknownIdentifier"
							tols = append(tols, tolRecord{name: name, con: con, pos: pos, decl: decl})
							continue
						}
					}
				}
			}
			nn, nb, ok := nilTest(b, al)
			if !ok {
				// the error tested through a predicate of the module: `if fails(err, ...) { return nil, err }`
				var pr *errPred
				var tolerates bool
				if nn, nb, pr, tolerates, ok = errPredTest(b, al); !ok {
					continue
				}
				if pr.swallows {
					okAll = false
					r.Bad("R1", name, con+" swallowed", pos,
						fmt.Sprintf("the predicate tested at %s answers for some non-nil error as it does for nil (outside the typed unknown-identifier tolerance)", w.Pos(b.Instrs[len(b.Instrs)-1].Pos())))
				}
				if tolerates {
					how = "typed tolerance of *ErrUnknownIdentifier"
					tols = append(tols, tolRecord{name: name, con: con, pos: pos, decl: decl})
				}
			}
			res := nonNilSide(fn, b, nn, nb, al)
			for _, v := range res.swallow {
				okAll = false
				r.Bad("R1", name, con+" swallowed", pos,
					fmt.Sprintf("after the test at %s the non-nil side continues into the normal flow (reaches %s) without returning an error", w.Pos(b.Instrs[len(b.Instrs)-1].Pos()), w.Pos(firstPos(v))))
			}
			for _, ret := range res.nilReturns {
				okAll = false
				r.Bad("R1", name, con+" turned into success", pos,
					fmt.Sprintf("on the non-nil side the function returns a nil error at %s", w.Pos(ret.Pos())))
			}
			if res.tolerated {
				how = "typed tolerance of *ErrUnknownIdentifier"
				tols = append(tols, tolRecord{name: name, con: con, pos: pos, decl: decl})
			}
		}
		if okAll {
			r.Ok("R1", name, con, pos, how)
		}
	}
	return tols
}

func shortCallee(s string) string {
	s = strings.ReplaceAll(s, "*", "")
	s = strings.ReplaceAll(s, modPath+"/", "")
	s = strings.ReplaceAll(s, modPath+".", "plush.")
	if i := strings.LastIndex(s, "/"); i >= 0 && !strings.HasPrefix(s, "(") {
		s = s[i+1:]
	}
	return s
}

func firstPos(b *ssa.BasicBlock) token.Pos {
	for _, i := range b.Instrs {
		if i.Pos().IsValid() {
			return i.Pos()
		}
	}
	return token.NoPos
}

// consumes: the instruction looks at the error value (test, return, argument
// of a call, type assertion, store).
func consumes(ins ssa.Instruction, al map[ssa.Value]bool) bool {
	switch x := ins.(type) {
	case *ssa.Return:
		for _, o := range retOperands(x) {
			if al[o] {
				return true
			}
		}
	case *ssa.BinOp:
		return al[x.X] || al[x.Y]
	case *ssa.TypeAssert:
		return al[x.X]
	case ssa.CallInstruction:
		for _, a := range x.Common().Args {
			if al[a] {
				return true
			}
		}
		if al[x.Common().Value] {
			return true
		}
	case *ssa.Store:
		if al[x.Val] {
			if _, isAlloc := x.Addr.(*ssa.Alloc); !isAlloc {
				return true
			}
			// a store into a result cell is consumed by the Return of the same block
		}
	case *ssa.MakeInterface:
		return al[x.X]
	case *ssa.MapUpdate:
		return al[x.Value]
	case *ssa.Send:
		return al[x.X]
	}
	return false
}

// firstDroppingExit returns a Return reachable from the definition of the
// error without any consumption in between (nil if there is none).
func firstDroppingExit(fn *ssa.Function, src errSource, al map[ssa.Value]bool) ssa.Instruction {
	defIns := src.val.(ssa.Instruction)
	start := defIns.Block()
	seen := map[*ssa.BasicBlock]bool{}
	var drop ssa.Instruction
	var walk func(b *ssa.BasicBlock, from int)
	walk = func(b *ssa.BasicBlock, from int) {
		if drop != nil {
			return
		}
		for i := from; i < len(b.Instrs); i++ {
			ins := b.Instrs[i]
			if consumes(ins, al) {
				return
			}
			if ret, ok := ins.(*ssa.Return); ok {
				drop = ret
				return
			}
			if _, ok := ins.(*ssa.Panic); ok {
				return
			}
		}
		// a branch on a flag returned by the same call: where the flag is false the callee reported no error,
		// if it only ever returns an error together with a true flag
		skip := -1
		if ifi, ok := b.Instrs[len(b.Instrs)-1].(*ssa.If); ok && len(b.Succs) == 2 {
			cond, neg := stripNot(ifi.Cond)
			if ex, ok := cond.(*ssa.Extract); ok && isBasicKind(ex.Type(), types.Bool) {
				if sv, ok := src.val.(*ssa.Extract); ok && ex.Tuple == sv.Tuple {
					if c, ok := ex.Tuple.(*ssa.Call); ok && errorImpliesFlag(c.Call.StaticCallee(), sv.Index, ex.Index) {
						skip = 1 // the edge on which the flag is false
						if neg {
							skip = 0
						}
					}
				}
			}
		}
		for i, s := range b.Succs {
			if i == skip {
				continue
			}
			if !seen[s] {
				seen[s] = true
				walk(s, 0)
			}
		}
	}
	idx := 0
	for i, ins := range start.Instrs {
		if ins == defIns {
			idx = i + 1
		}
	}
	walk(start, idx)
	return drop
}

// errorImpliesFlag: every return of g whose result errIdx may be a non-nil error has the constant
// true as result flagIdx ("res, known, err": an error is only reported together with known).
func errorImpliesFlag(g *ssa.Function, errIdx, flagIdx int) bool {
	if g != nil && g.Origin() != nil && len(g.Origin().Blocks) > 0 {
		g = g.Origin() // an instance (or, from a generic body, a wrapper): judge the generic function itself
	}
	if g == nil || len(g.Blocks) == 0 || !inModule(g) {
		return false
	}
	n := 0
	for _, b := range g.Blocks {
		ret, ok := b.Instrs[len(b.Instrs)-1].(*ssa.Return)
		if !ok {
			continue
		}
		if errIdx >= len(ret.Results) || flagIdx >= len(ret.Results) {
			return false
		}
		n++
		if isNilConst(ret.Results[errIdx]) {
			continue
		}
		c, isC := ret.Results[flagIdx].(*ssa.Const)
		if !isC || c.Value == nil || c.Value.Kind() != constant.Bool || !constant.BoolVal(c.Value) {
			return false
		}
	}
	return n > 0
}

type nonNilResult struct {
	swallow    []*ssa.BasicBlock
	nilReturns []*ssa.Return
	tolerated  bool
}

// nonNilSide explores the non-nil successor of a nil test.
func nonNilSide(fn *ssa.Function, test, nn, nb *ssa.BasicBlock, al map[ssa.Value]bool) nonNilResult {
	var res nonNilResult
	// blocks reachable from the nil side without passing through the test block
	reachZ := map[*ssa.BasicBlock]bool{}
	var mark func(b *ssa.BasicBlock)
	mark = func(b *ssa.BasicBlock) {
		if reachZ[b] || b == test {
			return
		}
		reachZ[b] = true
		for _, s := range b.Succs {
			mark(s)
		}
	}
	mark(nb)
	type key struct {
		b   *ssa.BasicBlock
		lic bool
	}
	seen := map[key]bool{}
	var walk func(b *ssa.BasicBlock, lic bool)
	walk = func(b *ssa.BasicBlock, lic bool) {
		if seen[key{b, lic}] {
			return
		}
		seen[key{b, lic}] = true
		if reachZ[b] && b != nn || b == nb {
			// rejoined the normal flow
			if lic {
				res.tolerated = true
			} else {
				res.swallow = append(res.swallow, b)
			}
			return
		}
		if b == test {
			return
		}
		last := b.Instrs[len(b.Instrs)-1]
		switch t := last.(type) {
		case *ssa.Return:
			if ops := retOperands(t); len(ops) > 0 && isErrorType(ops[len(ops)-1].Type()) {
				if isNilConst(ops[len(ops)-1]) {
					if lic {
						// "an unknown identifier is nil": the helper reports success under the typed assertion
						res.tolerated = true
					} else {
						res.nilReturns = append(res.nilReturns, t)
					}
				}
			} else if len(ops) == 0 || !isErrorType(ops[len(ops)-1].Type()) {
				// the function cannot report errors at all: leaving here is swallowing
				if !lic {
					res.swallow = append(res.swallow, b)
				}
			}
			return
		case *ssa.If:
			// typed tolerance: ok of `alias.(*ErrUnknownIdentifier)` (comma-ok)
			okTrue, okFalse := lic, lic
			if isUnknownIdentOK(t.Cond, al, false) {
				okTrue = true
			} else if isUnknownIdentOK(t.Cond, al, true) {
				okFalse = true
			}
			walk(b.Succs[0], okTrue)
			walk(b.Succs[1], okFalse)
			return
		case *ssa.Panic:
			return
		}
		for _, s := range b.Succs {
			walk(s, lic)
		}
	}
	if nn == nb {
		return res
	}
	walk(nn, false)
	return res
}

// isUnknownIdentOK: cond is the ok result (negated if neg) of a comma-ok type
// assertion of an alias to *ErrUnknownIdentifier.
func isUnknownIdentOK(cond ssa.Value, al map[ssa.Value]bool, neg bool) bool {
	if u, ok := cond.(*ssa.UnOp); ok && u.Op == token.NOT {
		if !neg {
			return false
		}
		cond = u.X
	} else if neg {
		return false
	}
	// a predicate of the module that is exactly that assertion: func(err error) bool { _, ok := err.(*ErrUnknownIdentifier); return ok }
	if c, isCall := cond.(*ssa.Call); isCall && len(c.Call.Args) == 1 && al[c.Call.Args[0]] {
		if g := c.Call.StaticCallee(); g != nil && inModule(g) && len(g.Params) == 1 && len(g.Blocks) > 0 {
			n := 0
			for _, b := range g.Blocks {
				ret, isRet := b.Instrs[len(b.Instrs)-1].(*ssa.Return)
				if !isRet {
					continue
				}
				n++
				if len(ret.Results) != 1 || !isUnknownIdentOK(ret.Results[0], map[ssa.Value]bool{g.Params[0]: true}, false) {
					return false
				}
			}
			return n > 0
		}
		return false
	}
	ex, ok := cond.(*ssa.Extract)
	if !ok || ex.Index != 1 {
		return false
	}
	ta, ok := ex.Tuple.(*ssa.TypeAssert)
	if !ok || !ta.CommaOk || !al[ta.X] {
		return false
	}
	return namedIs(ta.AssertedType, modPath, "ErrUnknownIdentifier")
}

// ---- R2 (operator set) ------------------------------------------------------------

// ---- R3 ---------------------------------------------------------------------

func wrapVerbRule(r *Run) {
	w := r.W
	for _, rel := range c05Scope {
		for _, f := range w.Funcs(rel) {
			info := f.Pkg.TypesInfo
			for _, c := range callsIn(f.Decl.Body, false) {
				if !funcIs(calleeOf(info, c), "fmt", "Errorf") || len(c.Args) < 2 {
					continue
				}
				format, ok := constString(info, c.Args[0])
				if !ok {
					continue
				}
				verbs := formatVerbs(format)
				for i, a := range c.Args[1:] {
					tv, ok := info.Types[a]
					if !ok || !isErrorType(tv.Type) {
						continue
					}
					con := "fmt.Errorf(" + fmt.Sprintf("%q", format) + ") operand " + short(w.Fset, a)
					if i < len(verbs) && verbs[i] == 'w' {
						r.Ok("R3", f.Name(), con, w.Pos(c.Pos()), "%w")
					} else {
						v := "?"
						if i < len(verbs) {
							v = "%" + string(verbs[i])
						}
						r.Bad("R3", f.Name(), con+" formatted with "+v, w.Pos(c.Pos()), "an error operand must be wrapped with %w so that errors.Is/As still find the original")
					}
				}
			}
		}
	}
}

func formatVerbs(f string) []byte {
	var out []byte
	for i := 0; i < len(f); i++ {
		if f[i] != '%' {
			continue
		}
		i++
		for i < len(f) && strings.IndexByte("+-# 0123456789.*[]", f[i]) >= 0 {
			i++
		}
		if i < len(f) {
			if f[i] == '%' {
				continue
			}
			out = append(out, f[i])
		}
	}
	return out
}

// ---- R4 ---------------------------------------------------------------------

func emptyOnError(r *Run, fn *ssa.Function) {
	w := r.W
	res := fn.Signature.Results()
	if res.Len() != 2 || !isErrorType(res.At(1).Type()) {
		return
	}
	if !isBasicKind(res.At(0).Type(), types.String) {
		return
	}
	name := ssaName(fn)
	for _, b := range fn.Blocks {
		if b == fn.Recover {
			continue
		}
		ret, ok := b.Instrs[len(b.Instrs)-1].(*ssa.Return)
		if !ok || len(ret.Results) != 2 {
			continue
		}
		ops := retOperands(ret)
		v, e := ops[0], ops[1]
		con := "return at " + w.Pos(ret.Pos())
		switch {
		case isNilConst(e):
			r.Ok("R4", name, "return <value>, nil", w.Pos(ret.Pos()), "nil error")
		case isZeroString(v):
			r.Ok("R4", name, "return \"\", <error>", w.Pos(ret.Pos()), "empty result with the error")
		case sameTuple(v, e):
			r.Ok("R4", name, "pass-through of a (string, error) call", w.Pos(ret.Pos()), "callee obeys the same rule")
		case provablyNil(fn, b, e):
			r.Ok("R4", name, "return <value>, err (err proven nil)", w.Pos(ret.Pos()), "dominated by the nil side of a test of the same value")
		default:
			_ = con
			r.Bad("R4", name, "non-empty result returned with a possibly non-nil error", w.Pos(ret.Pos()),
				"a rendering function must return the empty string whenever it returns an error")
		}
	}
}

func isZeroString(v ssa.Value) bool {
	c, ok := v.(*ssa.Const)
	if !ok {
		return false
	}
	if c.Value == nil {
		return true
	}
	return c.Value.Kind() == constant.String && constant.StringVal(c.Value) == ""
}

func sameTuple(a, b ssa.Value) bool {
	ea, ok1 := a.(*ssa.Extract)
	eb, ok2 := b.(*ssa.Extract)
	if ok1 && ok2 && ea.Tuple == eb.Tuple {
		return true
	}
	// through identical phi structure (s, err := f(); ...; return s, err)
	return false
}

// provablyNil: the return block is dominated by the nil successor of a test
// of exactly this value.
func provablyNil(fn *ssa.Function, retBlock *ssa.BasicBlock, e ssa.Value) bool {
	al := map[ssa.Value]bool{e: true}
	for _, b := range fn.Blocks {
		nn, nb, ok := nilTest(b, al)
		if !ok || nn == nb {
			continue
		}
		if len(nb.Preds) == 1 && nb.Dominates(retBlock) {
			return true
		}
		// nil successor with several preds: all other preds must also imply nil; be conservative
		if nb.Dominates(retBlock) && !reaches(nn, retBlock, b) {
			return true
		}
	}
	return false
}

// reaches: to is reachable from from without passing through stop.
func reaches(from, to, stop *ssa.BasicBlock) bool {
	seen := map[*ssa.BasicBlock]bool{}
	var walk func(b *ssa.BasicBlock) bool
	walk = func(b *ssa.BasicBlock) bool {
		if b == to {
			return true
		}
		if seen[b] || b == stop {
			return false
		}
		seen[b] = true
		for _, s := range b.Succs {
			if walk(s) {
				return true
			}
		}
		return false
	}
	return walk(from)
}

// ---- R5 ---------------------------------------------------------------------

func reflectResultRule(r *Run) { reflectResultRuleAs(r, "R5") }

func reflectResultRuleAs(r *Run, rule string) {
	w := r.W
	f := w.evalMethod("CallExpression")
	if f == nil {
		r.Lost(rule, "call evaluator")
		return
	}
	fn := w.SSAFunc(f)
	m := w.coreModel()
	// the reflect call: in the call evaluator or in one of the helpers it was split into
	var call *ssa.Call
	seenFn := map[*ssa.Function]bool{fn: true}
	work := []*ssa.Function{fn}
	for i := 0; i < len(work) && i < 16; i++ {
		for _, b := range work[i].Blocks {
			for _, ins := range b.Instrs {
				c, ok := ins.(*ssa.Call)
				if !ok {
					continue
				}
				if pkg, name := staticCalleeName(c); pkg == "reflect" && name == "(Value).Call" {
					call = c
				}
				if g := c.Call.StaticCallee(); g != nil && len(g.Blocks) > 0 && !seenFn[g] && m.inline(work[i], g) {
					seenFn[g] = true
					work = append(work, g)
				}
			}
		}
	}
	if call == nil {
		r.Lost(rule, "reflect.Value.Call in the call evaluator")
		return
	}
	// where the result is looked at: the function of the call, or the helper its result is handed to
	var root ssa.Value = call
	fn = call.Parent()
	for hop := 0; hop < 2; hop++ {
		inspected := false
		for _, b := range fn.Blocks {
			for _, ins := range b.Instrs {
				if ta, ok := ins.(*ssa.TypeAssert); ok && ta.CommaOk && isErrorType(ta.AssertedType) && derivesFromValue(ta.X, root, 0) {
					inspected = true
				}
			}
		}
		if inspected {
			break
		}
		// handed on (directly, or returned to the one caller that hands it on)
		moved := false
		for _, b := range fn.Blocks {
			for _, ins := range b.Instrs {
				c, ok := ins.(*ssa.Call)
				if !ok || c.Call.StaticCallee() == nil || !seenFn[c.Call.StaticCallee()] {
					continue
				}
				for ai, a := range c.Call.Args {
					if a == root && ai < len(c.Call.StaticCallee().Params) && !moved {
						root, fn, moved = c.Call.StaticCallee().Params[ai], c.Call.StaticCallee(), true
					}
				}
			}
		}
		if !moved {
			break
		}
	}
	// the comma-ok assertion to error whose operand derives from the call result
	var okFalse *ssa.BasicBlock
	var okTrue *ssa.BasicBlock
	for _, b := range fn.Blocks {
		for _, ins := range b.Instrs {
			ta, ok := ins.(*ssa.TypeAssert)
			if !ok || !ta.CommaOk || !isErrorType(ta.AssertedType) || !derivesFromValue(ta.X, root, 0) {
				continue
			}
			// find the If on its ok
			for _, ref := range *ta.Referrers() {
				ex, ok := ref.(*ssa.Extract)
				if !ok || ex.Index != 1 {
					continue
				}
				for _, r2 := range *ex.Referrers() {
					if ifi, ok := r2.(*ssa.If); ok {
						okTrue, okFalse = ifi.Block().Succs[0], ifi.Block().Succs[1]
					}
				}
			}
			// the asserted operand must be the LAST result: index len(res)-1
			if !lastIndexOf(ta.X, root) {
				r.Bad(rule, f.Name(), "error taken from a result other than the last", w.Pos(ta.Pos()), "the trailing result is the error result")
			}
		}
	}
	if okFalse == nil {
		r.Bad(rule, f.Name(), "no error inspection of the reflect call result", w.Pos(call.Pos()), "a non-nil trailing error result of the helper must fail the render")
		return
	}
	// ok-true side returns a non-nil error
	if ret, ok := okTrue.Instrs[len(okTrue.Instrs)-1].(*ssa.Return); !ok || len(ret.Results) != 2 || isNilConst(retOperands(ret)[1]) {
		r.Bad(rule, f.Name(), "error branch does not return the error", w.Pos(firstPos(okTrue)), "when the trailing result is a non-nil error the evaluator must return it (wrapped)")
	}
	// every use of res[0] must be dominated by the ok-false edge
	bad := false
	n := 0
	for _, b := range fn.Blocks {
		for _, ins := range b.Instrs {
			ia, ok := ins.(*ssa.IndexAddr)
			if !ok || !derivesFromValue(ia.X, root, 0) {
				continue
			}
			c, isC := ia.Index.(*ssa.Const)
			if !isC || c.Int64() != 0 {
				continue
			}
			n++
			if !(okFalse.Dominates(b) && len(okFalse.Preds) == 1) {
				bad = true
				r.Bad(rule, f.Name(), "res[0] used before the error result is inspected", w.Pos(ia.Pos()),
					"the first result of the helper is used on a path that has not yet tested the trailing error result")
			}
		}
	}
	if !bad && n > 0 {
		r.Ok(rule, f.Name(), fmt.Sprintf("%d use(s) of res[0]", n), w.Pos(call.Pos()), "all dominated by the ok=false edge of the trailing-error test")
	}
}

func derivesFromValue(v ssa.Value, root ssa.Value, depth int) bool {
	if depth > 10 || v == nil {
		return false
	}
	if v == root {
		return true
	}
	switch x := v.(type) {
	case *ssa.IndexAddr:
		return derivesFromValue(x.X, root, depth+1)
	case *ssa.UnOp:
		return derivesFromValue(x.X, root, depth+1)
	case *ssa.Call:
		// method call on a value derived from root (res[i].Interface())
		if len(x.Call.Args) > 0 && derivesFromValue(x.Call.Args[0], root, depth+1) {
			return true
		}
		return false
	case *ssa.Phi:
		for _, e := range x.Edges {
			if derivesFromValue(e, root, depth+1) {
				return true
			}
		}
	case *ssa.Extract:
		return derivesFromValue(x.Tuple, root, depth+1)
	}
	return false
}

// lastIndexOf: v is (derived from) res[len(res)-1].
func lastIndexOf(v ssa.Value, root ssa.Value) bool {
	switch x := v.(type) {
	case *ssa.Call:
		if len(x.Call.Args) > 0 {
			return lastIndexOf(x.Call.Args[0], root)
		}
	case *ssa.UnOp:
		return lastIndexOf(x.X, root)
	case *ssa.IndexAddr:
		if x.X != root {
			return false
		}
		bo, ok := x.Index.(*ssa.BinOp)
		if !ok || bo.Op != token.SUB {
			return false
		}
		c, isC := bo.Y.(*ssa.Const)
		if !isC || c.Int64() != 1 {
			return false
		}
		if ln, ok := bo.X.(*ssa.Call); ok {
			if b, isB := ln.Call.Value.(*ssa.Builtin); isB && b.Name() == "len" && ln.Call.Args[0] == root {
				return true
			}
		}
	}
	return false
}

// methodValueStaysLocal: the identifier names a function used as a value, and that value is assigned to a local
// variable of f whose every other use is to be called.
func methodValueStaysLocal(w *World, info *types.Info, f *FuncInfo, id *ast.Ident) bool {
	var e ast.Node = id
	if sel, ok := w.Parent(id).(*ast.SelectorExpr); ok && sel.Sel == id {
		e = sel
	}
	as, ok := w.Parent(e).(*ast.AssignStmt)
	if !ok || len(as.Lhs) != len(as.Rhs) {
		return false
	}
	var local types.Object
	for i, rhs := range as.Rhs {
		if ast.Node(rhs) == e {
			local = objOf(info, as.Lhs[i])
		}
	}
	v, isVar := local.(*types.Var)
	if !isVar || v.Parent() == nil || v.Pkg() == nil || v.Parent() == v.Pkg().Scope() || v.IsField() {
		return false
	}
	okAll := true
	ast.Inspect(f.Decl.Body, func(n ast.Node) bool {
		x, isId := n.(*ast.Ident)
		if !isId || info.Uses[x] != types.Object(v) {
			return true
		}
		switch p := w.Parent(x).(type) {
		case *ast.CallExpr:
			if ast.Node(p.Fun) != ast.Node(x) {
				okAll = false // handed on as an argument
			}
		case *ast.AssignStmt:
			for _, r := range p.Rhs {
				if ast.Node(r) == ast.Node(x) {
					okAll = false
				}
			}
		default:
			okAll = false
		}
		return true
	})
	return okAll
}
