package main

// c17exec.go (C17.R7): a template is executed in the context it is given. A `contentFor` at the top of a page
// registers its block in the scope the page is rendered with; the layout, rendered afterwards with the same
// context, finds it there. An Exec that evaluates in a child of that context drops every top-level registration (and
// every top-level `let`) when it returns. Decided on the value graph: where an evaluator is built, the value
// that becomes its current scope is - through interface conversions and helpers with one call site - a context
// parameter of the building function itself, not a scope derived from it.

import (
	"go/types"

	"golang.org/x/tools/go/ssa"
)

func execScopeRule(r *Run, rule string) {
	w := r.W
	ct := w.compilerType()
	ctxF := w.compilerField("ctx")
	if ct == nil || ctxF == nil {
		r.Lost(rule, "evaluator type / scope field")
		return
	}
	w.SSA()
	pkg := w.SSAPkg("")
	st, ok := ct.Underlying().(*types.Struct)
	if pkg == nil || !ok {
		r.Lost(rule, "evaluator package")
		return
	}
	ctxIdx := fieldIndex(st, ctxF)
	n := 0
	for _, fn := range functionsOf(pkg) {
		for _, b := range fn.Blocks {
			for _, ins := range b.Instrs {
				s, ok := ins.(*ssa.Store)
				if !ok {
					continue
				}
				fa, ok := s.Addr.(*ssa.FieldAddr)
				if !ok || fa.Field != ctxIdx {
					continue
				}
				al, ok := fa.X.(*ssa.Alloc)
				if !ok {
					continue
				}
				pt, ok := al.Type().Underlying().(*types.Pointer)
				if !ok || !types.Identical(pt.Elem(), ct) {
					continue
				}
				// the scope of an evaluator under construction
				n++
				v := s.Val
				for i := 0; i < 4; i++ {
					switch y := v.(type) {
					case *ssa.MakeInterface:
						v = y.X
						continue
					case *ssa.ChangeInterface:
						v = y.X
						continue
					}
					break
				}
				v = crossNormIn(v, fn)
				for i := 0; i < 4; i++ {
					switch y := v.(type) {
					case *ssa.MakeInterface:
						v = crossNormIn(y.X, fn)
						continue
					case *ssa.ChangeInterface:
						v = crossNormIn(y.X, fn)
						continue
					}
					break
				}
				name := ssaName(fn)
				con := "scope of the evaluator that is built"
				if prm, isParam := v.(*ssa.Parameter); isParam && (namedIs(prm.Type(), hctxPath, "Context") || namedIs(prm.Type(), modPath, "Context") || isPtrToNamed(prm.Type(), modPath, "Context")) {
					r.Ok(rule, name, con, w.Pos(s.Pos()), "the context the caller handed in, as it is")
				} else {
					r.Bad(rule, name, con, w.Pos(s.Pos()),
						"the evaluator does not run in the context it was given but in something derived from it: what the template registers at its top level (contentFor blocks, let) is gone when Exec returns, and a layout rendered afterwards with the same context does not find it")
				}
			}
		}
	}
	if n == 0 {
		r.Lost(rule, "the place where an evaluator is built")
	}
}

func isPtrToNamed(t types.Type, pkg, name string) bool {
	pt, ok := t.(*types.Pointer)
	return ok && namedIs(pt.Elem(), pkg, name)
}
