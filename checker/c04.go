package main

import (
	"fmt"
	"go/constant"
	"go/token"
	"go/types"
	"os"
	"sort"
	"strings"

	"golang.org/x/tools/go/ssa"
)

func init() {
	register("C04", checkC04, "panics raised inside application-supplied Go functions that the template calls (the engine does not recover; the statement excludes them); nil maps or nil contexts handed to the constructors by the host program; typed-nil pointers hidden in interfaces other than *time.Time")
	register("C11", checkC11, "clause (a) for index-then-member paths: whether the string-keyed rebinding in the index-callee evaluator picks the name the tail looks up depends on the spelling of the path; no rule here decides that heuristic (an honest gap)")
}

// obligation: one operation that can panic, with the predicates that rule it out.
type obligation struct {
	ins   ssa.Instruction
	what  string
	preds []oblPred
}

type oblPred struct {
	desc  string
	prove func() (bool, string)
}

// c04Scope returns the SSA functions whose panic obligations are collected:
// evaluator, context types, helper context, the module's registered helpers
// and what they call inside the module.
func c04Scope(w *World) []*ssa.Function {
	prog := w.SSA()
	seen := map[*ssa.Function]bool{}
	var out []*ssa.Function
	var add func(f *ssa.Function)
	add = func(f *ssa.Function) {
		if f == nil || seen[f] || f.Blocks == nil || !inModule(f) {
			return
		}
		rel := fnRel(f)
		if rel == "parser" || rel == "lexer" || rel == "ast" || rel == "token" || rel == "helpers/helptest" {
			return
		}
		seen[f] = true
		out = append(out, f)
		for _, a := range f.AnonFuncs {
			add(a)
		}
		for _, b := range f.Blocks {
			for _, ins := range b.Instrs {
				if c, ok := ins.(ssa.CallInstruction); ok {
					add(c.Common().StaticCallee())
				}
			}
		}
	}
	for _, f := range w.compilerMethods() {
		add(prog.FuncValue(f.Obj))
	}
	for _, tn := range []string{"HelperContext", "Context", "userFunction", "ranger", "groupBy"} {
		if nt := w.NamedType("", tn); nt != nil {
			for _, f := range w.Funcs("") {
				if isMethodOf(f, nt) {
					add(prog.FuncValue(f.Obj))
				}
			}
		}
	}
	for fn := range w.helperRoots() {
		add(prog.FuncValue(fn))
	}
	for _, n := range []string{"GroupByHelper", "Render", "RenderR", "BuffaloRenderer", "Parse", "NewTemplate", "Template.Exec", "Template.Parse", "Template.Clone"} {
		if f := w.Func("", n); f != nil {
			add(prog.FuncValue(f.Obj))
		}
	}
	// iterator types of the helpers package
	for _, f := range w.Funcs("helpers/iterators") {
		add(prog.FuncValue(f.Obj))
	}
	sort.Slice(out, func(i, j int) bool { return out[i].Pos() < out[j].Pos() })
	return out
}

var (
	nilableKinds = kindSet(kChan, kFunc, kInterface, kMap, kPtr, kSlice, kUnsafePtr)
	lenKinds     = kindSet(kArray, kChan, kMap, kSlice, kString)
	indexKinds   = kindSet(kArray, kSlice, kString)
)

// collect enumerates the obligations of fn.
func (lg *ledger) collect() []obligation {
	var out []obligation
	for _, b := range lg.fn.Blocks {
		if b == lg.fn.Recover {
			continue
		}
		for _, ins := range b.Instrs {
			blk := b
			mk := func(what string, ps ...oblPred) {
				out = append(out, obligation{ins, what, ps})
			}
			P := func(desc string, p pred) oblPred {
				return oblPred{desc, func() (bool, string) { return lg.prove(p, blk) }}
			}
			switch x := ins.(type) {
			case *ssa.Call:
				lg.callObligations(x, blk, mk, P)
			case *ssa.Defer:
				// deferred closures are analysed as functions of their own
			case *ssa.TypeAssert:
				if !x.CommaOk {
					// the type switch lowering uses comma-ok; a plain assertion panics on mismatch
					mk("assertion "+lg.key(x.X)+".("+typeStr(x.AssertedType)+")", P("dynamic type is "+typeStr(x.AssertedType), pred{kind: pDynType, v: x.X, typ: x.AssertedType}))
				}
			case *ssa.IndexAddr:
				lg.indexObligation(x.X, x.Index, ins, blk, mk)
			case *ssa.Index:
				lg.indexObligation(x.X, x.Index, ins, blk, mk)
			case *ssa.Lookup:
				if _, isStr := x.X.Type().Underlying().(*types.Basic); isStr {
					lg.indexObligation(x.X, x.Index, ins, blk, mk)
				}
			case *ssa.Slice:
				lg.sliceObligation(x, blk, mk)
			case *ssa.MakeSlice:
				// make([]T, n, m) panics for n < 0 or m < n ("len/cap out of range"); a size that is not a
				// constant has to be known non-negative (a length, a count), and the capacity at least the length
				nonNeg := func(v ssa.Value) (bool, string) {
					if lg.sizeNonNeg(v, blk, nil, map[ssa.Value]bool{}, 0) {
						return true, ""
					}
					return false, "the size " + short80(v.String()) + " may be negative"
				}
				_, lenConst := x.Len.(*ssa.Const)
				_, capConst := x.Cap.(*ssa.Const)
				if !lenConst || !capConst {
					mk("make with size "+lg.key(x.Len)+", "+lg.key(x.Cap), oblPred{"0 <= len <= cap", func() (bool, string) {
						if ok, why := nonNeg(x.Len); !ok {
							return false, why
						}
						if x.Cap == x.Len {
							return true, ""
						}
						if ok, why := nonNeg(x.Cap); !ok {
							return false, why
						}
						if c, isC := x.Len.(*ssa.Const); isC && c.Value != nil && constant.Sign(c.Value) == 0 {
							return true, ""
						}
						lb, lo := lg.term(x.Len)
						cb, co := lg.term(x.Cap)
						// len <= cap  <=>  lb + lo <= cb + co
						if !entails(lg.subFacts(lg.boundFacts(blk)), lb, cb, co-lo) {
							return false, "capacity may be smaller than the length"
						}
						return true, ""
					}})
				}
			case *ssa.UnOp:
				if x.Op == token.MUL {
					// dereference of a pointer obtained from a type switch / assertion (may be a typed nil)
					if ex, ok := x.X.(*ssa.Extract); ok {
						if ta, ok := ex.Tuple.(*ssa.TypeAssert); ok && ex.Index == 0 {
							if _, isPtr := ta.AssertedType.Underlying().(*types.Pointer); isPtr {
								mk("dereference *"+lg.key(x.X), P("pointer is not nil", pred{kind: pIfaceNonNil, v: x.X}))
							}
						}
					}
				}
			case *ssa.BinOp:
				if (x.Op == token.QUO || x.Op == token.REM) && isIntType(x.Y.Type()) {
					mk("integer "+x.Op.String()+" by "+lg.key(x.Y), P("divisor is not zero", pred{kind: pNonZero, v: x.Y}))
				}
			case *ssa.Panic:
				mk("explicit panic", oblPred{"never", func() (bool, string) { return false, "" }})
			}
		}
	}
	return out
}

func short80(s string) string {
	if len(s) > 80 {
		return s[:80] + "..."
	}
	return s
}

// sizeNonNeg: v, used as the size of a make, is not negative. Decided on the value graph: constants, lengths and
// counts, what the dominating comparisons give, max with one such operand (min with all), sums, products,
// quotients, remainders of such values, every input of a phi (a value that is being defined is assumed: a
// counter that is only added to), and the results of a function of this module judged in its body with its
// parameters standing for the arguments of this call. A difference is non-negative only if the comparisons
// say so; the result of a dynamic call (the Len() of an iterator handed in from outside) and a parameter
// nobody vouches for are not. Assumption: sums and products of lengths do not overflow.
func (lg *ledger) sizeNonNeg(v ssa.Value, blk *ssa.BasicBlock, env map[*ssa.Parameter]ssa.Value, seen map[ssa.Value]bool, depth int) bool {
	if v == nil || depth > 12 {
		return false
	}
	if seen[v] {
		return true
	}
	seen[v] = true
	defer delete(seen, v)
	if c, isC := v.(*ssa.Const); isC {
		return c.Value != nil && c.Value.Kind() == constant.Int && constant.Sign(c.Value) >= 0
	}
	if env == nil && v.Parent() == lg.fn {
		tb, to := lg.term(v)
		if entails(lg.subFacts(lg.boundFacts(blk)), "0", tb, to) {
			return true
		}
	}
	switch x := v.(type) {
	case *ssa.Parameter:
		if a, ok := env[x]; ok {
			return lg.sizeNonNeg(a, blk, nil, seen, depth+1)
		}
		return false
	case *ssa.Phi:
		for _, e := range x.Edges {
			if !lg.sizeNonNeg(e, blk, env, seen, depth+1) {
				return false
			}
		}
		return true
	case *ssa.BinOp:
		switch x.Op {
		case token.ADD, token.MUL, token.QUO, token.REM, token.AND, token.SHR:
			return lg.sizeNonNeg(x.X, blk, env, seen, depth+1) && lg.sizeNonNeg(x.Y, blk, env, seen, depth+1)
		}
		return false
	case *ssa.Convert:
		if isIntType(x.X.Type()) && isIntType(x.Type()) {
			if b, ok := x.Type().Underlying().(*types.Basic); ok && (b.Kind() == types.Int || b.Kind() == types.Int64) {
				return lg.sizeNonNeg(x.X, blk, env, seen, depth+1)
			}
		}
		return false
	case *ssa.ChangeType:
		return lg.sizeNonNeg(x.X, blk, env, seen, depth+1)
	case *ssa.Call:
		if b, ok := x.Call.Value.(*ssa.Builtin); ok {
			switch b.Name() {
			case "len", "cap":
				return true
			case "max":
				for _, a := range x.Call.Args {
					if lg.sizeNonNeg(a, blk, env, seen, depth+1) {
						return true
					}
				}
				return false
			case "min":
				for _, a := range x.Call.Args {
					if !lg.sizeNonNeg(a, blk, env, seen, depth+1) {
						return false
					}
				}
				return true
			}
			return false
		}
		switch pureCallName(x) {
		case "Len", "Type.NumIn":
			return true
		}
		if pkg, name := staticCalleeName(x); (pkg == "reflect" && (name == "(Value).Cap" || name == "(Value).NumField" || name == "(Value).NumMethod")) || (pkg == "strings" && name == "Count") {
			return true
		}
		cal := x.Call.StaticCallee()
		if cal == nil || !inModule(cal) || len(cal.Blocks) == 0 || cal.Signature.Results().Len() != 1 || depth > 4 {
			return false
		}
		sub := map[*ssa.Parameter]ssa.Value{}
		if env == nil {
			for i, prm := range cal.Params {
				if i < len(x.Call.Args) {
					sub[prm] = x.Call.Args[i]
				}
			}
		}
		nret := 0
		for _, b := range cal.Blocks {
			if ret, ok := b.Instrs[len(b.Instrs)-1].(*ssa.Return); ok && len(ret.Results) == 1 {
				nret++
				if !lg.sizeNonNeg(ret.Results[0], blk, sub, seen, depth+2) {
					return false
				}
			}
		}
		return nret > 0
	}
	return false
}

func isIntType(t types.Type) bool {
	b, ok := t.Underlying().(*types.Basic)
	return ok && b.Info()&types.IsInteger != 0
}

func (lg *ledger) lenKeyOf(container ssa.Value) string {
	return "len(" + lg.key(container) + ")"
}

func (lg *ledger) indexObligation(container, index ssa.Value, ins ssa.Instruction, blk *ssa.BasicBlock, mk func(string, ...oblPred)) {
	ct := container.Type()
	if p, ok := ct.Underlying().(*types.Pointer); ok {
		ct = p.Elem()
	}
	if arr, ok := ct.Underlying().(*types.Array); ok {
		if c, isC := index.(*ssa.Const); isC && c.Value != nil {
			if k, _ := constant.Int64Val(c.Value); k >= 0 && k < arr.Len() {
				return
			}
		}
		// varargs arrays built by the compiler: index constant
	}
	if _, ok := ct.Underlying().(*types.Map); ok {
		return
	}
	what := "index " + lg.key(container) + "[" + lg.key(index) + "]"
	lk := lg.lenKeyOf(container)
	mk(what, oblPred{"0 <= index < len", func() (bool, string) { return lg.inBounds(index, lk, blk) }})
}

func (lg *ledger) sliceObligation(x *ssa.Slice, blk *ssa.BasicBlock, mk func(string, ...oblPred)) {
	// s[lo:hi] needs 0 <= lo <= hi <= len (cap for slices; len is sufficient)
	base := x.X
	if p, ok := base.Type().Underlying().(*types.Pointer); ok {
		if _, isArr := p.Elem().Underlying().(*types.Array); isArr && x.Low == nil && x.High == nil {
			return // arr[:] of the varargs array
		}
	}
	what := "slice " + lg.key(base) + "[" + keyOrEmpty(lg, x.Low) + ":" + keyOrEmpty(lg, x.High) + "]"
	lk := lg.lenKeyOf(base)
	mk(what, oblPred{"0 <= low <= high <= len", func() (bool, string) {
		cs := lg.subFacts(lg.boundFacts(blk))
		lowB, lowO := "0", int64(0)
		if x.Low != nil {
			lowB, lowO = lg.term(x.Low)
			if !entails(cs, "0", lowB, lowO) {
				return false, "low bound may be negative"
			}
		}
		if x.High != nil {
			hb, ho := lg.term(x.High)
			if !entails(cs, hb, lk, -ho) {
				return false, "high bound may exceed the length"
			}
			if !entails(cs, lowB, hb, ho-lowO) {
				return false, "low may exceed high"
			}
			return true, "bounds ordered by the dominating comparisons"
		}
		if !entails(cs, lowB, lk, -lowO) {
			return false, "low bound may exceed the length"
		}
		return true, "low <= len by the dominating comparisons"
	}})
}

func keyOrEmpty(lg *ledger, v ssa.Value) string {
	if v == nil {
		return ""
	}
	return lg.key(v)
}

// callObligations: reflect operations with preconditions.
func (lg *ledger) callObligations(c *ssa.Call, blk *ssa.BasicBlock, mk func(string, ...oblPred), P func(string, pred) oblPred) {
	cc := c.Common()
	if cc.IsInvoke() {
		if !namedIs(cc.Value.Type(), "reflect", "Type") {
			return
		}
		t := cc.Value
		name := cc.Method.Name()
		what := "reflect.Type." + name + " on " + lg.key(t)
		nn := P("the Type is not nil", pred{kind: pTypeNonNil, v: t})
		switch name {
		case "Elem":
			mk(what, nn, P("kind in {Array,Chan,Map,Ptr,Slice}", pred{kind: pTypeKindIn, v: t, kinds: kindSet(kArray, kChan, kMap, kPtr, kSlice)}))
		case "Key":
			mk(what, nn, P("kind is Map", pred{kind: pTypeKindIn, v: t, kinds: kindSet(kMap)}))
		case "NumIn", "IsVariadic", "NumOut":
			mk(what, nn, P("kind is Func", pred{kind: pTypeKindIn, v: t, kinds: kindSet(kFunc)}))
		case "In":
			numIn := "Type.NumIn(" + lg.key(t) + ")"
			idx := cc.Args[0]
			mk(what+" index "+lg.key(idx), nn, P("kind is Func", pred{kind: pTypeKindIn, v: t, kinds: kindSet(kFunc)}),
				oblPred{"0 <= i < NumIn", func() (bool, string) { return lg.inBounds(idx, numIn, blk) }})
		case "AssignableTo", "ConvertibleTo", "Implements":
			mk(what, nn, P("the argument Type is not nil", pred{kind: pTypeNonNil, v: cc.Args[0]}))
		case "Kind", "String", "Name", "Comparable", "PkgPath":
			mk(what, nn)
		}
		return
	}
	pkg, name := staticCalleeName(c)
	// standard-library functions that panic on an argument out of range
	if (pkg == "strings" || pkg == "bytes") && name == "Repeat" && len(cc.Args) == 2 {
		cnt := cc.Args[1]
		mk(pkg+".Repeat with count "+lg.key(cnt), oblPred{"count >= 0 (and the result does not overflow)", func() (bool, string) {
			cb, co := lg.term(cnt)
			if cb == "0" {
				// a constant count: small and non-negative
				if co >= 0 && co <= 1<<16 {
					return true, "constant count"
				}
				return false, ""
			}
			// a count known to be non-negative here (the length of the result is then a matter of memory, not of a panic
			// this rule can decide - a count taken from template data without an upper bound stays open)
			if entails(lg.subFacts(lg.boundFacts(blk)), "0", cb, co) && strings.HasPrefix(cb, "len(") {
				return true, "a length, non-negative"
			}
			return false, ""
		}})
		return
	}
	if pkg != "reflect" {
		return
	}
	if strings.HasPrefix(name, "(Value).") {
		m := strings.TrimPrefix(name, "(Value).")
		v := cc.Args[0]
		what := "reflect.Value." + m + " on " + lg.key(v)
		valid := P("the Value is valid", pred{kind: pValid, v: v})
		kin := func(desc string, ks uint64) oblPred { return P(desc, pred{kind: pKindIn, v: v, kinds: ks}) }
		switch m {
		case "Type", "MethodByName", "CanInterface", "CanSet", "CanAddr", "NumMethod", "Method":
			mk(what, valid)
		case "Interface":
			mk(what, valid, P("CanInterface (not reached through an unexported field)", pred{kind: pCanInterface, v: v}))
		case "IsNil":
			mk(what, kin("kind can be nil "+kindSetString(nilableKinds), nilableKinds))
		case "Elem":
			mk(what, kin("kind in {Interface,Ptr}", kindSet(kInterface, kPtr)))
		case "Len":
			mk(what, kin("kind has a length "+kindSetString(lenKinds), lenKinds))
		case "Cap":
			mk(what, kin("kind in {Array,Chan,Slice}", kindSet(kArray, kChan, kSlice)))
		case "Index":
			idx := cc.Args[1]
			lk := "Len(" + lg.key(v) + ")"
			mk(what+" index "+lg.key(idx), kin("kind in {Array,Slice,String}", indexKinds),
				oblPred{"0 <= i < Len()", func() (bool, string) { return lg.inBounds(idx, lk, blk) }})
		case "MapKeys", "MapRange":
			mk(what, kin("kind is Map", kindSet(kMap)))
		case "MapIndex":
			k := cc.Args[1]
			if m := mapKeysSource(k); m != nil && lg.key(m) == lg.key(v) {
				mk(what+" key from MapKeys()", kin("kind is Map", kindSet(kMap)))
				return
			}
			mk(what+" key "+lg.key(k), kin("kind is Map", kindSet(kMap)),
				P("key is valid", pred{kind: pValid, v: k}),
				lg.assignableToOf(k, v, "Key", blk, "key type assignable to the map's key type"),
				lg.comparable(k, blk))
		case "SetMapIndex":
			k, e := cc.Args[1], cc.Args[2]
			mk(what+" key "+lg.key(k), kin("kind is Map", kindSet(kMap)),
				P("map is not nil", pred{kind: pNotNilValue, v: v}),
				P("key is valid", pred{kind: pValid, v: k}),
				lg.assignableToOf(k, v, "Key", blk, "key type assignable to the map's key type"),
				lg.comparable(k, blk),
				oblPred{"element is invalid (delete) or assignable to the map's element type", func() (bool, string) {
					if ok, why := lg.prove(pred{kind: pNotValid, v: e}, blk); ok {
						return true, why
					}
					return lg.proveAssignableOrInvalid(e, v, "Elem", blk)
				}})
		case "Set":
			x := cc.Args[1]
			mk(what+" value "+lg.key(x), P("receiver is settable", pred{kind: pCanSet, v: v}),
				P("value is valid", pred{kind: pValid, v: x}),
				oblPred{"value type assignable to the receiver's type", func() (bool, string) { return lg.setAssignable(v, x, blk) }})
		case "FieldByName", "NumField", "Field":
			mk(what, kin("kind is Struct", kindSet(kStruct)))
		case "Call":
			mk(what, kin("kind is Func", kindSet(kFunc)), P("func is not nil", pred{kind: pNotNilValue, v: v}))
		case "Slice":
			mk(what, kin("kind in {Array,Slice,String}", indexKinds),
				oblPred{"a slice/string, or an ADDRESSABLE array", func() (bool, string) { return lg.sliceable(v, blk) }})
		case "Convert":
			mk(what, valid, oblPred{"type convertible to the target", func() (bool, string) {
				tkey := "Type(" + lg.key(v) + ")"
				_ = tkey
				// find Type(v) value
				for _, tv := range lg.typeValuesOf(v) {
					if ok, why := lg.prove(pred{kind: pConvertible, v: tv, b: cc.Args[1]}, blk); ok {
						return true, why
					}
				}
				return false, ""
			}})
		case "Int":
			mk(what, kin("kind in {Int,Int8,Int16,Int32,Int64}", kindSet(2, 3, 4, 5, 6)))
		case "Uint":
			mk(what, kin("kind in {Uint,Uint8,Uint16,Uint32,Uint64,Uintptr}", kindSet(7, 8, 9, 10, 11, 12)))
		case "Float":
			mk(what, kin("kind in {Float32,Float64}", kindSet(13, 14)))
		case "Complex":
			mk(what, kin("kind in {Complex64,Complex128}", kindSet(15, 16)))
		case "Bool":
			mk(what, kin("kind is Bool", kindSet(kBool)))
		case "Kind", "IsValid", "String", "IsZero":
		}
		return
	}
	switch name {
	case "New", "Zero", "PtrTo", "PointerTo", "SliceOf", "MakeSlice":
		mk("reflect."+name+" of "+lg.key(cc.Args[0]), P("the Type is not nil", pred{kind: pTypeNonNil, v: cc.Args[0]}))
	case "Append":
		s := cc.Args[0]
		ps := []oblPred{P("kind is Slice", pred{kind: pKindIn, v: s, kinds: kindSet(kSlice)})}
		// variadic elements: passed as a slice built from an array; examine the stores
		for _, e := range lg.variadicElems(cc.Args[1]) {
			e := e
			ps = append(ps, P("appended value is valid", pred{kind: pValid, v: e}),
				lg.assignableToOf(e, s, "Elem", blk, "appended value assignable to the slice's element type"))
		}
		mk("reflect.Append to "+lg.key(s), ps...)
	}
}

// sliceable: Value.Slice panics on an array that is not addressable.
func (lg *ledger) sliceable(v ssa.Value, blk *ssa.BasicBlock) (bool, string) {
	if lg.sliceableAt(v, blk, nil, 0) {
		return true, "not an array, or addressable (on every way the value can take)"
	}
	return false, "an array held by value may reach Slice"
}

// sliceableAt: at the end of block from (on the edge from->to when to is given) the value is not
// an array, or is addressable. Followed through phis (every input), through the result of a
// module function (every return), through a parameter (every static call site), and -- when no
// single fact covers all ways into a block -- separately on each incoming edge.
func (lg *ledger) sliceableAt(x ssa.Value, from, to *ssa.BasicBlock, depth int) bool {
	if depth > 6 {
		return false
	}
	x = throughCell(x)
	ctx := &proofCtx{visited: map[string]bool{}, done: map[string]string{}, failed: map[string]bool{}, nilPhis: map[*ssa.Phi]bool{}}
	// (together with the separate obligation kind in {Array,Slice,String}) not-an-array suffices
	for _, p := range []pred{{kind: pKindIn, v: x, kinds: ^uint64(0) &^ (1 << kArray)}, {kind: pCanAddr, v: x}} {
		if to != nil {
			if ok, _ := lg.proveEdge(p, from, to, ctx); ok {
				return true
			}
		} else if ok, _ := lg.proveIn(p, from, ctx); ok {
			return true
		}
	}
	switch y := x.(type) {
	case *ssa.Phi:
		for i, e := range y.Edges {
			if !lg.sliceableAt(e, y.Block().Preds[i], y.Block(), depth+1) {
				return false
			}
		}
		return true
	case *ssa.Call:
		g := y.Call.StaticCallee()
		if g == nil || len(g.Blocks) == 0 || !inModule(g) || g == lg.fn || g.Signature.Results().Len() != 1 {
			return false
		}
		lgG := newLedger(lg.w, g)
		n := 0
		for _, b := range g.Blocks {
			r, isRet := b.Instrs[len(b.Instrs)-1].(*ssa.Return)
			if !isRet || len(r.Results) != 1 {
				continue
			}
			n++
			if !lgG.sliceableAt(r.Results[0], b, nil, depth+1) {
				return false
			}
		}
		return n > 0
	case *ssa.Parameter:
		idx := -1
		for i, q := range lg.fn.Params {
			if q == y {
				idx = i
			}
		}
		// a fact of this function about the parameter, one incoming edge at a time
		if to == nil && len(from.Preds) > 1 {
			all := true
			for _, pr := range from.Preds {
				if !lg.sliceableAt(x, pr, from, depth+1) {
					all = false
				}
			}
			if all {
				return true
			}
		}
		sites := lg.w.staticCallSites(lg.fn)
		if idx < 0 || len(sites) == 0 {
			return false
		}
		for _, s := range sites {
			if idx >= len(s.Common().Args) {
				return false
			}
			l2 := newLedger(lg.w, s.Parent())
			if !l2.sliceableAt(s.Common().Args[idx], s.Block(), nil, depth+1) {
				return false
			}
		}
		return true
	}
	if to == nil && len(from.Preds) > 1 {
		for _, pr := range from.Preds {
			if !lg.sliceableAt(x, pr, from, depth+1) {
				return false
			}
		}
		return true
	}
	return false
}

// variadicElems: the values stored into the array behind a variadic slice argument.
func (lg *ledger) variadicElems(v ssa.Value) []ssa.Value {
	sl, ok := v.(*ssa.Slice)
	if !ok {
		return nil
	}
	al, ok := sl.X.(*ssa.Alloc)
	if !ok {
		return nil
	}
	var out []ssa.Value
	for _, ref := range *al.Referrers() {
		if ia, ok := ref.(*ssa.IndexAddr); ok {
			for _, r2 := range *ia.Referrers() {
				if st, ok := r2.(*ssa.Store); ok {
					out = append(out, st.Val)
				}
			}
		}
	}
	return out
}

// typeValuesOf: SSA values in this function that denote Type(v).
func (lg *ledger) typeValuesOf(v ssa.Value) []ssa.Value {
	want := "Type(" + lg.key(v) + ")"
	static := lg.rtypeKeyOfValue(v) // (or any value that denotes the same statically known type)
	var out []ssa.Value
	for _, b := range lg.fn.Blocks {
		for _, ins := range b.Instrs {
			if val, ok := ins.(ssa.Value); ok && (lg.key(val) == want || (static != "" && lg.rtypeKey(val) == static)) {
				out = append(out, val)
			}
		}
	}
	return out
}

// typeKeysOf: canonical keys denoting the static source of a Value's type.
func (lg *ledger) valueTypeKeys(x ssa.Value) []string {
	keys := []string{"Type(" + lg.key(x) + ")"}
	if args, ok := reflectFunc(x, "ValueOf"); ok {
		keys = append(keys, "TypeOf("+lg.key(args[0])+")")
	}
	if rk := lg.rtypeKeyOfValue(x); rk != "" {
		keys = append(keys, rk)
	}
	if args, ok := reflectFunc(x, "Zero"); ok {
		keys = append(keys, lg.key(args[0]))
	}
	if recv, _, ok := reflectValueCall(x, "Elem"); ok {
		if args, ok := reflectFunc(recv, "New"); ok {
			keys = append(keys, lg.key(args[0]))
		}
	}
	if _, args, ok := reflectValueCall(x, "Convert"); ok {
		keys = append(keys, lg.key(args[0]))
	}
	return keys
}

// assignableToOf: Type(x) is assignable to Type(container).<part>().
func (lg *ledger) assignableToOf(x, container ssa.Value, part string, blk *ssa.BasicBlock, desc string) oblPred {
	return oblPred{desc, func() (bool, string) { return lg.proveAssignable(x, container, part, blk) }}
}

func (lg *ledger) proveAssignable(x, container ssa.Value, part string, blk *ssa.BasicBlock) (bool, string) {
	targets := []string{"Type." + part + "(Type(" + lg.key(container) + "))"}
	if args, ok := reflectFunc(container, "ValueOf"); ok {
		targets = append(targets, "Type."+part+"(TypeOf("+lg.key(args[0])+"))")
	}
	return lg.proveAssignableT(x, targets, blk, 0)
}

// proveAssignableT: Type(x) is assignable to the type denoted by one of the target keys.
func (lg *ledger) proveAssignableT(x ssa.Value, targets []string, blk *ssa.BasicBlock, depth int) (bool, string) {
	// phi: each input separately
	if phi, ok := x.(*ssa.Phi); ok {
		for i, e := range phi.Edges {
			if ok, _ := lg.proveAssignableOnEdgeT(e, targets, phi.Block().Preds[i], phi.Block(), depth); !ok {
				// the fact may be established after the join on the phi itself
				goto direct
			}
		}
		return true, "all phi inputs"
	}
direct:
	for _, tk := range lg.valueTypeKeys(x) {
		for _, target := range targets {
			if tk == target {
				return true, "the value was built from that very type"
			}
			for _, tv := range lg.valuesWithKey(tk) {
				if ok, why := lg.prove(pred{kind: pAssignable, v: tv, bKey: target}, blk); ok {
					return true, why
				}
			}
		}
	}
	// the test was made inside a predicate of the module (usableAsMapKey(kv, keyT)): the Type() value it was made on
	// does not exist in this function, but the fact names the same type by its key
	for _, f := range lg.domFacts(blk) {
		cond, truth := f.cond, f.truth
		for {
			u, ok := cond.(*ssa.UnOp)
			if !ok || u.Op != token.NOT {
				break
			}
			cond, truth = u.X, !truth
		}
		recv, args, ok := reflectTypeInvoke(cond, "AssignableTo")
		if !ok || !truth || len(args) != 1 {
			continue
		}
		rk, ak := lg.key(recv), lg.key(args[0])
		for _, tk := range lg.valueTypeKeys(x) {
			for _, target := range targets {
				if tk == rk && target == ak {
					return true, "dominating branch " + lg.condString(f)
				}
			}
		}
	}
	// the value of a validating helper `v, err := check(T, x)` with err known to be nil here: every
	// error-free return of the helper yields a value whose type is assignable to its parameter T
	if ok, why := lg.viaValidatingHelper(x, blk, depth, func(lgG *ledger, g *ssa.Function, call *ssa.Call, res ssa.Value, at *ssa.BasicBlock) bool {
		for k, prm := range g.Params {
			if !namedIs(prm.Type(), "reflect", "Type") || k >= len(call.Call.Args) {
				continue
			}
			ak := lg.key(call.Call.Args[k])
			match := false
			for _, t := range targets {
				if t == ak {
					match = true
				}
			}
			if !match {
				continue
			}
			if ok, _ := lgG.proveAssignableT(res, []string{lgG.key(prm)}, at, depth+1); ok {
				return true
			}
		}
		return false
	}); ok {
		return true, why
	}
	return false, ""
}

// viaValidatingHelper: x is result #i of a call of a module function whose error result is known
// to be nil at blk; holds reports whether the property holds for that result at one error-free
// return of the helper -- it must hold at every one.
func (lg *ledger) viaValidatingHelper(x ssa.Value, blk *ssa.BasicBlock, depth int, holds func(lgG *ledger, g *ssa.Function, call *ssa.Call, res ssa.Value, at *ssa.BasicBlock) bool) (bool, string) {
	ex, ok := x.(*ssa.Extract)
	if !ok || depth > 2 {
		return false, ""
	}
	call, ok := ex.Tuple.(*ssa.Call)
	if !ok {
		return false, ""
	}
	g := call.Call.StaticCallee()
	if g == nil || !inModule(g) || len(g.Blocks) == 0 || g == lg.fn || len(g.Params) != len(call.Call.Args) {
		return false, ""
	}
	// the error result known nil here
	errIdx := -1
	for _, f := range dominatingFacts(blk) {
		cond, truth := f.cond, f.truth
		for {
			u, ok := cond.(*ssa.UnOp)
			if !ok || u.Op != token.NOT {
				break
			}
			cond, truth = u.X, !truth
		}
		bo, ok := cond.(*ssa.BinOp)
		if !ok || (bo.Op != token.EQL && bo.Op != token.NEQ) || truth != (bo.Op == token.EQL) {
			continue
		}
		for _, side := range [][2]ssa.Value{{bo.X, bo.Y}, {bo.Y, bo.X}} {
			if fe, isEx := side[0].(*ssa.Extract); isEx && fe.Tuple == ex.Tuple && isNilConst(side[1]) && isErrorType(fe.Type()) {
				errIdx = fe.Index
			}
		}
	}
	if errIdx < 0 {
		return false, ""
	}
	lgG := newLedger(lg.w, g)
	n := 0
	for _, b := range g.Blocks {
		ret, isRet := b.Instrs[len(b.Instrs)-1].(*ssa.Return)
		if !isRet || errIdx >= len(ret.Results) || ex.Index >= len(ret.Results) {
			continue
		}
		if definitelyNonNil(ret.Results[errIdx]) {
			continue
		}
		n++
		if !holds(lgG, g, call, ret.Results[ex.Index], b) {
			return false, ""
		}
	}
	if n == 0 {
		return false, ""
	}
	return true, "guaranteed by " + g.Name() + " on every return without error"
}

func (lg *ledger) proveAssignableOnEdgeT(x ssa.Value, targets []string, from, to *ssa.BasicBlock, depth int) (bool, string) {
	if ok, why := lg.proveAssignableT(x, targets, from, depth); ok {
		return true, why
	}
	for _, f := range edgeFacts(from, to) {
		for _, tk := range lg.valueTypeKeys(x) {
			for _, tv := range lg.valuesWithKey(tk) {
				for _, target := range targets {
					if lg.implies(f, pred{kind: pAssignable, v: tv, bKey: target}) {
						return true, "edge " + lg.condString(f)
					}
				}
			}
		}
	}
	return false, ""
}

func (lg *ledger) proveAssignableOrInvalid(e, container ssa.Value, part string, blk *ssa.BasicBlock) (bool, string) {
	if ok, why := lg.proveAssignable(e, container, part, blk); ok {
		return true, why
	}
	// the guard is a materialised `valid && !assignable` that is known false: under each way it
	// can be false, the element is invalid or assignable
	target := "Type." + part + "(Type(" + lg.key(container) + "))"
	if lg.proveAnyUnderAlternatives(blk, func(ctx *proofCtx) bool {
		if ok, _ := lg.proveIn(pred{kind: pNotValid, v: e}, blk, ctx); ok {
			return true
		}
		for _, tk := range lg.valueTypeKeys(e) {
			for _, tv := range lg.valuesWithKey(tk) {
				if ok, _ := lg.proveIn(pred{kind: pAssignable, v: tv, bKey: target}, blk, ctx); ok {
					return true
				}
			}
		}
		return false
	}) {
		return true, "on every way the guard 'valid && !assignable' can be false the element is invalid or assignable"
	}
	// disjunction over the incoming edges: on each, either invalid or assignable
	if len(blk.Preds) >= 2 {
		var whys []string
		for _, pb := range blk.Preds {
			ok := false
			if f, has := edgeCond(pb, blk); has {
				if lg.implies(f, pred{kind: pNotValid, v: e}) {
					ok = true
					whys = append(whys, "invalid on "+lg.condString(f))
				} else {
					for _, tk := range lg.valueTypeKeys(e) {
						for _, tv := range lg.valuesWithKey(tk) {
							if lg.implies(f, pred{kind: pAssignable, v: tv, bKey: "Type." + part + "(Type(" + lg.key(container) + "))"}) {
								ok = true
								whys = append(whys, "assignable on "+lg.condString(f))
							}
						}
					}
				}
			}
			if !ok {
				if ok2, _ := lg.prove(pred{kind: pNotValid, v: e}, pb); ok2 {
					ok = true
				} else if ok3, _ := lg.proveAssignable(e, container, part, pb); ok3 {
					ok = true
				}
			}
			if !ok {
				return false, ""
			}
		}
		return true, "every incoming edge: " + strings.Join(dedupe(whys), " | ")
	}
	return false, ""
}

func (lg *ledger) valuesWithKey(k string) []ssa.Value {
	var out []ssa.Value
	for _, b := range lg.fn.Blocks {
		for _, ins := range b.Instrs {
			if val, ok := ins.(ssa.Value); ok && lg.key(val) == k {
				out = append(out, val)
			}
		}
	}
	for _, p := range lg.fn.Params {
		if lg.key(p) == k {
			out = append(out, p)
		}
	}
	for _, p := range lg.fn.FreeVars {
		if lg.key(p) == k {
			out = append(out, p)
		}
	}
	return out
}

func (lg *ledger) comparable(k ssa.Value, blk *ssa.BasicBlock) oblPred {
	return oblPred{"key type is comparable (hashable)", func() (bool, string) {
		for _, tk := range lg.valueTypeKeys(k) {
			for _, tv := range lg.valuesWithKey(tk) {
				if ok, why := lg.prove(pred{kind: pComparable, v: tv}, blk); ok {
					return true, why
				}
			}
		}
		// the test was made inside a predicate of the module: the fact names the type by its key
		for _, f := range lg.domFacts(blk) {
			cond, truth := f.cond, f.truth
			for {
				u, ok := cond.(*ssa.UnOp)
				if !ok || u.Op != token.NOT {
					break
				}
				cond, truth = u.X, !truth
			}
			if recv, _, ok := reflectTypeInvoke(cond, "Comparable"); ok && truth {
				rk := lg.key(recv)
				for _, tk := range lg.valueTypeKeys(k) {
					if tk == rk {
						return true, "dominating branch " + lg.condString(f)
					}
				}
				// the value and its type are kept side by side (kv, kvT = kv.Convert(keyT), keyT): two phis of one
				// block whose edges pair up, the type on each edge being the type of the value on that edge
				if tp, isTP := recv.(*ssa.Phi); isTP {
					if vp, isVP := throughCell(k).(*ssa.Phi); isVP && vp.Block() == tp.Block() && len(vp.Edges) == len(tp.Edges) {
						paired := len(vp.Edges) > 0
						for i := range vp.Edges {
							ek, hit := lg.key(tp.Edges[i]), false
							for _, tk := range lg.valueTypeKeys(vp.Edges[i]) {
								if tk == ek {
									hit = true
								}
							}
							if !hit {
								paired = false
							}
						}
						if paired {
							return true, "dominating branch " + lg.condString(f) + " (the type kept beside the value)"
						}
					}
				}
			}
		}
		// a key that is one of several values (kept as it is, or converted to the key type): each of them,
		// with what is known on the way it takes into the join
		if phi, ok := throughCell(k).(*ssa.Phi); ok {
			all := len(phi.Edges) > 0
			for i, e := range phi.Edges {
				okE := false
				for _, tk := range lg.valueTypeKeys(e) {
					for _, tv := range lg.valuesWithKey(tk) {
						ctx := &proofCtx{visited: map[string]bool{}, done: map[string]string{}, failed: map[string]bool{}, nilPhis: map[*ssa.Phi]bool{}}
						if ok, _ := lg.proveEdge(pred{kind: pComparable, v: tv}, phi.Block().Preds[i], phi.Block(), ctx); ok {
							okE = true
						}
					}
				}
				if !okE {
					all = false
				}
			}
			if all {
				return true, "every value the key can be has a comparable type"
			}
		}
		// the value of a validating helper that returns without error only for comparable types
		if ok, why := lg.viaValidatingHelper(k, blk, 0, func(lgG *ledger, g *ssa.Function, call *ssa.Call, res ssa.Value, at *ssa.BasicBlock) bool {
			ok, _ := lgG.comparable(res, at).prove()
			return ok
		}); ok {
			return true, why
		}
		return false, ""
	}}
}

// setAssignable: recv.Set(x): Type(x) assignable to Type(recv).
func (lg *ledger) setAssignable(recv, x ssa.Value, blk *ssa.BasicBlock) (bool, string) {
	// the receiver's type as canonical keys
	var rkeys []string
	if r2, _, ok := reflectValueCall(recv, "Elem"); ok {
		if args, ok := reflectFunc(r2, "New"); ok {
			rkeys = append(rkeys, lg.key(args[0]))
			if rk := lg.rtypeKey(args[0]); rk != "" {
				rkeys = append(rkeys, rk)
			}
		} else if phi, ok := r2.(*ssa.Phi); ok {
			_ = phi
		}
		// ptr := reflect.New(T); ptr.Elem()
		if args, ok := reflectFunc(r2, "New"); ok {
			rkeys = append(rkeys, lg.key(args[0]))
		}
	}
	if r2, _, ok := reflectValueCall(recv, "Index"); ok {
		rkeys = append(rkeys, "Type.Elem(Type("+lg.key(r2)+"))")
		if args, ok := reflectFunc(r2, "ValueOf"); ok {
			rkeys = append(rkeys, "Type.Elem(TypeOf("+lg.key(args[0])+"))")
		}
	}
	// the receiver is what a helper of the module returns, and every return of it without error yields
	// <parameter>.Index(i): an element of the value handed to the helper
	if ex, ok := recv.(*ssa.Extract); ok {
		if call, ok := ex.Tuple.(*ssa.Call); ok {
			if g := call.Call.StaticCallee(); g != nil && inModule(g) && len(g.Blocks) > 0 && len(g.Params) == len(call.Call.Args) {
				k, n := -1, 0
				for _, b := range g.Blocks {
					ret, isRet := b.Instrs[len(b.Instrs)-1].(*ssa.Return)
					if !isRet || ex.Index >= len(ret.Results) {
						continue
					}
					if last := ret.Results[len(ret.Results)-1]; isErrorType(last.Type()) && definitelyNonNil(last) {
						continue // a failing return
					}
					n++
					r2, _, isIdx := reflectValueCall(ret.Results[ex.Index], "Index")
					pi := -1
					for i, prm := range g.Params {
						if isIdx && r2 == ssa.Value(prm) {
							pi = i
						}
					}
					if pi < 0 || (k >= 0 && k != pi) {
						k, n = -1, -1000
						break
					}
					k = pi
				}
				if k >= 0 && n > 0 {
					a := call.Call.Args[k]
					rkeys = append(rkeys, "Type.Elem(Type("+lg.key(a)+"))")
					if args, ok := reflectFunc(a, "ValueOf"); ok {
						rkeys = append(rkeys, "Type.Elem(TypeOf("+lg.key(args[0])+"))")
					}
				}
			}
		}
	}
	if len(rkeys) == 0 {
		return false, ""
	}
	if ok, why := lg.proveAssignableT(x, rkeys, blk, 0); ok {
		return true, why
	}
	var check func(v ssa.Value, at *ssa.BasicBlock) bool
	check = func(v ssa.Value, at *ssa.BasicBlock) bool {
		for _, tk := range lg.valueTypeKeys(v) {
			for _, rk := range rkeys {
				if tk == rk {
					return true
				}
				for _, tv := range lg.valuesWithKey(tk) {
					if ok, _ := lg.prove(pred{kind: pAssignable, v: tv, bKey: rk}, at); ok {
						return true
					}
				}
			}
		}
		return false
	}
	if check(x, blk) {
		return true, "type identical by construction or established by AssignableTo"
	}
	if phi, ok := x.(*ssa.Phi); ok {
		for i, e := range phi.Edges {
			if !check(e, phi.Block().Preds[i]) {
				return false, ""
			}
			_ = i
		}
		return true, "all phi inputs"
	}
	return false, ""
}

// ---- the two properties ------------------------------------------------------------

// exceptions: obligations that hold by an argument outside the ledger's
// vocabulary. One symbol each, with the reason.
var c04Exceptions = map[string]string{
	"plush.compiler.evalCallExpression|reflect.Type.In on Type(rv) index pos#variadic-tail": "after the fixed-argument loop of the variadic branch the shared counter equals NumIn-1 (counted from 0 by +1 while < NumIn-1, and NumIn >= 1 for a variadic function)",
}

func runLedger(r *Run, rule string, fns []*ssa.Function, filter func(*ssa.Function, obligation) bool) {
	w := r.W
	for _, fn := range fns {
		lg := newLedger(w, fn)
		name := ssaName(fn)
		r.Analysed(name)
		for _, ob := range lg.collect() {
			if filter != nil && !filter(fn, ob) {
				continue
			}
			pos := w.Pos(ob.ins.Pos())
			var undischarged []string
			var hows []string
			for _, p := range ob.preds {
				ok, why := p.prove()
				if ok {
					hows = append(hows, p.desc+": "+why)
				} else {
					d := p.desc
					if why != "" {
						d += " (" + why + ")"
					}
					undischarged = append(undischarged, d)
				}
			}
			con := normaliseConstruct(ob.what)
			if len(undischarged) == 0 {
				r.Ok(rule, name, con, pos, strings.Join(hows, "; "))
				continue
			}
			if why := c04Exception(lg, fn, ob); why != "" {
				r.Ok(rule, name, con, pos, "exception: "+why)
				continue
			}
			if os.Getenv("PLUSH_DEBUG") != "" {
				fmt.Fprintf(os.Stderr, "DEBUG %s %s block %d\n", name, con, ob.ins.Block().Index)
				for _, f := range dominatingFacts(ob.ins.Block()) {
					fmt.Fprintf(os.Stderr, "   fact %s\n", lg.condString(f))
				}
			}
			r.Bad(rule, name, con, pos, "this operation panics unless: "+strings.Join(undischarged, "; ")+" -- and no dominating guard establishes it")
		}
	}
}

// normaliseConstruct removes the pointer suffixes of anonymous SSA keys so
// that finding keys are stable across runs.
func normaliseConstruct(s string) string {
	var b strings.Builder
	for i := 0; i < len(s); i++ {
		if s[i] == '@' && i+2 < len(s) && s[i+1] == '0' && s[i+2] == 'x' {
			j := i + 3
			for j < len(s) && strings.IndexByte("0123456789abcdef", s[j]) >= 0 {
				j++
			}
			i = j - 1
			continue
		}
		b.WriteByte(s[i])
	}
	return b.String()
}

func c04Exception(lg *ledger, fn *ssa.Function, ob obligation) string {
	name := ssaName(fn)
	// the group iterator hands out what GroupBy stored: u itself or u.Slice(...) under the Array/Slice arm (C19.R4)
	if strings.HasSuffix(name, "groupBy.Next") && strings.HasPrefix(ob.what, "reflect.Value.Interface") {
		return "the groups are only ever the collection itself or sub-slices of it, built under the Array/Slice arm of GroupBy (shape checked by C19.R4); all are valid Values"
	}
	// the dotted-path heuristic of the index-callee evaluator: ggg is sliced only while it has >= 2 elements
	if name == "plush.compiler.evalIndexCallee" && strings.HasPrefix(ob.what, "index ") && strings.HasSuffix(ob.what, "[const(0)]") {
		return "the split path never becomes empty: strings.Split yields >= 1 element and the loop re-slices [1:] only while len >= 2"
	}
	if name == "plush.compiler.evalCallExpression" {
		if c, ok := ob.ins.(*ssa.Call); ok && c.Call.IsInvoke() && c.Call.Method.Name() == "Elem" {
			if _, _, isIn := reflectTypeInvoke(c.Call.Value, "In"); isIn {
				return "the last parameter of a variadic function (IsVariadic() is true on this branch) is a slice type"
			}
		}
	}
	// variadic tail: rt.In(pos) directly after the first counted loop
	c, ok := ob.ins.(*ssa.Call)
	if !ok || !c.Call.IsInvoke() || c.Call.Method.Name() != "In" {
		return ""
	}
	if ssaName(fn) != "plush.compiler.evalCallExpression" {
		return ""
	}
	// the result must feed Elem() (the variadic element type) and the index must be a loop-exit phi
	feedsElem := false
	for _, ref := range *c.Referrers() {
		if c2, ok := ref.(*ssa.Call); ok && c2.Call.IsInvoke() && c2.Call.Method.Name() == "Elem" {
			feedsElem = true
		}
	}
	if _, isPhi := c.Call.Args[0].(*ssa.Phi); feedsElem && isPhi {
		return c04Exceptions["plush.compiler.evalCallExpression|reflect.Type.In on Type(rv) index pos#variadic-tail"]
	}
	return ""
}

func checkC04(r *Run) {
	r.Rule("R1", "panic-obligation ledger over the evaluator, the context types and the module's registered helpers: every reflect operation with a precondition, single-result type assertion, index/slice expression, dereference of an asserted pointer and integer division is discharged by construction, a dominating guard, agreement of all incoming edges, all phi inputs or all static callers", 60)
	fns := c04Scope(r.W)
	runLedger(r, "R1", fns, nil)
	r.Note("operation table: reflect.Value{Type,MethodByName,CanInterface,CanSet,CanAddr,Interface,IsNil,Elem,Len,Cap,Index,MapKeys,MapIndex,SetMapIndex,Set,FieldByName,Field,Call,Slice,Convert}, reflect.Type{Elem,Key,NumIn,IsVariadic,In,AssignableTo,ConvertibleTo,Implements,Kind,...}, reflect.{New,Zero,PtrTo,Append}, x.(T), a[i], a[i:j], *p of an asserted pointer, integer / and %%, panic()")
	r.Assume("reflect.Value.Call argument count and assignability are decided by C12 (not duplicated here)")
	r.Assume("a Value reached through FieldByName with a constant exported name is not read-only unless an enclosing field was unexported")
}

// navigation functions of C11: identifier, index access/update, index callee, call (receiver/method lookup)
func c11Funcs(w *World) map[string]bool {
	out := map[string]bool{}
	for _, n := range []string{"Identifier", "IndexExpression", "CallExpression"} {
		for _, f := range w.evalMethods(n) {
			out[f.Name()] = true
		}
	}
	// helpers of the index evaluator: methods with (left, index, ...) interface params called from it
	if ie := w.evalMethod("IndexExpression"); ie != nil {
		info := ie.Pkg.TypesInfo
		for _, c := range callsIn(ie.Decl.Body, false) {
			if fi := w.FuncOf(calleeOf(info, c)); fi != nil && isMethodOf(fi, w.compilerType()) && fi.Name() != w.evalMethod("Expression").Name() {
				out[fi.Name()] = true
				for _, c2 := range callsIn(fi.Decl.Body, false) {
					if f2 := w.FuncOf(calleeOf(info, c2)); f2 != nil && isMethodOf(f2, w.compilerType()) && f2.Name() != w.evalMethod("Expression").Name() {
						out[f2.Name()] = true
					}
				}
			}
		}
	}
	return out
}

func checkC11(r *Run) {
	r.Rule("R1", "selector provenance: the argument of each navigation primitive is the unmodified selector (Index <- the comma-ok int assertion of the evaluated index; MapIndex/SetMapIndex <- ValueOf(index) possibly converted to the key type; FieldByName/MethodByName <- the identifier node's Value), and the bounds test mentions the same values as the access", 1)
	r.Rule("R2", "failure arms: where navigation cannot be completed the navigation functions return nil or a non-nil error, never a value loaded from the container or the receiver itself", 1)
	r.Rule("R3", "navigation never panics: the panic-obligation ledger restricted to the identifier, index access/update, index-callee and call (receiver/method lookup) evaluators", 15)
	r.Rule("R4", "pointer transparency: after a Kind()==Ptr test the value is replaced by Elem() before the struct test; method lookup tries the value and then a synthesised pointer", 1)
	r.Rule("R5", "parser wiring: assignCallee handles exactly index, call and identifier nodes and records an error otherwise", 1)
	r.Rule("R6", "navigation state is per evaluation: no cache of reflection results keyed by names or types, and the synthesised pointer for pointer-receiver methods is fresh for every call", 1)
	w := r.W
	nav := c11Funcs(w)
	var fns []*ssa.Function
	for _, fn := range c04Scope(w) {
		base := fn
		for base.Parent() != nil {
			base = base.Parent()
		}
		if nav[ssaName(base)] {
			fns = append(fns, fn)
		}
	}
	runLedger(r, "R3", fns, nil)
	c11Provenance(r)
	c11FailureArms(r)
	c11PointerTransparency(r)
	c11ParserWiring(r)
	c11NoNavigationCache(r)
	r.Rule("R7", "receiver chains are linked: an identifier built per segment in a loop takes the previously built identifier as its callee", 0)
	receiverChainRule(r, "R7")
	r.Rule("R8", "conversions keep the kind: a template-supplied value (a map key) reaches reflect's Convert only under a dominating test that its kind equals the target's kind", 1)
	convertKindRule(r, "R8")
	r.Rule("R9", "the member tail of an index path is never dropped: an evaluator function that takes the index node yields a value only where it found the node's callee nil, or from a function it handed the node to", 1)
	indexTailRule(r, "R9")
	r.Rule("R12", "the tail of a path is parsed as a whole expression: what is handed to the wiring function behind `].` / `).` is the result of the Pratt entry at the fallback level", 1)
	pathTailLevelRule(r, "R12")
	r.Rule("R11", "a member is read off the value of its own receiver: where FieldByName is given the Value of an identifier node, the value it is applied to comes from an evaluation of that node's Callee", 1)
	memberReceiverRule(r, "R11")
	r.Rule("R10", "the index of a path is read where the path is evaluated: the scope in which the rest of an indexed path (a[i].b[j]) is evaluated is built at that access - a fresh child of the scope current on entry, put back by a defer - never one kept from an earlier access (its copy of i and j would be stale)", 1)
	scopeDisciplineRuleFor(r, "R10", func(root *ssa.Function) bool {
		for _, prm := range root.Params {
			if pt, ok := prm.Type().(*types.Pointer); ok && namedIs(pt.Elem(), astPath, "IndexExpression") {
				return true
			}
		}
		return false
	})
}

var _ = fmt.Sprint
