package main

// fnflow.go: where function values go. A function of the module that is not
// (only) called by name - a method value `c.fixedArguments`, a function literal
// handed to a helper as a callback, a function kept in a local and chosen by an
// if - is still called at known places as long as its value only flows through
// phis, local variables, parameters of module functions and into the callee
// position of calls. Those places are its call sites too; if the value escapes
// in any other way (stored in a field, returned, passed to a function outside
// the module), the set of call sites is not known and nothing is concluded.

import (
	"fmt"
	"go/types"
	"strings"
	"sync"

	"golang.org/x/tools/go/ssa"
	"golang.org/x/tools/go/ssa/ssautil"
)

// genSite: a call of a function - by name, or of a value that can only be this function (or one of
// a few). args are the values bound to the function's parameters (the receiver first for a method).
type genSite struct {
	ins  ssa.CallInstruction
	args []ssa.Value
	// assume: what is known at the call when it runs this function: the value reached the call through
	// one input of a phi, so control came along that edge (`bind := f; if variadic { bind = g }`)
	assume []edgeFact
}

func (s genSite) Block() *ssa.BasicBlock { return s.ins.Block() }
func (s genSite) Parent() *ssa.Function  { return s.ins.Parent() }

type fnFlowInfo struct {
	once    sync.Once
	sites   map[*ssa.Function][]genSite
	escaped map[*ssa.Function]bool
	assume  map[ssa.Value][]edgeFact // per flow in progress: what is known when the value has come this way
}

// boundTarget: for a bound method wrapper, the method it calls (nil for an interface method).
func boundTarget(w *ssa.Function) *ssa.Function {
	if !strings.HasPrefix(w.Synthetic, "bound method wrapper") {
		return nil
	}
	for _, b := range w.Blocks {
		for _, ins := range b.Instrs {
			if c, ok := ins.(*ssa.Call); ok {
				return c.Call.StaticCallee()
			}
		}
	}
	return nil
}

func (w *World) fnFlow() *fnFlowInfo {
	w.memoMu.Lock()
	if w.fnFlowMemo == nil {
		w.fnFlowMemo = &fnFlowInfo{}
	}
	ff := w.fnFlowMemo
	w.memoMu.Unlock()
	ff.once.Do(func() {
		ff.sites = map[*ssa.Function][]genSite{}
		ff.escaped = map[*ssa.Function]bool{}
		var all []*ssa.Function
		for _, p := range w.All {
			if sp := w.SSA().Package(p.Types); sp != nil {
				all = append(all, functionsOf(sp)...)
			}
		}
		for _, f := range all {
			for _, b := range f.Blocks {
				for _, ins := range b.Instrs {
					// function literals and method values
					if mc, ok := ins.(*ssa.MakeClosure); ok {
						target, _ := mc.Fn.(*ssa.Function)
						if target == nil {
							continue
						}
						real, recv := target, ssa.Value(nil)
						if strings.HasPrefix(target.Synthetic, "bound method wrapper") {
							real = boundTarget(target)
							if real == nil || len(mc.Bindings) != 1 {
								continue // a method value of an interface: nothing of the module is called through it by name
							}
							recv = mc.Bindings[0]
						}
						if !inModule(real) {
							continue
						}
						ff.follow(real, recv, mc)
						continue
					}
					// a function used as a value: an operand that is not the callee of the call itself
					var buf [8]*ssa.Value
					for _, op := range ins.Operands(buf[:0]) {
						if op == nil || *op == nil {
							continue
						}
						fv, ok := (*op).(*ssa.Function)
						if !ok || !inModule(fv) || fv.Synthetic != "" && !strings.HasPrefix(fv.Synthetic, "bound") {
							continue
						}
						if c, isCall := ins.(ssa.CallInstruction); isCall && c.Common().Value == ssa.Value(fv) {
							continue // called by name
						}
						ff.followUse(fv, nil, fv, ins)
					}
				}
			}
		}
	})
	return ff
}

// follow: the function value v (which stands for fn, with receiver recv if it is a method value) and every place it flows to.
func (ff *fnFlowInfo) follow(fn *ssa.Function, recv ssa.Value, v ssa.Value) {
	seen := map[ssa.Value]bool{}
	work := []ssa.Value{v}
	push := func(x ssa.Value) {
		if x != nil && !seen[x] {
			seen[x] = true
			work = append(work, x)
		}
	}
	seen[v] = true
	ff.assume = map[ssa.Value][]edgeFact{}
	for len(work) > 0 {
		cur := work[0]
		work = work[1:]
		refs := cur.Referrers()
		if refs == nil {
			ff.escaped[fn] = true
			return
		}
		for _, r := range *refs {
			if !ff.step(fn, recv, cur, r, push) {
				ff.escaped[fn] = true
				return
			}
		}
	}
}

// followUse: one use (instruction ins) of the function value v.
func (ff *fnFlowInfo) followUse(fn *ssa.Function, recv ssa.Value, v ssa.Value, ins ssa.Instruction) {
	seen := map[ssa.Value]bool{}
	var work []ssa.Value
	push := func(x ssa.Value) {
		if x != nil && !seen[x] {
			seen[x] = true
			work = append(work, x)
		}
	}
	ff.assume = map[ssa.Value][]edgeFact{}
	if !ff.step(fn, recv, v, ins, push) {
		ff.escaped[fn] = true
		return
	}
	for len(work) > 0 {
		cur := work[0]
		work = work[1:]
		refs := cur.Referrers()
		if refs == nil {
			ff.escaped[fn] = true
			return
		}
		for _, r := range *refs {
			if !ff.step(fn, recv, cur, r, push) {
				ff.escaped[fn] = true
				return
			}
		}
	}
}

// step: the value cur (standing for fn) is used by r; false when the use lets the value escape.
func (ff *fnFlowInfo) step(fn *ssa.Function, recv ssa.Value, cur ssa.Value, r ssa.Instruction, push func(ssa.Value)) bool {
	switch x := r.(type) {
	case *ssa.DebugRef:
		return true
	case *ssa.Phi:
		// control came along the edge(s) on which the phi takes this value (when there is exactly one, and
		// the phi is not in a loop, that is a fact for everything the phi's block dominates)
		var fs []edgeFact
		n := 0
		for i, e := range x.Edges {
			if e == cur {
				n++
				fs = edgeFactsInto(x.Block().Preds[i], x.Block())
			}
		}
		if n == 1 && !blockReaches(x.Block(), x.Block(), true) && ff.assume[x] == nil {
			ff.assume[x] = append(append([]edgeFact(nil), ff.assume[cur]...), fs...)
		}
		push(x)
		return true
	case *ssa.ChangeType:
		ff.assume[x] = ff.assume[cur]
		push(x)
		return true
	case ssa.CallInstruction:
		cc := x.Common()
		if cc.Value == cur && !cc.IsInvoke() {
			args := cc.Args
			if recv != nil {
				args = append([]ssa.Value{recv}, args...)
			}
			var assume []edgeFact
			if as := ff.assume[cur]; len(as) > 0 {
				// (only where the phi's block dominates the call: the assumption is about how control got here)
				if phi, isPhi := cur.(*ssa.Phi); isPhi && (phi.Block() == x.Block() || phi.Block().Dominates(x.Block())) {
					assume = as
				}
			}
			ff.sites[fn] = append(ff.sites[fn], genSite{ins: x, args: args, assume: assume})
			// (it may also be among the arguments)
		}
		for j, a := range cc.Args {
			if a != cur {
				continue
			}
			callee := cc.StaticCallee()
			if callee == nil || !inModule(callee) || len(callee.Blocks) == 0 || len(callee.Params) != len(cc.Args) {
				return false // handed to something that may do anything with it
			}
			push(callee.Params[j])
		}
		return true
	case *ssa.Store:
		if x.Val != cur {
			return true // stored INTO something reached through cur? not for function values
		}
		al, ok := x.Addr.(*ssa.Alloc)
		if !ok {
			return false
		}
		if _, okc := cellStores(al); !okc {
			return false
		}
		for _, ref := range *al.Referrers() {
			switch y := ref.(type) {
			case *ssa.UnOp:
				push(y)
			case *ssa.MakeClosure:
				if f2, ok := y.Fn.(*ssa.Function); ok {
					for i, b := range y.Bindings {
						if b == ssa.Value(al) && i < len(f2.FreeVars) {
							for _, r2 := range *f2.FreeVars[i].Referrers() {
								if ld, ok := r2.(*ssa.UnOp); ok {
									push(ld)
								}
							}
						}
					}
				}
			}
		}
		return true
	case *ssa.MakeClosure:
		// captured by value
		if f2, ok := x.Fn.(*ssa.Function); ok {
			for i, b := range x.Bindings {
				if b == cur && i < len(f2.FreeVars) {
					push(f2.FreeVars[i])
				}
			}
			return true
		}
		return false
	}
	return false
}

// callSitesAll: every call of fn - by name and through values of it; complete = false when a value
// of fn escapes (then there may be more).
func (w *World) callSitesAll(fn *ssa.Function) (sites []genSite, complete bool) {
	for _, s := range w.staticCallSites(fn) {
		// (the call inside a bound method wrapper is accounted for by the calls of the method value)
		if p := s.Parent(); p != nil && strings.HasPrefix(p.Synthetic, "bound method wrapper") {
			continue
		}
		// (the pointer-receiver wrapper of a value method can only run when a value of the type, or a pointer to
		// one, was put into an interface; for a type that never is, it is dead code)
		if p := s.Parent(); p != nil && strings.HasPrefix(p.Synthetic, "wrapper for") && p.Signature.Recv() != nil {
			rt := p.Signature.Recv().Type()
			if pt, isPtr := rt.(*types.Pointer); isPtr {
				rt = pt.Elem()
			}
			if nt, isNamed := rt.(*types.Named); isNamed && !w.boxedInModule(nt) {
				continue
			}
		}
		sites = append(sites, genSite{ins: s, args: s.Common().Args})
	}
	ff := w.fnFlow()
	sites = append(sites, ff.sites[fn]...)
	complete = !ff.escaped[fn]
	// an exported function or method can be called from outside the module (and an exported method
	// through an interface): the calls seen here are not all there are
	if o := fnObject(fn); fn.Parent() == nil && (o == nil || o.Exported()) {
		complete = false
	}
	return sites, complete
}

// calleesOfValue: the functions of the module a call of the function value v may run (method values
// resolved to the method), following parameters to the arguments of all call sites; nil when not known.
func (w *World) calleesOfValue(v ssa.Value, depth int) []*ssa.Function {
	if depth > 5 {
		return nil
	}
	v = throughCell(v)
	switch x := v.(type) {
	case *ssa.MakeClosure:
		if f, ok := x.Fn.(*ssa.Function); ok {
			return []*ssa.Function{f}
		}
	case *ssa.Function:
		return []*ssa.Function{x}
	case *ssa.Phi:
		var out []*ssa.Function
		for _, e := range x.Edges {
			fs := w.calleesOfValue(e, depth+1)
			if fs == nil {
				return nil
			}
			out = append(out, fs...)
		}
		return out
	case *ssa.Parameter:
		fn := x.Parent()
		idx := -1
		for i, p := range fn.Params {
			if p == x {
				idx = i
			}
		}
		sites, complete := w.callSitesAll(fn)
		if idx < 0 || !complete || len(sites) == 0 {
			return nil
		}
		var out []*ssa.Function
		for _, s := range sites {
			if idx >= len(s.args) {
				return nil
			}
			fs := w.calleesOfValue(s.args[idx], depth+1)
			if fs == nil {
				return nil
			}
			out = append(out, fs...)
		}
		return out
	}
	return nil
}

// boxedInModule: a value of the named type (or a pointer to one) is converted to an interface somewhere in the module.
func (w *World) boxedInModule(nt *types.Named) bool {
	key := fmt.Sprintf("boxed/%p", nt)
	w.memoMu.Lock()
	if w.postMemo == nil {
		w.postMemo = map[string]interface{}{}
	}
	v, have := w.postMemo[key]
	w.memoMu.Unlock()
	if have {
		return v.(bool)
	}
	boxed := false
	for fn := range ssautil.AllFunctions(w.SSA()) {
		if !inModule(fn) {
			continue
		}
		for _, b := range fn.Blocks {
			for _, ins := range b.Instrs {
				mi, ok := ins.(*ssa.MakeInterface)
				if !ok {
					continue
				}
				t := mi.X.Type()
				if pt, isPtr := t.(*types.Pointer); isPtr {
					t = pt.Elem()
				}
				if types.Identical(t, nt) {
					boxed = true
				}
			}
		}
	}
	w.memoMu.Lock()
	w.postMemo[key] = boxed
	w.memoMu.Unlock()
	return boxed
}
