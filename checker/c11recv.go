package main

// c11recv.go (C11.R11): a member is read off the value of its own receiver. In a path a.b.c each identifier node
// names a member (its Value) of what its Callee evaluates to. A field looked up by an identifier's Value on some
// other value that happens to be at hand - the result of the call the path hangs on, while the identifier's own
// callee chain (.Home in x.M().Home.Name) is skipped - yields "the value of a different element". Decided on the
// value graph of the evaluator package, across helpers with one call site: where FieldByName is given the Value of
// an identifier node N, the value it is applied to comes (through ValueOf / Elem / Indirect, on every way) from an
// evaluation of N's Callee.

import (
	"go/token"
	"go/types"

	"golang.org/x/tools/go/ssa"
)

func memberReceiverRule(r *Run, rule string) {
	w := r.W
	w.SSA()
	pkg := w.SSAPkg("")
	if pkg == nil {
		r.Lost(rule, "evaluator package")
		return
	}
	identField := func(v ssa.Value, field string) ssa.Value {
		ld, ok := v.(*ssa.UnOp)
		if !ok || ld.Op != token.MUL {
			return nil
		}
		fa, ok := ld.X.(*ssa.FieldAddr)
		if !ok {
			return nil
		}
		pt, ok := fa.X.Type().Underlying().(*types.Pointer)
		if !ok || !namedIs(pt.Elem(), astPath, "Identifier") {
			return nil
		}
		st, ok := pt.Elem().Underlying().(*types.Struct)
		if !ok || fa.Field >= st.NumFields() || st.Field(fa.Field).Name() != field {
			return nil
		}
		return crossNorm(fa.X)
	}
	// sources: the interface values a reflect.Value was made of (through Elem, Indirect, phis, ValueOf)
	var sources func(v ssa.Value, seen map[ssa.Value]bool, d int) ([]ssa.Value, bool)
	sources = func(v ssa.Value, seen map[ssa.Value]bool, d int) ([]ssa.Value, bool) {
		v = crossNorm(v)
		if seen[v] {
			return nil, true
		}
		seen[v] = true
		if d > 10 {
			return nil, false
		}
		if args, ok := reflectFunc(v, "ValueOf"); ok && len(args) == 1 {
			x := args[0]
			if mi, isMI := x.(*ssa.MakeInterface); isMI {
				x = mi.X
			}
			return []ssa.Value{crossNorm(x)}, true
		}
		if args, ok := reflectFunc(v, "Indirect"); ok && len(args) == 1 {
			return sources(args[0], seen, d+1)
		}
		if recv, _, ok := reflectValueCall(v, "Elem"); ok {
			return sources(recv, seen, d+1)
		}
		// a helper of the module that hands back its one reflect.Value parameter, dereferenced at most
		// (func indirect(rv reflect.Value) reflect.Value { if rv.Kind() == reflect.Ptr { return rv.Elem() }; return rv })
		if c, ok := v.(*ssa.Call); ok {
			if cal := c.Call.StaticCallee(); cal != nil && inModule(cal) && len(cal.Params) == 1 && len(c.Call.Args) == 1 && len(cal.Blocks) > 0 && cal.Signature.Results().Len() == 1 {
				var same func(x ssa.Value, dd int) bool
				same = func(x ssa.Value, dd int) bool {
					if dd > 6 {
						return false
					}
					if x == ssa.Value(cal.Params[0]) {
						return true
					}
					if recv, _, ok := reflectValueCall(x, "Elem"); ok {
						return same(recv, dd+1)
					}
					if args, ok := reflectFunc(x, "Indirect"); ok && len(args) == 1 {
						return same(args[0], dd+1)
					}
					if phi, ok := x.(*ssa.Phi); ok {
						for _, e := range phi.Edges {
							if !same(e, dd+1) {
								return false
							}
						}
						return true
					}
					return false
				}
				hands, nret := true, 0
				for _, b := range cal.Blocks {
					if ret, ok := b.Instrs[len(b.Instrs)-1].(*ssa.Return); ok {
						nret++
						if len(ret.Results) != 1 || !same(ret.Results[0], 0) {
							hands = false
						}
					}
				}
				if hands && nret > 0 {
					return sources(c.Call.Args[0], seen, d+1)
				}
			}
		}
		if phi, ok := v.(*ssa.Phi); ok {
			var out []ssa.Value
			for _, e := range phi.Edges {
				s, ok := sources(e, seen, d+1)
				if !ok {
					return nil, false
				}
				out = append(out, s...)
			}
			return out, true
		}
		return nil, false
	}
	evaluatesCalleeOf := func(x ssa.Value, node ssa.Value) bool {
		var call *ssa.Call
		switch y := x.(type) {
		case *ssa.Extract:
			call, _ = y.Tuple.(*ssa.Call)
		case *ssa.Call:
			call = y
		}
		if call == nil || call.Call.StaticCallee() == nil || !inModule(call.Call.StaticCallee()) {
			return false
		}
		for _, a := range call.Call.Args {
			for i := 0; i < 3; i++ {
				switch y := a.(type) {
				case *ssa.MakeInterface:
					a = y.X
					continue
				case *ssa.ChangeInterface:
					a = y.X
					continue
				}
				break
			}
			if n := identField(crossNorm(a), "Callee"); n != nil && n == node {
				return true
			}
		}
		return false
	}
	nSites := 0
	for _, fn := range functionsOf(pkg) {
		for _, b := range fn.Blocks {
			for _, ins := range b.Instrs {
				c, ok := ins.(*ssa.Call)
				if !ok {
					continue
				}
				recv, args, ok := reflectValueCall(c, "FieldByName")
				if !ok || len(args) != 1 {
					continue
				}
				node := identField(crossNorm(args[0]), "Value")
				if node == nil {
					continue // not the Value of an identifier node (R1 judges where the name comes from)
				}
				nSites++
				con := "FieldByName(" + valueText(args[0]) + ")"
				srcs, known := sources(recv, map[ssa.Value]bool{}, 0)
				good := known && len(srcs) > 0
				for _, s := range srcs {
					if !evaluatesCalleeOf(s, node) {
						good = false
					}
				}
				if good {
					r.Ok(rule, ssaName(fn), con, w.Pos(c.Pos()), "applied to the value the identifier's own Callee evaluates to")
				} else {
					r.Bad(rule, ssaName(fn), con, w.Pos(c.Pos()),
						"a field named by an identifier node is read off a value that is not what that identifier's Callee evaluates to: the rest of the path in between (x.M().Home.Name: .Home) is skipped and the field of another object is returned")
				}
			}
		}
	}
	if nSites == 0 {
		r.Lost(rule, "FieldByName with the Value of an identifier node")
	}
}
