package main

// c12ssa.go: the helper-call evaluator on the paths of its SSA form. Helper
// methods and the local closure that supplies trailing parameters are walked
// in line; every loop is taken for one iteration. A path that reaches
// reflect.Value.Call carries the decisions taken before it and the argument
// vector as the chain of appends that built it, so every rule is a statement
// about (decisions, appended values) and does not depend on how the code is
// split into helpers or which loop form is used.

import (
	"fmt"
	"go/constant"
	"go/token"
	"go/types"
	"sort"
	"strings"

	"golang.org/x/tools/go/ssa"
)

type callModel struct {
	w     *World
	f     *FuncInfo
	fn    *ssa.Function
	core  *coreModel
	paths []*pwPath
	ok    bool
}

func (w *World) callModel() *callModel {
	if w.callMdl != nil {
		return w.callMdl
	}
	w.SSA()
	cm := &callModel{w: w, core: w.coreModel()}
	w.callMdl = cm
	cm.f = w.evalMethod("CallExpression")
	if cm.f == nil {
		return cm
	}
	cm.fn = w.SSAFunc(cm.f)
	inline := func(caller, callee *ssa.Function) bool {
		if callee.Parent() != nil {
			return true // a closure of the evaluator
		}
		if obj, ok := callee.Object().(*types.Func); ok && w.userFunctionEval() != nil && obj == w.userFunctionEval().Obj {
			return false
		}
		return cm.core.inline(caller, callee)
	}
	// (depth: a method value picked by an if, the function it stands for, a shared loop, a callback handed to that loop)
	pw := &pathWalker{inline: inline, unroll1: true, maxPaths: 400000, maxDepth: 6}
	pw.walk(cm.fn)
	cm.paths, cm.ok = pw.paths, !pw.overflow
	return cm
}

func isReflectValueType(t types.Type) bool { return namedIs(t, "reflect", "Value") }

// reflectCallEvent: the index of the reflect.Value.Call event on the path (-1 if none).
func reflectCallEvent(p *pwPath) (int, *ssa.Call) {
	for i, ev := range p.events {
		if c, ok := ev.(*ssa.Call); ok {
			if _, _, isCall := reflectValueCall(c, "Call"); isCall {
				return i, c
			}
		}
	}
	return -1, nil
}

// appendChain unfolds the argument vector handed to Call into the values appended to it, oldest first.
func appendChain(p *pwPath, v ssa.Value) ([]ssa.Value, []*ssa.Call, bool) {
	var vals []ssa.Value
	var calls []*ssa.Call
	for i := 0; i < 64; i++ {
		v = p.resolve(v)
		app, ok := v.(*ssa.Call)
		if !ok {
			break
		}
		b, ok := app.Call.Value.(*ssa.Builtin)
		if !ok || b.Name() != "append" || len(app.Call.Args) != 2 {
			return nil, nil, false
		}
		els, ok := p.sliceElems(app.Call.Args[1])
		if !ok {
			return nil, nil, false
		}
		for j := len(els) - 1; j >= 0; j-- {
			vals = append(vals, p.resolve(els[j]))
			calls = append(calls, app)
		}
		v = app.Call.Args[0]
	}
	// reverse
	for i, j := 0, len(vals)-1; i < j; i, j = i+1, j-1 {
		vals[i], vals[j] = vals[j], vals[i]
		calls[i], calls[j] = calls[j], calls[i]
	}
	return vals, calls, true
}

// typeOfValue: t is reflect.Value.Type() of v (or reflect.TypeOf of what v was made from).
func ssaTypeOfValue(p *pwPath, t, v ssa.Value) bool {
	t, v = p.resolve(t), p.resolve(v)
	if recv, _, ok := reflectValueCall(t, "Type"); ok {
		if p.resolve(recv) == v {
			return true
		}
	}
	// both are about one static Go type: reflect.TypeOf(T{}) kept in a package variable, and
	// reflect.ValueOf of a value whose static type is T
	if st := staticRType(p, t); st != nil {
		if va, ok := reflectFunc(v, "ValueOf"); ok && len(va) == 1 {
			if mi, ok := p.resolve(va[0]).(*ssa.MakeInterface); ok && !types.IsInterface(mi.X.Type()) && types.Identical(mi.X.Type(), st) {
				return true
			}
		}
	}
	return false
}

// staticRType: the reflect.Type value t describes a type that is known statically: reflect.TypeOf(x)
// or reflect.ValueOf(x).Type() with x of a concrete static type. Returns that type, or nil.
func staticRType(p *pwPath, t ssa.Value) types.Type {
	t = p.resolve(t)
	// a package variable that only its initialiser writes: what the initialiser stores
	if ld, ok := t.(*ssa.UnOp); ok && ld.Op == token.MUL {
		if g, ok := ld.X.(*ssa.Global); ok && g.Pkg != nil {
			if w := worldOfProg(g.Pkg.Prog); w != nil {
				if st := w.globalInitStore(g); st != nil {
					return staticRType(p, st.Val)
				}
			}
		}
	}
	var operand ssa.Value
	if a, ok := reflectFunc(t, "TypeOf"); ok && len(a) == 1 {
		operand = a[0]
	} else if recv, _, ok := reflectValueCall(t, "Type"); ok {
		if a, ok := reflectFunc(p.resolve(recv), "ValueOf"); ok && len(a) == 1 {
			operand = a[0]
		}
	}
	if operand == nil {
		// reflect.TypeOf((*T)(nil)).Elem(), or a parameterless helper of the module that names a type (typeOf[T]())
		if c, isCall := t.(*ssa.Call); isCall {
			return staticRTypeOf(c)
		}
		return nil
	}
	if mi, ok := p.resolve(operand).(*ssa.MakeInterface); ok && !types.IsInterface(mi.X.Type()) {
		return mi.X.Type()
	}
	return nil
}

func typeInvoke(p *pwPath, v ssa.Value, name string) (recv ssa.Value, args []ssa.Value, ok bool) {
	c, isCall := p.resolve(v).(*ssa.Call)
	if !isCall || !c.Call.IsInvoke() || c.Call.Method.Name() != name || !namedIs(c.Call.Value.Type(), "reflect", "Type") {
		return nil, nil, false
	}
	var as []ssa.Value
	for _, a := range c.Call.Args {
		as = append(as, p.resolve(a))
	}
	return p.resolve(c.Call.Value), as, true
}

// zeroOf: v is the zero value of reflect.Type T: New(T).Elem(), Indirect(New(T)) or Zero(T).
func ssaZeroOf(p *pwPath, v ssa.Value) (ssa.Value, bool) {
	v = p.resolve(v)
	if recv, _, ok := reflectValueCall(v, "Elem"); ok {
		if args, ok := reflectFunc(p.resolve(recv), "New"); ok && len(args) == 1 {
			return p.resolve(args[0]), true
		}
	}
	if args, ok := reflectFunc(v, "Indirect"); ok && len(args) == 1 {
		if a2, ok := reflectFunc(p.resolve(args[0]), "New"); ok && len(a2) == 1 {
			return p.resolve(a2[0]), true
		}
	}
	if args, ok := reflectFunc(v, "Zero"); ok && len(args) == 1 {
		return p.resolve(args[0]), true
	}
	return nil, false
}

// justification of an appended value from the decisions taken before its append.
func (cm *callModel) justify(p *pwPath, val ssa.Value, app *ssa.Call) (how string, expected ssa.Value) {
	appAt := len(p.decisions)
	for i, ev := range p.events {
		if ev == ssa.Instruction(app) {
			appAt = p.evDecided[i]
		}
	}
	_ = appAt
	for _, d := range p.decisions {
		recv, args, ok := typeInvoke(p, d.cond, "AssignableTo")
		if ok && d.truth && len(args) == 1 {
			if ssaTypeOfValue(p, recv, val) {
				return "the value's type was found assignable to the parameter type", args[0]
			}
			// reflect.PtrTo(hv.Type()).AssignableTo(T) -> pv := reflect.New(hv.Type())
			pa, isPtrTo := reflectFunc(recv, "PtrTo")
			if !isPtrTo {
				pa, isPtrTo = reflectFunc(recv, "PointerTo")
			}
			if na, isNew := reflectFunc(val, "New"); isPtrTo && isNew && len(na) == 1 && len(pa) == 1 {
				// both built from the type of the same value
				x, _, ok1 := reflectValueCall(p.resolve(pa[0]), "Type")
				y, _, ok2 := reflectValueCall(p.resolve(na[0]), "Type")
				if ok1 && ok2 && p.resolve(x) == p.resolve(y) {
					return "a pointer to the value, found assignable to the parameter type", args[0]
				}
				// ... or from one static type
				if t1, t2 := staticRType(p, pa[0]), staticRType(p, na[0]); t1 != nil && t2 != nil && types.Identical(t1, t2) {
					return "a pointer to a value of the type whose pointer type was found assignable to the parameter type", args[0]
				}
			}
		}
		recv, args, ok = typeInvoke(p, d.cond, "ConvertibleTo")
		if ok && d.truth && len(args) == 1 {
			// hv.Convert(T) under hv.Type().ConvertibleTo(T)
			if cr, cargs, isConv := reflectValueCall(val, "Convert"); isConv && len(cargs) == 1 && p.resolve(cargs[0]) == args[0] && ssaTypeOfValue(p, recv, p.resolve(cr)) {
				return "converted to the parameter type, which was found possible", args[0]
			}
			// T.ConvertibleTo(TypeOf(map[string]interface{}{})) -> ValueOf(map[string]interface{}{})
			if va, isVO := reflectFunc(val, "ValueOf"); isVO && len(va) == 1 {
				if mm, isMM := p.resolve(stripIface(p.resolve(va[0]))).(*ssa.MakeMap); isMM {
					sameType := false
					if ta, isTO := reflectFunc(args[0], "TypeOf"); isTO && len(ta) == 1 && types.Identical(stripIface(p.resolve(ta[0])).Type(), mm.Type()) {
						sameType = true
					}
					// the map type kept in a package variable (optionsMapType = typeOf[map[string]any]())
					if st := staticRType(p, args[0]); st != nil && types.Identical(st, mm.Type()) {
						sameType = true
					}
					if sameType {
						if _, unnamed := mm.Type().(*types.Map); unnamed {
							return "frozen exception: a value of the UNNAMED type map[string]interface{} is assignable to every type convertible to it (identical underlying type, one side unnamed)", recv
						}
					}
				}
			}
		}
	}
	if t, ok := ssaZeroOf(p, val); ok {
		return "zero value of the parameter type", t
	}
	return "", nil
}

// isParamType: t is rt.In(i) or rt.In(i).Elem() of the callee's type.
func isParamType(p *pwPath, t ssa.Value) bool {
	t = p.resolve(t)
	if recv, _, ok := typeInvoke(p, t, "Elem"); ok {
		t = recv
	}
	_, _, ok := typeInvoke(p, t, "In")
	return ok
}

func checkC12SSA(r *Run) {
	w := r.W
	cm := w.callModel()
	if cm.f == nil || cm.fn == nil || cm.core.expr == nil {
		r.Lost("R1", "call evaluator / expression evaluator")
		return
	}
	if !cm.ok {
		for _, rl := range []string{"R2", "R3", "R4", "R5", "R6"} {
			r.Lost(rl, "paths of the call evaluator (too many to enumerate)")
		}
		return
	}
	name := cm.f.Name()
	fn := cm.fn
	node := ssa.Value(fn.Params[1])
	isNodeField := func(p *pwPath, v ssa.Value, field string) bool {
		x, ok := isFieldLoadOf(v, astPath, "CallExpression", field)
		return ok && p.resolve(x) == node
	}
	// ------------------------------------------------------------------ R2, R4, R5
	type siteVerdict struct {
		ok   bool
		how  string
		pos  token.Pos
		desc string
	}
	sites := map[*ssa.Call]map[string]*siteVerdict{} // append call -> description of the appended value -> verdict
	nil4 := map[string]*siteVerdict{}
	mismatchNames, mismatchN := true, 0
	var mismatchPos token.Pos
	autoOK, autoN := true, 0
	type suppliedVal struct {
		app     *ssa.Call
		missing bool
		zero    bool
		nilArg  bool
		nilRepl bool // the zero value that stands in for an argument found to be nil (appended at a site of its own)
	}
	var supplied []suppliedVal
	argSites := map[*ssa.Call]bool{}
	hcOK, hcN, mapOK := true, 0, false
	hcGate := true
	var hcPos token.Pos
	for _, p := range cm.paths {
		ci, call := reflectCallEvent(p)
		// mismatch errors: a decision AssignableTo == false followed by an error return that names the call
		if p.end == "return" && len(p.results) == 2 && !p.knownNil(p.results[1]) && ci < 0 {
			for di, d := range p.decisions {
				if _, _, ok := typeInvoke(p, d.cond, "AssignableTo"); ok && !d.truth && di == len(p.decisions)-1 {
					if ec, isCall := p.resolve(p.results[1]).(*ssa.Call); isCall && len(ec.Call.Args) == 2 {
						if els, ok := p.sliceElems(ec.Call.Args[1]); ok {
							names := false
							for _, e := range els {
								e = p.resolve(stripIface(p.resolve(e)))
								if c, ok := e.(*ssa.Call); ok && c.Call.IsInvoke() && c.Call.Method.Name() == "String" && isNodeField(p, p.resolve(c.Call.Value), "Function") {
									names = true
								}
								if isNodeField(p, e, "Function") {
									names = true
								}
							}
							mismatchN++
							mismatchPos = p.ret.Pos()
							if !names {
								mismatchNames = false
							}
						}
					}
				}
			}
		}
		if ci < 0 {
			continue
		}
		_, cargs, _ := reflectValueCall(call, "Call")
		vals, apps, ok := appendChain(p, cargs[0])
		if !ok {
			r.Bad("R2", name, "argument vector rebuilt", w.Pos(call.Pos()), "the argument vector must only grow by appending")
			continue
		}
		for i, v := range vals {
			appOnPath := apps[i]
			how, expected := cm.justify(p, v, appOnPath)
			app := origCall(appOnPath)
			if sites[app] == nil {
				sites[app] = map[string]*siteVerdict{}
			}
			// what kind of value is it?
			desc := "evaluated argument"
			fromEval := false
			if va, isVO := reflectFunc(v, "ValueOf"); isVO && len(va) == 1 {
				if cal, _ := evalResult(p, va[0], 0); cal == cm.core.expr {
					fromEval = true
				}
			}
			zeroT, isZero := ssaZeroOf(p, v)
			switch {
			case fromEval:
				desc = "evaluated argument"
			case isZero:
				desc = "zero value"
			default:
				desc = "supplied value " + strings.SplitN(v.String(), "(", 2)[0]
			}
			sv := sites[app][desc]
			if sv == nil {
				sv = &siteVerdict{ok: true, pos: app.Pos(), desc: desc}
				sites[app][desc] = sv
			}
			if how == "" {
				sv.ok = false
			} else {
				sv.how = how
				if expected != nil && !isParamType(p, expected) && !strings.HasPrefix(how, "frozen") {
					sv.ok = false
					sv.how = "the type tested is not a parameter type of the callee (rt.In(i))"
				}
			}
			// R4: a zero value built for a nil argument uses the type the assignability test of that site uses
			nilRepl := false
			if isZero {
				nilKnown := false

				for _, d := range p.decisions {
					if x, op, ok := isNilCompare(p, d.cond); ok && d.truth == (op == token.EQL) {
						if cal, _ := evalResult(p, x, 0); cal == cm.core.expr {
							nilKnown = true
						}
					}
				}
				nilRepl = nilKnown
				if nilKnown {
					key := fmt.Sprint(app.Pos())
					nv := nil4[key]
					if nv == nil {
						nv = &siteVerdict{ok: true, pos: app.Pos()}
						nil4[key] = nv
					}
					// the assignability decision on this value's type, if any, must use the same type value
					for _, d := range p.decisions {
						recv, args, ok := typeInvoke(p, d.cond, "AssignableTo")
						if ok && len(args) == 1 && ssaTypeOfValue(p, recv, v) && args[0] != zeroT {
							nv.ok = false
							nv.how = "the zero value is built from another type than the one the assignability test of this site uses"
						}
					}
				}
			}
			// R5: remember what each append site adds, and whether the path had decided that arguments are missing
			if fromEval {
				argSites[app] = true
			} else {
				supplied = append(supplied, suppliedVal{app, missingArgsDecided(p, appOnPath), isZero, hasNilArgDecision(p, cm), nilRepl})
			}
			// the helper context
			if va, isVO := reflectFunc(v, "ValueOf"); isVO && len(va) == 1 {
				hv := p.resolve(stripIface(p.resolve(va[0])))
				if namedIs(hv.Type(), modPath, "HelperContext") {
					hcN++
					hcPos = app.Pos()
					if !cm.helperContextOK(p, hv, node) {
						hcOK = false
					}
					if !helperContextAskedFor(p) {
						hcGate = false
					}
				}
				if _, isMM := hv.(*ssa.MakeMap); isMM {
					mapOK = true
				}
			}
			// also the derived forms: hv.Convert(T), pv (pointer to a copy of hv)
			if cr, _, isConv := reflectValueCall(v, "Convert"); isConv {
				if va, isVO := reflectFunc(p.resolve(cr), "ValueOf"); isVO && len(va) == 1 && namedIs(stripIface(p.resolve(va[0])).Type(), modPath, "HelperContext") {
					hcN++
					if !helperContextAskedFor(p) {
						hcGate = false
					}
					if !cm.helperContextOK(p, p.resolve(stripIface(p.resolve(va[0]))), node) {
						hcOK = false
					}
				}
			}
		}
	}
	for _, sv := range supplied {
		if argSites[sv.app] {
			// at a site that appends evaluated arguments anything else stands in for a nil argument: it must be the zero value
			if !sv.zero {
				key := fmt.Sprint(sv.app.Pos()) + "/notzero"
				nil4[key] = &siteVerdict{ok: false, pos: sv.app.Pos(), how: "a nil argument must become the zero VALUE of the expected type: reflect.New(T).Elem() or reflect.Zero(T) (reflect.New(T) alone is a pointer to T)"}
			}
			continue
		}
		if sv.zero && sv.nilRepl {
			continue // not an automatic supply: the template wrote the argument, its value was nil (R4)
		}
		autoN++
		if !sv.missing {
			autoOK = false
		}
	}
	var appCalls []*ssa.Call
	for a := range sites {
		appCalls = append(appCalls, a)
	}
	sort.Slice(appCalls, func(i, j int) bool { return appCalls[i].Pos() < appCalls[j].Pos() })
	for _, a := range appCalls {
		var ds []string
		for d := range sites[a] {
			ds = append(ds, d)
		}
		sort.Strings(ds)
		for _, d := range ds {
			sv := sites[a][d]
			con := "append of " + d
			if sv.ok {
				r.Ok("R2", name, con, w.Pos(sv.pos), sv.how)
			} else {
				r.Bad("R2", name, con, w.Pos(sv.pos),
					"a value is put into the argument vector without being shown assignable to the parameter type: reflect.Value.Call panics on a mismatch instead of the evaluator returning an error"+map[bool]string{true: " (" + sv.how + ")", false: ""}[sv.how != ""])
			}
		}
	}
	if len(appCalls) == 0 {
		r.Lost("R2", "appends to the argument vector on paths that reach reflect.Value.Call")
	}
	switch {
	case mismatchN == 0:
		r.Bad("R2", name, "no mismatch error", w.Pos(fn.Pos()), "an argument that is not assignable must be reported by an error that names the call")
	case mismatchNames:
		r.Ok("R2", name, "mismatch error names the call", w.Pos(mismatchPos), fmt.Sprintf("error mentions node.Function on all %d mismatch path(s)", mismatchN))
	default:
		r.Bad("R2", name, "mismatch error does not name the call", w.Pos(mismatchPos), "an argument that is not assignable must be reported by an error that names the call")
	}
	var nk []string
	for k := range nil4 {
		nk = append(nk, k)
	}
	sort.Strings(nk)
	for _, k := range nk {
		nv := nil4[k]
		if nv.ok {
			r.Ok("R4", name, "nil argument -> zero value of the expected type", w.Pos(nv.pos), "zero value of the type the assignability test uses")
		} else {
			r.Bad("R4", name, "nil argument -> zero value", w.Pos(nv.pos), nv.how)
		}
	}
	if len(nk) == 0 {
		r.Bad("R4", name, "nil argument", w.Pos(fn.Pos()), "a nil argument must become the zero VALUE of the expected type: reflect.New(T).Elem() or reflect.Zero(T)")
	}
	// R5
	switch {
	case hcN == 0:
		r.Bad("R5", name, "no helper context is built", w.Pos(fn.Pos()), "a trailing helper-context parameter is not supplied")
	case hcOK:
		r.Ok("R5", name, "helper context {current scope, evaluator, node.Block}", w.Pos(hcPos), "the block of the call reaches the helper")
	default:
		r.Bad("R5", name, "helper context literal", w.Pos(hcPos), "the automatic helper context must carry the evaluator's current scope, the evaluator and the call's block")
	}
	if hcN > 0 {
		if hcGate {
			r.Ok("R5", name, "a helper context only for a parameter that asks for one", w.Pos(hcPos), "every path that supplies it has found the parameter type convertible to HelperContext or implementing hctx.HelperContext")
		} else {
			r.Bad("R5", name, "a helper context for a parameter that does not ask for one", w.Pos(hcPos),
				"on some path the helper context is supplied although the omitted parameter's type was found neither convertible to HelperContext nor to implement hctx.HelperContext: an omitted interface{} or context parameter receives a value the template never passed instead of its zero value")
		}
	}
	switch {
	case autoN == 0:
		r.Bad("R5", name, "no auto-supplied trailing parameters", w.Pos(fn.Pos()), "omitted trailing helper-context / options parameters must be supplied")
	case autoOK:
		r.Ok("R5", name, "auto supply only under 'arguments are missing'", w.Pos(fn.Pos()), fmt.Sprintf("%d supplied value(s) on the paths, each after len(args) < NumIn (or NumIn-len(args) == k) was decided", autoN))
	default:
		r.Bad("R5", name, "auto supply outside 'len(args) < NumIn'", w.Pos(fn.Pos()), "trailing parameters may be supplied automatically only when the template omitted them")
	}
	if mapOK {
		r.Ok("R5", name, "options map is a fresh empty map", w.Pos(fn.Pos()), "reflect.ValueOf of a map made for this call")
	} else {
		r.Bad("R5", name, "options map", w.Pos(fn.Pos()), "an omitted trailing options map must be supplied as a fresh, empty, non-nil map")
	}
	c12AritySSA(r, cm)
	c12ResultsSSA(r, cm)
}

func hasNilArgDecision(p *pwPath, cm *callModel) bool {
	for _, d := range p.decisions {
		if x, op, ok := isNilCompare(p, d.cond); ok && d.truth == (op == token.EQL) {
			if cal, _ := evalResult(p, x, 0); cal == cm.core.expr {
				return true
			}
		}
	}
	return false
}

// missingArgsDecided: before this append the path decided that arguments are
// missing: len(vec) < NumIn, or NumIn - len(vec) == k for a positive k.
func missingArgsDecided(p *pwPath, app *ssa.Call) bool {
	at := len(p.decisions)
	for i, ev := range p.events {
		if ev == ssa.Instruction(app) {
			at = p.evDecided[i]
		}
	}
	isLenVec := func(v ssa.Value) bool {
		c, ok := p.resolve(v).(*ssa.Call)
		if !ok {
			return false
		}
		b, ok := c.Call.Value.(*ssa.Builtin)
		if !ok || b.Name() != "len" {
			return false
		}
		sl, ok := c.Call.Args[0].Type().Underlying().(*types.Slice)
		if ok && isReflectValueType(sl.Elem()) {
			return true
		}
		// the number of arguments the template wrote: one value is appended per argument, so before
		// anything is supplied the vector is as long as the argument list
		if _, isArgs := isFieldLoadOf(p.resolve(c.Call.Args[0]), astPath, "CallExpression", "Arguments"); isArgs {
			return true
		}
		return false
	}
	isNumIn := func(v ssa.Value) bool {
		_, _, ok := typeInvoke(p, v, "NumIn")
		return ok
	}
	for _, d := range p.decisions[:at] {
		bo, ok := d.cond.(*ssa.BinOp)
		if !ok {
			continue
		}
		x, y := p.resolve(bo.X), p.resolve(bo.Y)
		switch {
		case bo.Op == token.LSS && d.truth && isLenVec(x) && isNumIn(y),
			bo.Op == token.GTR && d.truth && isNumIn(x) && isLenVec(y),
			bo.Op == token.GEQ && !d.truth && isLenVec(x) && isNumIn(y):
			return true
		case (bo.Op == token.EQL && d.truth) || (bo.Op == token.GTR && d.truth) || (bo.Op == token.GEQ && d.truth):
			// NumIn - len(vec) == k / > 0 / >= 1
			if sub, ok := x.(*ssa.BinOp); ok && sub.Op == token.SUB && isNumIn(p.resolve(sub.X)) && isLenVec(p.resolve(sub.Y)) {
				if c, ok := p.constOf(y); ok && c.Kind() == constant.Int {
					n, _ := constant.Int64Val(c)
					if (bo.Op == token.EQL && n > 0) || (bo.Op == token.GTR && n >= 0) || (bo.Op == token.GEQ && n >= 1) {
						return true
					}
				}
			}
		}
	}
	return false
}

// helperContextOK: the HelperContext value carries the current scope, the evaluator and the call's block.
func (cm *callModel) helperContextOK(p *pwPath, hv ssa.Value, node ssa.Value) bool {
	ld, ok := hv.(*ssa.UnOp)
	if !ok || ld.Op != token.MUL {
		return false
	}
	obj := p.addrKey(ld.X)
	st, ok := hv.Type().Underlying().(*types.Struct)
	if !ok || obj == "" {
		return false
	}
	okCtx, okComp, okBlock := false, false, false
	ctxIdx := -1
	if ct := cm.w.compilerType(); ct != nil {
		if cf := cm.w.compilerField("ctx"); cf != nil {
			ctxIdx = fieldIndex(ct.Underlying().(*types.Struct), cf)
		}
	}
	for i := 0; i < st.NumFields(); i++ {
		v, ok := p.stores[fmt.Sprintf("%s.%d", obj, i)]
		if !ok {
			continue
		}
		v = p.resolve(stripIface(p.resolve(v)))
		f := st.Field(i)
		switch {
		case f.Embedded():
			if u, ok := v.(*ssa.UnOp); ok && u.Op == token.MUL {
				if fa, ok := u.X.(*ssa.FieldAddr); ok && fa.Field == ctxIdx && cm.w.isCompilerValue(fa.X) {
					okCtx = true
				}
			}
		case namedIs(f.Type(), astPath, "BlockStatement"):
			if x, ok := isFieldLoadOf(v, astPath, "CallExpression", "Block"); ok && p.resolve(x) == node {
				okBlock = true
			}
		default:
			if cm.w.isCompilerValue(v) {
				okComp = true
			}
		}
	}
	return okCtx && okComp && okBlock
}

// ---- R3 ---------------------------------------------------------------------

func c12AritySSA(r *Run, cm *callModel) {
	w := r.W
	name := cm.f.Name()
	missing := map[string]bool{}
	n := 0
	var callPos token.Pos
	for _, p := range cm.paths {
		ci, call := reflectCallEvent(p)
		if ci < 0 {
			continue
		}
		n++
		callPos = call.Pos()
		at := p.evDecided[ci]
		var gKind, gNil, gMany, gFew, gPostGT, gPostLT, variadic, variadicKnown bool
		isLenArgs := func(v ssa.Value) bool {
			c, ok := p.resolve(v).(*ssa.Call)
			if !ok {
				return false
			}
			b, ok := c.Call.Value.(*ssa.Builtin)
			if !ok || b.Name() != "len" {
				return false
			}
			x, isF := isFieldLoadOf(p.resolve(c.Call.Args[0]), astPath, "CallExpression", "Arguments")
			return isF && p.resolve(x) == ssa.Value(cm.fn.Params[1])
		}
		isLenVec := func(v ssa.Value) bool {
			c, ok := p.resolve(v).(*ssa.Call)
			if !ok {
				return false
			}
			b, ok := c.Call.Value.(*ssa.Builtin)
			if !ok || b.Name() != "len" {
				return false
			}
			sl, ok := c.Call.Args[0].Type().Underlying().(*types.Slice)
			return ok && isReflectValueType(sl.Elem())
		}
		isNumIn := func(v ssa.Value) bool { _, _, ok := typeInvoke(p, v, "NumIn"); return ok }
		for _, d := range p.decisions[:at] {
			c := p.resolve(d.cond)
			if _, _, ok := typeInvoke(p, c, "IsVariadic"); ok {
				variadic, variadicKnown = d.truth, true
			}
			if _, _, ok := reflectValueCall(c, "IsNil"); ok && !d.truth {
				gNil = true
			}
			bo, ok := c.(*ssa.BinOp)
			if !ok {
				continue
			}
			x, y := p.resolve(bo.X), p.resolve(bo.Y)
			if _, _, isKind := typeInvoke(p, x, "Kind"); isKind {
				if k, ok := constKind(y); ok && k == kFunc && d.truth == (bo.Op == token.EQL) {
					gKind = true
				}
			}
			if _, _, isKind := reflectValueCall(x, "Kind"); isKind {
				if k, ok := constKind(y); ok && k == kFunc && d.truth == (bo.Op == token.EQL) {
					gKind = true
				}
			}
			// the relation that holds between the two sides on this path, read in both directions
			// (`fixed > nodeArgsLen` false is `nodeArgsLen >= fixed`)
			rel := bo.Op
			if !d.truth {
				neg := map[token.Token]token.Token{token.LSS: token.GEQ, token.GEQ: token.LSS, token.LEQ: token.GTR, token.GTR: token.LEQ, token.EQL: token.NEQ, token.NEQ: token.EQL}
				nr, known := neg[rel]
				if !known {
					continue
				}
				rel = nr
			}
			flip := map[token.Token]token.Token{token.LSS: token.GTR, token.GTR: token.LSS, token.LEQ: token.GEQ, token.GEQ: token.LEQ, token.EQL: token.EQL, token.NEQ: token.NEQ}
			isNumInMinus1 := func(v ssa.Value) bool {
				sub, ok := v.(*ssa.BinOp)
				if !ok || sub.Op != token.SUB || !isNumIn(p.resolve(sub.X)) {
					return false
				}
				cc, ok := p.constOf(sub.Y)
				return ok && constant.Compare(cc, token.EQL, constant.MakeInt64(1))
			}
			for _, o := range [][3]interface{}{{x, y, rel}, {y, x, flip[rel]}} {
				a, b, rl := o[0].(ssa.Value), o[1].(ssa.Value), o[2].(token.Token)
				atMost := rl == token.LEQ || rl == token.LSS || rl == token.EQL  // a <= b
				atLeast := rl == token.GEQ || rl == token.GTR || rl == token.EQL // a >= b
				// len(node.Arguments) <= NumIn
				if isLenArgs(a) && isNumIn(b) && atMost {
					gMany = true
				}
				// len(node.Arguments) >= NumIn-1
				if isLenArgs(a) && isNumInMinus1(b) && atLeast {
					gFew = true
				}
				if isLenVec(a) && isNumIn(b) {
					if atMost {
						gPostGT = true
					}
					if atLeast {
						gPostLT = true
					}
				}
			}
		}
		if !gKind {
			missing["Kind() == Func test"] = true
		}
		if !gNil {
			missing["nil-func test"] = true
		}
		if !variadicKnown {
			missing["arity test (too many arguments for a fixed signature / too few for a variadic one)"] = true
			continue
		}
		if variadic && !gFew {
			missing["arity test (too many arguments for a fixed signature / too few for a variadic one)"] = true
		}
		if !variadic && !gMany {
			missing["arity test (too many arguments for a fixed signature / too few for a variadic one)"] = true
		}
		if !variadic && (!gPostGT || !gPostLT) {
			missing["post-fill tests len(args) > NumIn and len(args) < NumIn on the fixed-arity path"] = true
		}
	}
	if n == 0 {
		r.Lost("R3", "paths to reflect.Value.Call")
		return
	}
	if len(missing) == 0 {
		r.Ok("R3", name, "every path to Call passes Kind()==Func, the nil-func test and the arity tests", w.Pos(callPos), fmt.Sprintf("%d path(s) reach the call", n))
		r.Ok("R3", name, "too-many test on the whole non-variadic side", w.Pos(callPos), "every non-variadic path to the call has decided len(node.Arguments) > NumIn false")
		return
	}
	var ms []string
	for m := range missing {
		ms = append(ms, m)
	}
	sort.Strings(ms)
	for _, m := range ms {
		r.Bad("R3", name, "path to Call without "+m, w.Pos(callPos), "some path reaches reflect.Value.Call without this test: the helper is invoked with a wrong number of arguments (panic) or the surplus arguments are silently ignored")
	}
}

// ---- R6 ---------------------------------------------------------------------

func c12ResultsSSA(r *Run, cm *callModel) {
	w := r.W
	name := cm.f.Name()
	okAll, n, nVal := true, 0, 0
	why := ""
	for _, p := range cm.paths {
		ci, call := reflectCallEvent(p)
		if ci < 0 {
			continue
		}
		n++
		// was len(res) > 0 decided?
		nonEmpty, known := false, false
		isLenRes := func(v ssa.Value) bool {
			c, ok := p.resolve(v).(*ssa.Call)
			if !ok {
				return false
			}
			b, ok := c.Call.Value.(*ssa.Builtin)
			return ok && b.Name() == "len" && p.resolve(c.Call.Args[0]) == ssa.Value(call)
		}
		for _, d := range p.decisions {
			bo, ok := d.cond.(*ssa.BinOp)
			if !ok || !isLenRes(bo.X) {
				continue
			}
			c, ok := p.constOf(bo.Y)
			if !ok || constant.Sign(c) != 0 {
				continue
			}
			switch bo.Op {
			case token.GTR, token.NEQ:
				nonEmpty, known = d.truth, true
			case token.EQL, token.LEQ:
				nonEmpty, known = !d.truth, true
			}
		}
		// every index into res happens after that decision was true
		for i, ev := range p.events {
			ia, ok := ev.(*ssa.IndexAddr)
			if !ok || p.resolve(ia.X) != ssa.Value(call) {
				continue
			}
			if !known || !nonEmpty {
				okAll, why = false, "the results are indexed on a path that has not established len(results) > 0"
			}
			_ = i
		}
		if p.end != "return" || len(p.results) != 2 || !p.knownNil(p.results[1]) {
			continue
		}
		// success: the value
		res := p.resolve(stripIface(p.resolve(p.results[0])))
		if !known {
			okAll, why = false, "a success path does not test whether there are results"
			continue
		}
		if !nonEmpty {
			if !isNilConst(res) {
				okAll, why = false, "without results the call must evaluate to nil"
			}
			continue
		}
		// chained call: the value is that of the chain expression
		if cal, _ := evalResult(p, res, 0); cal == cm.core.expr {
			continue
		}
		recv, _, isIface := reflectValueCall(res, "Interface")
		first := false
		if isIface {
			if ld, ok := p.resolve(recv).(*ssa.UnOp); ok && ld.Op == token.MUL {
				if ia, ok := ld.X.(*ssa.IndexAddr); ok && p.resolve(ia.X) == ssa.Value(call) {
					if c, ok := p.constOf(ia.Index); ok && constant.Sign(c) == 0 {
						first = true
					}
				}
			}
		}
		if first {
			nVal++
		} else {
			okAll, why = false, "the call's value must be the FIRST result"
		}
	}
	if n == 0 {
		r.Lost("R6", "result of reflect.Value.Call")
		return
	}
	if okAll && nVal > 0 {
		r.Ok("R6", name, "value = res[0].Interface() under len(res) > 0", w.Pos(cm.fn.Pos()), fmt.Sprintf("%d success path(s) yield the first result; every index into the results is guarded", nVal))
	} else {
		if why == "" {
			why = "no success path yields the first result"
		}
		r.Bad("R6", name, "use of the results", w.Pos(cm.fn.Pos()), "the call's value must be the FIRST result, and the results may be indexed only when there are any: "+why)
	}
}

// helperBlockRule (C17.R5): every helper context the call evaluator hands to a helper carries node.Block.
func helperBlockRule(r *Run, rule string) {
	w := r.W
	cm := w.callModel()
	if cm.f == nil || cm.fn == nil || !cm.ok {
		r.Lost(rule, "paths of the call evaluator")
		return
	}
	node := ssa.Value(cm.fn.Params[1])
	n, okAll := 0, true
	var pos token.Pos = cm.fn.Pos()
	for _, p := range cm.paths {
		ci, call := reflectCallEvent(p)
		if ci < 0 {
			continue
		}
		_, cargs, _ := reflectValueCall(call, "Call")
		vals, apps, ok := appendChain(p, cargs[0])
		if !ok {
			continue
		}
		for i, v := range vals {
			var hv ssa.Value
			if va, isVO := reflectFunc(v, "ValueOf"); isVO && len(va) == 1 {
				hv = p.resolve(stripIface(p.resolve(va[0])))
			}
			if cr, _, isConv := reflectValueCall(v, "Convert"); isConv {
				if va, isVO := reflectFunc(p.resolve(cr), "ValueOf"); isVO && len(va) == 1 {
					hv = p.resolve(stripIface(p.resolve(va[0])))
				}
			}
			if hv == nil || !namedIs(hv.Type(), modPath, "HelperContext") {
				continue
			}
			n++
			pos = apps[i].Pos()
			if !cm.helperContextOK(p, hv, node) {
				okAll = false
			}
		}
	}
	switch {
	case n == 0:
		r.Bad(rule, cm.f.Name(), "helper context without the call's block", w.Pos(pos), "a block helper must receive the block written after its call")
	case okAll:
		r.Ok(rule, cm.f.Name(), "helper context carries node.Block", w.Pos(pos), "every automatically supplied helper context is built from the current scope, the evaluator and the call's block")
	default:
		r.Bad(rule, cm.f.Name(), "helper context without the call's block", w.Pos(pos), "a block helper must receive the block written after its call")
	}
}

// ---- R1 ---------------------------------------------------------------------

// chainedCounter: idx runs over consecutive positions starting at 0: a counter
// from zero, or a counter that starts where another such counter stopped.
func chainedCounter(idx ssa.Value, depth int) (*ssa.Phi, bool) {
	if depth > 4 {
		return nil, false
	}
	if v, ok := counterFromZero(idx); ok {
		if phi, isPhi := v.(*ssa.Phi); isPhi {
			return phi, true
		}
		// rotated range form: idx = phi(-1, idx) + 1
		if bo, isBO := v.(*ssa.BinOp); isBO {
			if phi, isPhi := bo.X.(*ssa.Phi); isPhi {
				return phi, true
			}
		}
	}
	phi, ok := idx.(*ssa.Phi)
	if !ok || len(phi.Edges) != 2 {
		return nil, false
	}
	var init ssa.Value
	step := false
	for _, e := range phi.Edges {
		if bo, isBO := e.(*ssa.BinOp); isBO && bo.Op == token.ADD && bo.X == ssa.Value(phi) {
			if c, isC := bo.Y.(*ssa.Const); isC && c.Value != nil && constant.Compare(c.Value, token.EQL, constant.MakeInt64(1)) {
				step = true
				continue
			}
		}
		init = e
	}
	if !step || init == nil {
		return nil, false
	}
	if _, ok := chainedCounter(init, depth+1); ok {
		return phi, true
	}
	return nil, false
}

// continuedCounter: a runs over consecutive positions that start where another site's counter (from 0) is
// bounded: phi(V, +1) after `b < V`, or V + i with i a counter from zero (`for i := range xs[V:] { ... V+i ... }`),
// where the other counter b stops at V (`b < V`, or b ranges over xs[:V]).
func continuedCounter(a ssa.Value, others []ssa.Value) (*ssa.Phi, bool) {
	var init ssa.Value
	var own *ssa.Phi
	if ph, isPhi := a.(*ssa.Phi); isPhi && len(ph.Edges) == 2 {
		step := false
		for _, e := range ph.Edges {
			if bo, isBO := e.(*ssa.BinOp); isBO && bo.Op == token.ADD && bo.X == ssa.Value(ph) {
				if c, isC := bo.Y.(*ssa.Const); isC && c.Value != nil && constant.Compare(c.Value, token.EQL, constant.MakeInt64(1)) {
					step = true
					continue
				}
			}
			init = e
		}
		if !step {
			init = nil
		}
		own = ph
	} else if bo, isBO := a.(*ssa.BinOp); isBO && bo.Op == token.ADD {
		for _, pr := range [][2]ssa.Value{{bo.X, bo.Y}, {bo.Y, bo.X}} {
			if ph, isCtr := chainedCounter(pr[1], 0); isCtr {
				if _, fromZero := counterFromZero(pr[1]); fromZero {
					init, own = pr[0], ph
				}
			}
		}
	}
	if init == nil || own == nil {
		return nil, false
	}
	isBound := func(v ssa.Value) bool {
		if v == init {
			return true
		}
		// len(xs[:V])
		c, isCall := v.(*ssa.Call)
		if !isCall {
			return false
		}
		b, isB := c.Call.Value.(*ssa.Builtin)
		if !isB || b.Name() != "len" || len(c.Call.Args) != 1 {
			return false
		}
		sl, isSl := c.Call.Args[0].(*ssa.Slice)
		if !isSl || sl.High != init {
			return false
		}
		if sl.Low != nil {
			if lc, isC := sl.Low.(*ssa.Const); !isC || lc.Value == nil || constant.Sign(lc.Value) != 0 {
				return false
			}
		}
		return true
	}
	for _, b := range others {
		bphi, okb := chainedCounter(b, 0)
		if !okb || b == a {
			continue
		}
		if boundedBy(b, bphi.Block().Succs[0], isBound) || boundedBy(ssa.Value(bphi), bphi.Block().Succs[0], isBound) {
			return own, true
		}
	}
	return nil, false
}

// shiftIsBoundOf: some other site's counter (from 0) stops at k: `b < k`, or b ranges over xs[:k].
func shiftIsBoundOf(k ssa.Value, others []ssa.Value) bool {
	isBound := func(v ssa.Value) bool {
		if v == k {
			return true
		}
		c, isCall := v.(*ssa.Call)
		if !isCall {
			return false
		}
		b, isB := c.Call.Value.(*ssa.Builtin)
		if !isB || b.Name() != "len" || len(c.Call.Args) != 1 {
			return false
		}
		sl, isSl := c.Call.Args[0].(*ssa.Slice)
		return isSl && sl.High == k && (sl.Low == nil || func() bool {
			lc, isC := sl.Low.(*ssa.Const)
			return isC && lc.Value != nil && constant.Sign(lc.Value) == 0
		}())
	}
	for _, b := range others {
		bphi, okb := chainedCounter(b, 0)
		if !okb {
			continue
		}
		if boundedBy(b, bphi.Block().Succs[0], isBound) || boundedBy(ssa.Value(bphi), bphi.Block().Succs[0], isBound) {
			return true
		}
	}
	return false
}

func c12EvaluationsSSA(r *Run) {
	w := r.W
	cm := w.callModel()
	if cm.f == nil || cm.fn == nil || cm.core.expr == nil || !cm.ok {
		r.Lost("R1", "paths of the call evaluator")
		return
	}
	name := cm.f.Name()
	node := ssa.Value(cm.fn.Params[1])
	type site struct {
		call  *ssa.Call
		idx   ssa.Value
		shift ssa.Value // the positions are idx + shift (elements of node.Arguments[shift:])
		bad   string
	}
	sites := map[string]*site{}
	var twiceAt token.Pos
	twice := false
	var zeroLoops []*ssa.BasicBlock // heads of the loops whose counter starts at position 0
	noteZero := func(idx ssa.Value, phi *ssa.Phi) {
		if _, zero := counterFromZero(idx); zero && phi != nil {
			zeroLoops = append(zeroLoops, phi.Block())
		}
	}
	for _, p := range cm.paths {
		for _, ev := range p.events {
			c, ok := ev.(*ssa.Call)
			if !ok || c.Call.StaticCallee() != cm.core.expr || len(c.Call.Args) != 2 {
				continue
			}
			arg := p.resolve(c.Call.Args[1])
			ld, ok := arg.(*ssa.UnOp)
			if !ok || ld.Op != token.MUL {
				continue
			}
			ia, ok := ld.X.(*ssa.IndexAddr)
			if !ok {
				continue
			}
			// the list itself, or a prefix node.Arguments[:n] of it (element i of the prefix is element i of the list);
			// a suffix node.Arguments[k:] shifts the positions by k
			list := p.resolve(ia.X)
			var shift ssa.Value
			if sl, isSl := list.(*ssa.Slice); isSl && sl.Max == nil {
				if sl.Low != nil {
					if lc, isC := sl.Low.(*ssa.Const); !isC || lc.Value == nil || constant.Sign(lc.Value) != 0 {
						shift = origValue(sl.Low)
					}
				}
				if shift == nil || sl.High == nil {
					list = p.resolve(sl.X)
				}
			}
			x, isArgs := isFieldLoadOf(list, astPath, "CallExpression", "Arguments")
			if !isArgs || p.resolve(x) != node {
				continue
			}
			// (the site and its index variable as the program has them, not an activation's copy)
			key := fmt.Sprintf("%p/%p", origInstr(c), origInstr(ia))
			if sites[key] == nil {
				sites[key] = &site{call: origCall(c), idx: origInstr(ia).(*ssa.IndexAddr).Index, shift: shift}
			}
			_ = ia
		}
	}
	if len(sites) == 0 {
		r.Lost("R1", "evaluations of the elements of node.Arguments")
		return
	}
	var keys []string
	for k := range sites {
		keys = append(keys, k)
	}
	sort.Slice(keys, func(i, j int) bool {
		a, b := sites[keys[i]], sites[keys[j]]
		if a.idx.Pos() != b.idx.Pos() {
			return a.idx.Pos() < b.idx.Pos()
		}
		return a.call.Pos() < b.call.Pos()
	})
	loopsSeen := map[*ssa.BasicBlock]int{}
	for _, k := range keys {
		s := sites[k]
		con := "evaluation of node.Arguments[" + s.idx.Name() + "]"
		// the position is a parameter of a helper that evaluates one argument: what its call sites pass
		if prm, isP := s.idx.(*ssa.Parameter); isP {
			pi := -1
			for i, q := range prm.Parent().Params {
				if q == prm {
					pi = i
				}
			}
			csites := w.staticCallSites(prm.Parent())
			var cargs []ssa.Value
			for _, cs := range csites {
				if pi >= 0 && pi < len(cs.Common().Args) {
					cargs = append(cargs, cs.Common().Args[pi])
				}
			}
			okAll := len(cargs) > 0 && len(cargs) == len(csites)
			for _, a := range cargs {
				phi, ok := chainedCounter(a, 0)
				if !ok {
					phi, ok = continuedCounter(a, cargs)
				}
				if !ok {
					okAll = false
					break
				}
				noteZero(a, phi)
				loopsSeen[phi.Block()]++
			}
			if okAll {
				r.Ok("R1", name, con, w.Pos(s.idx.Pos()), fmt.Sprintf("a helper evaluates one position; its %d call site(s) pass indices that ascend by one from 0 (or from where the previous loop stopped)", len(cargs)))
			} else {
				r.Bad("R1", name, con, w.Pos(s.idx.Pos()), "an argument is evaluated at an index that does not run over consecutive positions from 0 (it may be evaluated twice, skipped, or out of order)")
			}
			continue
		}
		phi, ok := chainedCounter(s.idx, 0)
		var others []ssa.Value
		for _, k2 := range keys {
			if k2 != k && sites[k2].shift == nil {
				others = append(others, sites[k2].idx)
			}
		}
		if s.shift != nil {
			// elements of the rest node.Arguments[k:], visited from its first: positions k, k+1, ... - k must be
			// where another site's counter (from 0) stops
			_, fromZero := counterFromZero(s.idx)
			ok = ok && fromZero && shiftIsBoundOf(s.shift, others)
		} else if !ok {
			// a counter that starts where another site's counter (from 0) is bounded
			phi, ok = continuedCounter(s.idx, others)
		}
		switch {
		case !ok:
			r.Bad("R1", name, con, w.Pos(s.idx.Pos()), "an argument is evaluated at an index that does not run over consecutive positions from 0 (it may be evaluated twice, skipped, or out of order)")
			continue
		}
		// the element access sits in the loop of its counter
		h := phi.Block()
		ia := s.idx
		_ = ia
		if s.shift == nil {
			noteZero(s.idx, phi)
		}
		loopsSeen[h]++
		r.Ok("R1", name, con, w.Pos(s.idx.Pos()), "the index ascends by one from 0 (or from where the previous loop stopped)")
	}
	for h, n := range loopsSeen {
		if n > 1 {
			r.Bad("R1", name, "two evaluations in one loop", w.Pos(firstPos(h)), "an argument position is evaluated more than once per iteration")
		}
	}
	for i, h1 := range zeroLoops {
		for _, h2 := range zeroLoops[i+1:] {
			if h1 != h2 && h1.Parent() == h2.Parent() && (blockReaches(h1, h2, true) || blockReaches(h2, h1, true)) && !twice {
				twice = true
				twiceAt = firstPos(h2)
				if !twiceAt.IsValid() {
					twiceAt = cm.fn.Pos()
				}
			}
		}
	}
	if twice {
		r.Bad("R1", name, "two loops from position 0 on one path", w.Pos(twiceAt), "two loops over the arguments start at position 0 and one can follow the other: the leading arguments are evaluated twice (and handed over in place of the later ones)")
	} else {
		r.Ok("R1", name, "one loop from position 0 per path", w.Pos(cm.fn.Pos()), fmt.Sprintf("%d loop(s) over the arguments start at position 0, none of which can follow another; any other loop continues where the previous stopped", len(zeroLoops)))
	}
}

// helperContextAskedFor: the path has decided that the omitted parameter's type is convertible to the module's
// HelperContext struct, or implements the hctx.HelperContext interface.
func helperContextAskedFor(p *pwPath) bool {
	for _, d := range p.decisions {
		if !d.truth {
			continue
		}
		if _, args, ok := typeInvoke(p, d.cond, "ConvertibleTo"); ok && len(args) == 1 {
			if st := staticRType(p, args[0]); st != nil && namedIs(st, modPath, "HelperContext") {
				return true
			}
		}
		if _, args, ok := typeInvoke(p, d.cond, "Implements"); ok && len(args) == 1 {
			if st := staticRType(p, args[0]); st != nil && namedIs(st, hctxPath, "HelperContext") {
				return true
			}
		}
	}
	return false
}
