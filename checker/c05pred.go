package main

// c05pred.go: error predicates. `if fails(err, ...) { return nil, err }` tests the error through a
// function of the module instead of comparing it with nil. The predicate is summarised from its
// paths: the constant it returns for a nil error, whether some non-nil error gets the same answer
// only under the typed assertion of *ErrUnknownIdentifier (a tolerance), or without it (a swallow).

import (
	"go/constant"
	"go/token"
	"go/types"
	"sync"

	"golang.org/x/tools/go/ssa"
)

type errPredPath struct {
	needs map[int]bool // bool parameters this path has decided, and how
}

type errPred struct {
	nilResult bool
	tolerate  []errPredPath // paths on which a non-nil error is answered like nil, under the typed assertion
	swallows  bool          // ... or without it
}

type errPredKey struct {
	fn  *ssa.Function
	idx int
}

var errPredCache sync.Map

func errPredicateOf(g *ssa.Function, idx int) *errPred {
	if g == nil || !inModule(g) || len(g.Blocks) == 0 || idx >= len(g.Params) || !isErrorType(g.Params[idx].Type()) {
		return nil
	}
	if g.Signature.Results().Len() != 1 || !isBasicKind(g.Signature.Results().At(0).Type(), types.Bool) {
		return nil
	}
	if v, ok := errPredCache.Load(errPredKey{g, idx}); ok {
		pr, _ := v.(*errPred)
		return pr
	}
	pr := buildErrPred(g, idx)
	if pr == nil {
		errPredCache.Store(errPredKey{g, idx}, (*errPred)(nil))
		return nil
	}
	errPredCache.Store(errPredKey{g, idx}, pr)
	return pr
}

func buildErrPred(g *ssa.Function, idx int) *errPred {
	e := ssa.Value(g.Params[idx])
	paths, ok := walkPaths(g, nil, func(caller, callee *ssa.Function) bool { return false })
	if !ok {
		return nil
	}
	pr := &errPred{}
	haveNil := false
	type rec struct {
		p      *pwPath
		isNil  int // 1 nil, 0 non-nil, -1 undecided
		typed  bool
		result *bool
	}
	var recs []rec
	for _, p := range paths {
		if p.end == "panic" {
			continue
		}
		if p.end != "return" || len(p.results) != 1 {
			return nil
		}
		rc := rec{p: p, isNil: -1}
		for _, d := range p.decisions {
			switch c := d.cond.(type) {
			case *ssa.BinOp:
				if c.Op != token.EQL && c.Op != token.NEQ {
					continue
				}
				x, y := p.resolve(c.X), p.resolve(c.Y)
				if (x == e && isNilConst(y)) || (y == e && isNilConst(x)) {
					if d.truth == (c.Op == token.EQL) {
						rc.isNil = 1
					} else {
						rc.isNil = 0
					}
				}
			case *ssa.Extract:
				ta, isTA := c.Tuple.(*ssa.TypeAssert)
				if isTA && c.Index == 1 && ta.CommaOk && p.resolve(ta.X) == e && namedIs(ta.AssertedType, modPath, "ErrUnknownIdentifier") && d.truth {
					rc.typed = true
				}
			}
		}
		if c, isC := p.constOf(p.results[0]); isC && c.Kind() == constant.Bool {
			b := constant.BoolVal(c)
			rc.result = &b
		}
		recs = append(recs, rc)
	}
	for _, rc := range recs {
		if rc.isNil != 1 {
			continue
		}
		if rc.result == nil || (haveNil && *rc.result != pr.nilResult) {
			return nil
		}
		haveNil, pr.nilResult = true, *rc.result
	}
	if !haveNil {
		return nil
	}
	for _, rc := range recs {
		if rc.isNil == 1 {
			continue
		}
		if rc.result != nil && *rc.result != pr.nilResult {
			continue // answered as a failure
		}
		if !rc.typed {
			pr.swallows = true
			continue
		}
		tp := errPredPath{needs: map[int]bool{}}
		for _, d := range rc.p.decisions {
			c, neg := stripNot(d.cond)
			if prm, isP := rc.p.resolve(c).(*ssa.Parameter); isP && isBasicKind(prm.Type(), types.Bool) {
				for i, q := range g.Params {
					if q == prm {
						tp.needs[i] = d.truth != neg
					}
				}
			}
		}
		// a result that is itself a parameter (or its negation): equal to the nil answer only for one value of it
		if rc.result == nil {
			c, neg := stripNot(rc.p.resolve(rc.p.results[0]))
			if prm, isP := rc.p.resolve(c).(*ssa.Parameter); isP && isBasicKind(prm.Type(), types.Bool) {
				for i, q := range g.Params {
					if q == prm {
						tp.needs[i] = pr.nilResult != neg
					}
				}
			}
		}
		pr.tolerate = append(pr.tolerate, tp)
	}
	return pr
}

// errPredTest: b ends in a branch on an error predicate applied to an alias of the error; returns the
// successor on which the error certainly is a failure (non-nil), the other one, and the predicate's summary
// restricted to what this call site's constant operands allow.
func errPredTest(b *ssa.BasicBlock, al map[ssa.Value]bool) (fails, passes *ssa.BasicBlock, pr *errPred, tolerates bool, ok bool) {
	if len(b.Instrs) == 0 {
		return
	}
	ifi, isIf := b.Instrs[len(b.Instrs)-1].(*ssa.If)
	if !isIf {
		return
	}
	cond, neg := stripNot(ifi.Cond)
	call, isCall := cond.(*ssa.Call)
	if !isCall {
		return
	}
	g := call.Call.StaticCallee()
	if g == nil {
		return
	}
	for i, a := range call.Call.Args {
		if !al[a] {
			continue
		}
		p := errPredicateOf(g, i)
		if p == nil {
			continue
		}
		for _, tp := range p.tolerate {
			possible := true
			for j, want := range tp.needs {
				if j < len(call.Call.Args) {
					if c, isC := call.Call.Args[j].(*ssa.Const); isC && c.Value != nil && c.Value.Kind() == constant.Bool && constant.BoolVal(c.Value) != want {
						possible = false
					}
				}
			}
			if possible {
				tolerates = true
			}
		}
		// the predicate's value on the failing side is !nilResult
		failsOnTrue := !p.nilResult
		if neg {
			failsOnTrue = !failsOnTrue
		}
		if failsOnTrue {
			return b.Succs[0], b.Succs[1], p, tolerates, true
		}
		return b.Succs[1], b.Succs[0], p, tolerates, true
	}
	return
}
