package main

import (
	"fmt"
	"go/ast"
	"go/token"
	"go/types"
	"sort"
	"strings"
)

func init() {
	register("C19", checkC19, "concrete sequences and partitions for concrete numbers (only the symbolic interval and the partition shape are decided); 'at most n groups' is the arithmetic fact ceil(len/ceil(len/n)) <= n, stated, not mechanised")
}

type linForm struct {
	param string // "" for a constant
	c     int64
	ok    bool
}

func (l linForm) String() string {
	if !l.ok {
		return "?"
	}
	if l.param == "" {
		return fmt.Sprint(l.c)
	}
	switch {
	case l.c == 0:
		return l.param
	case l.c > 0:
		return fmt.Sprintf("%s+%d", l.param, l.c)
	}
	return fmt.Sprintf("%s%d", l.param, l.c)
}

// linearForm reads x, x+c, x-c, c over the function's parameters, naming the
// parameters p0, p1 by position.
func linearForm(info *types.Info, sig *types.Signature, e ast.Expr) linForm {
	e = unparen(e)
	if v, ok := constInt(info, e); ok {
		return linForm{"", v, true}
	}
	pname := func(x ast.Expr) string {
		o := objOf(info, x)
		for i := 0; i < sig.Params().Len(); i++ {
			if sig.Params().At(i) == o {
				return fmt.Sprintf("p%d", i)
			}
		}
		return ""
	}
	if p := pname(e); p != "" {
		return linForm{p, 0, true}
	}
	if be, ok := e.(*ast.BinaryExpr); ok && (be.Op == token.ADD || be.Op == token.SUB) {
		if p := pname(be.X); p != "" {
			if v, ok := constInt(info, be.Y); ok {
				if be.Op == token.SUB {
					v = -v
				}
				return linForm{p, v, true}
			}
		}
	}
	return linForm{}
}

type iterCopy struct {
	rel              string
	rangeF, betweenF *FuncInfo
	untilF, groupByF *FuncInfo
	rangerT, groupT  *types.Named
	rangerNext       *FuncInfo
	groupNext        *FuncInfo
}

// findIterCopy resolves the iterator helpers of a package by role: the
// struct with two int fields (counter iterator) and its constructors; the
// function (int, interface{}) (X, error) (groupBy) and its iterator type.
func (w *World) findIterCopy(rel string) *iterCopy {
	ic := &iterCopy{rel: rel}
	p := w.Pkgs[rel]
	if p == nil {
		return nil
	}
	sc := p.Types.Scope()
	for _, n := range sc.Names() {
		tn, ok := sc.Lookup(n).(*types.TypeName)
		if !ok {
			continue
		}
		st, ok := tn.Type().Underlying().(*types.Struct)
		if !ok || st.NumFields() != 2 {
			continue
		}
		nt, _ := tn.Type().(*types.Named)
		if isBasicKind(st.Field(0).Type(), types.Int) && isBasicKind(st.Field(1).Type(), types.Int) && !isNamed(st.Field(0).Type()) {
			ic.rangerT = nt
		} else {
			for i := 0; i < 2; i++ {
				if sl, ok := st.Field(i).Type().(*types.Slice); ok && namedIs(sl.Elem(), "reflect", "Value") {
					ic.groupT = nt
				}
			}
		}
	}
	for _, f := range w.Funcs(rel) {
		sig := f.Obj.Type().(*types.Signature)
		if sig.Recv() != nil {
			if f.Decl.Name.Name == "Next" {
				if isMethodOf(f, ic.rangerT) {
					ic.rangerNext = f
				}
				if isMethodOf(f, ic.groupT) {
					ic.groupNext = f
				}
			}
			continue
		}
		// constructors of the counter iterator: return &ranger{...}
		if ic.rangerT != nil && sig.Results().Len() == 1 && len(f.Decl.Body.List) == 1 {
			if ret, ok := f.Decl.Body.List[0].(*ast.ReturnStmt); ok && len(ret.Results) == 1 {
				e := unparen(ret.Results[0])
				if u, ok := e.(*ast.UnaryExpr); ok {
					e = u.X
				}
				if cl, ok := e.(*ast.CompositeLit); ok {
					if nt, ok := f.Pkg.TypesInfo.Types[cl].Type.(*types.Named); ok && nt.Obj() == ic.rangerT.Obj() {
						lname := strings.ToLower(f.Decl.Name.Name)
						switch {
						case strings.HasPrefix(lname, "range"):
							ic.rangeF = f
						case strings.HasPrefix(lname, "between"):
							ic.betweenF = f
						case strings.HasPrefix(lname, "until"):
							ic.untilF = f
						}
					}
				}
			}
		}
		if sig.Params().Len() == 2 && sig.Results().Len() == 2 && isBasicKind(sig.Params().At(0).Type(), types.Int) && isErrorType(sig.Results().At(1).Type()) {
			if _, ok := sig.Params().At(1).Type().Underlying().(*types.Interface); ok && strings.HasPrefix(strings.ToLower(f.Decl.Name.Name), "groupby") {
				ic.groupByF = f
			}
		}
	}
	return ic
}

func checkC19(r *Run) {
	r.Rule("R1", "symbolic interval of the counter iterator: Next yields pos+1 while pos < end (strict, on the fields, pre-increment) and nil afterwards; the constructors' fields as linear forms give range = a..b, between = a+1..b-1, until = 0..a-1", 8)
	r.Rule("R2", "extremes of int: no +-1 on an unconstrained int outside a dominating strict comparison (wrapping arithmetic on caller-controlled values)", 2)
	r.Rule("R3", "both shipped implementations agree: the two copies of range/between/until/Next/groupBy have equal summaries", 3)
	r.Rule("R4", "partition by construction: first group starts at 0, each group starts where the previous ended, the end is clamped to Len() of the same value, the step is the group size = ceil(len/size), the loop runs while pos < Len(); size <= 0 and non-sequences are errors", 12)
	r.Rule("R5", "panic obligations: Slice on an array only after it was made addressable; len(x) takes the reflective length only under a kind test covering exactly the kinds that have one, after dereferencing a pointer", 3)
	w := r.W
	copies := []*iterCopy{w.findIterCopy("helpers/iterators"), w.findIterCopy("")}
	for _, ic := range copies {
		if ic == nil || ic.rangerT == nil || ic.rangerNext == nil || ic.rangeF == nil || ic.betweenF == nil || ic.untilF == nil || ic.groupByF == nil || ic.groupNext == nil {
			r.Lost("R1", "iterator helpers of one shipped copy")
			return
		}
	}
	var sums [][]string
	for _, ic := range copies {
		sums = append(sums, c19Copy(r, ic))
	}
	// R3
	a, b := sums[0], sums[1]
	if len(a) == len(b) {
		for i := range a {
			con := "summary " + strings.SplitN(a[i], "=", 2)[0]
			if a[i] == b[i] {
				r.Ok("R3", "helpers/iterators vs plush", con, "-", "equal in both copies")
			} else {
				r.Bad("R3", "helpers/iterators vs plush", con, "-", "the two shipped implementations have drifted apart: ["+a[i]+"] vs ["+b[i]+"]")
			}
		}
	} else {
		r.Bad("R3", "helpers/iterators vs plush", "summary shapes", "-", "the two shipped implementations have different structure")
	}
	c19Len(r)
}

func c19Copy(r *Run, ic *iterCopy) []string {
	w := r.W
	var summary []string
	// ---- Next of the counter iterator
	{
		f := ic.rangerNext
		info := f.Pkg.TypesInfo
		recv := f.Obj.Type().(*types.Signature).Recv()
		st := ic.rangerT.Underlying().(*types.Struct)
		fieldOfRecv := func(e ast.Expr) *types.Var {
			bx, fld := fieldOf(info, e)
			if fld != nil && objOf(info, bx) == recv {
				return fld
			}
			return nil
		}
		shape := "?"
		var posF, endF *types.Var
		if len(f.Decl.Body.List) == 2 {
			ifs, ok1 := f.Decl.Body.List[0].(*ast.IfStmt)
			ret, ok2 := f.Decl.Body.List[1].(*ast.ReturnStmt)
			if ok1 && ok2 && ifs.Init == nil && ifs.Else == nil && len(ret.Results) == 1 && isNilIdent(info, ret.Results[0]) {
				if be, ok := unparen(ifs.Cond).(*ast.BinaryExpr); ok {
					x, y, op := be.X, be.Y, be.Op
					if op == token.GTR {
						x, y, op = y, x, token.LSS
					}
					posF, endF = fieldOfRecv(x), fieldOfRecv(y)
					if op == token.LSS && posF != nil && endF != nil && posF != endF && len(ifs.Body.List) == 2 {
						inc, okI := ifs.Body.List[0].(*ast.IncDecStmt)
						rt, okR := ifs.Body.List[1].(*ast.ReturnStmt)
						if okI && okR && inc.Tok == token.INC && fieldOfRecv(inc.X) == posF && len(rt.Results) == 1 && fieldOfRecv(rt.Results[0]) == posF {
							shape = "if pos < end { pos++; return pos }; return nil"
						}
					}
				}
			}
		}
		if shape != "?" {
			r.Ok("R1", f.Name(), "Next shape", w.Pos(f.Decl.Pos()), shape+"  => yields pos0+1 .. end, nothing when pos0 >= end, terminates after end-pos0 steps, and pos++ cannot wrap because pos < end")
			r.Ok("R2", f.Name(), "pos++", w.Pos(f.Decl.Pos()), "dominated by the strict comparison pos < end")
		} else {
			r.Bad("R1", f.Name(), "Next shape", w.Pos(f.Decl.Pos()),
				"the counter iterator's Next must be exactly 'if pos < end { pos++; return pos }; return nil' (strict comparison of the fields, increment inside): other forms change the interval or wrap at the extremes of int (for example comparing pos+1 <= end overflows at MaxInt and never ends)")
			// arithmetic in the condition is an overflow site
			inspectBody(f.Decl.Body, false, func(n ast.Node) bool {
				if be, ok := n.(*ast.BinaryExpr); ok && (be.Op == token.ADD || be.Op == token.SUB) {
					r.Bad("R2", f.Name(), "arithmetic "+short(w.Fset, be), w.Pos(be.Pos()), "+-1 on a field that may hold an extreme int, not dominated by a strict comparison")
				}
				return true
			})
		}
		summary = append(summary, "Next="+shape)
		// constructors
		spec := map[string][2]string{"range": {"p0", "p1"}, "between": {"p0+1", "p1-1"}, "until": {"0", "p0-1"}}
		for _, c := range []struct {
			name string
			f    *FuncInfo
		}{{"range", ic.rangeF}, {"between", ic.betweenF}, {"until", ic.untilF}} {
			cinfo := c.f.Pkg.TypesInfo
			sig := c.f.Obj.Type().(*types.Signature)
			var pos0, end linForm
			inspectBody(c.f.Decl.Body, false, func(n ast.Node) bool {
				kv, ok := n.(*ast.KeyValueExpr)
				if !ok {
					return true
				}
				k, _ := kv.Key.(*ast.Ident)
				if k == nil {
					return true
				}
				fld, _ := cinfo.Uses[k].(*types.Var)
				switch {
				case fld != nil && posF != nil && fld == posF || (posF == nil && fld == st.Field(0)):
					pos0 = linearForm(cinfo, sig, kv.Value)
				case fld != nil && endF != nil && fld == endF || (endF == nil && fld == st.Field(1)):
					end = linearForm(cinfo, sig, kv.Value)
				}
				// R2: +-1 on a parameter
				if be, ok := unparen(kv.Value).(*ast.BinaryExpr); ok && (be.Op == token.ADD || be.Op == token.SUB) {
					if lf := linearForm(cinfo, sig, be); lf.ok && lf.param != "" && lf.c != 0 {
						r.Bad("R2", c.f.Name(), "wrapping "+lf.String()+" ("+c.name+")", w.Pos(be.Pos()),
							"'"+short(w.Fset, be)+"' on an unconstrained int parameter wraps at the extreme of int: the interval silently becomes empty or (until) practically endless")
					}
				}
				return true
			})
			first := linForm{pos0.param, pos0.c + 1, pos0.ok}
			con := fmt.Sprintf("%s: first=%s last=%s", c.name, first, end)
			want := spec[c.name]
			if pos0.ok && end.ok && first.String() == want[0] && end.String() == want[1] {
				r.Ok("R1", c.f.Name(), con, w.Pos(c.f.Decl.Pos()), "matches the specified interval (parameters named p0, p1 by position)")
			} else {
				r.Bad("R1", c.f.Name(), con, w.Pos(c.f.Decl.Pos()), fmt.Sprintf("the interval must be %s .. %s", want[0], want[1]))
			}
			summary = append(summary, fmt.Sprintf("%s=%s..%s", c.name, first, end))
		}
	}
	// ---- groupBy
	summary = append(summary, c19GroupBy(r, ic)...)
	return summary
}

// normalise renders a node without position-dependent noise.
func normSrc(w *World, n ast.Node) string { return nodeString(w.Fset, n) }

func c19GroupBy(r *Run, ic *iterCopy) []string {
	w := r.W
	f := ic.groupByF
	info := f.Pkg.TypesInfo
	sig := f.Obj.Type().(*types.Signature)
	sizeP := sig.Params().At(0)
	var summary []string
	fn := f.Name()
	// size <= 0 -> error (first statement)
	okSize := false
	if ifs, ok := f.Decl.Body.List[0].(*ast.IfStmt); ok {
		if be, ok := unparen(ifs.Cond).(*ast.BinaryExpr); ok && (be.Op == token.LEQ || be.Op == token.LSS) && objOf(info, be.X) == sizeP {
			if v, ok := constInt(info, be.Y); ok && ((be.Op == token.LEQ && v == 0) || (be.Op == token.LSS && v == 1)) && len(ifs.Body.List) == 1 && isReturnNilErr(info, ifs.Body.List[0]) {
				okSize = true
			}
		}
	}
	if okSize {
		r.Ok("R4", fn, "size <= 0 is an error", w.Pos(f.Decl.Pos()), "first statement")
	} else {
		r.Bad("R4", fn, "size <= 0 guard", w.Pos(f.Decl.Pos()), "a non-positive group count must be rejected before any division")
	}
	summary = append(summary, fmt.Sprintf("groupBy.sizeGuard=%v", okSize))
	// u := reflect.Indirect(reflect.ValueOf(underlying))
	var u types.Object
	inspectBody(f.Decl.Body, false, func(n ast.Node) bool {
		if as, ok := n.(*ast.AssignStmt); ok && len(as.Lhs) == 1 && len(as.Rhs) == 1 {
			if c, ok := unparen(as.Rhs[0]).(*ast.CallExpr); ok && funcIs(calleeOf(info, c), "reflect", "Indirect") && u == nil {
				u = objOf(info, as.Lhs[0])
			}
		}
		return true
	})
	if u == nil {
		r.Bad("R4", fn, "no reflect.Indirect of the collection", w.Pos(f.Decl.Pos()), "slices and pointers to slices must both be accepted")
		return summary
	}
	// kind switch
	var sw *ast.SwitchStmt
	for _, st := range f.Decl.Body.List {
		if s, ok := st.(*ast.SwitchStmt); ok && s.Tag != nil {
			if c, ok := unparen(s.Tag).(*ast.CallExpr); ok && methodIs(calleeOf(info, c), "reflect", "Value", "Kind") {
				sw = s
			}
		}
	}
	if sw == nil {
		r.Bad("R4", fn, "no kind switch", w.Pos(f.Decl.Pos()), "non-sequences must be told apart by kind")
		return summary
	}
	var seq *ast.CaseClause
	defErr := false
	for _, c := range sw.Body.List {
		cc := c.(*ast.CaseClause)
		if cc.List == nil {
			defErr = len(cc.Body) > 0 && isReturnNilErr(info, cc.Body[len(cc.Body)-1])
			continue
		}
		kinds := map[int64]bool{}
		for _, e := range cc.List {
			if v, ok := constInt(info, e); ok {
				kinds[v] = true
			}
		}
		if kinds[17] && kinds[23] && len(kinds) == 2 { // reflect.Array, reflect.Slice
			seq = cc
		}
	}
	if defErr {
		r.Ok("R4", fn, "non-sequence is an error", w.Pos(sw.Pos()), "default arm returns an error")
	} else {
		r.Bad("R4", fn, "non-sequence", w.Pos(sw.Pos()), "a value that is neither array nor slice must be an error")
	}
	if seq == nil {
		r.Bad("R4", fn, "no arm for exactly {Array, Slice}", w.Pos(sw.Pos()), "groupBy partitions arrays and slices")
		return summary
	}
	isLenU := func(e ast.Expr) bool {
		c, ok := unparen(e).(*ast.CallExpr)
		return ok && methodIs(calleeOf(info, c), "reflect", "Value", "Len") && objOf(info, unparen(c.Fun).(*ast.SelectorExpr).X) == u
	}
	// walk the arm
	var groupSize, pos, e types.Object
	var loop *ast.ForStmt
	checks := map[string]bool{}
	for _, st := range seq.Body {
		switch x := st.(type) {
		case *ast.IfStmt:
			be, ok := unparen(x.Cond).(*ast.BinaryExpr)
			if !ok {
				continue
			}
			// shortcut: u.Len() == size -> single group
			if be.Op == token.EQL && isLenU(be.X) && objOf(info, be.Y) == sizeP {
				checks["shortcut"] = true
			}
			// if u.Len()%size != 0 { groupSize++ }
			if be.Op == token.NEQ {
				if m, ok := unparen(be.X).(*ast.BinaryExpr); ok && m.Op == token.REM && isLenU(m.X) && objOf(info, m.Y) == sizeP {
					if v, ok := constInt(info, be.Y); ok && v == 0 && len(x.Body.List) == 1 {
						if inc, ok := x.Body.List[0].(*ast.IncDecStmt); ok && inc.Tok == token.INC && objOf(info, inc.X) == groupSize && groupSize != nil {
							checks["ceil"] = true
						}
					}
				}
			}
			// addressable copy of an array
			if c, ok := unparen(be.Y).(*ast.UnaryExpr); ok && c.Op == token.NOT && be.Op == token.LAND {
				if cc, ok := unparen(c.X).(*ast.CallExpr); ok && methodIs(calleeOf(info, cc), "reflect", "Value", "CanAddr") {
					checks["addr"] = true
				}
			}
		case *ast.AssignStmt:
			if len(x.Lhs) == 1 && len(x.Rhs) == 1 {
				if d, ok := unparen(x.Rhs[0]).(*ast.BinaryExpr); ok && d.Op == token.QUO && isLenU(d.X) && objOf(info, d.Y) == sizeP {
					groupSize = objOf(info, x.Lhs[0])
					checks["div"] = true
				}
				if v, ok := constInt(info, x.Rhs[0]); ok && v == 0 {
					pos = objOf(info, x.Lhs[0])
					checks["pos0"] = true
				}
			}
		case *ast.ForStmt:
			loop = x
		}
	}
	if loop != nil && pos != nil && groupSize != nil {
		if be, ok := unparen(loop.Cond).(*ast.BinaryExpr); ok && be.Op == token.LSS && objOf(info, be.X) == pos && isLenU(be.Y) && loop.Init == nil && loop.Post == nil {
			checks["while pos<len"] = true
		}
		for _, st := range loop.Body.List {
			switch x := st.(type) {
			case *ast.AssignStmt:
				if len(x.Lhs) == 1 && len(x.Rhs) == 1 {
					if s, ok := unparen(x.Rhs[0]).(*ast.BinaryExpr); ok && s.Op == token.ADD && objOf(info, s.X) == pos && objOf(info, s.Y) == groupSize && x.Tok == token.DEFINE {
						e = objOf(info, x.Lhs[0])
						checks["e=pos+g"] = true
					}
					if x.Tok == token.ADD_ASSIGN && objOf(info, x.Lhs[0]) == pos && objOf(info, x.Rhs[0]) == groupSize {
						checks["pos+=g"] = true
					}
					if c, ok := unparen(x.Rhs[0]).(*ast.CallExpr); ok && builtinName(info, c) == "append" && len(c.Args) == 2 {
						if sc, ok := unparen(c.Args[1]).(*ast.CallExpr); ok && methodIs(calleeOf(info, sc), "reflect", "Value", "Slice") && len(sc.Args) == 2 {
							if objOf(info, unparen(sc.Fun).(*ast.SelectorExpr).X) == u && objOf(info, sc.Args[0]) == pos && objOf(info, sc.Args[1]) == e && e != nil {
								checks["append u.Slice(pos,e)"] = true
							}
						}
					}
				}
			case *ast.IfStmt:
				if be, ok := unparen(x.Cond).(*ast.BinaryExpr); ok && be.Op == token.GTR && objOf(info, be.X) == e && e != nil && isLenU(be.Y) && len(x.Body.List) == 1 {
					if as, ok := x.Body.List[0].(*ast.AssignStmt); ok && objOf(info, as.Lhs[0]) == e && isLenU(as.Rhs[0]) {
						checks["clamp e to Len()"] = true
					}
				}
			}
		}
		if len(loop.Body.List) != 4 {
			checks["loop body has exactly the four steps"] = false
		} else {
			checks["loop body has exactly the four steps"] = true
		}
	}
	need := []string{"shortcut", "div", "ceil", "pos0", "while pos<len", "e=pos+g", "clamp e to Len()", "append u.Slice(pos,e)", "pos+=g", "loop body has exactly the four steps"}
	for _, k := range need {
		if checks[k] {
			r.Ok("R4", fn, k, w.Pos(seq.Pos()), "present")
		} else {
			r.Bad("R4", fn, "partition step missing or altered: "+k, w.Pos(seq.Pos()),
				"the groups must be consecutive sub-slices [pos, min(pos+g, Len())) with g = ceil(Len()/size), stepping pos += g while pos < Len(); this step does not have that form")
		}
	}
	// R5: Slice on arrays
	if checks["addr"] {
		r.Ok("R5", fn, "array made addressable before Slice", w.Pos(seq.Pos()), "if u.Kind() == Array && !u.CanAddr() { copy }")
	} else {
		r.Bad("R5", fn, "Slice on a possibly unaddressable array", w.Pos(seq.Pos()), "reflect.Value.Slice panics on an array held by value")
	}
	// summary for R3: the normalised source of the sequence arm and of Next
	var parts []string
	for _, st := range seq.Body {
		parts = append(parts, normSrc(w, st))
	}
	summary = append(summary, "groupBy.arm="+strings.Join(parts, " ; "))
	summary = append(summary, "groupBy.Next="+normSrc(w, ic.groupNext.Decl.Body))
	// groupBy.Next shape
	{
		g := ic.groupNext
		ginfo := g.Pkg.TypesInfo
		okShape := false
		if len(g.Decl.Body.List) == 4 {
			ifs, ok := g.Decl.Body.List[0].(*ast.IfStmt)
			if ok {
				if be, ok := unparen(ifs.Cond).(*ast.BinaryExpr); ok && be.Op == token.GEQ && len(ifs.Body.List) == 1 {
					if ret, ok := ifs.Body.List[0].(*ast.ReturnStmt); ok && isNilIdent(ginfo, ret.Results[0]) {
						if _, isInc := g.Decl.Body.List[2].(*ast.IncDecStmt); isInc {
							okShape = true
						}
					}
				}
			}
		}
		if okShape {
			r.Ok("R4", g.Name(), "groups handed out in order, then nil", w.Pos(g.Decl.Pos()), "if pos >= len(group) { return nil }; v := group[pos]; pos++; return v.Interface()")
		} else {
			r.Bad("R4", g.Name(), "Next of the group iterator", w.Pos(g.Decl.Pos()), "the groups must be handed out once each, in order")
		}
	}
	return summary
}

func c19Len(r *Run) {
	w := r.W
	var fn *types.Func
	for g, key := range w.helperRoots() {
		if key == "len" {
			fn = g
		}
	}
	f := w.FuncOf(fn)
	if f == nil {
		r.Lost("R5", "function registered as len")
		return
	}
	info := f.Pkg.TypesInfo
	// every rv.Len() call must be inside a kind-switch arm / if whose kinds are all length kinds
	lengthKinds := map[int64]string{17: "Array", 18: "Chan", 21: "Map", 23: "Slice", 24: "String"}
	covered := map[int64]bool{}
	n := 0
	for _, c := range callsIn(f.Decl.Body, false) {
		if !methodIs(calleeOf(info, c), "reflect", "Value", "Len") {
			continue
		}
		n++
		ok := false
		for p := w.Parent(c); p != nil; p = w.Parent(p) {
			cc, isCC := p.(*ast.CaseClause)
			if !isCC || cc.List == nil {
				continue
			}
			sw, isSw := w.Parent(w.Parent(cc)).(*ast.SwitchStmt)
			if !isSw || sw.Tag == nil {
				continue
			}
			kc, isCall := unparen(sw.Tag).(*ast.CallExpr)
			if !isCall || !methodIs(calleeOf(info, kc), "reflect", "Value", "Kind") {
				continue
			}
			all := true
			for _, e := range cc.List {
				v, isC := constInt(info, e)
				if !isC || lengthKinds[v] == "" {
					all = false
				} else {
					covered[v] = true
				}
			}
			ok = all
		}
		if ok {
			r.Ok("R5", f.Name(), "Len() under a kind test", w.Pos(c.Pos()), "only kinds that have a length")
		} else {
			r.Bad("R5", f.Name(), "Len() without a sufficient kind test", w.Pos(c.Pos()), "reflect.Value.Len panics for kinds without a length (int, struct, nil pointer, ...)")
		}
	}
	if n == 0 {
		r.Bad("R5", f.Name(), "no reflective length", w.Pos(f.Decl.Pos()), "len must report the Go length of strings, slices, arrays and maps of any named type")
	}
	var missing []string
	for _, k := range []int64{17, 21, 23, 24} {
		if !covered[k] {
			missing = append(missing, lengthKinds[k])
		}
	}
	sort.Strings(missing)
	if len(missing) == 0 {
		r.Ok("R5", f.Name(), "reflective length covers Array, Map, Slice, String", w.Pos(f.Decl.Pos()), "named types of these kinds included")
	} else {
		r.Bad("R5", f.Name(), "reflective length does not cover "+strings.Join(missing, ","), w.Pos(f.Decl.Pos()), "values of these kinds (including named types such as template.HTML or a pointer to one) report 0 instead of their length")
	}
	// pointer dereference before the kind test
	okPtr := false
	inspectBody(f.Decl.Body, false, func(nd ast.Node) bool {
		ifs, ok := nd.(*ast.IfStmt)
		if !ok {
			return true
		}
		if be, ok := unparen(ifs.Cond).(*ast.BinaryExpr); ok && be.Op == token.EQL {
			if v, ok := constInt(info, be.Y); ok && v == 22 {
				for _, st := range ifs.Body.List {
					if as, ok := st.(*ast.AssignStmt); ok && len(as.Rhs) == 1 {
						if c, ok := unparen(as.Rhs[0]).(*ast.CallExpr); ok && methodIs(calleeOf(info, c), "reflect", "Value", "Elem") {
							okPtr = true
						}
					}
				}
			}
		}
		return true
	})
	if okPtr {
		r.Ok("R5", f.Name(), "pointer dereferenced before the kind test", w.Pos(f.Decl.Pos()), "pointer to a sequence has the sequence's length")
	} else {
		r.Bad("R5", f.Name(), "pointer to a sequence", w.Pos(f.Decl.Pos()), "len of a pointer to a string/slice/array/map must be the length of what it points to")
	}
}
