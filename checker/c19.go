package main

import (
	"go/types"
	"strings"
)

func init() {
	register("C19", checkC19, "concrete sequences and partitions for concrete numbers (only the symbolic interval and the partition shape are decided); 'at most n groups' is the arithmetic fact ceil(len/ceil(len/n)) <= n, stated, not mechanised")
}

type iterCopy struct {
	rel              string
	rangeF, betweenF *FuncInfo
	untilF, groupByF *FuncInfo
	rangerT, groupT  *types.Named
	rangerNext       *FuncInfo
	groupNext        *FuncInfo
}

// findIterCopy resolves the iterator helpers of a package by role: the
// struct with two int fields (counter iterator) and its constructors; the
// function (int, interface{}) (X, error) (groupBy) and its iterator type.
func (w *World) findIterCopy(rel string) *iterCopy {
	ic := &iterCopy{rel: rel}
	p := w.Pkgs[rel]
	if p == nil {
		return nil
	}
	sc := p.Types.Scope()
	for _, n := range sc.Names() {
		tn, ok := sc.Lookup(n).(*types.TypeName)
		if !ok {
			continue
		}
		st, ok := tn.Type().Underlying().(*types.Struct)
		if !ok || st.NumFields() != 2 {
			continue
		}
		nt, _ := tn.Type().(*types.Named)
		// (an iterator: it has a Next method; other pairs of ints -- a span of indexes -- are not the counter)
		hasNext := false
		if nt != nil {
			for i := 0; i < nt.NumMethods(); i++ {
				if nt.Method(i).Name() == "Next" {
					hasNext = true
				}
			}
		}
		if !hasNext {
			continue
		}
		if isBasicKind(st.Field(0).Type(), types.Int) && isBasicKind(st.Field(1).Type(), types.Int) && !isNamed(st.Field(0).Type()) {
			ic.rangerT = nt
		} else {
			for i := 0; i < 2; i++ {
				if sl, ok := st.Field(i).Type().(*types.Slice); ok && namedIs(sl.Elem(), "reflect", "Value") {
					ic.groupT = nt
				}
			}
		}
	}
	for _, f := range w.Funcs(rel) {
		sig := f.Obj.Type().(*types.Signature)
		if sig.Recv() != nil {
			if f.Decl.Name.Name == "Next" {
				if isMethodOf(f, ic.rangerT) {
					ic.rangerNext = f
				}
				if isMethodOf(f, ic.groupT) {
					ic.groupNext = f
				}
			}
			continue
		}
		// constructors of the counter iterator: exported-role functions over ints returning one iterator
		if ic.rangerT != nil && sig.Results().Len() == 1 && sig.Params().Len() >= 1 && sig.Params().Len() <= 2 {
			allInt := true
			for i := 0; i < sig.Params().Len(); i++ {
				if !isBasicKind(sig.Params().At(i).Type(), types.Int) {
					allInt = false
				}
			}
			if allInt {
				lname := strings.ToLower(f.Decl.Name.Name)
				switch {
				case strings.HasPrefix(lname, "range") && sig.Params().Len() == 2:
					ic.rangeF = f
				case strings.HasPrefix(lname, "between") && sig.Params().Len() == 2:
					ic.betweenF = f
				case strings.HasPrefix(lname, "until") && sig.Params().Len() == 1:
					ic.untilF = f
				}
			}
		}
		if sig.Params().Len() == 2 && sig.Results().Len() == 2 && isBasicKind(sig.Params().At(0).Type(), types.Int) && isErrorType(sig.Results().At(1).Type()) {
			if _, ok := sig.Params().At(1).Type().Underlying().(*types.Interface); ok && strings.HasPrefix(strings.ToLower(f.Decl.Name.Name), "groupby") {
				ic.groupByF = f
			}
		}
	}
	return ic
}

func checkC19(r *Run) {
	r.Rule("R1", "symbolic interval of the counter iterator: Next yields pos+1 while pos < end (strict, on the fields, pre-increment) and nil afterwards; the constructors' fields as linear forms give range = a..b, between = a+1..b-1, until = 0..a-1", 4)
	r.Rule("R2", "extremes of int: no +-1 on an unconstrained int outside a dominating strict comparison (wrapping arithmetic on caller-controlled values)", 1)
	r.Rule("R3", "both shipped implementations agree: the two copies of range/between/until/Next/groupBy have equal summaries", 1)
	r.Rule("R4", "partition by construction: first group starts at 0, each group starts where the previous ended, the end is clamped to Len() of the same value, the step is the group size = ceil(len/size), the loop runs while pos < Len(); size <= 0 and non-sequences are errors", 6)
	r.Rule("R5", "panic obligations: Slice on an array only after it was made addressable; len(x) takes the reflective length only under a kind test covering exactly the kinds that have one, after dereferencing a pointer", 1)
	w := r.W
	copies := []*iterCopy{w.findIterCopy("helpers/iterators"), w.findIterCopy("")}
	for _, ic := range copies {
		if ic == nil || ic.rangerT == nil || ic.rangerNext == nil || ic.rangeF == nil || ic.betweenF == nil || ic.untilF == nil || ic.groupByF == nil || ic.groupNext == nil {
			r.Lost("R1", "iterator helpers of one shipped copy")
			return
		}
	}
	var sums [][]string
	for _, ic := range copies {
		sums = append(sums, c19Copy(r, ic))
	}
	// R3
	a, b := sums[0], sums[1]
	if len(a) == len(b) {
		for i := range a {
			con := "summary " + strings.SplitN(a[i], "=", 2)[0]
			if a[i] == b[i] {
				r.Ok("R3", "helpers/iterators vs plush", con, "-", "equal in both copies")
			} else {
				r.Bad("R3", "helpers/iterators vs plush", con, "-", "the two shipped implementations have drifted apart: ["+a[i]+"] vs ["+b[i]+"]")
			}
		}
	} else {
		r.Bad("R3", "helpers/iterators vs plush", "summary shapes", "-", "the two shipped implementations have different structure")
	}
	c19LenSSA(r)
}

func c19Copy(r *Run, ic *iterCopy) []string {
	var summary []string
	cs := c19CounterNext(r, ic)
	summary = append(summary, "Next="+cs.text)
	for _, c := range []struct {
		name string
		f    *FuncInfo
	}{{"range", ic.rangeF}, {"between", ic.betweenF}, {"until", ic.untilF}} {
		summary = append(summary, c19Constructor(r, ic, c.name, c.f, cs))
	}
	summary = append(summary, c19Partition(r, ic)...)
	summary = append(summary, c19GroupNext(r, ic))
	return summary
}
