package main

import (
	"fmt"
	"go/ast"
	"go/token"
	"go/types"
	"sort"
	"strings"
)

func init() {
	register("C19", checkC19, "concrete sequences and partitions for concrete numbers (only the symbolic interval and the partition shape are decided); 'at most n groups' is the arithmetic fact ceil(len/ceil(len/n)) <= n, stated, not mechanised")
}

type linForm struct {
	param string // "" for a constant
	c     int64
	ok    bool
}

func (l linForm) String() string {
	if !l.ok {
		return "?"
	}
	if l.param == "" {
		return fmt.Sprint(l.c)
	}
	switch {
	case l.c == 0:
		return l.param
	case l.c > 0:
		return fmt.Sprintf("%s+%d", l.param, l.c)
	}
	return fmt.Sprintf("%s%d", l.param, l.c)
}

// linearForm reads x, x+c, x-c, c over the function's parameters, naming the
// parameters p0, p1 by position.
func linearForm(info *types.Info, sig *types.Signature, e ast.Expr) linForm {
	e = unparen(e)
	if v, ok := constInt(info, e); ok {
		return linForm{"", v, true}
	}
	pname := func(x ast.Expr) string {
		o := objOf(info, x)
		for i := 0; i < sig.Params().Len(); i++ {
			if sig.Params().At(i) == o {
				return fmt.Sprintf("p%d", i)
			}
		}
		return ""
	}
	if p := pname(e); p != "" {
		return linForm{p, 0, true}
	}
	if be, ok := e.(*ast.BinaryExpr); ok && (be.Op == token.ADD || be.Op == token.SUB) {
		if p := pname(be.X); p != "" {
			if v, ok := constInt(info, be.Y); ok {
				if be.Op == token.SUB {
					v = -v
				}
				return linForm{p, v, true}
			}
		}
	}
	return linForm{}
}

type iterCopy struct {
	rel              string
	rangeF, betweenF *FuncInfo
	untilF, groupByF *FuncInfo
	rangerT, groupT  *types.Named
	rangerNext       *FuncInfo
	groupNext        *FuncInfo
}

// findIterCopy resolves the iterator helpers of a package by role: the
// struct with two int fields (counter iterator) and its constructors; the
// function (int, interface{}) (X, error) (groupBy) and its iterator type.
func (w *World) findIterCopy(rel string) *iterCopy {
	ic := &iterCopy{rel: rel}
	p := w.Pkgs[rel]
	if p == nil {
		return nil
	}
	sc := p.Types.Scope()
	for _, n := range sc.Names() {
		tn, ok := sc.Lookup(n).(*types.TypeName)
		if !ok {
			continue
		}
		st, ok := tn.Type().Underlying().(*types.Struct)
		if !ok || st.NumFields() != 2 {
			continue
		}
		nt, _ := tn.Type().(*types.Named)
		if isBasicKind(st.Field(0).Type(), types.Int) && isBasicKind(st.Field(1).Type(), types.Int) && !isNamed(st.Field(0).Type()) {
			ic.rangerT = nt
		} else {
			for i := 0; i < 2; i++ {
				if sl, ok := st.Field(i).Type().(*types.Slice); ok && namedIs(sl.Elem(), "reflect", "Value") {
					ic.groupT = nt
				}
			}
		}
	}
	for _, f := range w.Funcs(rel) {
		sig := f.Obj.Type().(*types.Signature)
		if sig.Recv() != nil {
			if f.Decl.Name.Name == "Next" {
				if isMethodOf(f, ic.rangerT) {
					ic.rangerNext = f
				}
				if isMethodOf(f, ic.groupT) {
					ic.groupNext = f
				}
			}
			continue
		}
		// constructors of the counter iterator: exported-role functions over ints returning one iterator
		if ic.rangerT != nil && sig.Results().Len() == 1 && sig.Params().Len() >= 1 && sig.Params().Len() <= 2 {
			allInt := true
			for i := 0; i < sig.Params().Len(); i++ {
				if !isBasicKind(sig.Params().At(i).Type(), types.Int) {
					allInt = false
				}
			}
			if allInt {
				lname := strings.ToLower(f.Decl.Name.Name)
				switch {
				case strings.HasPrefix(lname, "range") && sig.Params().Len() == 2:
					ic.rangeF = f
				case strings.HasPrefix(lname, "between") && sig.Params().Len() == 2:
					ic.betweenF = f
				case strings.HasPrefix(lname, "until") && sig.Params().Len() == 1:
					ic.untilF = f
				}
			}
		}
		if sig.Params().Len() == 2 && sig.Results().Len() == 2 && isBasicKind(sig.Params().At(0).Type(), types.Int) && isErrorType(sig.Results().At(1).Type()) {
			if _, ok := sig.Params().At(1).Type().Underlying().(*types.Interface); ok && strings.HasPrefix(strings.ToLower(f.Decl.Name.Name), "groupby") {
				ic.groupByF = f
			}
		}
	}
	return ic
}

func checkC19(r *Run) {
	r.Rule("R1", "symbolic interval of the counter iterator: Next yields pos+1 while pos < end (strict, on the fields, pre-increment) and nil afterwards; the constructors' fields as linear forms give range = a..b, between = a+1..b-1, until = 0..a-1", 4)
	r.Rule("R2", "extremes of int: no +-1 on an unconstrained int outside a dominating strict comparison (wrapping arithmetic on caller-controlled values)", 1)
	r.Rule("R3", "both shipped implementations agree: the two copies of range/between/until/Next/groupBy have equal summaries", 1)
	r.Rule("R4", "partition by construction: first group starts at 0, each group starts where the previous ended, the end is clamped to Len() of the same value, the step is the group size = ceil(len/size), the loop runs while pos < Len(); size <= 0 and non-sequences are errors", 6)
	r.Rule("R5", "panic obligations: Slice on an array only after it was made addressable; len(x) takes the reflective length only under a kind test covering exactly the kinds that have one, after dereferencing a pointer", 1)
	w := r.W
	copies := []*iterCopy{w.findIterCopy("helpers/iterators"), w.findIterCopy("")}
	for _, ic := range copies {
		if ic == nil || ic.rangerT == nil || ic.rangerNext == nil || ic.rangeF == nil || ic.betweenF == nil || ic.untilF == nil || ic.groupByF == nil || ic.groupNext == nil {
			r.Lost("R1", "iterator helpers of one shipped copy")
			return
		}
	}
	var sums [][]string
	for _, ic := range copies {
		sums = append(sums, c19Copy(r, ic))
	}
	// R3
	a, b := sums[0], sums[1]
	if len(a) == len(b) {
		for i := range a {
			con := "summary " + strings.SplitN(a[i], "=", 2)[0]
			if a[i] == b[i] {
				r.Ok("R3", "helpers/iterators vs plush", con, "-", "equal in both copies")
			} else {
				r.Bad("R3", "helpers/iterators vs plush", con, "-", "the two shipped implementations have drifted apart: ["+a[i]+"] vs ["+b[i]+"]")
			}
		}
	} else {
		r.Bad("R3", "helpers/iterators vs plush", "summary shapes", "-", "the two shipped implementations have different structure")
	}
	c19LenSSA(r)
}

func c19Copy(r *Run, ic *iterCopy) []string {
	var summary []string
	cs := c19CounterNext(r, ic)
	summary = append(summary, "Next="+cs.text)
	for _, c := range []struct {
		name string
		f    *FuncInfo
	}{{"range", ic.rangeF}, {"between", ic.betweenF}, {"until", ic.untilF}} {
		summary = append(summary, c19Constructor(r, ic, c.name, c.f, cs))
	}
	summary = append(summary, c19Partition(r, ic)...)
	summary = append(summary, c19GroupNext(r, ic))
	return summary
}

func c19Len(r *Run) {
	w := r.W
	var fn *types.Func
	for g, key := range w.helperRoots() {
		if key == "len" {
			fn = g
		}
	}
	f := w.FuncOf(fn)
	if f == nil {
		r.Lost("R5", "function registered as len")
		return
	}
	info := f.Pkg.TypesInfo
	// every rv.Len() call must be inside a kind-switch arm / if whose kinds are all length kinds
	lengthKinds := map[int64]string{17: "Array", 18: "Chan", 21: "Map", 23: "Slice", 24: "String"}
	covered := map[int64]bool{}
	n := 0
	for _, c := range callsIn(f.Decl.Body, false) {
		if !methodIs(calleeOf(info, c), "reflect", "Value", "Len") {
			continue
		}
		n++
		ok := false
		for p := w.Parent(c); p != nil; p = w.Parent(p) {
			cc, isCC := p.(*ast.CaseClause)
			if !isCC || cc.List == nil {
				continue
			}
			sw, isSw := w.Parent(w.Parent(cc)).(*ast.SwitchStmt)
			if !isSw || sw.Tag == nil {
				continue
			}
			kc, isCall := unparen(sw.Tag).(*ast.CallExpr)
			if !isCall || !methodIs(calleeOf(info, kc), "reflect", "Value", "Kind") {
				continue
			}
			all := true
			for _, e := range cc.List {
				v, isC := constInt(info, e)
				if !isC || lengthKinds[v] == "" {
					all = false
				} else {
					covered[v] = true
				}
			}
			ok = all
		}
		if ok {
			r.Ok("R5", f.Name(), "Len() under a kind test", w.Pos(c.Pos()), "only kinds that have a length")
		} else {
			r.Bad("R5", f.Name(), "Len() without a sufficient kind test", w.Pos(c.Pos()), "reflect.Value.Len panics for kinds without a length (int, struct, nil pointer, ...)")
		}
	}
	if n == 0 {
		r.Bad("R5", f.Name(), "no reflective length", w.Pos(f.Decl.Pos()), "len must report the Go length of strings, slices, arrays and maps of any named type")
	}
	var missing []string
	for _, k := range []int64{17, 21, 23, 24} {
		if !covered[k] {
			missing = append(missing, lengthKinds[k])
		}
	}
	sort.Strings(missing)
	if len(missing) == 0 {
		r.Ok("R5", f.Name(), "reflective length covers Array, Map, Slice, String", w.Pos(f.Decl.Pos()), "named types of these kinds included")
	} else {
		r.Bad("R5", f.Name(), "reflective length does not cover "+strings.Join(missing, ","), w.Pos(f.Decl.Pos()), "values of these kinds (including named types such as template.HTML or a pointer to one) report 0 instead of their length")
	}
	// pointer dereference before the kind test
	okPtr := false
	inspectBody(f.Decl.Body, false, func(nd ast.Node) bool {
		ifs, ok := nd.(*ast.IfStmt)
		if !ok {
			return true
		}
		if be, ok := unparen(ifs.Cond).(*ast.BinaryExpr); ok && be.Op == token.EQL {
			if v, ok := constInt(info, be.Y); ok && v == 22 {
				for _, st := range ifs.Body.List {
					if as, ok := st.(*ast.AssignStmt); ok && len(as.Rhs) == 1 {
						if c, ok := unparen(as.Rhs[0]).(*ast.CallExpr); ok && methodIs(calleeOf(info, c), "reflect", "Value", "Elem") {
							okPtr = true
						}
					}
				}
			}
		}
		return true
	})
	if okPtr {
		r.Ok("R5", f.Name(), "pointer dereferenced before the kind test", w.Pos(f.Decl.Pos()), "pointer to a sequence has the sequence's length")
	} else {
		r.Bad("R5", f.Name(), "pointer to a sequence", w.Pos(f.Decl.Pos()), "len of a pointer to a string/slice/array/map must be the length of what it points to")
	}
}
