package main

// c07parse.go (C07.R4): the else-if clauses reach the tree in source order. The evaluator visits
// IfExpression.ElseIf by one ascending range (R3), so "conditions are evaluated in order" needs the parser
// to have put them there in the order it read them. The parser reads strictly left to right (one token
// cursor, never moved back), so the clause a call of the clause parser returns is later in the source than
// every clause parsed before that call. Decided:
//
//	shape   every value stored into IfExpression.ElseIf is a chain: nil, the field itself, a phi of chains, or
//	        append(chain, one fresh element) -- the new clause goes to the END of what is there
//	        (append([]T{c}, rest...) is accepted when rest is the result of a call made after c was parsed)
//	order   on every path, between the call that yields a clause and the append that adds it, nothing else can
//	        add to a chain: no other append of clauses, and no call that takes or returns an *IfExpression or a
//	        slice of clauses (a recursive "parse the rest of the chain" before adding this clause reverses it)

import (
	"fmt"
	"go/constant"
	"go/token"
	"go/types"

	"golang.org/x/tools/go/ssa"
)

func elseIfOrderRule(r *Run, rule string) {
	w := r.W
	w.SSA()
	ifT := w.NamedType("ast", "IfExpression")
	if ifT == nil {
		r.Lost(rule, "ast.IfExpression")
		return
	}
	st, ok := ifT.Underlying().(*types.Struct)
	if !ok {
		r.Lost(rule, "ast.IfExpression is not a struct")
		return
	}
	chainIdx := -1
	var chainT types.Type
	for i := 0; i < st.NumFields(); i++ {
		if sl, isSlice := st.Field(i).Type().Underlying().(*types.Slice); isSlice {
			if pt, isPtr := sl.Elem().(*types.Pointer); isPtr && namedIs(pt.Elem(), astPath, "ElseIfExpression") {
				chainIdx, chainT = i, st.Field(i).Type()
			}
		}
	}
	if chainIdx < 0 {
		r.Lost(rule, "the else-if chain field of ast.IfExpression")
		return
	}
	isChainField := func(a ssa.Value) bool {
		fa, ok := a.(*ssa.FieldAddr)
		if !ok || fa.Field != chainIdx {
			return false
		}
		pt, ok := fa.X.Type().Underlying().(*types.Pointer)
		return ok && types.Identical(pt.Elem(), ifT)
	}
	isChainType := func(t types.Type) bool {
		if types.Identical(t, chainT) {
			return true
		}
		if pt, ok := t.Underlying().(*types.Pointer); ok {
			return types.Identical(pt.Elem(), ifT) || types.Identical(pt.Elem(), chainT)
		}
		return false
	}
	isAppend := func(v ssa.Value) (*ssa.Call, bool) {
		c, ok := v.(*ssa.Call)
		if !ok || len(c.Call.Args) != 2 {
			return nil, false
		}
		b, ok := c.Call.Value.(*ssa.Builtin)
		return c, ok && b.Name() == "append" && types.Identical(c.Type(), chainT)
	}
	// a fresh slice of exactly one element: Slice(Alloc [1]T) -- what `append(x, c)` passes as its second argument
	freshOne := func(v ssa.Value) bool {
		sl, ok := v.(*ssa.Slice)
		if !ok {
			return false
		}
		a, ok := sl.X.(*ssa.Alloc)
		if !ok {
			return false
		}
		pt, ok := a.Type().Underlying().(*types.Pointer)
		if !ok {
			return false
		}
		arr, ok := pt.Elem().Underlying().(*types.Array)
		return ok && arr.Len() == 1
	}
	var fns []*ssa.Function
	for _, rel := range []string{"parser", "ast"} {
		for _, f := range w.Funcs(rel) {
			if fn := w.SSAFunc(f); fn != nil {
				fns = append(fns, fn)
				fns = append(fns, allAnon(fn)...)
			}
		}
	}
	// ---- shape
	seen := map[ssa.Value]int8{}
	var isChain func(v ssa.Value, d int) bool
	isChain = func(v ssa.Value, d int) bool {
		if d > 12 {
			return false
		}
		switch seen[v] {
		case 1, 2:
			return true
		case 3:
			return false
		}
		seen[v] = 1
		ok := false
		switch x := v.(type) {
		case *ssa.Const:
			ok = x.IsNil()
		case *ssa.UnOp:
			if x.Op == token.MUL {
				if isChainField(x.X) {
					ok = true
				} else if a, isAlloc := x.X.(*ssa.Alloc); isAlloc {
					// a local chain kept in a cell: everything stored into it
					ok = true
					for _, ref := range *a.Referrers() {
						if s, isStore := ref.(*ssa.Store); isStore && s.Addr == ssa.Value(a) && !isChain(s.Val, d+1) {
							ok = false
						}
					}
				}
			}
		case *ssa.Phi:
			ok = true
			for _, e := range x.Edges {
				if !isChain(e, d+1) {
					ok = false
				}
			}
		case *ssa.MakeSlice:
			if c, isC := x.Len.(*ssa.Const); isC && c.Int64() == 0 {
				ok = true
			}
		case *ssa.Slice:
			// []T{}: no element
			if a, isAlloc := x.X.(*ssa.Alloc); isAlloc {
				if pt, isPtr := a.Type().Underlying().(*types.Pointer); isPtr {
					if arr, isArr := pt.Elem().Underlying().(*types.Array); isArr && arr.Len() == 0 {
						ok = true
					}
				}
			}
		case *ssa.Call:
			if c, isApp := isAppend(x); isApp {
				switch {
				case isChain(c.Call.Args[0], d+1) && freshOne(c.Call.Args[1]):
					ok = true
				case freshOne(c.Call.Args[0]):
					// append([]T{c}, rest...): the order clause requires rest to be made after c
					_, fromCall := c.Call.Args[1].(*ssa.Call)
					ok = fromCall
				}
			} else if x.Call.StaticCallee() != nil && types.Identical(x.Type(), chainT) {
				ok = true // the chain a helper built: its own appends are judged where they are
			}
		case *ssa.Parameter:
			ok = true // a chain handed in: judged where it was built
		}
		if ok {
			seen[v] = 2
		} else {
			seen[v] = 3
		}
		return ok
	}
	nStores, nAppends := 0, 0
	for _, fn := range fns {
		for _, b := range fn.Blocks {
			for _, ins := range b.Instrs {
				s, isStore := ins.(*ssa.Store)
				if !isStore || !isChainField(s.Addr) {
					continue
				}
				nStores++
				if isChain(s.Val, 0) {
					r.Ok(rule, ssaName(fn), "store to the else-if chain", w.Pos(s.Pos()), "the chain is extended at its end, one clause at a time")
				} else {
					r.Bad(rule, ssaName(fn), "store to the else-if chain", w.Pos(s.Pos()),
						"the else-if chain is not extended at its end by the clause just parsed: the evaluator tries the clauses in the order of this slice, so the first truthy condition in the SOURCE is no longer the one that wins")
				}
			}
		}
	}
	if nStores == 0 {
		r.Lost(rule, "stores to the else-if chain of ast.IfExpression")
		return
	}
	// ---- order
	for _, fn := range fns {
		has := false
		for _, b := range fn.Blocks {
			for _, ins := range b.Instrs {
				if v, isV := ins.(ssa.Value); isV {
					if _, isApp := isAppend(v); isApp {
						has = true
					}
				}
			}
		}
		if !has {
			continue
		}
		paths, ok := walkPathsUnrolled(fn, nil, nil, 20000)
		if !ok || len(paths) == 0 {
			r.Lost(rule, "paths of "+ssaName(fn))
			continue
		}
		bad, badPos, nSites := "", token.NoPos, 0
		for _, p := range paths {
			evIdx := map[ssa.Instruction]int{}
			for i, ev := range p.events {
				evIdx[ev] = i
			}
			for ea, ev := range p.events {
				v, isV := ev.(ssa.Value)
				if !isV {
					continue
				}
				app, isApp := isAppend(v)
				if !isApp {
					continue
				}
				// the clause added and the call that made it
				var elems []ssa.Value
				var rest ssa.Value
				if es, okE := p.sliceElems(app.Call.Args[1]); okE && len(es) == 1 {
					elems = es
				} else if es, okE := p.sliceElems(app.Call.Args[0]); okE && len(es) == 1 {
					elems, rest = es, p.resolve(app.Call.Args[1])
				} else {
					continue
				}
				made, isCall := p.resolve(elems[0]).(*ssa.Call)
				if !isCall {
					continue // a clause handed in from elsewhere
				}
				ec, onPath := evIdx[made]
				if !onPath || ec >= ea {
					continue
				}
				nSites++
				lo, hi := ec+1, ea
				if rest != nil {
					// append([c], rest...): rest is made after c, by one call; nothing else in between
					rc, isRC := rest.(*ssa.Call)
					er, onPath := evIdx[rc]
					if !isRC || !onPath || er <= ec {
						bad, badPos = "the clauses that follow are parsed before the clause put in front of them", app.Pos()
						continue
					}
					lo, hi = ec+1, er
				}
				for ei := lo; ei < hi; ei++ {
					c, isCall := p.events[ei].(*ssa.Call)
					if !isCall {
						continue
					}
					if _, isApp2 := isAppend(c); isApp2 {
						bad, badPos = "another clause is added between parsing this one and adding it", app.Pos()
						continue
					}
					if _, isB := c.Call.Value.(*ssa.Builtin); isB {
						continue
					}
					touches := isChainType(c.Type())
					if tup, isTup := c.Type().(*types.Tuple); isTup {
						for i := 0; i < tup.Len(); i++ {
							if isChainType(tup.At(i).Type()) {
								touches = true
							}
						}
					}
					for _, a := range c.Call.Args {
						if isChainType(a.Type()) {
							touches = true
						}
					}
					if touches {
						bad, badPos = fmt.Sprintf("%s runs on the if node or its chain between parsing a clause and adding it: the clauses it adds come later in the source but earlier in the chain", calleeLabel(c)), app.Pos()
					}
				}
			}
		}
		// ... and every clause that was parsed is added: a path that parsed a clause and goes on to hand back the if node
		// without having added it (an "empty" clause kept out of the tree) lets a later clause win although this
		// one's condition is truthy
		for _, p := range paths {
			if p.end != "return" {
				continue
			}
			failed := false
			for _, res := range p.results {
				rv := p.resolve(res)
				if isNilConst(rv) || isNilConst(p.resolve(stripIface(rv))) {
					failed = true
				}
				if c, isC := rv.(*ssa.Const); isC && c.Value != nil && c.Value.Kind() == constant.Bool && !constant.BoolVal(c.Value) {
					failed = true
				}
			}
			if failed {
				continue
			}
			added := map[ssa.Value]bool{}
			var made []*ssa.Call
			for _, ev := range p.events {
				c, isCall := ev.(*ssa.Call)
				if !isCall {
					continue
				}
				if app, isApp := isAppend(c); isApp {
					for _, a := range app.Call.Args {
						if es, okE := p.sliceElems(a); okE {
							for _, e := range es {
								added[p.resolve(e)] = true
							}
						}
					}
					continue
				}
				if pt, isPtr := c.Type().(*types.Pointer); isPtr && namedIs(pt.Elem(), astPath, "ElseIfExpression") {
					made = append(made, c)
				}
			}
			for _, mk := range made {
				if added[ssa.Value(mk)] {
					continue
				}
				// found nil: the clause failed to parse
				isNil := false
				for _, d := range p.decisions {
					if x, op, okN := isNilCompare(p, d.cond); okN && p.resolve(x) == ssa.Value(mk) && d.truth == (op == token.EQL) {
						isNil = true
					}
				}
				if !isNil {
					bad, badPos = "a clause that was parsed is not added to the chain on some path that hands the if node back", mk.Pos()
				}
			}
		}
		nAppends += nSites
		switch {
		case bad != "":
			r.Bad(rule, ssaName(fn), "else-if clauses are added in source order", w.Pos(badPos), bad)
		case nSites > 0:
			r.Ok(rule, ssaName(fn), "else-if clauses are added in source order", w.Pos(fn.Pos()), fmt.Sprintf("%d path(s); nothing else touches the chain between the call that parses a clause and the append that adds it", len(paths)))
		}
	}
	if nAppends == 0 {
		r.Lost(rule, "an append of a parsed clause to the else-if chain")
	}
}

func calleeLabel(c *ssa.Call) string {
	if g := c.Call.StaticCallee(); g != nil {
		return ssaName(g)
	}
	if c.Call.IsInvoke() {
		return c.Call.Method.Name()
	}
	return "a call"
}
