package main

// c14fields.go (C14.R9): the fields of a context that is in use are not written without its lock. R3 guards the
// map; a flag or a counter added to the struct later and written on a context that other goroutines hold (the
// shared parent, in `New`) is the same race with another name. Decided on the value graph of the package: a store
// into a field of a Context either addresses a context this function has just allocated (its construction), or
// is dominated by a Lock of a mutex field of the same context value.

import (
	"go/types"

	"golang.org/x/tools/go/ssa"
)

func contextFieldWritesRule(r *Run, rule string) {
	w := r.W
	w.SSA()
	pkg := w.SSAPkg("")
	ct := w.NamedType("", "Context")
	if pkg == nil || ct == nil {
		r.Lost(rule, "Context type")
		return
	}
	isCtxPtr := func(t types.Type) bool {
		pt, ok := t.(*types.Pointer)
		return ok && types.Identical(pt.Elem(), ct)
	}
	isLockOf := func(c *ssa.Call, base ssa.Value) bool {
		g := c.Call.StaticCallee()
		if g == nil || g.Pkg == nil || g.Pkg.Pkg.Path() != "sync" || g.Name() != "Lock" || len(c.Call.Args) == 0 {
			return false
		}
		v := c.Call.Args[0]
		for i := 0; i < 3; i++ {
			switch x := v.(type) {
			case *ssa.UnOp:
				v = x.X
				continue
			case *ssa.FieldAddr:
				return x.X == base
			}
			break
		}
		return false
	}
	nFresh, nLocked, nBad := 0, 0, 0
	for _, fn := range functionsOf(pkg) {
		for _, b := range fn.Blocks {
			for _, ins := range b.Instrs {
				st, ok := ins.(*ssa.Store)
				if !ok {
					continue
				}
				fa, ok := st.Addr.(*ssa.FieldAddr)
				if !ok || !isCtxPtr(fa.X.Type()) {
					continue
				}
				if freshObject(fa.X, 0) {
					nFresh++
					continue
				}
				locked := false
				for _, d := range fn.Blocks {
					if !d.Dominates(b) {
						continue
					}
					for _, di := range d.Instrs {
						if d == b && di == ins {
							break
						}
						if c, isCall := di.(*ssa.Call); isCall && isLockOf(c, fa.X) {
							locked = true
						}
					}
				}
				fname := "a field"
				if sty, isSt := ct.Underlying().(*types.Struct); isSt && fa.Field < sty.NumFields() {
					fname = sty.Field(fa.Field).Name()
				}
				if locked {
					nLocked++
					r.Ok(rule, ssaName(fn), "store into "+fname+" of a context in use", w.Pos(st.Pos()), "behind a Lock of that context's mutex")
				} else {
					nBad++
					r.Bad(rule, ssaName(fn), "store into "+fname+" of a context in use", w.Pos(st.Pos()),
						"a field of a context that other goroutines may hold (a shared parent) is written without that context's lock: concurrent New / Set / Value on it race with this write")
				}
			}
		}
	}
	if nFresh == 0 && nLocked == 0 && nBad == 0 {
		r.Lost(rule, "stores into fields of a Context")
		return
	}
	if nBad == 0 && nLocked == 0 {
		r.Ok(rule, "plush", "fields of a Context are written at construction only", "-", "every store into a field addresses a context the function has just allocated")
	}
}

// freshObject: v is an object this activation has just built: an allocation, or what a constructor of the module
// returns when every return of it hands back a fresh object.
func freshObject(v ssa.Value, depth int) bool {
	if depth > 4 {
		return false
	}
	switch x := v.(type) {
	case *ssa.Alloc:
		return true
	case *ssa.Phi:
		for _, e := range x.Edges {
			if !freshObject(e, depth+1) {
				return false
			}
		}
		return len(x.Edges) > 0
	case *ssa.Call:
		g := x.Call.StaticCallee()
		if g == nil || !inModule(g) || len(g.Blocks) == 0 || g.Signature.Results().Len() != 1 {
			return false
		}
		n := 0
		for _, b := range g.Blocks {
			if ret, ok := b.Instrs[len(b.Instrs)-1].(*ssa.Return); ok && len(ret.Results) == 1 {
				n++
				if !freshObject(ret.Results[0], depth+1) {
					return false
				}
			}
		}
		return n > 0
	}
	return false
}
