package main

import (
	"fmt"
	"go/ast"
	"go/token"
	"go/types"

	"golang.org/x/tools/go/ssa"
)

func init() {
	register("C16", checkC16, "values computed by function bodies; recursion depth")
}

func checkC16(r *Run) {
	r.Rule("R1", "phase order: every argument is evaluated in the caller's scope before the function's scope is installed and before any parameter is bound (no evaluation after or in the same loop as a binding)", 1)
	r.Rule("R2", "pairing: parameter i is bound to the value of argument i (same index object), and indexing the argument list is dominated by an arity test that returns an error", 1)
	r.Rule("R3", "the first exit object ends the block: the block evaluator returns in the iteration that produced it", 1)
	r.Rule("R4", "exit objects do not escape the call: the value of a user-function call is the returned value, not the return wrapper", 1)
	r.Rule("R5", "a return inside a loop body leaves the loop and is propagated as a return", 1)
	r.Rule("R6", "first-class functions: the callee is obtained by evaluating the call's function expression on every call, recognised by a comma-ok assertion before the reflect path; the literal captures Parameters and Block unmodified", 1)
	r.Rule("R7", "return always produces an exit object: the return evaluator wraps every value (also nil) when the statement is a return", 1)
	userFunctionCallRuleSSA(r)
	coreBlockRules(r, "", "R3")
	exitEscapesRule(r, "R4")
	loopReturnRuleSSA(r, "R5")
	firstClassRule(r, "R6")
	coreReturnRule(r, "R7")
	r.Rule("R8", "the values bound to the parameters are owned by the activation: the buffer they are collected in is built per call, not kept in the function object or the evaluator (a nested call of the same function would overwrite it)", 1)
	uf := r.W.userFunctionEval()
	r.Rule("R10", "the parameter list of a function literal is its own: no list of nodes the parser stores into the tree or returns is built in a buffer kept in the parser or a package variable", 1)
	parserBuffersRule(r, "R10")
	r.Rule("R11", "who may open a return object: the output kept in a return object is read only by the sink, the top-level, block, loop, call and user-function evaluators and helpers of those that nobody else calls (an output tag that unwraps it lets the statements behind a `return` run)", 1)
	returnObjectOpenersRule(r, "R11")
	r.Rule("R9", "the scope of a call extends the caller's: the scope installed is New() of the scope current on entry, nothing but parameter names is Set on it before the body runs, and the caller's scope is back at every exit; a call that does not fail has run the body", 1)
	callScopeRuleSSA(r, "R9")
	activationBuffersRule(r, "R8", func(fn *ssa.Function) bool {
		return isUserFunctionCode(r.W, uf, fn)
	}, "user-function call evaluator")
}

// isUserFunctionCode: fn is the user-function call evaluator, a closure of it, or a function that takes or is a method of the function object.
func isUserFunctionCode(w *World, uf *FuncInfo, fn *ssa.Function) bool {
	base := fn
	for base.Parent() != nil {
		base = base.Parent()
	}
	if uf != nil && fnObject(base) == types.Object(uf.Obj) {
		return true
	}
	ut := w.NamedType("", "userFunction")
	if ut == nil {
		return false
	}
	isUT := func(t types.Type) bool {
		n, ok := deref(t).(*types.Named)
		return ok && n.Obj() == ut.Obj()
	}
	if rc := base.Signature.Recv(); rc != nil && isUT(rc.Type()) {
		return true
	}
	return false
}

func exitEscapesRule(r *Run, rule string) {
	w := r.W
	f := w.userFunctionEval()
	m := w.coreModel()
	if f == nil || m.block == nil {
		r.Lost(rule, "user-function call evaluator / block evaluator")
		return
	}
	fn := w.SSAFunc(f)
	if fn == nil {
		r.Lost(rule, "SSA form of the user-function call evaluator")
		return
	}
	// on the paths of the call evaluator (its helpers and function literals walked in line): what it
	// returns when the body was evaluated without error
	paths, ok := walkPathsUnrolled(fn, nil, m.inline, 50000)
	if !ok || len(paths) == 0 {
		r.Lost(rule, "paths of the user-function call evaluator")
		return
	}
	nBody, unopened := 0, 0
	var at token.Pos = fn.Pos()
	for _, p := range paths {
		if p.end != "return" || len(p.results) != 2 {
			continue
		}
		var body *ssa.Call
		for _, ev := range p.events {
			if c, ok := ev.(*ssa.Call); ok && c.Call.StaticCallee() == m.block {
				body = c
			}
		}
		if body == nil {
			continue
		}
		nBody++
		if cal, call := evalResult(p, p.results[0], 0); cal == m.block && call == body {
			unopened++
			at = p.ret.Pos()
		}
	}
	switch {
	case nBody == 0:
		r.Lost(rule, "a path of the call evaluator that evaluates the function's body")
	case unopened > 0:
		r.Bad(rule, f.Name(), "returns the block result unopened", w.Pos(at),
			"the body's result is a return wrapper (returnObject); handing it back unopened makes 'f(1) == 1' compare a wrapper with an int and 'if (f(false))' test a non-nil struct")
	default:
		r.Ok(rule, f.Name(), "return wrapper opened at the call boundary", w.Pos(f.Decl.Pos()), fmt.Sprintf("on none of the %d path(s) that evaluate the body is the block's result handed back as it is", nBody))
	}
}

func firstClassRule(r *Run, rule string) {
	w := r.W
	callEval := w.evalMethod("CallExpression")
	uf := w.userFunctionEval()
	evalExpr := w.evalMethod("Expression")
	litEval := w.evalMethod("FunctionLiteral")
	if litEval == nil {
		// the function value is built by a plain function of the package (it needs nothing of the evaluator)
		for _, f := range w.Funcs("") {
			sig := f.Obj.Type().(*types.Signature)
			if sig.Recv() == nil && sig.Params().Len() == 1 && sig.Results().Len() >= 1 && namedIs(sig.Params().At(0).Type(), astPath, "FunctionLiteral") {
				litEval = f
			}
		}
	}
	if callEval == nil || uf == nil || evalExpr == nil || litEval == nil {
		r.Lost(rule, "call evaluator / function-literal evaluator")
		return
	}
	info := callEval.Pkg.TypesInfo
	node := callEval.Obj.Type().(*types.Signature).Params().At(0)
	// every call of the user-function evaluator: first argument is the ok-result of `X.(*userFunction)`
	// with X the variable assigned (once) from evalExpression(node.Function)
	n := 0
	for _, c := range callsIn(callEval.Decl.Body, true) {
		if calleeOf(info, c) != uf.Obj {
			continue
		}
		n++
		con := "user-function dispatch " + short(w.Fset, c)
		fo := objOf(info, c.Args[0])
		var asserted ast.Expr
		inspectBody(callEval.Decl.Body, true, func(m ast.Node) bool {
			if as, ok := m.(*ast.AssignStmt); ok && len(as.Lhs) == 2 && len(as.Rhs) == 1 && objOf(info, as.Lhs[0]) == fo {
				if ta, ok := unparen(as.Rhs[0]).(*ast.TypeAssertExpr); ok {
					asserted = ta.X
				}
			}
			return true
		})
		ok := false
		if ao := objOf(info, asserted); ao != nil {
			nd, good := 0, false
			inspectBody(callEval.Decl.Body, true, func(m ast.Node) bool {
				if as, isAs := m.(*ast.AssignStmt); isAs {
					for i, l := range as.Lhs {
						if objOf(info, l) != ao {
							continue
						}
						nd++
						if len(as.Rhs) == 1 && i == 0 {
							if ec, isC := unparen(as.Rhs[0]).(*ast.CallExpr); isC && calleeOf(info, ec) == evalExpr.Obj && len(ec.Args) == 1 {
								if bx, fld := fieldOf(info, ec.Args[0]); fld != nil && fld.Name() == "Function" && objOf(info, bx) == node {
									good = true
								}
							}
						}
					}
				}
				return true
			})
			ok = nd == 1 && good
		}
		// arguments handed over unevaluated: node.Arguments
		argOK := false
		if len(c.Args) == 2 {
			if bx, fld := fieldOf(info, c.Args[1]); fld != nil && fld.Name() == "Arguments" && objOf(info, bx) == node {
				argOK = true
			}
		}
		if ok && argOK {
			r.Ok(rule, callEval.Name(), con, w.Pos(c.Pos()), "callee = assertion of the freshly evaluated node.Function; arguments = node.Arguments")
		} else {
			r.Bad(rule, callEval.Name(), con, w.Pos(c.Pos()),
				"the function called must be the value the call's function expression evaluates to NOW (a comma-ok assertion of evalExpression(node.Function)); a remembered or otherwise obtained function breaks first-class use (parameters holding functions, re-bound names)")
		}
	}
	if n == 0 {
		r.Bad(rule, callEval.Name(), "no user-function dispatch", w.Pos(callEval.Decl.Pos()), "functions defined in the template are never called")
	}
	// the evaluator must not remember functions per call site: no map keyed by AST nodes among its fields
	if ct := w.compilerType(); ct != nil {
		st := ct.Underlying().(*types.Struct)
		for i := 0; i < st.NumFields(); i++ {
			if m, ok := st.Field(i).Type().Underlying().(*types.Map); ok && declaredIn(m.Key(), astPath) {
				r.Bad(rule, "plush."+ct.Obj().Name(), "field "+st.Field(i).Name()+" keyed by AST nodes", w.Pos(st.Field(i).Pos()), "the evaluator memoises per syntax node: a call site would keep calling what it saw first")
			}
		}
	}
	// the literal
	linfo := litEval.Pkg.TypesInfo
	lnode := litEval.Obj.Type().(*types.Signature).Params().At(0)
	okLit := false
	fromNode := func(e ast.Expr, field string) bool {
		if bx, fld := fieldOf(linfo, e); fld != nil && fld.Name() == field && objOf(linfo, bx) == lnode {
			return true
		}
		// a local assigned once from node.<field>
		if o := objOf(linfo, e); o != nil {
			good, nd := false, 0
			inspectBody(litEval.Decl.Body, true, func(m ast.Node) bool {
				if as, ok := m.(*ast.AssignStmt); ok {
					for i, l := range as.Lhs {
						if objOf(linfo, l) == o && i < len(as.Rhs) {
							nd++
							if bx, fld := fieldOf(linfo, as.Rhs[i]); fld != nil && fld.Name() == field && objOf(linfo, bx) == lnode {
								good = true
							}
						}
					}
				}
				return true
			})
			return good && nd == 1
		}
		return false
	}
	inspectBody(litEval.Decl.Body, true, func(n ast.Node) bool {
		cl, ok := n.(*ast.CompositeLit)
		if !ok {
			return true
		}
		p, b := false, false
		for _, e := range cl.Elts {
			if kv, ok := e.(*ast.KeyValueExpr); ok {
				if k, _ := kv.Key.(*ast.Ident); k != nil {
					switch k.Name {
					case "Parameters":
						p = fromNode(kv.Value, "Parameters")
					case "Block":
						b = fromNode(kv.Value, "Block")
					}
				}
			}
		}
		if p && b {
			okLit = true
		}
		return true
	})
	if okLit {
		r.Ok(rule, litEval.Name(), "function value captures node.Parameters and node.Block", w.Pos(litEval.Decl.Pos()), "by reference, unmodified")
	} else {
		r.Bad(rule, litEval.Name(), "function value", w.Pos(litEval.Decl.Pos()), "a function literal must evaluate to a value holding exactly the literal's parameters and block")
	}
}
