package main

import (
	"go/ast"
	"go/token"
	"go/types"
	"strings"
)

func init() {
	register("C16", checkC16, "values computed by function bodies; recursion depth")
}

func checkC16(r *Run) {
	r.Rule("R1", "phase order: every argument is evaluated in the caller's scope before the function's scope is installed and before any parameter is bound (no evaluation after or in the same loop as a binding)", 1)
	r.Rule("R2", "pairing: parameter i is bound to the value of argument i (same index object), and indexing the argument list is dominated by an arity test that returns an error", 1)
	r.Rule("R3", "the first exit object ends the block: the block evaluator returns in the iteration that produced it", 1)
	r.Rule("R4", "exit objects do not escape the call: the value of a user-function call is the returned value, not the return wrapper", 1)
	r.Rule("R5", "a return inside a loop body leaves the loop and is propagated as a return", 1)
	r.Rule("R6", "first-class functions: the callee is obtained by evaluating the call's function expression on every call, recognised by a comma-ok assertion before the reflect path; the literal captures Parameters and Block unmodified", 1)
	r.Rule("R7", "return always produces an exit object: the return evaluator wraps every value (also nil) when the statement is a return", 1)
	userFunctionCallRuleSSA(r)
	coreBlockRules(r, "", "R3")
	exitEscapesRule(r, "R4")
	loopReturnRuleSSA(r, "R5")
	firstClassRule(r, "R6")
	coreReturnRule(r, "R7")
}

func userFunctionCallRule(r *Run) {
	w := r.W
	f := w.userFunctionEval()
	evalExpr := w.evalMethod("Expression")
	if f == nil || evalExpr == nil {
		r.Lost("R1", "user-function call evaluator")
		return
	}
	info := f.Pkg.TypesInfo
	ctxF := w.compilerField("ctx")
	sig := f.Obj.Type().(*types.Signature)
	var argsP, fnP *types.Var
	for i := 0; i < sig.Params().Len(); i++ {
		p := sig.Params().At(i)
		if sl, ok := p.Type().(*types.Slice); ok && namedIs(sl.Elem(), astPath, "Expression") {
			argsP = p
		} else {
			fnP = p
		}
	}
	if argsP == nil || fnP == nil {
		r.Lost("R1", "parameters of the user-function call evaluator")
		return
	}
	// events
	var evals []*ast.CallExpr
	var binds []*ast.CallExpr
	var install token.Pos
	for _, c := range callsIn(f.Decl.Body, true) {
		cal := calleeOf(info, c)
		if cal == evalExpr.Obj {
			evals = append(evals, c)
		}
		if cal != nil && cal.Name() == "Set" {
			if sel, ok := unparen(c.Fun).(*ast.SelectorExpr); ok {
				if _, fld := fieldOf(info, sel.X); fld == ctxF {
					binds = append(binds, c)
				}
			}
		}
	}
	for _, s := range w.ctxStoresOf(f) {
		if s.deferred == nil && s.lit == nil {
			install = s.as.Pos()
		}
	}
	enclosingLoop := func(n ast.Node) ast.Node {
		for p := w.Parent(n); p != nil; p = w.Parent(p) {
			switch p.(type) {
			case *ast.ForStmt, *ast.RangeStmt:
				return p
			case *ast.FuncDecl:
				return nil
			}
		}
		return nil
	}
	for _, e := range evals {
		con := "argument evaluation " + short(w.Fset, e)
		bad := ""
		if install.IsValid() && e.Pos() > install {
			bad = "it happens after the function's own scope was installed (the argument is evaluated in the callee's scope)"
		}
		for _, b := range binds {
			if e.Pos() > b.Pos() {
				bad = "it happens after a parameter was bound"
			}
			if l := enclosingLoop(e); l != nil && l == enclosingLoop(b) {
				bad = "it shares a loop with the parameter binding: argument i+1 is evaluated after parameter i is bound and sees it instead of the caller's variable of the same name"
			}
		}
		if bad == "" {
			r.Ok("R1", f.Name(), con, w.Pos(e.Pos()), "before the scope is installed and before every binding")
		} else {
			r.Bad("R1", f.Name(), con, w.Pos(e.Pos()), "arguments must be evaluated in the caller's scope: "+bad)
		}
	}
	if len(evals) == 0 {
		r.Bad("R1", f.Name(), "no argument evaluation", w.Pos(f.Decl.Pos()), "arguments are never evaluated")
	}
	// R2: pairing through the same index
	// eval: args[I] with I the key of a range over fn.Parameters; value stored in vals[I]
	okEval := false
	var valsObj types.Object
	for _, e := range evals {
		ix, ok := unparen(e.Args[0]).(*ast.IndexExpr)
		if !ok || objOf(info, ix.X) != argsP {
			continue
		}
		iv := objOf(info, ix.Index)
		rs, _ := enclosingLoop(e).(*ast.RangeStmt)
		if rs == nil || objOf(info, rs.Key) != iv || !isParamsOf(info, rs.X, fnP) {
			continue
		}
		// result variable stored at vals[iv]
		inspectBody(rs.Body, true, func(n ast.Node) bool {
			as, ok := n.(*ast.AssignStmt)
			if !ok || len(as.Lhs) != 1 {
				return true
			}
			if lx, ok := unparen(as.Lhs[0]).(*ast.IndexExpr); ok && objOf(info, lx.Index) == iv {
				valsObj = objOf(info, lx.X)
				okEval = true
			}
			return true
		})
	}
	okBind := false
	for _, b := range binds {
		rs, _ := enclosingLoop(b).(*ast.RangeStmt)
		if rs == nil || !isParamsOf(info, rs.X, fnP) || len(b.Args) != 2 {
			continue
		}
		// name: <rangeValue>.Value or fn.Parameters[key].Value
		nameOK := false
		if bx, fld := fieldOf(info, b.Args[0]); fld != nil && fld.Name() == "Value" {
			if rs.Value != nil && objOf(info, bx) == objOf(info, rs.Value) {
				nameOK = true
			}
			if ix, ok := unparen(bx).(*ast.IndexExpr); ok && isParamsOf(info, ix.X, fnP) && objOf(info, ix.Index) == objOf(info, rs.Key) {
				nameOK = true
			}
		}
		valOK := false
		if vx, ok := unparen(b.Args[1]).(*ast.IndexExpr); ok && valsObj != nil && objOf(info, vx.X) == valsObj && objOf(info, vx.Index) == objOf(info, rs.Key) && rs.Key != nil {
			valOK = true
		}
		if nameOK && valOK {
			okBind = true
		}
	}
	if okEval && okBind {
		r.Ok("R2", f.Name(), "parameter i <- value of argument i", w.Pos(f.Decl.Pos()), "both loops range over the parameter list and use the range index for arguments, values and parameters")
	} else {
		r.Bad("R2", f.Name(), "parameter/argument pairing", w.Pos(f.Decl.Pos()), "parameter i must be bound to the value of argument i: the argument list, the value list and the parameter list must be indexed by the same range index")
	}
	// arity guard before any args[...] indexing
	var firstIdx token.Pos
	inspectBody(f.Decl.Body, true, func(n ast.Node) bool {
		if ix, ok := n.(*ast.IndexExpr); ok && objOf(info, ix.X) == argsP {
			if !firstIdx.IsValid() || ix.Pos() < firstIdx {
				firstIdx = ix.Pos()
			}
		}
		return true
	})
	okGuard := false
	for _, st := range f.Decl.Body.List {
		ifs, ok := st.(*ast.IfStmt)
		if !ok || (firstIdx.IsValid() && ifs.Pos() > firstIdx) {
			continue
		}
		be, ok := unparen(ifs.Cond).(*ast.BinaryExpr)
		if !ok {
			continue
		}
		lenOf := func(e ast.Expr) string {
			c, ok := unparen(e).(*ast.CallExpr)
			if !ok || builtinName(info, c) != "len" {
				return ""
			}
			if objOf(info, c.Args[0]) == argsP {
				return "args"
			}
			if isParamsOf(info, c.Args[0], fnP) {
				return "params"
			}
			return ""
		}
		l, rr := lenOf(be.X), lenOf(be.Y)
		short := (l == "args" && rr == "params" && (be.Op == token.LSS || be.Op == token.NEQ)) || (l == "params" && rr == "args" && (be.Op == token.GTR || be.Op == token.NEQ))
		if short && len(ifs.Body.List) > 0 && isReturnNilErr(info, ifs.Body.List[len(ifs.Body.List)-1]) {
			okGuard = true
		}
	}
	if okGuard {
		r.Ok("R2", f.Name(), "arity guard before args[i]", w.Pos(f.Decl.Pos()), "if len(args) < len(Parameters) { return nil, error }")
	} else {
		r.Bad("R2", f.Name(), "args[i] without arity guard", w.Pos(f.Decl.Pos()), "a call with fewer arguments than parameters indexes past the argument list (panic) instead of reporting an error")
	}
}

func isParamsOf(info *types.Info, e ast.Expr, fnP *types.Var) bool {
	bx, fld := fieldOf(info, e)
	return fld != nil && fld.Name() == "Parameters" && objOf(info, bx) == fnP
}

func exitEndsBlockRule(r *Run, rule string) {
	w := r.W
	f := w.evalMethod("BlockStatement")
	if f == nil {
		r.Lost(rule, "block evaluator")
		return
	}
	info := f.Pkg.TypesInfo
	var loop *ast.RangeStmt
	for _, st := range f.Decl.Body.List {
		if rs, ok := st.(*ast.RangeStmt); ok {
			loop = rs
		}
	}
	if loop == nil {
		r.Lost(rule, "statement loop of the block evaluator")
		return
	}
	// `val, exit := i.(exitIface)`; if !exit {...} else {...; return X, nil}
	okAll := false
	inspectBody(loop.Body, true, func(n ast.Node) bool {
		ifs, ok := n.(*ast.IfStmt)
		if !ok || ifs.Else == nil {
			return true
		}
		exitBranch := ifs.Else
		cond := unparen(ifs.Cond)
		if u, isNot := cond.(*ast.UnaryExpr); isNot && u.Op == token.NOT {
			cond = u.X
		} else {
			exitBranch = ifs.Body
		}
		o := objOf(info, cond)
		if o == nil {
			return true
		}
		// o is the ok of a comma-ok assertion to an interface declared in package plush
		isExitOK := false
		inspectBody(loop.Body, true, func(m ast.Node) bool {
			if as, ok := m.(*ast.AssignStmt); ok && len(as.Lhs) == 2 && len(as.Rhs) == 1 && objOf(info, as.Lhs[1]) == o {
				if ta, ok := unparen(as.Rhs[0]).(*ast.TypeAssertExpr); ok && ta.Type != nil {
					if _, isIface := info.Types[ta.Type].Type.Underlying().(*types.Interface); isIface {
						isExitOK = true
					}
				}
			}
			return true
		})
		if !isExitOK {
			return true
		}
		if blk, ok := exitBranch.(*ast.BlockStmt); ok && len(blk.List) > 0 {
			if ret, ok := blk.List[len(blk.List)-1].(*ast.ReturnStmt); ok && len(ret.Results) == 2 && isNilIdent(info, ret.Results[1]) {
				okAll = true
			}
		}
		return true
	})
	if okAll {
		r.Ok(rule, f.Name(), "exit object returns from the statement loop", w.Pos(loop.Pos()), "the branch taken for an exit object ends in return")
	} else {
		r.Bad(rule, f.Name(), "exit object does not end the block", w.Pos(loop.Pos()), "after a statement yields a return/break/continue object the block evaluator must return in that iteration; everything after the first return reached must be skipped")
	}
}

func exitEscapesRule(r *Run, rule string) {
	w := r.W
	f := w.userFunctionEval()
	blockEval := w.evalMethod("BlockStatement")
	if f == nil || blockEval == nil {
		r.Lost(rule, "user-function call evaluator / block evaluator")
		return
	}
	info := f.Pkg.TypesInfo
	for _, ret := range returnsIn(f.Decl.Body) {
		if len(ret.Results) == 1 {
			if c, ok := unparen(ret.Results[0]).(*ast.CallExpr); ok && calleeOf(info, c) == blockEval.Obj {
				r.Bad(rule, f.Name(), "returns the block result unopened", w.Pos(ret.Pos()),
					"the body's result is a return wrapper (returnObject); handing it back unopened makes 'f(1) == 1' compare a wrapper with an int and 'if (f(false))' test a non-nil struct")
				return
			}
		}
	}
	// accepted: the block result is assigned, inspected with an assertion / type switch on the return wrapper, and opened
	opened := false
	inspectBody(f.Decl.Body, true, func(n ast.Node) bool {
		switch x := n.(type) {
		case *ast.TypeAssertExpr:
			if x.Type != nil && strings.HasSuffix(typeStr(info.Types[x.Type].Type), "returnObject") {
				opened = true
			}
		case *ast.CaseClause:
			for _, e := range x.List {
				if tv, ok := info.Types[e]; ok && tv.IsType() && strings.HasSuffix(typeStr(tv.Type), "returnObject") {
					opened = true
				}
			}
		}
		return true
	})
	if opened {
		r.Ok(rule, f.Name(), "return wrapper opened at the call boundary", w.Pos(f.Decl.Pos()), "assertion / type switch on the return wrapper")
	} else {
		r.Bad(rule, f.Name(), "return wrapper not opened", w.Pos(f.Decl.Pos()), "the call evaluator must open the return wrapper where the call returns")
	}
}

func loopReturnRule(r *Run, rule string) {
	w := r.W
	f := w.evalMethod("ForExpression")
	if f == nil {
		r.Lost(rule, "for evaluator")
		return
	}
	info := f.Pkg.TypesInfo
	inspectBody(f.Decl.Body, true, func(n ast.Node) bool {
		ts, ok := n.(*ast.TypeSwitchStmt)
		if !ok {
			return true
		}
		// the switches on the block result: they have a breakObject arm
		hasBreak, hasReturn := false, false
		for _, c := range ts.Body.List {
			for _, e := range c.(*ast.CaseClause).List {
				tn := typeStr(info.Types[e].Type)
				if strings.HasSuffix(tn, "breakObject") {
					hasBreak = true
				}
				if strings.HasSuffix(tn, "returnObject") {
					hasReturn = true
				}
			}
		}
		if !hasBreak {
			return true
		}
		// which loop
		kind := "loop"
		for p := w.Parent(ts); p != nil; p = w.Parent(p) {
			if l, ok := p.(*ast.ForStmt); ok {
				switch {
				case l.Init == nil && l.Post == nil:
					kind = "iterator loop"
				case strings.Contains(short(w.Fset, l.Cond), "len("):
					kind = "map loop"
				default:
					kind = "slice loop"
				}
				break
			}
		}
		if hasReturn {
			r.Ok(rule, f.Name(), kind+": return object propagated", w.Pos(ts.Pos()), "arm for the return wrapper")
		} else {
			r.Bad(rule, f.Name(), kind+": return object treated as output", w.Pos(ts.Pos()),
				"a return reached inside the loop body is appended to the loop's output like ordinary text and the loop goes on; 'fn(){ for ... { return x } return 9 }' yields 9")
		}
		return true
	})
}

func firstClassRule(r *Run, rule string) {
	w := r.W
	callEval := w.evalMethod("CallExpression")
	uf := w.userFunctionEval()
	evalExpr := w.evalMethod("Expression")
	litEval := w.evalMethod("FunctionLiteral")
	if callEval == nil || uf == nil || evalExpr == nil || litEval == nil {
		r.Lost(rule, "call evaluator / function-literal evaluator")
		return
	}
	info := callEval.Pkg.TypesInfo
	node := callEval.Obj.Type().(*types.Signature).Params().At(0)
	// every call of the user-function evaluator: first argument is the ok-result of `X.(*userFunction)`
	// with X the variable assigned (once) from evalExpression(node.Function)
	n := 0
	for _, c := range callsIn(callEval.Decl.Body, true) {
		if calleeOf(info, c) != uf.Obj {
			continue
		}
		n++
		con := "user-function dispatch " + short(w.Fset, c)
		fo := objOf(info, c.Args[0])
		var asserted ast.Expr
		inspectBody(callEval.Decl.Body, true, func(m ast.Node) bool {
			if as, ok := m.(*ast.AssignStmt); ok && len(as.Lhs) == 2 && len(as.Rhs) == 1 && objOf(info, as.Lhs[0]) == fo {
				if ta, ok := unparen(as.Rhs[0]).(*ast.TypeAssertExpr); ok {
					asserted = ta.X
				}
			}
			return true
		})
		ok := false
		if ao := objOf(info, asserted); ao != nil {
			nd, good := 0, false
			inspectBody(callEval.Decl.Body, true, func(m ast.Node) bool {
				if as, isAs := m.(*ast.AssignStmt); isAs {
					for i, l := range as.Lhs {
						if objOf(info, l) != ao {
							continue
						}
						nd++
						if len(as.Rhs) == 1 && i == 0 {
							if ec, isC := unparen(as.Rhs[0]).(*ast.CallExpr); isC && calleeOf(info, ec) == evalExpr.Obj && len(ec.Args) == 1 {
								if bx, fld := fieldOf(info, ec.Args[0]); fld != nil && fld.Name() == "Function" && objOf(info, bx) == node {
									good = true
								}
							}
						}
					}
				}
				return true
			})
			ok = nd == 1 && good
		}
		// arguments handed over unevaluated: node.Arguments
		argOK := false
		if len(c.Args) == 2 {
			if bx, fld := fieldOf(info, c.Args[1]); fld != nil && fld.Name() == "Arguments" && objOf(info, bx) == node {
				argOK = true
			}
		}
		if ok && argOK {
			r.Ok(rule, callEval.Name(), con, w.Pos(c.Pos()), "callee = assertion of the freshly evaluated node.Function; arguments = node.Arguments")
		} else {
			r.Bad(rule, callEval.Name(), con, w.Pos(c.Pos()),
				"the function called must be the value the call's function expression evaluates to NOW (a comma-ok assertion of evalExpression(node.Function)); a remembered or otherwise obtained function breaks first-class use (parameters holding functions, re-bound names)")
		}
	}
	if n == 0 {
		r.Bad(rule, callEval.Name(), "no user-function dispatch", w.Pos(callEval.Decl.Pos()), "functions defined in the template are never called")
	}
	// the evaluator must not remember functions per call site: no map keyed by AST nodes among its fields
	if ct := w.compilerType(); ct != nil {
		st := ct.Underlying().(*types.Struct)
		for i := 0; i < st.NumFields(); i++ {
			if m, ok := st.Field(i).Type().Underlying().(*types.Map); ok && declaredIn(m.Key(), astPath) {
				r.Bad(rule, "plush."+ct.Obj().Name(), "field "+st.Field(i).Name()+" keyed by AST nodes", w.Pos(st.Field(i).Pos()), "the evaluator memoises per syntax node: a call site would keep calling what it saw first")
			}
		}
	}
	// the literal
	linfo := litEval.Pkg.TypesInfo
	lnode := litEval.Obj.Type().(*types.Signature).Params().At(0)
	okLit := false
	fromNode := func(e ast.Expr, field string) bool {
		if bx, fld := fieldOf(linfo, e); fld != nil && fld.Name() == field && objOf(linfo, bx) == lnode {
			return true
		}
		// a local assigned once from node.<field>
		if o := objOf(linfo, e); o != nil {
			good, nd := false, 0
			inspectBody(litEval.Decl.Body, true, func(m ast.Node) bool {
				if as, ok := m.(*ast.AssignStmt); ok {
					for i, l := range as.Lhs {
						if objOf(linfo, l) == o && i < len(as.Rhs) {
							nd++
							if bx, fld := fieldOf(linfo, as.Rhs[i]); fld != nil && fld.Name() == field && objOf(linfo, bx) == lnode {
								good = true
							}
						}
					}
				}
				return true
			})
			return good && nd == 1
		}
		return false
	}
	inspectBody(litEval.Decl.Body, true, func(n ast.Node) bool {
		cl, ok := n.(*ast.CompositeLit)
		if !ok {
			return true
		}
		p, b := false, false
		for _, e := range cl.Elts {
			if kv, ok := e.(*ast.KeyValueExpr); ok {
				if k, _ := kv.Key.(*ast.Ident); k != nil {
					switch k.Name {
					case "Parameters":
						p = fromNode(kv.Value, "Parameters")
					case "Block":
						b = fromNode(kv.Value, "Block")
					}
				}
			}
		}
		if p && b {
			okLit = true
		}
		return true
	})
	if okLit {
		r.Ok(rule, litEval.Name(), "function value captures node.Parameters and node.Block", w.Pos(litEval.Decl.Pos()), "by reference, unmodified")
	} else {
		r.Bad(rule, litEval.Name(), "function value", w.Pos(litEval.Decl.Pos()), "a function literal must evaluate to a value holding exactly the literal's parameters and block")
	}
}

func returnWrapRule(r *Run, rule string) {
	w := r.W
	f := w.evalMethod("ReturnStatement")
	evalExpr := w.evalMethod("Expression")
	if f == nil || evalExpr == nil {
		r.Lost(rule, "return evaluator")
		return
	}
	info := f.Pkg.TypesInfo
	node := f.Obj.Type().(*types.Signature).Params().At(0)
	// statements: res, err := eval(node.ReturnValue); if err != nil {return nil, err}; if node.Type == RETURN { wrap }; return res, nil
	evalIdx, wrapIdx := -1, -1
	for i, st := range f.Decl.Body.List {
		switch x := st.(type) {
		case *ast.AssignStmt:
			if len(x.Rhs) == 1 {
				if c, ok := x.Rhs[0].(*ast.CallExpr); ok && calleeOf(info, c) == evalExpr.Obj {
					evalIdx = i
				}
			}
		case *ast.IfStmt:
			if be, ok := unparen(x.Cond).(*ast.BinaryExpr); ok && be.Op == token.EQL {
				if bx, fld := fieldOf(info, be.X); fld != nil && fld.Name() == "Type" && objOf(info, bx) == node {
					if s, ok := constString(info, be.Y); ok && s == "RETURN" {
						wrapIdx = i
					}
				}
			}
		}
	}
	if evalIdx < 0 || wrapIdx < 0 || wrapIdx < evalIdx {
		r.Bad(rule, f.Name(), "wrap of the returned value", w.Pos(f.Decl.Pos()), "a return statement must wrap its value into the return object")
		return
	}
	ok := true
	for _, st := range f.Decl.Body.List[evalIdx+1 : wrapIdx] {
		ifs, isIf := st.(*ast.IfStmt)
		if !isIf || !isErrNotNil(info, ifs.Cond) || len(conjuncts(ifs.Cond)) != 1 || len(disjuncts(ifs.Cond)) != 1 {
			ok = false
			r.Bad(rule, f.Name(), "early exit before the wrap "+short(w.Fset, st), w.Pos(st.Pos()),
				"between evaluating the value and wrapping it only 'if err != nil { return nil, err }' may intervene; any other early exit lets some return value (for example nil) fall through unwrapped, so the function body keeps running after the return")
		}
	}
	if ok {
		r.Ok(rule, f.Name(), "every value of a return statement is wrapped", w.Pos(f.Decl.Body.List[wrapIdx].Pos()), "only the error check precedes the wrap")
	}
}
