package main

import (
	"crypto/sha1"
	"encoding/json"
	"fmt"
	"os"
	"path/filepath"
	"sort"
	"strings"
)

// Finding is one reported violation of a rule. Its identity (Key) is
// property|rule|function|construct -- no line numbers, so unrelated edits do
// not change it, and a second violation of the same rule in the same function
// with a different construct is a different finding.
type Finding struct {
	Prop      string   `json:"property"`
	Rule      string   `json:"rule"`
	Func      string   `json:"function"`
	Construct string   `json:"construct"`
	Pos       string   `json:"pos"`
	Msg       string   `json:"message"`
	Detail    []string `json:"detail,omitempty"`
}

func (f Finding) Key() string {
	return f.Prop + "|" + f.Rule + "|" + f.Func + "|" + f.Construct
}

// Obligation is one thing a rule had to establish.
type Obligation struct {
	Rule       string `json:"rule"`
	Func       string `json:"function"`
	Construct  string `json:"construct"`
	Pos        string `json:"pos"`
	Discharged bool   `json:"discharged"`
	How        string `json:"how,omitempty"`
}

type RuleInfo struct {
	ID        string `json:"id"`
	Desc      string `json:"description"`
	Instances int    `json:"instances"`
	Floor     int    `json:"floor"`
}

// Run collects what one property check did.
type Run struct {
	W     *World
	Prop  string
	Tier  string
	rules map[string]*RuleInfo
	order []string
	finds []Finding
	obls  []Obligation
	funcs map[string]bool
	notes []string
	assum []string
	seen  map[string]bool
}

func NewRun(w *World, prop, tier string) *Run {
	return &Run{W: w, Prop: prop, Tier: tier, rules: map[string]*RuleInfo{}, funcs: map[string]bool{}, seen: map[string]bool{}}
}

// Rule declares a rule with the minimum number of instances it must match
// (anti-vacuity floor, confirmed by hand on the tree this was written for).
func (r *Run) Rule(id, desc string, floor int) {
	if _, ok := r.rules[id]; !ok {
		r.rules[id] = &RuleInfo{ID: id, Desc: desc, Floor: floor}
		r.order = append(r.order, id)
	}
}

func (r *Run) rule(id string) *RuleInfo {
	ri, ok := r.rules[id]
	if !ok {
		panic("rule not declared: " + id)
	}
	return ri
}

func (r *Run) Analysed(fn string) { r.funcs[fn] = true }
func (r *Run) Note(format string, a ...interface{}) {
	r.notes = append(r.notes, fmt.Sprintf(format, a...))
}
func (r *Run) Assume(s string) { r.assum = append(r.assum, s) }

// Ok records a discharged obligation (one rule instance that holds).
func (r *Run) Ok(rule, fn, construct, pos, how string) {
	r.rule(rule).Instances++
	r.funcs[fn] = true
	r.obls = append(r.obls, Obligation{Rule: rule, Func: fn, Construct: construct, Pos: pos, Discharged: true, How: how})
}

// Bad records an undischarged obligation = a violation.
func (r *Run) Bad(rule, fn, construct, pos, msg string, detail ...string) {
	r.rule(rule).Instances++
	r.funcs[fn] = true
	r.obls = append(r.obls, Obligation{Rule: rule, Func: fn, Construct: construct, Pos: pos, Discharged: false, How: msg})
	f := Finding{Prop: r.Prop, Rule: rule, Func: fn, Construct: construct, Pos: pos, Msg: msg, Detail: detail}
	if r.seen[f.Key()] {
		return
	}
	r.seen[f.Key()] = true
	r.finds = append(r.finds, f)
}

// Lost reports that a rule could not find a construct it is anchored on. The
// property is then undecided, which fails the check (fail closed).
func (r *Run) Lost(rule, what string) {
	f := Finding{Prop: r.Prop, Rule: rule, Func: "-", Construct: "anchor: " + what, Pos: "-",
		Msg: "rule lost its anchor (" + what + "): the property cannot be decided on this tree"}
	if r.seen[f.Key()] {
		return
	}
	r.seen[f.Key()] = true
	r.finds = append(r.finds, f)
}

// finish applies the anti-vacuity floors.
func (r *Run) finish() {
	for _, id := range r.order {
		ri := r.rules[id]
		if ri.Instances < ri.Floor {
			r.Lost(id, fmt.Sprintf("matched %d instance(s), floor is %d", ri.Instances, ri.Floor))
		}
	}
	sort.SliceStable(r.finds, func(i, j int) bool { return r.finds[i].Key() < r.finds[j].Key() })
}

// ---- known findings -------------------------------------------------------

type KnownFinding struct {
	Property  string `json:"property"`
	Rule      string `json:"rule"`
	Function  string `json:"function"`
	Construct string `json:"construct"`
	Witness   string `json:"witness"`
	Reason    string `json:"reason"`
}

type KnownFile struct {
	Comment  string         `json:"comment"`
	Findings []KnownFinding `json:"findings"`
	Fixed    []string       `json:"fixed"`
}

func verifDir() string {
	if d := os.Getenv("VERIF_DIR"); d != "" {
		return d
	}
	return "/verif"
}

func loadKnown() (*KnownFile, error) {
	b, err := os.ReadFile(filepath.Join(verifDir(), "known_findings.json"))
	if err != nil {
		if os.IsNotExist(err) {
			return &KnownFile{}, nil
		}
		return nil, err
	}
	k := &KnownFile{}
	if err := json.Unmarshal(b, k); err != nil {
		return nil, fmt.Errorf("known_findings.json: %v", err)
	}
	return k, nil
}

func (k KnownFinding) Key() string {
	return k.Property + "|" + k.Rule + "|" + k.Function + "|" + k.Construct
}

// ---- output -----------------------------------------------------------------

type Result struct {
	Violations []Finding
	Known      []Finding
	Stale      []KnownFinding
}

func (r *Run) classify(k *KnownFile) Result {
	known := map[string]KnownFinding{}
	for _, kf := range k.Findings {
		if kf.Property == r.Prop {
			known[kf.Key()] = kf
		}
	}
	var res Result
	used := map[string]bool{}
	for _, f := range r.finds {
		if _, ok := known[f.Key()]; ok {
			res.Known = append(res.Known, f)
			used[f.Key()] = true
		} else {
			res.Violations = append(res.Violations, f)
		}
	}
	for key, kf := range known {
		if !used[key] {
			res.Stale = append(res.Stale, kf)
		}
	}
	sort.Slice(res.Stale, func(i, j int) bool { return res.Stale[i].Key() < res.Stale[j].Key() })
	return res
}

func writeReplay(f Finding, w *World) string {
	h := sha1.Sum([]byte(f.Key()))
	dir := filepath.Join(verifDir(), "replay")
	os.MkdirAll(dir, 0o755)
	p := filepath.Join(dir, fmt.Sprintf("%s-%s-%x.json", f.Prop, sanitize(f.Rule), h[:5]))
	b, _ := json.MarshalIndent(map[string]interface{}{
		"finding": f,
		"key":     f.Key(),
		"config":  w.Config,
		"repo":    w.Dir,
		"how_to_replay": fmt.Sprintf("cd %s && bin/plushcheck -prop %s -tier quick   # re-analyses %s and reports this construct again while it is present",
			verifDir(), f.Prop, w.Dir),
	}, "", " ")
	os.WriteFile(p, b, 0o644)
	return p
}

func sanitize(s string) string {
	return strings.Map(func(r rune) rune {
		if r >= 'a' && r <= 'z' || r >= 'A' && r <= 'Z' || r >= '0' && r <= '9' || r == '.' {
			return r
		}
		return '_'
	}, s)
}

// ---- evidence -----------------------------------------------------------------

type Evidence struct {
	PropertyID  string                 `json:"property_id"`
	Tier        string                 `json:"tier"`
	Seed        int                    `json:"seed"`
	Level       string                 `json:"level"`
	Coverage    map[string]interface{} `json:"coverage"`
	Assumptions []string               `json:"assumptions"`
	WallS       float64                `json:"wall_s"`
	Violations  int                    `json:"violations"`
}

func (r *Run) evidence(res Result, extra map[string]interface{}, wall float64, seed int) Evidence {
	var rules []RuleInfo
	var expl []string
	inst := map[string]int{}
	for _, id := range r.order {
		ri := r.rules[id]
		rules = append(rules, *ri)
		expl = append(expl, ri.ID+": "+ri.Desc)
		inst[ri.ID] = ri.Instances
	}
	dis := 0
	for _, o := range r.obls {
		if o.Discharged {
			dis++
		}
	}
	var funcs []string
	for f := range r.funcs {
		funcs = append(funcs, f)
	}
	sort.Strings(funcs)
	// samples: up to 3 obligations per rule, discharged ones first in source order
	perRule := map[string]int{}
	var samples []Obligation
	for _, o := range r.obls {
		if perRule[o.Rule] < 8 {
			perRule[o.Rule]++
			samples = append(samples, o)
		}
	}
	for _, o := range r.obls {
		if !o.Discharged && len(samples) < 80 {
			samples = append(samples, o)
		}
	}
	cov := map[string]interface{}{
		"explanation": "Static analysis of the type-checked source of " + r.W.Dir + " (go/packages, go/types, go/cfg, go/ssa); nothing is executed. Rules applied: " +
			strings.Join(expl, " || "),
		"obligations":          len(r.obls),
		"discharged":           dis,
		"rules":                rules,
		"instances":            inst,
		"functions_analysed":   funcs,
		"functions_analysed_n": len(funcs),
		"packages":             len(r.W.All),
		"build_config":         r.W.Config,
		"samples":              samples,
		"known_findings":       res.Known,
		"unlisted_violations":  res.Violations,
		"stale_known_findings": res.Stale,
		"notes":                r.notes,
		"checker_cmd":          "bin/plushcheck -prop " + r.Prop + " -tier " + r.Tier,
		"trusted_base":         []string{"go/types type checker", "golang.org/x/tools v0.29.0 (go/packages, go/cfg, go/ssa)", "the rule tables in /verif/checker"},
		"exhaustive":           false,
		"what_is_not_decided":  notDecided[r.Prop],
	}
	for k, v := range extra {
		cov[k] = v
	}
	return Evidence{PropertyID: r.Prop, Tier: r.Tier, Seed: seed, Level: "other", Coverage: cov,
		Assumptions: append([]string{
			"application-supplied helpers and data types are outside the analysed world",
			"the Go standard library (html/template, encoding/json, reflect, regexp) behaves as documented",
		}, r.assum...),
		WallS: wall, Violations: len(res.Violations)}
}

func writeEvidence(e Evidence) error {
	dir := filepath.Join(verifDir(), "evidence")
	os.MkdirAll(dir, 0o755)
	b, err := json.MarshalIndent(e, "", " ")
	if err != nil {
		return err
	}
	return os.WriteFile(filepath.Join(dir, e.PropertyID+".json"), b, 0o644)
}
