package main

import (
	"fmt"
	"os"
)

func init() {
	if os.Getenv("PLUSH_DEBUG_LEX") != "" {
		probeHook = func(w *World) {
			w.SSA()
			lm := w.lexSSA()
			b := os.Getenv("PLUSH_DEBUG_LEX")[0]
			for _, tp := range lm.tokenPaths(lm.inside, b, true) {
				fmt.Println(tp.describe(), "typeOK", tp.typeOK, tp.tokType, "litOK", tp.literalOK, tp.literal, tp.end, "peek", tp.peek)
				for i, ev := range tp.p.events {
					fmt.Println("    ev", i, ev, "@", tp.p.evDecided[i])
				}
				for _, d := range tp.p.decisions {
					fmt.Println("    dec", d.cond, d.truth)
				}
				if tp.p.ret != nil {
					fmt.Println("    ret", tp.p.resolve(tp.p.results[0]))
				}
			}
		}
	}
}
