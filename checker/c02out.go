package main

// c02out.go (C02.R10): the rendered text reaches the caller as the evaluator produced it. "The rendered output is
// exactly the concatenation ..." is about what Render returns, not about what the evaluator's builder held: every
// function of the root package that hands the text on (Template.Exec, Render, RenderR, HelperContext.Render, the
// Buffalo renderer) returns, as its string result, the very string a call further down the pipeline returned - or
// a constant on its failure exits. A call in between (strings.ToValidUTF8, a trim, a normalisation) rewrites the
// output after it was rendered.

import (
	"go/types"
	"sort"

	"golang.org/x/tools/go/ssa"
)

func outputPipelineRule(r *Run, rule string) {
	w := r.W
	w.SSA()
	m := w.coreModel()
	if m == nil || m.top == nil {
		r.Lost(rule, "top-level evaluator")
		return
	}
	var fns []*ssa.Function
	for _, f := range w.Funcs("") {
		if fn := w.SSAFunc(f); fn != nil {
			fns = append(fns, fn)
			fns = append(fns, allAnon(fn)...)
		}
	}
	strFirst := func(fn *ssa.Function) bool {
		res := fn.Signature.Results()
		return res.Len() >= 1 && isBasicKind(res.At(0).Type(), types.String) && !isNamed(res.At(0).Type())
	}
	member := map[*ssa.Function]bool{m.top: true}
	// leaves of a returned string: through phis
	var leaves func(v ssa.Value, seen map[ssa.Value]bool, out *[]ssa.Value)
	leaves = func(v ssa.Value, seen map[ssa.Value]bool, out *[]ssa.Value) {
		if seen[v] {
			return
		}
		seen[v] = true
		if phi, ok := v.(*ssa.Phi); ok {
			for _, e := range phi.Edges {
				leaves(e, seen, out)
			}
			return
		}
		*out = append(*out, v)
	}
	memberCallResult := func(v ssa.Value) bool {
		var call *ssa.Call
		switch x := v.(type) {
		case *ssa.Extract:
			if x.Index != 0 {
				return false
			}
			call, _ = x.Tuple.(*ssa.Call)
		case *ssa.Call:
			call = x
		}
		if call == nil {
			return false
		}
		g := call.Call.StaticCallee()
		return g != nil && member[g]
	}
	// dependsOnMember: v is computed from the string result of a member call
	var dependsOnMember func(v ssa.Value, seen map[ssa.Value]bool, d int) bool
	dependsOnMember = func(v ssa.Value, seen map[ssa.Value]bool, d int) bool {
		if v == nil || seen[v] || d > 8 {
			return false
		}
		seen[v] = true
		if memberCallResult(v) {
			return true
		}
		ins, ok := v.(ssa.Instruction)
		if !ok {
			return false
		}
		if _, isCall := v.(*ssa.Call); isCall {
			// the arguments of a call that yields a string: strings.ToValidUTF8(s, ...)
			for _, a := range v.(*ssa.Call).Call.Args {
				if isBasicKind(a.Type(), types.String) && dependsOnMember(a, seen, d+1) {
					return true
				}
			}
			return false
		}
		var buf [8]*ssa.Value
		for _, op := range ins.Operands(buf[:0]) {
			if op != nil && *op != nil && dependsOnMember(*op, seen, d+1) {
				return true
			}
		}
		return false
	}
	returnsOf := func(fn *ssa.Function) []*ssa.Return {
		var out []*ssa.Return
		for _, b := range fn.Blocks {
			if ret, ok := b.Instrs[len(b.Instrs)-1].(*ssa.Return); ok && len(ret.Results) >= 1 {
				out = append(out, ret)
			}
		}
		return out
	}
	for changed := true; changed; {
		changed = false
		for _, fn := range fns {
			if member[fn] || !strFirst(fn) {
				continue
			}
			for _, ret := range returnsOf(fn) {
				if dependsOnMember(ret.Results[0], map[ssa.Value]bool{}, 0) {
					member[fn] = true
					changed = true
					break
				}
			}
		}
	}
	var names []string
	nBad := 0
	// the partial helper's own steps are not part of this pipeline: an unexported function all of whose callers yield
	// template.HTML (the partial's text on its way into the layout: the content-type-conditional JS escape there is
	// C17.R4's subject)
	htmlFirst := func(fn *ssa.Function) bool {
		res := fn.Signature.Results()
		return res.Len() >= 1 && namedIs(res.At(0).Type(), htmlTplPath, "HTML")
	}
	exempt := map[*ssa.Function]bool{}
	for changed := true; changed; {
		changed = false
		for fn := range member {
			if exempt[fn] || fn == m.top || fnObject(fn) == nil || fnObject(fn).Exported() {
				continue
			}
			sites := w.staticCallSites(fn)
			all := len(sites) > 0
			for _, s := range sites {
				caller := s.Parent()
				for caller != nil && caller.Parent() != nil {
					caller = caller.Parent()
				}
				if caller == nil || !(htmlFirst(caller) || exempt[caller]) {
					all = false
				}
			}
			if all {
				exempt[fn] = true
				changed = true
			}
		}
	}
	for fn := range member {
		if fn == m.top || exempt[fn] {
			continue
		}
		names = append(names, ssaName(fn))
		for _, ret := range returnsOf(fn) {
			var ls []ssa.Value
			leaves(ret.Results[0], map[ssa.Value]bool{}, &ls)
			for _, l := range ls {
				if _, isConst := l.(*ssa.Const); isConst || memberCallResult(l) {
					continue
				}
				nBad++
				r.Bad(rule, ssaName(fn), "rendered text rewritten on its way out", w.Pos(ret.Pos()),
					"the string handed back is not the one the evaluator produced but something computed from it ("+valueText(l)+"): the output is no longer exactly the literal text and the values of the template")
			}
		}
	}
	sort.Strings(names)
	if len(names) == 0 {
		r.Lost(rule, "functions that hand the rendered text on")
		return
	}
	if nBad == 0 {
		r.Ok(rule, "plush", "the rendered text is handed on as it is", "-", "every function between the evaluator and the caller returns the very string it received, or a constant on failure")
		r.Note("R10: the output pipeline is %v", names)
	}
}
