package main

// extra_rules.go: rules added after the second round of seeded changes.

import (
	"fmt"
	"go/ast"
	"go/token"
	"go/types"
	"strings"

	"golang.org/x/tools/go/ssa"
)

// messageOrderRule (C15.R7): the parser's messages reach the caller in the
// order they were recorded. A lexicographic sort of "line N: ..." strings is
// not invariant under shifting (line 10 sorts before line 9); the functions
// that turn the error list into the returned error must not sort it.
func messageOrderRule(r *Run, rule string) {
	w := r.W
	pm := w.parserModel()
	if pm.errorsF == nil {
		r.Lost(rule, "error list of the parser")
		return
	}
	et := pm.errorsF.Type()
	var fns []*FuncInfo
	for _, f := range w.Funcs("parser") {
		sig := f.Obj.Type().(*types.Signature)
		isErrMethod := sig.Recv() != nil && types.Identical(sig.Recv().Type(), et) && f.Decl.Name.Name == "Error"
		if isErrMethod || f.Rel == "parser" {
			fns = append(fns, f)
		}
	}
	n := 0
	for _, f := range fns {
		sig := f.Obj.Type().(*types.Signature)
		isErrMethod := sig.Recv() != nil && types.Identical(sig.Recv().Type(), et) && f.Decl.Name.Name == "Error"
		info := f.Pkg.TypesInfo
		sorted := false
		for _, c := range callsIn(f.Decl.Body, true) {
			cal := calleeOf(info, c)
			if cal == nil || cal.Pkg() == nil {
				continue
			}
			pkg := cal.Pkg().Path()
			if !(pkg == "sort" || pkg == "slices") || !(strings.HasPrefix(cal.Name(), "Sort") || cal.Name() == "Strings" || cal.Name() == "Stable" || cal.Name() == "Slice" || cal.Name() == "SliceStable") {
				continue
			}
			// applied to a list of strings?
			onStrings := false
			for _, a := range c.Args {
				t := info.Types[a].Type
				if t == nil {
					continue
				}
				if sl, ok := t.Underlying().(*types.Slice); ok && isBasicKind(sl.Elem(), types.String) {
					onStrings = true
				}
				if namedIs(t, "sort", "StringSlice") {
					onStrings = true
				}
			}
			if onStrings {
				sorted = true
				r.Bad(rule, f.Name(), "sort of messages "+short(w.Fset, c), w.Pos(c.Pos()),
					"the recorded syntax errors are sorted as strings: 'line 10:' sorts before 'line 9:', so shifting a template across such a boundary reorders the error instead of only adding k to its line numbers")
			}
		}
		if isErrMethod {
			n++
			if !sorted {
				r.Ok(rule, f.Name(), "messages keep their recorded order", w.Pos(f.Decl.Pos()), "no sort of the message list")
			}
		}
	}
	if n == 0 {
		r.Lost(rule, "Error method of the parser's error list")
	}
}

// evaluatorTablesRule (C18.R6): a table kept by the evaluator and keyed by a
// token (type, literal and line -- a token has no column), by a line number or
// by source text identifies nodes too coarsely: two nodes on one line collide,
// and whether a space or a newline separates two statements changes the result.
func evaluatorTablesRule(r *Run, rule string) {
	w := r.W
	ct := w.compilerType()
	if ct == nil {
		r.Lost(rule, "evaluator type")
		return
	}
	st := ct.Underlying().(*types.Struct)
	n := 0
	for i := 0; i < st.NumFields(); i++ {
		f := st.Field(i)
		n++
		mt, ok := f.Type().Underlying().(*types.Map)
		if !ok {
			r.Ok(rule, "plush.compiler", "field "+f.Name(), w.Pos(f.Pos()), "not a table")
			continue
		}
		k := mt.Key()
		coarse := ""
		switch {
		case namedIs(k, tokPath, "Token"):
			coarse = "a token (type, literal, line: no column)"
		case isBasicKind(k, types.Int):
			coarse = "an int (a line number?)"
		case isBasicKind(k, types.String):
			coarse = "a string (source text or a literal)"
		}
		if _, isPtr := k.(*types.Pointer); isPtr {
			coarse = ""
		}
		if coarse != "" {
			r.Bad(rule, "plush.compiler", "table "+f.Name()+" keyed by "+types.TypeString(k, func(p *types.Package) string { return p.Name() }), w.Pos(f.Pos()),
				"the evaluator keeps a table keyed by "+coarse+": distinct nodes that agree on the key (two function literals on one line) share an entry, so a space vs. a newline between statements changes the output")
		} else {
			r.Ok(rule, "plush.compiler", "field "+f.Name(), w.Pos(f.Pos()), "keyed by node identity")
		}
	}
	if n == 0 {
		r.Lost(rule, "fields of the evaluator")
	}
}

// receiverChainRule (C11.R7): where the parser synthesises a chain of
// identifiers for a dotted path inside a loop, each new link's Callee is the
// link built before it (the loop-carried variable), not a value that stays the
// same for every iteration -- otherwise a path with three or more segments
// skips its intermediate fields.
func receiverChainRule(r *Run, rule string) {
	w := r.W
	n := 0
	for _, f := range w.Funcs("parser") {
		fn := w.SSAFunc(f)
		if fn == nil {
			continue
		}
		fns := append([]*ssa.Function{fn}, allAnon(fn)...)
		for _, g := range fns {
			for _, b := range g.Blocks {
				for _, ins := range b.Instrs {
					st, ok := ins.(*ssa.Store)
					if !ok {
						continue
					}
					fa, ok := st.Addr.(*ssa.FieldAddr)
					if !ok {
						continue
					}
					pt, ok := fa.X.Type().Underlying().(*types.Pointer)
					if !ok || !namedIs(pt.Elem(), astPath, "Identifier") {
						continue
					}
					str := pt.Elem().Underlying().(*types.Struct)
					if str.Field(fa.Field).Name() != "Callee" {
						continue
					}
					// only literals built inside a loop, and only values of identifier type
					if !inLoop(b) {
						continue
					}
					if _, isAlloc := fa.X.(*ssa.Alloc); !isAlloc {
						continue
					}
					n++
					con := "chain link built in a loop: Callee = " + st.Val.Name()
					if loopCarried(st.Val, b) {
						r.Ok(rule, f.Name(), con, w.Pos(st.Pos()), "the callee is the link built in the previous iteration")
					} else {
						r.Bad(rule, f.Name(), con, w.Pos(st.Pos()),
							"every identifier built in this loop gets the same callee: the links do not form a chain, so a receiver path with three or more segments skips its intermediate fields")
					}
				}
			}
		}
	}
	if n == 0 {
		r.Note("R7: no identifier chain is built in a loop")
	}
}

func inLoop(b *ssa.BasicBlock) bool {
	for _, s := range b.Succs {
		if blockReaches(s, b, false) {
			return true
		}
	}
	return false
}

// loopCarried: v depends on a phi of a loop that contains block b (through
// assertions, conversions, loads of a field that is stored in the loop).
func loopCarried(v ssa.Value, b *ssa.BasicBlock) bool {
	seen := map[ssa.Value]bool{}
	var walk func(v ssa.Value, d int) bool
	walk = func(v ssa.Value, d int) bool {
		if v == nil || seen[v] || d > 12 {
			return false
		}
		seen[v] = true
		switch x := v.(type) {
		case *ssa.Phi:
			// a phi whose block can be reached again from b and that has an edge defined in the loop
			if blockReaches(b, x.Block(), false) && blockReaches(x.Block(), b, false) {
				return true
			}
			for _, e := range x.Edges {
				if walk(e, d+1) {
					return true
				}
			}
		case *ssa.TypeAssert:
			return walk(x.X, d+1)
		case *ssa.ChangeInterface:
			return walk(x.X, d+1)
		case *ssa.MakeInterface:
			return walk(x.X, d+1)
		case *ssa.Extract:
			return walk(x.Tuple, d+1)
		case *ssa.UnOp:
			if x.Op == token.MUL {
				// a load: loop-carried when the same field/cell is stored inside the loop
				switch a := x.X.(type) {
				case *ssa.FieldAddr:
					for _, ref := range *a.X.Referrers() {
						if fa2, ok := ref.(*ssa.FieldAddr); ok && fa2.Field == a.Field {
							for _, r2 := range *fa2.Referrers() {
								if st, ok := r2.(*ssa.Store); ok && st.Addr == ssa.Value(fa2) && blockReaches(b, st.Block(), false) && blockReaches(st.Block(), b, false) {
									return true
								}
							}
						}
					}
				case *ssa.Alloc:
					for _, ref := range *a.Referrers() {
						if st, ok := ref.(*ssa.Store); ok && st.Addr == ssa.Value(a) && blockReaches(b, st.Block(), false) && blockReaches(st.Block(), b, false) {
							return true
						}
					}
				}
			}
		}
		return false
	}
	return walk(v, 0)
}

// literalBytesRule (C02.R5): on the literal-text path of the lexer no byte of
// the input is converted to a string on its own: string(b) of a byte re-encodes
// it as a rune, so every byte >= 0x80 of multi-byte text is corrupted.
func literalBytesRule(r *Run, rule string) {
	w := r.W
	lm := w.lexSSA()
	if !lm.ok() {
		r.Lost(rule, lm.why())
		return
	}
	var scan *ssa.Function
	for _, b := range []byte{'a', ' '} {
		for _, p := range lm.tokenPaths(lm.outer, b, false) {
			if p.litScanFn != nil {
				scan = p.litScanFn
			}
		}
	}
	if scan == nil {
		r.Lost(rule, "literal-text scanner")
		return
	}
	// the scanner and the package-local functions it calls
	seen := map[*ssa.Function]bool{scan: true}
	work := []*ssa.Function{scan}
	for len(work) > 0 {
		f := work[0]
		work = work[1:]
		for _, b := range f.Blocks {
			for _, ins := range b.Instrs {
				if c, ok := ins.(*ssa.Call); ok {
					if cal := c.Call.StaticCallee(); cal != nil && cal.Pkg == scan.Pkg && !seen[cal] && len(cal.Blocks) > 0 && cal != lm.readChar && cal != lm.peekChar && cal != lm.inside && cal != lm.outer {
						seen[cal] = true
						work = append(work, cal)
					}
				}
			}
		}
	}
	bad := false
	for f := range seen {
		for _, b := range f.Blocks {
			for _, ins := range b.Instrs {
				cv, ok := ins.(*ssa.Convert)
				if !ok || !isBasicKind(cv.Type(), types.String) {
					continue
				}
				xb, ok := cv.X.Type().Underlying().(*types.Basic)
				if !ok || xb.Info()&types.IsInteger == 0 {
					continue
				}
				if _, isConst := cv.X.(*ssa.Const); isConst {
					continue
				}
				bad = true
				r.Bad(rule, ssaName(f), "byte converted to string "+cv.Name(), w.Pos(cv.Pos()),
					"on the literal-text path a single byte is converted with string(b): that encodes it as the rune U+00xx, so every byte >= 0x80 (all multi-byte text) comes out as two different bytes")
			}
		}
	}
	if !bad {
		r.Ok(rule, ssaName(scan), "no byte-to-string conversion on the literal-text path", w.Pos(scan.Pos()), fmt.Sprintf("%d function(s) reachable from the scanner", len(seen)))
	}
}

var _ = ast.Inspect
