package main

// c16scope.go (C16.R9): the scope of a call. "Runs the body in a fresh scope" with "may call themselves" and
// "can be stored, passed and called through parameters" needs the fresh scope to EXTEND the scope the call is made
// from (a function stored by let in a body, a function received as a parameter, live in the caller's chain, not
// in the template's outermost scope), and "binds each parameter to the corresponding argument value" needs the
// bindings to be what the body finds: nothing but parameters is written into the fresh scope before the body
// runs (a copy of the caller's variables written after the bindings replaces a parameter of the same name).
// Decided on the paths of the user-function evaluator:
//
//	parent    the scope installed is <current scope>.New(): the receiver of New is the evaluator's scope field as
//	          it stood on entry (possibly through an assertion to the concrete type)
//	back      at every return after the install the scope field holds what it held on entry again
//	bindings  every Set on the installed scope that precedes the evaluation of the body has an identifier of the
//	          function's parameter list as its key

import (
	"fmt"
	"go/token"
	"go/types"

	"golang.org/x/tools/go/ssa"
)

func callScopeRuleSSA(r *Run, rule string) {
	w := r.W
	uf := w.userFunctionEval()
	ctxF := w.compilerField("ctx")
	ct := w.compilerType()
	if uf == nil || ctxF == nil || ct == nil {
		r.Lost(rule, "user-function call evaluator")
		return
	}
	w.SSA()
	fn := w.SSAFunc(uf)
	ctxIdx := fieldIndex(ct.Underlying().(*types.Struct), ctxF)
	m := w.coreModel()
	isCtxAddr := func(v ssa.Value) bool {
		fa, ok := v.(*ssa.FieldAddr)
		return ok && fa.Field == ctxIdx && w.isCompilerValue(fa.X)
	}
	var blockEval *ssa.Function
	if be := w.evalMethod("BlockStatement"); be != nil {
		blockEval = w.SSAFunc(be)
	}
	if fn == nil || blockEval == nil {
		r.Lost(rule, "user-function call evaluator / block evaluator (SSA)")
		return
	}
	pw := &pathWalker{inline: m.inline, unroll1: true, maxPaths: 50000, maxDepth: 5, runDefers: true}
	pw.walk(fn)
	if pw.overflow || len(pw.paths) == 0 {
		r.Lost(rule, "paths of the user-function call evaluator")
		return
	}
	isScope := func(t types.Type) bool {
		if pt, ok := t.(*types.Pointer); ok {
			t = pt.Elem()
		}
		return namedIs(t, hctxPath, "Context") || namedIs(t, modPath, "Context")
	}
	// through assertions and interface conversions to the value underneath
	var strip func(p *pwPath, v ssa.Value, d int) ssa.Value
	strip = func(p *pwPath, v ssa.Value, d int) ssa.Value {
		v = p.resolve(v)
		if d > 6 {
			return v
		}
		switch x := v.(type) {
		case *ssa.Extract:
			if ta, ok := x.Tuple.(*ssa.TypeAssert); ok && x.Index == 0 {
				return strip(p, ta.X, d+1)
			}
		case *ssa.TypeAssert:
			return strip(p, x.X, d+1)
		case *ssa.MakeInterface:
			return strip(p, x.X, d+1)
		case *ssa.ChangeInterface:
			return strip(p, x.X, d+1)
		case *ssa.ChangeType:
			return strip(p, x.X, d+1)
		}
		return v
	}
	isParamName := func(p *pwPath, v ssa.Value) bool {
		// <identifier>.Value, the identifier an element of a []*ast.Identifier
		ld, ok := p.resolve(v).(*ssa.UnOp)
		if !ok || ld.Op != token.MUL {
			return false
		}
		fa, ok := ld.X.(*ssa.FieldAddr)
		if !ok {
			return false
		}
		pt, ok := fa.X.Type().Underlying().(*types.Pointer)
		if !ok || !namedIs(pt.Elem(), astPath, "Identifier") {
			return false
		}
		st, ok := pt.Elem().Underlying().(*types.Struct)
		return ok && fa.Field < st.NumFields() && st.Field(fa.Field).Name() == "Value"
	}
	nParent, nBind, nBody, nBack := 0, 0, 0, 0
	bad := map[string]token.Pos{}
	for _, p := range pw.paths {
		install, body := -1, -1
		var installed ssa.Value
		for i, ev := range p.events {
			if st, ok := ev.(*ssa.Store); ok && isCtxAddr(p.resolve(st.Addr)) && install < 0 {
				install, installed = i, p.resolve(st.Val)
			}
			if c, ok := ev.(*ssa.Call); ok && c.Call.StaticCallee() == blockEval && body < 0 {
				body = i
			}
		}
		// back in the caller's scope at every exit, whatever the body yielded: the caller's later arguments are
		// evaluated "in the caller's scope" only if the call that came before them has left its own
		if install >= 0 && p.end == "return" {
			last := install
			for i := install + 1; i < len(p.events); i++ {
				if st, ok := p.events[i].(*ssa.Store); ok && isCtxAddr(p.resolve(st.Addr)) {
					last = i
				}
			}
			back := false
			if last > install {
				if ld, isLoad := strip(p, p.events[last].(*ssa.Store).Val, 0).(*ssa.UnOp); isLoad && ld.Op == token.MUL && isCtxAddr(p.resolve(ld.X)) && p.loadAt[ld] <= install {
					back = true
				}
			}
			if back {
				nBack++
			} else {
				bad["on some exit of the call (an error in the body, say) the caller's scope is not put back: the caller goes on in the scope of the finished call, where its later arguments and lets see the parameters"] = origInstr(p.events[last]).Pos()
			}
		}
		if body < 0 {
			// an error path: the body never runs. A path that answers the call WITHOUT an error and without running
			// the body (a result remembered from an earlier call) skips what the body would have done and seen now
			if p.end == "return" && len(p.results) == 2 && isNilErrorResult(p.results[1]) {
				pos := fn.Pos()
				if p.ret != nil {
					pos = p.ret.Pos()
				}
				bad["a call is answered without an error and without running the body: the value comes from somewhere else than this activation (an earlier call with arguments that merely look alike, other variables in scope, other side effects)"] = pos
			}
			continue
		}
		nBody++
		if install < 0 || install > body {
			continue // C09.R5 reports this
		}
		// parent
		mk, isCall := strip(p, installed, 0).(*ssa.Call)
		if !isCall || mk.Call.Method == nil || mk.Call.Method.Name() != "New" && mk.Call.StaticCallee() == nil {
			bad["the scope installed for the call is not made by New() of a scope"] = origInstr(p.events[install]).Pos()
			continue
		}
		var recv ssa.Value
		switch {
		case mk.Call.IsInvoke() && mk.Call.Method.Name() == "New":
			recv = mk.Call.Value
		case mk.Call.StaticCallee() != nil && mk.Call.StaticCallee().Name() == "New" && len(mk.Call.Args) >= 1 && isScope(mk.Call.Args[0].Type()):
			recv = mk.Call.Args[0]
		default:
			bad["the scope installed for the call is not made by New() of a scope"] = origInstr(p.events[install]).Pos()
			continue
		}
		base := strip(p, recv, 0)
		ld, isLoad := base.(*ssa.UnOp)
		if isLoad && ld.Op == token.MUL && isCtxAddr(p.resolve(ld.X)) && p.loadAt[ld] <= install {
			nParent++
		} else {
			bad["the fresh scope of a call does not extend the scope the call is made from: what the caller's chain holds - a function stored by let in an enclosing body, a function received as a parameter, the calling activation of a recursive function - is not found from the body"] = origInstr(mk).Pos()
		}
		// bindings
		for i := install + 1; i < body; i++ {
			x, ok := p.events[i].(*ssa.Call)
			if !ok || len(x.Call.Args) < 2 {
				continue
			}
			var key ssa.Value
			switch {
			case x.Call.IsInvoke() && x.Call.Method.Name() == "Set" && isScope(x.Call.Value.Type()) && len(x.Call.Args) == 2:
				if p.resolve(x.Call.Value) != installed && strip(p, x.Call.Value, 0) != strip(p, installed, 0) {
					continue
				}
				key = x.Call.Args[0]
			case x.Call.StaticCallee() != nil && x.Call.StaticCallee().Name() == "Set" && len(x.Call.Args) == 3 && isScope(x.Call.Args[0].Type()):
				if strip(p, x.Call.Args[0], 0) != strip(p, installed, 0) {
					continue
				}
				key = x.Call.Args[1]
			default:
				continue
			}
			if isParamName(p, key) {
				nBind++
			} else {
				bad["something that is not a parameter is written into the scope of the call before the body runs: a name it shares with a parameter replaces (or is replaced by) the argument value"] = origInstr(x).Pos()
			}
		}
	}
	name := uf.Name()
	switch {
	case len(bad) > 0:
		for what, at := range bad {
			r.Bad(rule, name, "scope of a call", w.Pos(at), what)
		}
	case nBody == 0 || nParent == 0 || nBack == 0:
		r.Lost(rule, "a path of the user-function call evaluator that installs a scope and runs the body")
	default:
		r.Ok(rule, name, "scope of a call", w.Pos(uf.Decl.Pos()), fmt.Sprintf("%d path(s) reach the body: the scope installed is New() of the scope current on entry; %d Set(s) before the body, all of parameter names", nBody, nBind))
	}
}
