package main

import (
	"fmt"
	"go/ast"
	"go/constant"
	"go/token"
	"go/types"
	"golang.org/x/tools/go/ssa"
)

func init() {
	register("C10", checkC10, "equivalence with a reference model over operation histories (no history is explored); the rules are the structural core of such a model for this ~60-line type")
}

func checkC10(r *Run) {
	r.Rule("R1", "ownership: Context.data is written only by Set and initialised only by the constructors' literals; outer and the mutex only by the literals; the embedded context only by the literals and NewContextWithContext", 1)
	r.Rule("R2", "lookup order of Value: comma-ok lookup in the local map, hit decided by the ok flag (a stored nil still shadows), then outer when non-nil, then the embedded context", 1)
	r.Rule("R3", "Has is exactly Value(key) != nil", 1)
	r.Rule("R4", "user value wins: in both constructors every default helper is Set only when absent from the new context and (with an outer) from the whole outer chain, tested with Has; the data argument is stored, not copied or overridden", 1)
	r.Rule("R5", "children get a fresh map and the receiver as outer; Set writes only the receiver's map (C09.R2, C09.R3)", 1)
	ownershipRule(r, "R1")
	lookupOrderRuleSSA(r, "R2")
	hasRule(r, "R3")
	helperInjectionRuleSSA(r, "R4")
	freshChildRule(r, "R5")
	setLocalRule(r, "R5")
}

type ctxFields struct {
	typ                       *types.Named
	data, outer, mu, embedded *types.Var
}

func (w *World) contextFields() *ctxFields {
	ct := w.NamedType("", "Context")
	if ct == nil {
		return nil
	}
	cf := &ctxFields{typ: ct}
	st := ct.Underlying().(*types.Struct)
	for i := 0; i < st.NumFields(); i++ {
		f := st.Field(i)
		switch {
		case f.Embedded():
			cf.embedded = f
		case isMapStringIface(f.Type()):
			cf.data = f
		case namedIs(f.Type(), "sync", "Mutex") || namedIs(f.Type(), "sync", "RWMutex"):
			cf.mu = f
		case namedIs(f.Type(), modPath, "Context"):
			cf.outer = f
		}
	}
	if cf.data == nil || cf.outer == nil || cf.embedded == nil {
		return nil
	}
	return cf
}

// argSrc says where a constructor's data map / outer link comes from.
type argSrc struct {
	kind string // param | recv | freshmap | nil | other
	idx  int
}

func (a argSrc) String() string {
	if a.kind == "param" {
		return fmt.Sprintf("param#%d", a.idx)
	}
	return a.kind
}

// ctxBuild is the summary of a function that builds a Context: directly by a
// composite literal or by handing its arguments to another builder.
type ctxBuild struct {
	f           *FuncInfo
	origin      ast.Expr // the literal or the builder call
	data, outer argSrc
	newVar      types.Object // local the new context is bound to (nil when returned directly)
}

func (w *World) classifyCtxArg(f *FuncInfo, e ast.Expr) argSrc {
	info := f.Pkg.TypesInfo
	if e == nil {
		return argSrc{kind: "nil"}
	}
	e = unparen(e)
	if isNilIdent(info, e) {
		return argSrc{kind: "nil"}
	}
	switch a := e.(type) {
	case *ast.CompositeLit:
		if len(a.Elts) == 0 && isMapStringIface(info.Types[a].Type) {
			return argSrc{kind: "freshmap"}
		}
	case *ast.CallExpr:
		if builtinName(info, a) == "make" && isMapStringIface(info.Types[a].Type) && len(a.Args) <= 2 {
			return argSrc{kind: "freshmap"}
		}
	}
	o := objOf(info, e)
	if o == nil {
		return argSrc{kind: "other"}
	}
	sig := f.Obj.Type().(*types.Signature)
	reassigned := false
	inspectBody(f.Decl.Body, false, func(n ast.Node) bool {
		if as, ok := n.(*ast.AssignStmt); ok {
			for _, l := range as.Lhs {
				if objOf(info, l) == o && as.Tok != token.DEFINE {
					reassigned = true
				}
			}
		}
		return true
	})
	if reassigned {
		return argSrc{kind: "other"}
	}
	if sig.Recv() != nil && o == sig.Recv() {
		return argSrc{kind: "recv"}
	}
	for i := 0; i < sig.Params().Len(); i++ {
		if o == sig.Params().At(i) {
			return argSrc{kind: "param", idx: i}
		}
	}
	return argSrc{kind: "other"}
}

func (w *World) ctxBuilder(f *FuncInfo, depth int) *ctxBuild {
	cf := w.contextFields()
	if cf == nil || f == nil || depth > 4 || f.Rel != "" {
		return nil
	}
	info := f.Pkg.TypesInfo
	var origins []ast.Expr
	var subs []*ctxBuild
	inspectBody(f.Decl.Body, true, func(n ast.Node) bool {
		switch x := n.(type) {
		case *ast.CompositeLit:
			if nt, ok := info.Types[x].Type.(*types.Named); ok && nt.Obj() == cf.typ.Obj() {
				origins = append(origins, x)
				subs = append(subs, nil)
			}
		case *ast.CallExpr:
			if g := w.FuncOf(calleeOf(info, x)); g != nil && g.Obj != f.Obj && g.Rel == "" {
				gs := g.Obj.Type().(*types.Signature)
				if gs.Results().Len() == 1 && (namedIs(gs.Results().At(0).Type(), modPath, "Context")) {
					if sub := w.ctxBuilder(g, depth+1); sub != nil {
						origins = append(origins, x)
						subs = append(subs, sub)
					}
				}
			}
		}
		return true
	})
	if len(origins) != 1 {
		return nil
	}
	b := &ctxBuild{f: f, origin: origins[0]}
	if lit, ok := origins[0].(*ast.CompositeLit); ok {
		var dv, ov ast.Expr
		for _, e := range lit.Elts {
			kv, ok := e.(*ast.KeyValueExpr)
			if !ok {
				return nil // positional literal: not read
			}
			k, _ := kv.Key.(*ast.Ident)
			if k == nil {
				continue
			}
			switch info.Uses[k] {
			case types.Object(cf.data):
				dv = kv.Value
			case types.Object(cf.outer):
				ov = kv.Value
			}
		}
		b.data, b.outer = w.classifyCtxArg(f, dv), w.classifyCtxArg(f, ov)
	} else {
		call := origins[0].(*ast.CallExpr)
		sub := subs[0]
		through := func(a argSrc) argSrc {
			switch a.kind {
			case "param":
				if a.idx < len(call.Args) {
					return w.classifyCtxArg(f, call.Args[a.idx])
				}
				return argSrc{kind: "other"}
			case "recv":
				if sel, ok := unparen(call.Fun).(*ast.SelectorExpr); ok {
					return w.classifyCtxArg(f, sel.X)
				}
				return argSrc{kind: "other"}
			}
			return a
		}
		b.data, b.outer = through(sub.data), through(sub.outer)
	}
	// the local the new context is bound to
	var node ast.Node = origins[0]
	if u, ok := w.Parent(node).(*ast.UnaryExpr); ok {
		node = u
	}
	if as, ok := w.Parent(node).(*ast.AssignStmt); ok && len(as.Lhs) == 1 && len(as.Rhs) == 1 {
		b.newVar = objOf(info, as.Lhs[0])
	}
	return b
}

func ownershipRule(r *Run, rule string) {
	w := r.W
	cf := w.contextFields()
	if cf == nil {
		r.Lost(rule, "fields of Context")
		return
	}
	n := 0
	for _, f := range w.AllFuncs() {
		info := f.Pkg.TypesInfo
		ast.Inspect(f.Decl.Body, func(nd ast.Node) bool {
			var targets []ast.Expr
			what := ""
			switch x := nd.(type) {
			case *ast.AssignStmt:
				targets, what = x.Lhs, "assignment"
			case *ast.IncDecStmt:
				targets, what = []ast.Expr{x.X}, "inc/dec"
			case *ast.CallExpr:
				if b := builtinName(info, x); (b == "delete" || b == "clear") && len(x.Args) > 0 {
					targets, what = x.Args[:1], b
				}
			}
			for _, t := range targets {
				e := unparen(t)
				elem := false
				if ix, ok := e.(*ast.IndexExpr); ok {
					e, elem = ix.X, true
				}
				_, fld := fieldOf(info, e)
				if fld == nil {
					continue
				}
				con := what + " " + short(w.Fset, t)
				switch fld {
				case cf.data:
					n++
					isSet := isMethodOf(f, cf.typ) && f.Decl.Name.Name == "Set"
					if isSet && elem && what == "assignment" {
						r.Ok(rule, f.Name(), con, w.Pos(t.Pos()), "Set is the only writer of the map")
					} else {
						r.Bad(rule, f.Name(), con, w.Pos(t.Pos()), "Context.data may be modified only by Context.Set (element assignment) and initialised by the constructors' literals")
					}
				case cf.outer, cf.mu:
					n++
					r.Bad(rule, f.Name(), con, w.Pos(t.Pos()), "the outer link and the mutex are fixed at construction")
				case cf.embedded:
					n++
					if f.Rel == "" && f.Decl.Name.Name == "NewContextWithContext" && f.Decl.Recv == nil {
						r.Ok(rule, f.Name(), con, w.Pos(t.Pos()), "constructor that wraps a context.Context")
					} else if declaredIn(info.Types[unparen(t).(*ast.SelectorExpr).X].Type, modPath) && namedIs(info.Types[unparen(t).(*ast.SelectorExpr).X].Type, modPath, "Context") {
						r.Bad(rule, f.Name(), con, w.Pos(t.Pos()), "the wrapped context.Context is fixed at construction")
					}
				}
			}
			return true
		})
	}
	// literals of Context only in the constructors
	for _, f := range w.AllFuncs() {
		info := f.Pkg.TypesInfo
		ast.Inspect(f.Decl.Body, func(nd ast.Node) bool {
			cl, ok := nd.(*ast.CompositeLit)
			if !ok {
				return true
			}
			nt, ok := info.Types[cl].Type.(*types.Named)
			if !ok || nt.Obj() != cf.typ.Obj() {
				return true
			}
			sig := f.Obj.Type().(*types.Signature)
			isCons := sig.Recv() == nil && sig.Results().Len() == 1 && namedIs(sig.Results().At(0).Type(), modPath, "Context")
			if isCons {
				r.Ok(rule, f.Name(), "Context literal", w.Pos(cl.Pos()), "constructor")
			} else {
				r.Bad(rule, f.Name(), "Context literal", w.Pos(cl.Pos()), "a Context is built outside its constructors")
			}
			return true
		})
	}
}

func hasRule(r *Run, rule string) {
	w := r.W
	cf := w.contextFields()
	if cf == nil {
		r.Lost(rule, "fields of Context")
		return
	}
	for _, f := range w.Funcs("") {
		if !isMethodOf(f, cf.typ) || f.Decl.Name.Name != "Has" {
			continue
		}
		info := f.Pkg.TypesInfo
		recv := f.Obj.Type().(*types.Signature).Recv()
		key := f.Obj.Type().(*types.Signature).Params().At(0)
		ok := false
		if len(f.Decl.Body.List) == 1 {
			if ret, isRet := f.Decl.Body.List[0].(*ast.ReturnStmt); isRet && len(ret.Results) == 1 {
				if be, isBe := unparen(ret.Results[0]).(*ast.BinaryExpr); isBe && be.Op == token.NEQ && isNilIdent(info, be.Y) {
					if c, isC := unparen(be.X).(*ast.CallExpr); isC && len(c.Args) == 1 && objOf(info, c.Args[0]) == key {
						if sel, isSel := unparen(c.Fun).(*ast.SelectorExpr); isSel && sel.Sel.Name == "Value" && objOf(info, sel.X) == recv {
							ok = true
						}
					}
				}
			}
		}
		if !ok {
			ok = hasRuleSSA(w, f)
		}
		if ok {
			r.Ok(rule, f.Name(), "return c.Value(key) != nil", w.Pos(f.Decl.Pos()), "Has derived from Value")
		} else {
			r.Bad(rule, f.Name(), "body of Has", w.Pos(f.Decl.Pos()), "Has must be exactly 'Value(key) != nil' so that it agrees with Value on every history (nil values count as absent, outer scopes are consulted)")
		}
		return
	}
	r.Lost(rule, "Context.Has")
}

// hasRuleSSA: on every path of Has the receiver's Value is called exactly once, with the key parameter, and the
// result is "that value is not nil" - as the comparison itself, or as a constant under a branch on it.
func hasRuleSSA(w *World, f *FuncInfo) bool {
	fn := w.SSAFunc(f)
	if fn == nil || len(fn.Params) != 2 {
		return false
	}
	recv, key := ssa.Value(fn.Params[0]), ssa.Value(fn.Params[1])
	paths, ok := walkPaths(fn, nil, func(caller, callee *ssa.Function) bool {
		return pkgOf(callee) == fn.Pkg && fnObject(callee) != nil && !fnObject(callee).Exported() && !funcHasLoop(callee)
	})
	if !ok || len(paths) == 0 {
		return false
	}
	for _, p := range paths {
		if p.end != "return" || len(p.results) != 1 {
			return false
		}
		var val *ssa.Call
		n := 0
		for _, ev := range p.events {
			c, isCall := ev.(*ssa.Call)
			if !isCall {
				continue
			}
			g := c.Call.StaticCallee()
			if g == nil || g.Name() != "Value" || len(c.Call.Args) != 2 {
				if g != nil && inModule(g) {
					return false // something else is consulted
				}
				continue
			}
			n++
			if p.resolve(c.Call.Args[0]) != recv || p.resolve(stripIface(p.resolve(c.Call.Args[1]))) != key {
				return false
			}
			val = c
		}
		if n != 1 {
			return false
		}
		isVal := func(v ssa.Value) bool { return p.resolve(v) == ssa.Value(val) }
		res := p.resolve(p.results[0])
		if x, op, isCmp := isNilCompare(p, res); isCmp && isVal(x) {
			if op != token.NEQ {
				return false
			}
			continue
		}
		c, isC := p.constOf(res)
		if !isC || c.Kind() != constant.Bool {
			return false
		}
		decided := false
		for _, d := range p.decisions {
			if x, op, isCmp := isNilCompare(p, d.cond); isCmp && isVal(x) {
				notNil := d.truth == (op == token.NEQ)
				if notNil != constant.BoolVal(c) {
					return false
				}
				decided = true
			}
		}
		if !decided {
			return false
		}
	}
	return true
}
