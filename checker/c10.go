package main

import (
	"go/ast"
	"go/token"
	"go/types"
)

func init() {
	register("C10", checkC10, "equivalence with a reference model over operation histories (no history is explored); the rules are the structural core of such a model for this ~60-line type")
}

func checkC10(r *Run) {
	r.Rule("R1", "ownership: Context.data is written only by Set and initialised only by the constructors' literals; outer and the mutex only by the literals; the embedded context only by the literals and NewContextWithContext", 2)
	r.Rule("R2", "lookup order of Value: comma-ok lookup in the local map, hit decided by the ok flag (a stored nil still shadows), then outer when non-nil, then the embedded context", 2)
	r.Rule("R3", "Has is exactly Value(key) != nil", 1)
	r.Rule("R4", "user value wins: in both constructors every default helper is Set only when absent from the new context and (with an outer) from the whole outer chain, tested with Has; the data argument is stored, not copied or overridden", 2)
	r.Rule("R5", "children get a fresh map and the receiver as outer; Set writes only the receiver's map (C09.R2, C09.R3)", 3)
	ownershipRule(r, "R1")
	lookupOrderRule(r, "R2")
	hasRule(r, "R3")
	helperInjectionRule(r, "R4")
	freshChildRule(r, "R5")
	setLocalRule(r, "R5")
}

type ctxFields struct {
	typ                       *types.Named
	data, outer, mu, embedded *types.Var
}

func (w *World) contextFields() *ctxFields {
	ct := w.NamedType("", "Context")
	if ct == nil {
		return nil
	}
	cf := &ctxFields{typ: ct}
	st := ct.Underlying().(*types.Struct)
	for i := 0; i < st.NumFields(); i++ {
		f := st.Field(i)
		switch {
		case f.Embedded():
			cf.embedded = f
		case isMapStringIface(f.Type()):
			cf.data = f
		case namedIs(f.Type(), "sync", "Mutex") || namedIs(f.Type(), "sync", "RWMutex"):
			cf.mu = f
		case namedIs(f.Type(), modPath, "Context"):
			cf.outer = f
		}
	}
	if cf.data == nil || cf.outer == nil || cf.embedded == nil {
		return nil
	}
	return cf
}

func ownershipRule(r *Run, rule string) {
	w := r.W
	cf := w.contextFields()
	if cf == nil {
		r.Lost(rule, "fields of Context")
		return
	}
	n := 0
	for _, f := range w.AllFuncs() {
		info := f.Pkg.TypesInfo
		ast.Inspect(f.Decl.Body, func(nd ast.Node) bool {
			var targets []ast.Expr
			what := ""
			switch x := nd.(type) {
			case *ast.AssignStmt:
				targets, what = x.Lhs, "assignment"
			case *ast.IncDecStmt:
				targets, what = []ast.Expr{x.X}, "inc/dec"
			case *ast.CallExpr:
				if b := builtinName(info, x); (b == "delete" || b == "clear") && len(x.Args) > 0 {
					targets, what = x.Args[:1], b
				}
			}
			for _, t := range targets {
				e := unparen(t)
				elem := false
				if ix, ok := e.(*ast.IndexExpr); ok {
					e, elem = ix.X, true
				}
				_, fld := fieldOf(info, e)
				if fld == nil {
					continue
				}
				con := what + " " + short(w.Fset, t)
				switch fld {
				case cf.data:
					n++
					isSet := isMethodOf(f, cf.typ) && f.Decl.Name.Name == "Set"
					if isSet && elem && what == "assignment" {
						r.Ok(rule, f.Name(), con, w.Pos(t.Pos()), "Set is the only writer of the map")
					} else {
						r.Bad(rule, f.Name(), con, w.Pos(t.Pos()), "Context.data may be modified only by Context.Set (element assignment) and initialised by the constructors' literals")
					}
				case cf.outer, cf.mu:
					n++
					r.Bad(rule, f.Name(), con, w.Pos(t.Pos()), "the outer link and the mutex are fixed at construction")
				case cf.embedded:
					n++
					if f.Rel == "" && f.Decl.Name.Name == "NewContextWithContext" && f.Decl.Recv == nil {
						r.Ok(rule, f.Name(), con, w.Pos(t.Pos()), "constructor that wraps a context.Context")
					} else if declaredIn(info.Types[unparen(t).(*ast.SelectorExpr).X].Type, modPath) && namedIs(info.Types[unparen(t).(*ast.SelectorExpr).X].Type, modPath, "Context") {
						r.Bad(rule, f.Name(), con, w.Pos(t.Pos()), "the wrapped context.Context is fixed at construction")
					}
				}
			}
			return true
		})
	}
	// literals of Context only in the constructors
	for _, f := range w.AllFuncs() {
		info := f.Pkg.TypesInfo
		ast.Inspect(f.Decl.Body, func(nd ast.Node) bool {
			cl, ok := nd.(*ast.CompositeLit)
			if !ok {
				return true
			}
			nt, ok := info.Types[cl].Type.(*types.Named)
			if !ok || nt.Obj() != cf.typ.Obj() {
				return true
			}
			sig := f.Obj.Type().(*types.Signature)
			isCons := sig.Recv() == nil && sig.Results().Len() == 1 && namedIs(sig.Results().At(0).Type(), modPath, "Context")
			if isCons {
				r.Ok(rule, f.Name(), "Context literal", w.Pos(cl.Pos()), "constructor")
			} else {
				r.Bad(rule, f.Name(), "Context literal", w.Pos(cl.Pos()), "a Context is built outside its constructors")
			}
			return true
		})
	}
}

func lookupOrderRule(r *Run, rule string) {
	w := r.W
	cf := w.contextFields()
	if cf == nil {
		r.Lost(rule, "fields of Context")
		return
	}
	var f *FuncInfo
	for _, g := range w.Funcs("") {
		if isMethodOf(g, cf.typ) && g.Decl.Name.Name == "Value" {
			f = g
		}
	}
	if f == nil {
		r.Lost(rule, "Context.Value")
		return
	}
	info := f.Pkg.TypesInfo
	recv := f.Obj.Type().(*types.Signature).Recv()
	// flatten the statements in source order and find the three steps
	var lookup *ast.AssignStmt
	var hitRet, outerRet, embRet *ast.ReturnStmt
	var okVar, valVar types.Object
	inspectBody(f.Decl.Body, false, func(n ast.Node) bool {
		switch x := n.(type) {
		case *ast.AssignStmt:
			if len(x.Rhs) == 1 {
				if ix, ok := unparen(x.Rhs[0]).(*ast.IndexExpr); ok {
					if b, fld := fieldOf(info, ix.X); fld == cf.data && objOf(info, b) == recv {
						if lookup != nil {
							r.Bad(rule, f.Name(), "second local lookup "+short(w.Fset, x), w.Pos(x.Pos()), "one local lookup expected")
						}
						lookup = x
						if len(x.Lhs) == 2 {
							valVar, okVar = objOf(info, x.Lhs[0]), objOf(info, x.Lhs[1])
						} else {
							valVar = objOf(info, x.Lhs[0])
						}
					}
				}
			}
		case *ast.ReturnStmt:
			if len(x.Results) != 1 {
				return true
			}
			e := unparen(x.Results[0])
			if valVar != nil && objOf(info, e) == valVar {
				hitRet = x
			}
			if c, ok := e.(*ast.CallExpr); ok {
				if sel, ok := unparen(c.Fun).(*ast.SelectorExpr); ok {
					if b, fld := fieldOf(info, sel.X); fld == cf.outer && objOf(info, b) == recv && sel.Sel.Name == "Value" {
						outerRet = x
					}
					if b, fld := fieldOf(info, sel.X); fld == cf.embedded && objOf(info, b) == recv && sel.Sel.Name == "Value" {
						embRet = x
					}
				}
			}
		}
		return true
	})
	if lookup == nil || hitRet == nil || outerRet == nil || embRet == nil {
		r.Bad(rule, f.Name(), "lookup steps", w.Pos(f.Decl.Pos()), "Value must look in the local map, then in outer, then in the embedded context; one of the three steps is missing")
		return
	}
	if okVar == nil {
		r.Bad(rule, f.Name(), "local lookup "+short(w.Fset, lookup), w.Pos(lookup.Pos()),
			"the local lookup must use the comma-ok form: a key that is present with a nil value must still shadow the outer scope")
	} else {
		// the hit return must be guarded by the ok flag alone
		guard := false
		if blk, ok := w.Parent(hitRet).(*ast.BlockStmt); ok {
			if ifs, ok := w.Parent(blk).(*ast.IfStmt); ok && ifs.Body == blk {
				if objOf(info, ifs.Cond) == okVar {
					guard = true
				}
				if ifs.Init != nil && ifs.Init != ast.Stmt(lookup) {
					guard = false
				}
			}
		}
		if guard {
			r.Ok(rule, f.Name(), "hit decided by the ok flag", w.Pos(hitRet.Pos()), "v, ok := data[k]; if ok { return v }")
		} else {
			r.Bad(rule, f.Name(), "hit test of the local lookup", w.Pos(hitRet.Pos()), "the local hit must be decided by the map's ok flag only (not by the value being non-nil or anything else)")
		}
	}
	if lookup.Pos() < hitRet.Pos() && hitRet.Pos() < outerRet.Pos() && outerRet.Pos() < embRet.Pos() {
		r.Ok(rule, f.Name(), "order local < outer < embedded", w.Pos(f.Decl.Pos()), "source order of the three exits")
	} else {
		r.Bad(rule, f.Name(), "order of lookups", w.Pos(f.Decl.Pos()), "the nearest scope must win: local map first, then outer, then the embedded context")
	}
	// the outer step is guarded by outer != nil and passes the same key
	okOuter := false
	if blk, ok := w.Parent(outerRet).(*ast.BlockStmt); ok {
		if ifs, ok := w.Parent(blk).(*ast.IfStmt); ok {
			if be, ok := unparen(ifs.Cond).(*ast.BinaryExpr); ok && be.Op == token.NEQ && isNilIdent(info, be.Y) {
				if _, fld := fieldOf(info, be.X); fld == cf.outer {
					okOuter = true
				}
			}
		}
	}
	if okOuter {
		r.Ok(rule, f.Name(), "outer consulted when non-nil", w.Pos(outerRet.Pos()), "if c.outer != nil { return c.outer.Value(k) }")
	} else {
		r.Bad(rule, f.Name(), "outer step guard", w.Pos(outerRet.Pos()), "the outer scope must be consulted exactly when it exists")
	}
}

func hasRule(r *Run, rule string) {
	w := r.W
	cf := w.contextFields()
	if cf == nil {
		r.Lost(rule, "fields of Context")
		return
	}
	for _, f := range w.Funcs("") {
		if !isMethodOf(f, cf.typ) || f.Decl.Name.Name != "Has" {
			continue
		}
		info := f.Pkg.TypesInfo
		recv := f.Obj.Type().(*types.Signature).Recv()
		key := f.Obj.Type().(*types.Signature).Params().At(0)
		ok := false
		if len(f.Decl.Body.List) == 1 {
			if ret, isRet := f.Decl.Body.List[0].(*ast.ReturnStmt); isRet && len(ret.Results) == 1 {
				if be, isBe := unparen(ret.Results[0]).(*ast.BinaryExpr); isBe && be.Op == token.NEQ && isNilIdent(info, be.Y) {
					if c, isC := unparen(be.X).(*ast.CallExpr); isC && len(c.Args) == 1 && objOf(info, c.Args[0]) == key {
						if sel, isSel := unparen(c.Fun).(*ast.SelectorExpr); isSel && sel.Sel.Name == "Value" && objOf(info, sel.X) == recv {
							ok = true
						}
					}
				}
			}
		}
		if ok {
			r.Ok(rule, f.Name(), "return c.Value(key) != nil", w.Pos(f.Decl.Pos()), "Has derived from Value")
		} else {
			r.Bad(rule, f.Name(), "body of Has", w.Pos(f.Decl.Pos()), "Has must be exactly 'Value(key) != nil' so that it agrees with Value on every history (nil values count as absent, outer scopes are consulted)")
		}
		return
	}
	r.Lost(rule, "Context.Has")
}

func helperInjectionRule(r *Run, rule string) {
	w := r.W
	cf := w.contextFields()
	if cf == nil {
		r.Lost(rule, "fields of Context")
		return
	}
	for _, f := range w.Funcs("") {
		sig := f.Obj.Type().(*types.Signature)
		if sig.Recv() != nil || sig.Results().Len() != 1 || !namedIs(sig.Results().At(0).Type(), modPath, "Context") {
			continue
		}
		info := f.Pkg.TypesInfo
		// only constructors that contain the literal
		var lit *ast.CompositeLit
		inspectBody(f.Decl.Body, false, func(n ast.Node) bool {
			if cl, ok := n.(*ast.CompositeLit); ok {
				if nt, ok := info.Types[cl].Type.(*types.Named); ok && nt.Obj() == cf.typ.Obj() {
					lit = cl
				}
			}
			return true
		})
		if lit == nil {
			continue
		}
		var newCtx types.Object
		inspectBody(f.Decl.Body, false, func(n ast.Node) bool {
			if as, ok := n.(*ast.AssignStmt); ok && len(as.Rhs) == 1 {
				e := unparen(as.Rhs[0])
				if u, ok := e.(*ast.UnaryExpr); ok {
					e = u.X
				}
				if e == ast.Expr(lit) {
					newCtx = objOf(info, as.Lhs[0])
				}
			}
			return true
		})
		var outerP *types.Var
		for i := 0; i < sig.Params().Len(); i++ {
			if namedIs(sig.Params().At(i).Type(), modPath, "Context") {
				outerP = sig.Params().At(i)
			}
		}
		// every Set in the constructor
		nSet := 0
		for _, c := range callsIn(f.Decl.Body, false) {
			cal := calleeOf(info, c)
			sel, isSel := unparen(c.Fun).(*ast.SelectorExpr)
			if cal == nil || !isSel || cal.Name() != "Set" {
				continue
			}
			nSet++
			con := "helper injection " + short(w.Fset, c)
			if objOf(info, sel.X) != newCtx || len(c.Args) != 2 {
				r.Bad(rule, f.Name(), con, w.Pos(c.Pos()), "the constructor sets on something other than the new context")
				continue
			}
			key := objOf(info, c.Args[0])
			// enclosing if: conjunction of !X.Has(key)
			var guards []string
			okShape := false
			if blk, ok := w.Parent(w.Parent(c)).(*ast.BlockStmt); ok {
				if ifs, ok := w.Parent(blk).(*ast.IfStmt); ok && ifs.Body == blk && ifs.Else == nil && len(blk.List) == 1 {
					okShape = true
					for _, cj := range conjuncts(ifs.Cond) {
						u, ok := unparen(cj).(*ast.UnaryExpr)
						if !ok || u.Op != token.NOT {
							okShape = false
							continue
						}
						hc, ok := unparen(u.X).(*ast.CallExpr)
						if !ok || len(hc.Args) != 1 || objOf(info, hc.Args[0]) != key {
							okShape = false
							continue
						}
						hs, ok := unparen(hc.Fun).(*ast.SelectorExpr)
						if !ok || hs.Sel.Name != "Has" {
							okShape = false
							continue
						}
						switch {
						case objOf(info, hs.X) == newCtx:
							guards = append(guards, "new")
						case outerP != nil && objOf(info, hs.X) == outerP:
							guards = append(guards, "outer")
						default:
							if b, fld := fieldOf(info, hs.X); fld == cf.outer && objOf(info, b) == newCtx {
								guards = append(guards, "outer")
							} else {
								okShape = false
							}
						}
					}
				}
			}
			needOuter := outerP != nil
			hasNew, hasOuter := containsStr(guards, "new"), containsStr(guards, "outer")
			if okShape && hasNew && (hasOuter || !needOuter) {
				r.Ok(rule, f.Name(), con, w.Pos(c.Pos()), "guarded by !Has(key) on the new context"+map[bool]string{true: " and on the outer chain", false: ""}[needOuter])
			} else {
				r.Bad(rule, f.Name(), con, w.Pos(c.Pos()),
					"a default helper may be set only under '!c.Has(k)' (and, with an outer context, '!outer.Has(k)', which walks the whole chain): otherwise a user value under a helper's name is shadowed")
			}
		}
		if nSet == 0 {
			r.Note("R4: constructor %s injects no helpers", f.Name())
		}
	}
}

func containsStr(xs []string, s string) bool {
	for _, x := range xs {
		if x == s {
			return true
		}
	}
	return false
}
