package main

import (
	"go/ast"
	"go/token"
	"go/types"
	"sort"

	"golang.org/x/tools/go/ssa"
)

// Anchors are found by type and role, not by name or position, so that
// renaming and moving declarations does not disturb a rule.

const (
	astPath    = modPath + "/ast"
	tokPath    = modPath + "/token"
	lexPkgPath = modPath + "/lexer"
	parsePath  = modPath + "/parser"
	hctxPath   = modPath + "/helpers/hctx"
)

// compilerType: the struct type of the root package that has a field of type
// hctx.Context and a field of type *ast.Program (the evaluator).
func (w *World) compilerType() *types.Named {
	w.memoMu.Lock()
	if w.memo == nil {
		w.memo = map[string]interface{}{}
	}
	k := "compilerType"
	if v, ok := w.memo[k]; ok {
		w.memoMu.Unlock()
		return v.(*types.Named)
	}
	w.memoMu.Unlock()
	v := w.compilerTypeUncached()
	w.memoMu.Lock()
	w.memo[k] = v
	w.memoMu.Unlock()
	return v
}

func (w *World) compilerTypeUncached() *types.Named {
	p := w.Pkgs[""]
	for _, name := range p.Types.Scope().Names() {
		tn, ok := p.Types.Scope().Lookup(name).(*types.TypeName)
		if !ok {
			continue
		}
		st, ok := tn.Type().Underlying().(*types.Struct)
		if !ok {
			continue
		}
		hasCtx, hasProg := false, false
		for i := 0; i < st.NumFields(); i++ {
			ft := st.Field(i).Type()
			if namedIs(ft, hctxPath, "Context") && !st.Field(i).Embedded() {
				hasCtx = true
			}
			if namedIs(ft, astPath, "Program") {
				hasProg = true
			}
		}
		if hasCtx && hasProg {
			n, _ := tn.Type().(*types.Named)
			return n
		}
	}
	return nil
}

// compilerField returns the evaluator's field of the given role:
// "ctx" (type hctx.Context), "curStmt" (type ast.Statement).
func (w *World) compilerField(role string) *types.Var {
	w.memoMu.Lock()
	if w.memo == nil {
		w.memo = map[string]interface{}{}
	}
	k := "compilerField/" + role
	if v, ok := w.memo[k]; ok {
		w.memoMu.Unlock()
		return v.(*types.Var)
	}
	w.memoMu.Unlock()
	v := w.compilerFieldUncached(role)
	w.memoMu.Lock()
	w.memo[k] = v
	w.memoMu.Unlock()
	return v
}

func (w *World) compilerFieldUncached(role string) *types.Var {
	ct := w.compilerType()
	if ct == nil {
		return nil
	}
	st := ct.Underlying().(*types.Struct)
	for i := 0; i < st.NumFields(); i++ {
		f := st.Field(i)
		switch role {
		case "ctx":
			if namedIs(f.Type(), hctxPath, "Context") {
				return f
			}
		case "curStmt":
			if namedIs(f.Type(), astPath, "Statement") {
				return f
			}
		case "program":
			if namedIs(f.Type(), astPath, "Program") {
				return f
			}
		}
	}
	return nil
}

func isMethodOf(f *FuncInfo, named *types.Named) bool {
	if f == nil || f.Obj == nil || named == nil {
		return false
	}
	sig := f.Obj.Type().(*types.Signature)
	if sig.Recv() == nil {
		return false
	}
	t := deref(sig.Recv().Type())
	n, ok := t.(*types.Named)
	return ok && n.Obj() == named.Obj()
}

// compilerMethods returns all methods of the evaluator type.
func (w *World) compilerMethods() []*FuncInfo {
	w.memoMu.Lock()
	if w.memo == nil {
		w.memo = map[string]interface{}{}
	}
	k := "compilerMethods"
	if v, ok := w.memo[k]; ok {
		w.memoMu.Unlock()
		return v.([]*FuncInfo)
	}
	w.memoMu.Unlock()
	v := w.compilerMethodsUncached()
	w.memoMu.Lock()
	w.memo[k] = v
	w.memoMu.Unlock()
	return v
}

func (w *World) compilerMethodsUncached() []*FuncInfo {
	ct := w.compilerType()
	var out []*FuncInfo
	for _, f := range w.Funcs("") {
		if isMethodOf(f, ct) {
			out = append(out, f)
		}
	}
	return out
}

// evalMethod: the evaluator method whose (only) node parameter has type
// *ast.<node> and that returns (interface{}, error). If several qualify
// (e.g. if + else-if share *ast.IfExpression) all are returned in source order.
func (w *World) evalMethods(node string) []*FuncInfo {
	w.memoMu.Lock()
	if w.memo == nil {
		w.memo = map[string]interface{}{}
	}
	k := "evalMethods/" + node
	if v, ok := w.memo[k]; ok {
		w.memoMu.Unlock()
		return v.([]*FuncInfo)
	}
	w.memoMu.Unlock()
	v := w.evalMethodsUncached(node)
	w.memoMu.Lock()
	w.memo[k] = v
	w.memoMu.Unlock()
	return v
}

func (w *World) evalMethodsUncached(node string) []*FuncInfo {
	var out []*FuncInfo
	for _, f := range w.compilerMethods() {
		sig := f.Obj.Type().(*types.Signature)
		// a node evaluator: func (c *compiler) evalX(node T) (interface{}, error)
		// (or, for a statement that yields no value, func (c *compiler) evalX(node T) error)
		errOnly := sig.Results().Len() == 1 && isErrorType(sig.Results().At(0).Type()) && (node == "LetStatement" || node == "Statement")
		// (the node is the first parameter; an evaluator may take further operands - a flag, a token type -
		// that its callers fix)
		if sig.Params().Len() < 1 || !(errOnly || (sig.Results().Len() == 2 && isErrorType(sig.Results().At(1).Type()))) {
			continue
		}
		if !errOnly {
			if _, isIface := sig.Results().At(0).Type().Underlying().(*types.Interface); !isIface {
				continue
			}
		}
		for i := 0; i < 1; i++ {
			if namedIs(sig.Params().At(i).Type(), astPath, node) {
				if _, isPtr := sig.Params().At(i).Type().(*types.Pointer); isPtr || node == "Expression" || node == "Statement" {
					out = append(out, f)
					break
				}
			}
		}
	}
	sort.Slice(out, func(i, j int) bool { return out[i].Decl.Pos() < out[j].Decl.Pos() })
	return out
}

func (w *World) evalMethod(node string) *FuncInfo {
	if node == "Expression" {
		return w.exprEvaluator()
	}
	m := w.evalMethods(node)
	if len(m) == 0 {
		return nil
	}
	return m[0]
}

// exprEvaluator: the central dispatch -- the evaluator method taking an
// ast.Expression that type-switches over it into the per-node evaluators.
func (w *World) exprEvaluator() *FuncInfo {
	w.memoMu.Lock()
	if w.memo == nil {
		w.memo = map[string]interface{}{}
	}
	k := "exprEvaluator"
	if v, ok := w.memo[k]; ok {
		w.memoMu.Unlock()
		return v.(*FuncInfo)
	}
	w.memoMu.Unlock()
	v := w.exprEvaluatorUncached()
	w.memoMu.Lock()
	w.memo[k] = v
	w.memoMu.Unlock()
	return v
}

func (w *World) exprEvaluatorUncached() *FuncInfo {
	var best *FuncInfo
	bestN := 0
	for _, f := range w.evalMethods("Expression") {
		sig := f.Obj.Type().(*types.Signature)
		n := 0
		inspectBody(f.Decl.Body, true, func(nd ast.Node) bool {
			ts, ok := nd.(*ast.TypeSwitchStmt)
			if !ok {
				return true
			}
			var x ast.Expr
			switch a := ts.Assign.(type) {
			case *ast.AssignStmt:
				if ta, ok := a.Rhs[0].(*ast.TypeAssertExpr); ok {
					x = ta.X
				}
			case *ast.ExprStmt:
				if ta, ok := a.X.(*ast.TypeAssertExpr); ok {
					x = ta.X
				}
			}
			if objOf(f.Pkg.TypesInfo, x) == sig.Params().At(0) {
				n = len(ts.Body.List)
			}
			return true
		})
		if n > bestN {
			best, bestN = f, n
		}
	}
	if bestN < 5 {
		return nil
	}
	return best
}

// operandWrappers: evaluator methods with the expression evaluator's
// signature that are not the dispatch itself but obtain their value from it,
// applied to their own parameter (e.g. "evaluate, and treat an unknown
// identifier as nil"). The flag tells whether the wrapper contains the typed
// unknown-identifier tolerance.
func (w *World) operandWrappers() map[*types.Func]bool {
	w.memoMu.Lock()
	if w.memo == nil {
		w.memo = map[string]interface{}{}
	}
	k := "operandWrappers"
	if v, ok := w.memo[k]; ok {
		w.memoMu.Unlock()
		return v.(map[*types.Func]bool)
	}
	w.memoMu.Unlock()
	v := w.operandWrappersUncached()
	w.memoMu.Lock()
	w.memo[k] = v
	w.memoMu.Unlock()
	return v
}

func (w *World) operandWrappersUncached() map[*types.Func]bool {
	out := map[*types.Func]bool{}
	ev := w.exprEvaluator()
	if ev == nil {
		return out
	}
	for _, f := range w.evalMethods("Expression") {
		if f.Obj == ev.Obj {
			continue
		}
		info := f.Pkg.TypesInfo
		p := f.Obj.Type().(*types.Signature).Params().At(0)
		calls := false
		for _, c := range callsIn(f.Decl.Body, true) {
			if calleeOf(info, c) == ev.Obj && len(c.Args) == 1 && objOf(info, c.Args[0]) == p {
				calls = true
			}
		}
		if !calls {
			continue
		}
		tol := false
		inspectBody(f.Decl.Body, true, func(n ast.Node) bool {
			if ifs, ok := n.(*ast.IfStmt); ok && unknownToleranceIf(info, ifs) != nil {
				tol = true
			}
			return true
		})
		out[f.Obj] = tol
	}
	return out
}

// unknownToleranceIf recognises the typed tolerance
//
//	if err != nil { if _, ok := err.(*ErrUnknownIdentifier); !ok { return ..., err } }
//
// (also with further conjuncts/disjuncts in the inner condition, and in the
// flattened form `if _, ok := err.(*ErrUnknownIdentifier); err != nil && !ok`)
// and returns the error variable, or nil.
func unknownToleranceIf(info *types.Info, ifs *ast.IfStmt) types.Object {
	assertOn := func(st ast.Stmt) types.Object {
		as, ok := st.(*ast.AssignStmt)
		if !ok || len(as.Rhs) != 1 || len(as.Lhs) != 2 {
			return nil
		}
		ta, ok := unparen(as.Rhs[0]).(*ast.TypeAssertExpr)
		if !ok || ta.Type == nil || !namedIs(info.Types[ta.Type].Type, modPath, "ErrUnknownIdentifier") {
			return nil
		}
		return objOf(info, ta.X)
	}
	if ifs.Init != nil {
		if o := assertOn(ifs.Init); o != nil && terminates(ifs.Body.List) {
			return o
		}
		return nil
	}
	be, ok := unparen(ifs.Cond).(*ast.BinaryExpr)
	if !ok || be.Op != token.NEQ || !isNilIdent(info, be.Y) {
		return nil
	}
	errVar := objOf(info, be.X)
	if errVar == nil || !isErrorType(errVar.Type()) {
		return nil
	}
	for _, st := range ifs.Body.List {
		if in, ok := st.(*ast.IfStmt); ok && in.Init != nil && assertOn(in.Init) == errVar && terminates(in.Body.List) {
			return errVar
		}
	}
	return nil
}

// sinkMethod: the evaluator method with a *strings.Builder parameter.
func (w *World) sinkMethod() *FuncInfo {
	w.memoMu.Lock()
	if w.memo == nil {
		w.memo = map[string]interface{}{}
	}
	k := "sinkMethod"
	if v, ok := w.memo[k]; ok {
		w.memoMu.Unlock()
		return v.(*FuncInfo)
	}
	w.memoMu.Unlock()
	v := w.sinkMethodUncached()
	w.memoMu.Lock()
	w.memo[k] = v
	w.memoMu.Unlock()
	return v
}

func (w *World) sinkMethodUncached() *FuncInfo {
	// the function of the evaluator package that takes a value of any type, returns nothing and has a
	// strings.Builder at hand (as a parameter, or in its receiver): a method of the evaluator, or of a
	// writer type of its own. With several candidates the one that switches on the type of the value.
	hasBuilder := func(t types.Type) bool {
		if namedIs(t, "strings", "Builder") {
			return true
		}
		st, ok := deref(t).Underlying().(*types.Struct)
		if !ok {
			return false
		}
		for i := 0; i < st.NumFields(); i++ {
			if namedIs(st.Field(i).Type(), "strings", "Builder") {
				return true
			}
		}
		return false
	}
	var cands []*FuncInfo
	for _, f := range w.Funcs("") {
		sig := f.Obj.Type().(*types.Signature)
		if sig.Results().Len() != 0 || f.Decl.Body == nil {
			continue
		}
		nAny, builder := 0, false
		for i := 0; i < sig.Params().Len(); i++ {
			t := sig.Params().At(i).Type()
			if hasBuilder(t) {
				builder = true
			}
			if it, ok := t.(*types.Interface); ok && it.NumMethods() == 0 {
				nAny++
			}
		}
		if rc := sig.Recv(); rc != nil && !builder && hasBuilder(rc.Type()) {
			builder = true
		}
		if nAny == 1 && builder {
			cands = append(cands, f)
		}
	}
	for _, f := range cands {
		found := false
		ast.Inspect(f.Decl.Body, func(n ast.Node) bool {
			if _, ok := n.(*ast.TypeSwitchStmt); ok {
				found = true
			}
			return !found
		})
		if found {
			return f
		}
	}
	if len(cands) > 0 {
		return cands[0]
	}
	// failing that, the first evaluator method with a builder parameter
	for _, f := range w.compilerMethods() {
		sig := f.Obj.Type().(*types.Signature)
		for i := 0; i < sig.Params().Len(); i++ {
			if namedIs(sig.Params().At(i).Type(), "strings", "Builder") {
				return f
			}
		}
	}
	return nil
}

// sinkValueIndex: the position of the sink's value parameter (without the receiver), -1 if none.
func (w *World) sinkValueIndex() int {
	f := w.sinkMethod()
	if f == nil {
		return -1
	}
	sig := f.Obj.Type().(*types.Signature)
	for i := 0; i < sig.Params().Len(); i++ {
		if it, ok := sig.Params().At(i).Type().(*types.Interface); ok && it.NumMethods() == 0 {
			return i
		}
	}
	return -1
}

// sinkValueArg: the value handed to the sink by a call of it in SSA form (nil if the call has another shape).
func (w *World) sinkValueArg(c *ssa.CallCommon) ssa.Value {
	f := w.sinkMethod()
	i := w.sinkValueIndex()
	if f == nil || i < 0 {
		return nil
	}
	if f.Obj.Type().(*types.Signature).Recv() != nil {
		i++
	}
	if i >= len(c.Args) {
		return nil
	}
	return c.Args[i]
}

// truthyMethod: the evaluator method func(interface{}) bool.
func (w *World) truthyMethod() *FuncInfo {
	w.memoMu.Lock()
	if w.memo == nil {
		w.memo = map[string]interface{}{}
	}
	k := "truthyMethod"
	if v, ok := w.memo[k]; ok {
		w.memoMu.Unlock()
		return v.(*FuncInfo)
	}
	w.memoMu.Unlock()
	v := w.truthyMethodUncached()
	w.memoMu.Lock()
	w.memo[k] = v
	w.memoMu.Unlock()
	return v
}

func (w *World) truthyMethodUncached() *FuncInfo {
	for _, f := range w.compilerMethods() {
		sig := f.Obj.Type().(*types.Signature)
		if sig.Params().Len() == 1 && sig.Results().Len() == 1 {
			if _, ok := sig.Params().At(0).Type().Underlying().(*types.Interface); ok {
				if b, ok := sig.Results().At(0).Type().(*types.Basic); ok && b.Kind() == types.Bool {
					return f
				}
			}
		}
	}
	// the same predicate as a plain function of the evaluator's package (it never
	// needed its receiver): unexported, (interface) bool, called by the if evaluator
	ife := w.evalMethod("IfExpression")
	if ife == nil || ife.Decl.Body == nil {
		return nil
	}
	var found *FuncInfo
	ast.Inspect(ife.Decl.Body, func(n ast.Node) bool {
		call, ok := n.(*ast.CallExpr)
		if !ok || found != nil {
			return found == nil
		}
		id, ok := call.Fun.(*ast.Ident)
		if !ok {
			return true
		}
		obj, ok := ife.Pkg.TypesInfo.Uses[id].(*types.Func)
		if !ok || obj.Exported() || obj.Pkg() != ife.Obj.Pkg() {
			return true
		}
		sig := obj.Type().(*types.Signature)
		if sig.Recv() != nil || sig.Params().Len() != 1 || sig.Results().Len() != 1 {
			return true
		}
		if _, ok := sig.Params().At(0).Type().Underlying().(*types.Interface); !ok {
			return true
		}
		if b, ok := sig.Results().At(0).Type().(*types.Basic); ok && b.Kind() == types.Bool {
			found = w.FuncOf(obj)
		}
		return true
	})
	return found
}

// topLevelEval: the evaluator method with no parameters returning (string, error).
func (w *World) topLevelEval() *FuncInfo {
	w.memoMu.Lock()
	if w.memo == nil {
		w.memo = map[string]interface{}{}
	}
	k := "topLevelEval"
	if v, ok := w.memo[k]; ok {
		w.memoMu.Unlock()
		return v.(*FuncInfo)
	}
	w.memoMu.Unlock()
	v := w.topLevelEvalUncached()
	w.memoMu.Lock()
	w.memo[k] = v
	w.memoMu.Unlock()
	return v
}

func (w *World) topLevelEvalUncached() *FuncInfo {
	for _, f := range w.compilerMethods() {
		sig := f.Obj.Type().(*types.Signature)
		if sig.Params().Len() == 0 && sig.Results().Len() == 2 {
			if b, ok := sig.Results().At(0).Type().(*types.Basic); ok && b.Kind() == types.String {
				return f
			}
		}
	}
	return nil
}

// parserType: the struct type in package parser that embeds *lexer.Lexer.
func (w *World) parserType() *types.Named {
	p := w.Pkgs["parser"]
	for _, name := range p.Types.Scope().Names() {
		tn, ok := p.Types.Scope().Lookup(name).(*types.TypeName)
		if !ok {
			continue
		}
		st, ok := tn.Type().Underlying().(*types.Struct)
		if !ok {
			continue
		}
		for i := 0; i < st.NumFields(); i++ {
			if st.Field(i).Embedded() && namedIs(st.Field(i).Type(), lexPkgPath, "Lexer") {
				n, _ := tn.Type().(*types.Named)
				return n
			}
		}
	}
	return nil
}

func (w *World) parserMethods() []*FuncInfo {
	pt := w.parserType()
	var out []*FuncInfo
	for _, f := range w.Funcs("parser") {
		if isMethodOf(f, pt) {
			out = append(out, f)
		}
	}
	return out
}

// Registration is one registerPrefix/registerInfix call site resolved to the
// token constant and the parse function it registers.
type Registration struct {
	Token   string    // string value of the token constant
	TokExpr ast.Expr  // the token argument
	Fn      *FuncInfo // resolved method, nil for a function literal
	Lit     *ast.FuncLit
	Call    ast.Node // the registering call, the keyed element of a map literal, or the indexed assignment
	Infix   bool
}

// registrations resolves the parser's prefix and infix registries from the
// call sites of the registering methods. A registering method is a parser
// method whose body is a single assignment into a map-typed field indexed by
// its first parameter.
func (w *World) registrations() []Registration {
	p := w.Pkgs["parser"]
	info := p.TypesInfo
	regMeth := map[*types.Func]bool{} // -> infix?
	isReg := map[*types.Func]bool{}
	for _, f := range w.parserMethods() {
		if len(f.Decl.Body.List) != 1 {
			continue
		}
		as, ok := f.Decl.Body.List[0].(*ast.AssignStmt)
		if !ok || len(as.Lhs) != 1 || len(as.Rhs) != 1 {
			continue
		}
		ix, ok := as.Lhs[0].(*ast.IndexExpr)
		if !ok {
			continue
		}
		_, fld := fieldOf(info, ix.X)
		if fld == nil {
			continue
		}
		mt, ok := fld.Type().Underlying().(*types.Map)
		if !ok {
			continue
		}
		sig, ok := mt.Elem().Underlying().(*types.Signature)
		if !ok {
			continue
		}
		isReg[f.Obj] = true
		regMeth[f.Obj] = sig.Params().Len() == 1
	}
	var out []Registration
	var resolve func(r *Registration, v ast.Expr)
	resolve = func(r *Registration, v ast.Expr) {
		switch a := unparen(v).(type) {
		case *ast.FuncLit:
			r.Lit = a
		case *ast.SelectorExpr:
			if s := info.Selections[a]; s != nil && s.Kind() == types.MethodVal {
				r.Fn = w.FuncOf(s.Obj().(*types.Func))
			}
		case *ast.Ident:
			if fn, ok := info.Uses[a].(*types.Func); ok {
				r.Fn = w.FuncOf(fn)
				return
			}
			// a local that is assigned once (`parseInfix := p.parseInfixExpression`, bound outside a loop of registrations)
			for _, f := range w.Funcs("parser") {
				if f.Decl.Pos() <= a.Pos() && a.Pos() < f.Decl.End() {
					if def := singleDefinition(info, f, a); def != ast.Expr(a) {
						resolve(r, def)
					}
				}
			}
		}
	}
	// registry fields: map[token]func of the parser struct
	isRegistry := func(e ast.Expr) (infix, ok bool) {
		_, fld := fieldOf(info, e)
		if fld == nil {
			return false, false
		}
		mt, isMap := fld.Type().Underlying().(*types.Map)
		if !isMap {
			return false, false
		}
		sig, isSig := mt.Elem().Underlying().(*types.Signature)
		if !isSig {
			return false, false
		}
		return sig.Params().Len() == 1, true
	}
	// the constant tokens a key expression stands for: a constant, or the variable of a range over a
	// package-level slice / slice literal of constants
	keyTokens := func(f *FuncInfo, k ast.Expr) []ast.Expr {
		if _, ok := constString(info, k); ok {
			return []ast.Expr{k}
		}
		o := objOf(info, k)
		if o == nil {
			return nil
		}
		var lit *ast.CompositeLit
		inspectBody(f.Decl.Body, false, func(n ast.Node) bool {
			rs, ok := n.(*ast.RangeStmt)
			if !ok {
				return true
			}
			// the value variable of a range over a slice, or the key variable of a range over a map
			overMap := false
			if tv, ok := info.Types[rs.X]; ok {
				_, overMap = tv.Type.Underlying().(*types.Map)
			}
			if overMap {
				if rs.Key == nil || objOf(info, rs.Key) != o {
					return true
				}
			} else if rs.Value == nil || objOf(info, rs.Value) != o {
				return true
			}
			switch x := unparen(rs.X).(type) {
			case *ast.CompositeLit:
				lit = x
			case *ast.Ident:
				if v, ok := info.Uses[x].(*types.Var); ok && v.Parent() == v.Pkg().Scope() {
					for _, file := range p.Syntax {
						for _, d := range file.Decls {
							gd, ok := d.(*ast.GenDecl)
							if !ok {
								continue
							}
							for _, sp := range gd.Specs {
								vs, ok := sp.(*ast.ValueSpec)
								if !ok {
									continue
								}
								for i, nm := range vs.Names {
									if info.Defs[nm] == types.Object(v) && i < len(vs.Values) {
										if cl, ok := unparen(vs.Values[i]).(*ast.CompositeLit); ok {
											lit = cl
										}
									}
								}
							}
						}
					}
					// the variable must not be written anywhere
					for _, g := range w.Funcs("parser") {
						inspectBody(g.Decl.Body, false, func(m ast.Node) bool {
							if as, ok := m.(*ast.AssignStmt); ok {
								for _, l := range as.Lhs {
									base := unparen(l)
									if ix, ok := base.(*ast.IndexExpr); ok {
										base = unparen(ix.X)
									}
									if objOf(info, base) == types.Object(v) {
										lit = nil
									}
								}
							}
							return true
						})
					}
				}
			}
			return true
		})
		if lit == nil {
			return nil
		}
		var out []ast.Expr
		for _, e := range lit.Elts {
			if kv, isKV := e.(*ast.KeyValueExpr); isKV {
				e = kv.Key // a map literal: its keys
			}
			if _, ok := constString(info, e); !ok {
				return nil
			}
			out = append(out, e)
		}
		return out
	}
	for _, f := range w.Funcs("parser") {
		for _, c := range callsIn(f.Decl.Body, false) {
			cal := calleeOf(info, c)
			if cal == nil || !isReg[cal] || len(c.Args) != 2 {
				continue
			}
			for _, k := range keyTokens(f, c.Args[0]) {
				tok, _ := constString(info, k)
				r := Registration{Token: tok, TokExpr: k, Call: c, Infix: regMeth[cal]}
				resolve(&r, c.Args[1])
				out = append(out, r)
			}
			if len(keyTokens(f, c.Args[0])) == 0 {
				r := Registration{TokExpr: c.Args[0], Call: c, Infix: regMeth[cal]}
				resolve(&r, c.Args[1])
				out = append(out, r)
			}
		}
		if isReg[f.Obj] {
			continue
		}
		inspectBody(f.Decl.Body, false, func(n ast.Node) bool {
			as, ok := n.(*ast.AssignStmt)
			if !ok || len(as.Lhs) != 1 || len(as.Rhs) != 1 {
				return true
			}
			// p.registry[K] = fn
			if ix, ok := as.Lhs[0].(*ast.IndexExpr); ok {
				if infix, isR := isRegistry(ix.X); isR {
					ks := keyTokens(f, ix.Index)
					for _, k := range ks {
						tok, _ := constString(info, k)
						r := Registration{Token: tok, TokExpr: k, Call: as, Infix: infix}
						resolve(&r, as.Rhs[0])
						out = append(out, r)
					}
					if len(ks) == 0 {
						r := Registration{TokExpr: ix.Index, Call: as, Infix: infix}
						resolve(&r, as.Rhs[0])
						out = append(out, r)
					}
				}
				return true
			}
			// p.registry = map[...]...{K: fn, ...}
			if infix, isR := isRegistry(as.Lhs[0]); isR {
				if cl, ok := unparen(as.Rhs[0]).(*ast.CompositeLit); ok {
					for _, e := range cl.Elts {
						kv, ok := e.(*ast.KeyValueExpr)
						if !ok {
							continue
						}
						tok, _ := constString(info, kv.Key)
						r := Registration{Token: tok, TokExpr: kv.Key, Call: kv, Infix: infix}
						resolve(&r, kv.Value)
						out = append(out, r)
					}
				}
			}
			return true
		})
	}
	return out
}

// prefixFn / infixFn: the parse function registered for a token.
func (w *World) registeredFn(tok string, infix bool) *FuncInfo {
	// a later registration of the same token replaces an earlier one (registrations are in source order)
	var fn *FuncInfo
	for _, r := range w.registrations() {
		if r.Token == tok && r.Infix == infix {
			fn = r.Fn
		}
	}
	return fn
}

// parserTokenFields identifies the parser's "current" and "peek" token fields
// from the method that advances the token stream: peek is assigned the result
// of Lexer.NextToken, cur is assigned from peek.
func (w *World) parserTokenFields() (cur, peek *types.Var, advance *FuncInfo) {
	info := w.Pkgs["parser"].TypesInfo
	for _, f := range w.parserMethods() {
		var c, pk *types.Var
		for _, st := range f.Decl.Body.List {
			as, ok := st.(*ast.AssignStmt)
			if !ok || len(as.Lhs) != 1 || len(as.Rhs) != 1 {
				continue
			}
			_, lf := fieldOf(info, as.Lhs[0])
			if lf == nil || !namedIs(lf.Type(), tokPath, "Token") {
				continue
			}
			if call, ok := as.Rhs[0].(*ast.CallExpr); ok {
				if cal := calleeOf(info, call); cal != nil && methodIs(cal, lexPkgPath, "Lexer", cal.Name()) {
					pk = lf
				}
			} else if _, rf := fieldOf(info, as.Rhs[0]); rf != nil {
				c = lf
			}
		}
		if c != nil && pk != nil {
			return c, pk, f
		}
	}
	return nil, nil, nil
}

// evalMethodsOfFunc: non-empty when f is an evaluator of an AST node (one AST-typed parameter, (interface{}, error) results).
func (w *World) evalMethodsOfFunc(f *FuncInfo) []string {
	sig := f.Obj.Type().(*types.Signature)
	if sig.Params().Len() != 1 || sig.Results().Len() != 2 || !isErrorType(sig.Results().At(1).Type()) {
		return nil
	}
	if _, isIface := sig.Results().At(0).Type().Underlying().(*types.Interface); !isIface {
		return nil
	}
	t := sig.Params().At(0).Type()
	if pt, ok := t.(*types.Pointer); ok {
		t = pt.Elem()
	}
	if declaredIn(t, astPath) {
		return []string{typeStr(t)}
	}
	return nil
}
