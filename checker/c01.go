package main

import (
	"fmt"
	"go/ast"
	"go/token"
	"go/types"
	"strings"
)

func init() {
	register("C01", checkC01, "what the html/template escapers emit (trusted standard library); helpers supplied by the application; reflect-driven flows inside helper packages outside this module")
	register("C02", checkC02, "clause (d): which bytes the hand-written scanner treats as tag start, escape or string delimiter (readHTML / readString look at run-time bytes and look-behind); only the structural facts of C03/C15/C18 about the lexer are decided")
}

const htmlTplPath = "html/template"

func checkC01(r *Run) {
	r.Rule("R1", "only the sink writes: every Write on a *strings.Builder in the evaluator package happens inside the output sink", 1)
	r.Rule("R2", "typed dispatch of the sink: string and bool are written through the HTML escaper only; template.HTML and HTMLer are written verbatim exactly once; containers and wrappers recurse into the sink; unescaped renderings only for the frozen safe table (numbers, time, fmt.Stringer); first-match order keeps HTML out of escaping arms and strings out of verbatim arms", 4)
	r.Rule("R3", "statement-level routing: the value handed to the sink by the top-level loop and by BlockWith is the evaluation result itself (no conversion in between)", 1)
	r.Rule("R4", "provenance of trusted HTML: every conversion to template.HTML in the module has an operand that is template text, already rendered output, \"\", json.Marshal output, raw's own parameter, or debug's <pre> wrapper", 4)
	r.Rule("R5", "values obtained by reflection keep their dynamic type: the evaluator never reads a reflect.Value through String()", 1)
	sinkWritesRule(r, "R1")
	sinkClassesRuleSSA(r, "R2")
	sinkRoutingRule(r, "R3")
	htmlProvenanceRule(r, "R4")
	reflectStringRule(r, "R5")
	r.Rule("R6", "rendered text re-enters evaluation only as template.HTML: the String() of an output builder is returned as a string result or converted to template.HTML, never boxed into an interface as a plain string (it would be escaped again)", 1)
	renderedTextRule(r, "R6")
}

func isBuilderWrite(info *types.Info, c *ast.CallExpr) bool {
	cal := calleeOf(info, c)
	if cal == nil || !strings.HasPrefix(cal.Name(), "Write") {
		return false
	}
	return methodIs(cal, "strings", "Builder", cal.Name())
}

// sinkFamily: the sink and the root-package functions that are called only from the sink family.
func (w *World) sinkFamily() map[*types.Func]bool {
	fam := map[*types.Func]bool{}
	sink := w.sinkMethod()
	if sink == nil {
		return fam
	}
	fam[sink.Obj] = true
	callers := map[*types.Func]map[*types.Func]bool{}
	for _, f := range w.Funcs("") {
		for _, c := range callsIn(f.Decl.Body, false) {
			if cal := calleeOf(f.Pkg.TypesInfo, c); cal != nil && w.FuncOf(cal) != nil && w.FuncOf(cal).Rel == "" {
				if callers[cal] == nil {
					callers[cal] = map[*types.Func]bool{}
				}
				callers[cal][f.Obj] = true
			}
		}
	}
	for changed := true; changed; {
		changed = false
		for cal, cs := range callers {
			if fam[cal] || cal.Exported() {
				continue
			}
			all := len(cs) > 0
			for c := range cs {
				if !fam[c] {
					all = false
				}
			}
			if all {
				fam[cal] = true
				changed = true
			}
		}
	}
	return fam
}

func sinkWritesRule(r *Run, rule string) {
	w := r.W
	sink := w.sinkMethod()
	if sink == nil {
		r.Lost(rule, "output sink (evaluator method with a *strings.Builder parameter)")
		return
	}
	family := w.sinkFamily()
	for _, f := range w.Funcs("") {
		info := f.Pkg.TypesInfo
		if sig := f.Obj.Type().(*types.Signature); sig.Recv() != nil && f.Decl.Name.Name == "String" && sig.Params().Len() == 0 && sig.Results().Len() == 1 {
			continue // a fmt.Stringer implementation builds its own text; it is not template output
		}
		for _, c := range callsIn(f.Decl.Body, false) {
			if !isBuilderWrite(info, c) {
				continue
			}
			con := "write " + short(w.Fset, c)
			if f.Obj == sink.Obj {
				r.Ok(rule, f.Name(), con, w.Pos(c.Pos()), "inside the sink")
			} else if family[f.Obj] {
				r.Ok(rule, f.Name(), con, w.Pos(c.Pos()), "inside a helper that only the sink (and its helpers) call")
			} else if arg := writtenString(w, info, c); arg != nil && htmlOrigin(w, info, f, arg, nil, 0) == originTemplateText {
				r.Ok(rule, f.Name(), con, w.Pos(c.Pos()), "literal template text, written as it is (what the sink does with it)")
			} else if pi, isRaw := w.rawWriteHelpers()[f.Obj]; isRaw {
				// a helper that writes its own string parameter: what matters is what its callers outside the sink hand to it
				r.Ok(rule, f.Name(), con, w.Pos(c.Pos()), "writes its own string parameter as it is; the call sites outside the sink are checked")
				for _, g := range w.Funcs("") {
					if g.Obj == sink.Obj || family[g.Obj] || g.Obj == f.Obj {
						continue
					}
					ginfo := g.Pkg.TypesInfo
					for _, gc := range callsIn(g.Decl.Body, false) {
						if calleeOf(ginfo, gc) != f.Obj || pi >= len(gc.Args) {
							continue
						}
						gcon := "raw write " + short(w.Fset, gc)
						if htmlOrigin(w, ginfo, g, gc.Args[pi], nil, 0) == originTemplateText {
							r.Ok(rule, g.Name(), gcon, w.Pos(gc.Pos()), "literal template text, written as it is (what the sink does with it)")
						} else {
							r.Bad(rule, g.Name(), gcon, w.Pos(gc.Pos()), "a string that is not literal template text is written to the output without passing the sink's typed escaping dispatch")
						}
					}
				}
			} else {
				r.Bad(rule, f.Name(), con, w.Pos(c.Pos()), "output is written to a strings.Builder outside the sink: it bypasses the typed escaping dispatch")
			}
		}
		// fmt.Fprint* into a builder
		for _, c := range callsIn(f.Decl.Body, false) {
			cal := calleeOf(info, c)
			if cal != nil && cal.Pkg() != nil && cal.Pkg().Path() == "fmt" && strings.HasPrefix(cal.Name(), "Fprint") && len(c.Args) > 0 {
				if tv, ok := info.Types[c.Args[0]]; ok && namedIs(tv.Type, "strings", "Builder") {
					if family[f.Obj] {
						r.Ok(rule, f.Name(), "fmt."+cal.Name()+" into the builder", w.Pos(c.Pos()), "inside the sink (what it writes is classified by R2)")
					} else {
						r.Bad(rule, f.Name(), "fmt."+cal.Name()+" into a strings.Builder", w.Pos(c.Pos()), "output is written to a strings.Builder outside the sink's Write calls")
					}
				}
			}
		}
	}
}

// rawWriteHelpers: functions of the evaluator package other than the sink that write one of their own string
// parameters to a strings.Builder as it is (and nothing else); maps the function to that parameter's index.
func (w *World) rawWriteHelpers() map[*types.Func]int {
	w.memoMu.Lock()
	if w.memo == nil {
		w.memo = map[string]interface{}{}
	}
	if v, ok := w.memo["rawWriteHelpers"]; ok {
		w.memoMu.Unlock()
		return v.(map[*types.Func]int)
	}
	w.memoMu.Unlock()
	out := map[*types.Func]int{}
	sink := w.sinkMethod()
	for _, f := range w.Funcs("") {
		if sink != nil && f.Obj == sink.Obj {
			continue
		}
		info := f.Pkg.TypesInfo
		sig := f.Obj.Type().(*types.Signature)
		idx, n := -1, 0
		for _, c := range callsIn(f.Decl.Body, false) {
			if !isBuilderWrite(info, c) {
				continue
			}
			n++
			arg := writtenString(w, info, c)
			for i := 0; arg != nil && i < sig.Params().Len(); i++ {
				if objOf(info, arg) == types.Object(sig.Params().At(i)) && isBasicKind(sig.Params().At(i).Type(), types.String) {
					idx = i
				}
			}
		}
		if n == 1 && idx >= 0 {
			out[f.Obj] = idx
		}
	}
	w.memoMu.Lock()
	w.memo["rawWriteHelpers"] = out
	w.memoMu.Unlock()
	return out
}

const originTemplateText = "template text (HTMLLiteral.Value)"

// writtenString: the string a builder Write / WriteString call writes (nil when it is not a string seen through a bytes-of-string conversion).
func writtenString(w *World, info *types.Info, c *ast.CallExpr) ast.Expr {
	if len(c.Args) != 1 {
		return nil
	}
	a := unparen(c.Args[0])
	if bc, ok := a.(*ast.CallExpr); ok && isBytesOfString(w, info, bc) && len(bc.Args) == 1 {
		return unparen(bc.Args[0])
	}
	if tv, ok := info.Types[a]; ok && isBasicKind(tv.Type, types.String) {
		return a
	}
	return nil
}

// bytesOfString: module functions func(string) []byte used to hand a string to Write.
func isBytesOfString(w *World, info *types.Info, c *ast.CallExpr) bool {
	if t, ok := isConversion(info, c); ok {
		if sl, ok := t.Underlying().(*types.Slice); ok {
			if b, ok := sl.Elem().(*types.Basic); ok && b.Kind() == types.Byte {
				return true
			}
		}
		return false
	}
	cal := calleeOf(info, c)
	fi := w.FuncOf(cal)
	if fi == nil {
		return false
	}
	sig := cal.Type().(*types.Signature)
	if sig.Params().Len() != 1 || sig.Results().Len() != 1 || !isBasicKind(sig.Params().At(0).Type(), types.String) {
		return false
	}
	sl, ok := sig.Results().At(0).Type().(*types.Slice)
	if !ok {
		return false
	}
	b, ok := sl.Elem().(*types.Basic)
	return ok && b.Kind() == types.Byte
}

func (w *World) lookupType(pkgPath, name string) types.Type {
	for _, p := range w.All {
		for _, imp := range p.Types.Imports() {
			if imp.Path() == pkgPath {
				if o := imp.Scope().Lookup(name); o != nil {
					return o.Type()
				}
			}
		}
	}
	return nil
}

func sinkRoutingRule(r *Run, rule string) {
	w := r.W
	sink := w.sinkMethod()
	top := w.topLevelEval()
	if sink == nil || top == nil {
		r.Lost(rule, "sink / top-level evaluator")
		return
	}
	for _, f := range w.Funcs("") {
		if f.Obj == sink.Obj {
			continue
		}
		info := f.Pkg.TypesInfo
		for _, c := range callsIn(f.Decl.Body, false) {
			vi := w.sinkValueIndex()
			if calleeOf(info, c) != sink.Obj || vi < 0 || vi >= len(c.Args) {
				continue
			}
			con := "sink call " + short(w.Fset, c)
			if o := objOf(info, c.Args[vi]); o != nil {
				r.Ok(rule, f.Name(), con, w.Pos(c.Pos()), "the evaluation result variable is passed unconverted")
			} else {
				r.Bad(rule, f.Name(), con, w.Pos(c.Pos()), "the value is converted or wrapped on its way to the sink: its type decides between escaping and verbatim output")
			}
		}
	}
}

// htmlProvenanceRule classifies the operand of every conversion to template.HTML.
func htmlProvenanceRule(r *Run, rule string) {
	w := r.W
	rawFns := map[*types.Func]bool{}
	for fn, key := range w.helperRoots() {
		if key == "raw" {
			rawFns[fn] = true
		}
	}
	for _, f := range w.AllFuncs() {
		if f.Rel == "helpers/helptest" {
			continue
		}
		info := f.Pkg.TypesInfo
		ast.Inspect(f.Decl.Body, func(n ast.Node) bool {
			c, ok := n.(*ast.CallExpr)
			if !ok {
				return true
			}
			t, isConv := isConversion(info, c)
			if !isConv || !namedIs(t, htmlTplPath, "HTML") || len(c.Args) != 1 {
				return true
			}
			if _, isPtr := t.(*types.Pointer); isPtr {
				return true
			}
			con := "template.HTML(" + short(w.Fset, c.Args[0]) + ")"
			if ex, ok := c01HTMLExceptions[f.Name()]; ok {
				r.Ok(rule, f.Name(), "template.HTML(...) in "+f.Name(), w.Pos(c.Pos()), "frozen exception: "+ex)
				return true
			}
			why := htmlOrigin(w, info, f, c.Args[0], rawFns, 0)
			if why != "" {
				r.Ok(rule, f.Name(), con, w.Pos(c.Pos()), why)
			} else {
				r.Bad(rule, f.Name(), con, w.Pos(c.Pos()),
					"a value that is not template text, already rendered output, \"\", JSON, or raw's own argument is relabelled as trusted HTML: it will be emitted without escaping")
			}
			return true
		})
	}
}

// htmlOrigin returns a justification when every origin of e is licensed.
func htmlOrigin(w *World, info *types.Info, f *FuncInfo, e ast.Expr, rawFns map[*types.Func]bool, depth int, assume ...types.Object) string {
	if depth > 6 {
		return ""
	}
	e = unparen(e)
	if s, ok := constString(info, e); ok && s == "" {
		return "the empty string"
	}
	if bx, fld := fieldOf(info, e); fld != nil && fld.Name() == "Value" {
		if tv, ok := info.Types[bx]; ok && namedIs(tv.Type, astPath, "HTMLLiteral") {
			return originTemplateText
		}
	}
	if c, ok := e.(*ast.CallExpr); ok {
		if t, isConv := isConversion(info, c); isConv && len(c.Args) == 1 {
			if isBasicKind(t, types.String) {
				return htmlOrigin(w, info, f, c.Args[0], rawFns, depth+1, assume...)
			}
		}
		cal := calleeOf(info, c)
		switch {
		case cal != nil && (cal.Name() == "Render" || cal.Name() == "Block" || cal.Name() == "BlockWith") && isRenderingFunc(cal):
			return "output that already went through the sink (" + cal.Name() + ")"
		case funcIs(cal, htmlTplPath, "JSEscapeString") && len(c.Args) == 1:
			if in := htmlOrigin(w, info, f, c.Args[0], rawFns, depth+1, assume...); in != "" {
				return "JS-escaped " + in
			}
		case cal != nil:
			// a function of this module: every value it returns at that position must be licensed in its own body
			if g := w.FuncOf(cal); g != nil && g.Decl.Body != nil {
				return returnedOrigin(w, g, 0, rawFns, depth+1, assume...)
			}
		}
		return ""
	}
	o := objOf(info, e)
	if o == nil {
		return ""
	}
	// parameter of the function registered as raw
	sig := f.Obj.Type().(*types.Signature)
	for _, a := range assume {
		if a == o {
			return "the operand it transforms"
		}
	}
	for i := 0; i < sig.Params().Len(); i++ {
		if sig.Params().At(i) == o {
			if rawFns[f.Obj] {
				return "the parameter of the helper registered as raw (the explicit opt-out)"
			}
			// a parameter of an unexported function that is only ever called: what every call site passes
			if !f.Obj.Exported() && sig.Recv() == nil {
				var whys []string
				n, okAll := 0, true
				for _, g := range w.AllFuncs() {
					ginfo := g.Pkg.TypesInfo
					callIdents := map[*ast.Ident]bool{}
					for _, gc := range callsIn(g.Decl.Body, true) {
						if calleeOf(ginfo, gc) != f.Obj {
							continue
						}
						if id, isID := unparen(gc.Fun).(*ast.Ident); isID {
							callIdents[id] = true
						}
						n++
						if i >= len(gc.Args) || gc.Ellipsis.IsValid() {
							okAll = false
							continue
						}
						if wy := htmlOrigin(w, ginfo, g, gc.Args[i], rawFns, depth+1, assume...); wy != "" {
							whys = append(whys, wy)
						} else {
							okAll = false
						}
					}
					ast.Inspect(g.Decl.Body, func(nd ast.Node) bool {
						if id, isID := nd.(*ast.Ident); isID && ginfo.Uses[id] == types.Object(f.Obj) && !callIdents[id] {
							okAll = false // used as a value: its callers are not known
						}
						return true
					})
				}
				if okAll && n > 0 {
					return "every call site passes: " + strings.Join(dedupe(whys), "; ")
				}
			}
			return ""
		}
	}
	// local: every assignment that can reach this use must be licensed. An
	// unconditional assignment at the top level of the function body (also as
	// the init statement of a top-level if) kills everything before it.
	var killPos token.Pos
	for _, st := range f.Decl.Body.List {
		if st.Pos() >= e.Pos() {
			break
		}
		var as *ast.AssignStmt
		switch x := st.(type) {
		case *ast.AssignStmt:
			as = x
		case *ast.IfStmt:
			as, _ = x.Init.(*ast.AssignStmt)
		}
		if as != nil {
			// (an assignment that computes the new value from the old one lets the old one through)
			usesOld := false
			for _, rh := range as.Rhs {
				ast.Inspect(rh, func(m ast.Node) bool {
					if id, ok := m.(*ast.Ident); ok && info.Uses[id] == o {
						usesOld = true
					}
					return true
				})
			}
			// ... unless the new value is licensed whatever went in (rendered output, JSON)
			if usesOld && len(as.Rhs) == 1 {
				if c, ok := unparen(as.Rhs[0]).(*ast.CallExpr); ok {
					if cal := calleeOf(info, c); cal != nil && (isRenderingFunc(cal) || funcIs(cal, "encoding/json", "Marshal")) {
						usesOld = false
					}
				}
			}
			for _, l := range as.Lhs {
				if objOf(info, l) == o && !usesOld {
					killPos = as.Pos()
				}
			}
		}
	}
	var whys []string
	okAll, n := true, 0
	body := ast.Node(f.Decl.Body)
	ast.Inspect(body, func(nd ast.Node) bool {
		as, ok := nd.(*ast.AssignStmt)
		if !ok || as.Pos() < killPos {
			return true
		}
		for i, l := range as.Lhs {
			if objOf(info, l) != o {
				continue
			}
			n++
			var rhs ast.Expr
			if len(as.Rhs) == len(as.Lhs) {
				rhs = as.Rhs[i]
			} else if len(as.Rhs) == 1 {
				rhs = as.Rhs[0]
				// tuple call: b, err := json.Marshal(v) / part, err = Render(...)
				if c, ok := unparen(rhs).(*ast.CallExpr); ok && i == 0 {
					cal := calleeOf(info, c)
					switch {
					case funcIs(cal, "encoding/json", "Marshal"):
						whys = append(whys, "json.Marshal output")
						continue
					case cal != nil && isRenderingFunc(cal):
						whys = append(whys, "output that already went through the sink ("+cal.Name()+")")
						continue
					case cal == nil:
						// dynamic call: the partial feeder's text is rendered before use; not licensed by itself
					default:
						if g := w.FuncOf(cal); g != nil && g.Decl.Body != nil {
							if wy := returnedOrigin(w, g, 0, rawFns, depth+1, assume...); wy != "" {
								whys = append(whys, wy)
								continue
							}
						}
					}
				}
			}
			if rhs == nil {
				okAll = false
				continue
			}
			// self-referential update through a licensed transformer: part = JSEscapeString(string(part))
			selfRef := false
			ast.Inspect(rhs, func(m ast.Node) bool {
				if id, ok := m.(*ast.Ident); ok && info.Uses[id] == o {
					selfRef = true
				}
				return true
			})
			if selfRef {
				if c, ok := unparen(rhs).(*ast.CallExpr); ok && funcIs(calleeOf(info, c), htmlTplPath, "JSEscapeString") && len(c.Args) == 1 {
					// ... of the variable itself (a conversion at most): what another call makes of it first
					// (html.UnescapeString turns escaped data back into markup) is not the variable's content
					arg := unparen(c.Args[0])
					for {
						cv, isCall := arg.(*ast.CallExpr)
						if !isCall || len(cv.Args) != 1 {
							break
						}
						if _, isConv := isConversion(info, cv); !isConv {
							break
						}
						arg = unparen(cv.Args[0])
					}
					if id, isId := arg.(*ast.Ident); isId && info.Uses[id] == o {
						whys = append(whys, "JS-escaped in place")
						continue
					}
					okAll = false
					continue
				}
				// part = transform(..., part): a function of the module that returns its operand, or a licensed
				// transformation of it, on every return -- provided what the variable held before was licensed
				// (the other assignments are judged on their own)
				if c, ok := unparen(rhs).(*ast.CallExpr); ok {
					if g := w.FuncOf(calleeOf(info, c)); g != nil && g.Decl.Body != nil && !c.Ellipsis.IsValid() {
						gsig := g.Obj.Type().(*types.Signature)
						var through []types.Object
						clean := true
						for ai, a := range c.Args {
							uses := false
							ast.Inspect(a, func(m ast.Node) bool {
								if id, ok := m.(*ast.Ident); ok && info.Uses[id] == o {
									uses = true
								}
								return true
							})
							if !uses {
								continue
							}
							if objOf(info, unparen(a)) != o || ai >= gsig.Params().Len() {
								clean = false
								continue
							}
							through = append(through, gsig.Params().At(ai))
						}
						if clean && len(through) > 0 {
							if wy := returnedOrigin(w, g, 0, rawFns, depth+1, append(append([]types.Object(nil), assume...), through...)...); wy != "" {
								whys = append(whys, "passed through "+g.Obj.Name()+" ("+wy+")")
								continue
							}
						}
					}
				}
				okAll = false
				continue
			}
			if wy := htmlOrigin(w, info, f, rhs, rawFns, depth+1, assume...); wy != "" {
				whys = append(whys, wy)
			} else {
				okAll = false
			}
		}
		return true
	})
	// the feeder's text: `part, err = pf(name)` is overwritten by Render before any conversion
	if !okAll && n > 0 {
		return ""
	}
	if n == 0 {
		return ""
	}
	return strings.Join(dedupe(whys), "; ")
}

// c01HTMLExceptions: functions in which conversions to template.HTML are not classified (one symbol each, with the reason).
var c01HTMLExceptions = map[string]string{
	"helpers/debug.Debug": "debug's documented purpose is to dump a value inside <pre>; it is meant for development output only",
}

// returnedOrigin: every return of g yields, at result position idx, a value of licensed origin
// (the accompanying error returns with "" count as the empty string).
func returnedOrigin(w *World, g *FuncInfo, idx int, rawFns map[*types.Func]bool, depth int, assume ...types.Object) string {
	if depth > 6 {
		return ""
	}
	info := g.Pkg.TypesInfo
	sig := g.Obj.Type().(*types.Signature)
	if idx >= sig.Results().Len() || sig.Results().At(idx).Name() != "" {
		return "" // named results may be assigned anywhere: not followed
	}
	var whys []string
	rets := returnsIn(g.Decl.Body)
	if len(rets) == 0 {
		return ""
	}
	for _, ret := range rets {
		var e ast.Expr
		switch {
		case len(ret.Results) == sig.Results().Len():
			e = ret.Results[idx]
		case len(ret.Results) == 1:
			// return f(...): follow the callee at the same position
			c, ok := unparen(ret.Results[0]).(*ast.CallExpr)
			if !ok {
				return ""
			}
			cal := calleeOf(info, c)
			if cal != nil && isRenderingFunc(cal) {
				whys = append(whys, "output that already went through the sink ("+cal.Name()+")")
				continue
			}
			h := w.FuncOf(cal)
			if h == nil || h.Decl.Body == nil {
				return ""
			}
			wy := returnedOrigin(w, h, idx, rawFns, depth+1, assume...)
			if wy == "" {
				return ""
			}
			whys = append(whys, wy)
			continue
		default:
			return ""
		}
		wy := htmlOrigin(w, info, g, e, rawFns, depth+1, assume...)
		if wy == "" {
			return ""
		}
		whys = append(whys, wy)
	}
	return "returned by " + g.Name() + ": " + strings.Join(dedupe(whys), "; ")
}

func dedupe(xs []string) []string {
	seen := map[string]bool{}
	var out []string
	for _, x := range xs {
		if !seen[x] {
			seen[x] = true
			out = append(out, x)
		}
	}
	return out
}

// isRenderingFunc: Render / Block / BlockWith of this module (package function
// plush.Render, methods of HelperContext, methods of hctx.HelperContext).
func isRenderingFunc(cal *types.Func) bool {
	if cal == nil || cal.Pkg() == nil {
		return false
	}
	p := cal.Pkg().Path()
	if p != modPath && p != hctxPath {
		return false
	}
	switch cal.Name() {
	case "Render", "RenderR", "Block", "BlockWith":
		sig := cal.Type().(*types.Signature)
		return sig.Results().Len() == 2 && isBasicKind(sig.Results().At(0).Type(), types.String)
	}
	return false
}

func reflectStringRule(r *Run, rule string) {
	w := r.W
	n := 0
	for _, f := range w.compilerMethods() {
		info := f.Pkg.TypesInfo
		for _, c := range callsIn(f.Decl.Body, false) {
			cal := calleeOf(info, c)
			if methodIs(cal, "reflect", "Value", "String") || methodIs(cal, "reflect", "Value", "Bytes") {
				r.Bad(rule, f.Name(), "reflect.Value."+cal.Name()+" "+short(w.Fset, c), w.Pos(c.Pos()),
					"a value obtained by reflection is read through "+cal.Name()+"(): its dynamic type (for example template.HTML) is lost, so trusted HTML is escaped again and typed strings change meaning")
			}
			if methodIs(cal, "reflect", "Value", "Interface") {
				n++
			}
		}
	}
	if n > 0 {
		r.Ok(rule, "plush.compiler", fmt.Sprintf("%d reads through Interface()", n), "-", "dynamic type preserved")
	}
}

// ---- C02 ---------------------------------------------------------------------

func checkC02(r *Run) {
	r.Rule("R1", "one ordered write per statement: the top-level evaluator has a single range over the program's statements, one sink call per iteration after the error check, and returns the builder's content only after the loop", 1)
	r.Rule("R2", "silent statements are silent: at top level only return-style statements, literal text and let reach the sink; inside blocks an expression statement yields a value only if its NODE is literal text or the value is a control-flow object", 1)
	r.Rule("R3", "literal text is not transformed after the lexer: token literal -> HTMLLiteral.Value -> template.HTML(Value) -> verbatim arm of the sink; the comment parser yields an empty literal", 1)
	r.Rule("R4", "literal-text scanner: in every iteration, each byte the loop steps over has first been tested for being a tag start ('<' followed by '%'); no path (in particular not the one through the escape handling) reaches the trailing readChar without that test", 1)
	topLevelWriteRule(r, "R1")
	coreTopLevelRules(r, "R2", "")
	coreStatementRule(r, "R2")
	literalTextRule(r, "R3")
	textScannerRuleSSA(r, "R4")
	r.Rule("R5", "literal text stays byte-identical: on the literal-text path of the lexer no single byte is converted to a string (string(b) re-encodes bytes >= 0x80)", 1)
	literalBytesRule(r, "R5")
	r.Rule("R6", "quoted strings: the string scanners never step over a closing quote unexamined (only the \\\" escape of double-quoted strings does), every way round their loop has compared the current byte with the closing quote, back-quoted strings are returned raw and double-quoted ones with \\\" replaced by a quote", 2)
	stringScannerRuleSSA(r, "R6")
	r.Rule("R7", "the template text reaches the lexer as it was given: from the entry points (NewTemplate, Parse, Render, the partial helper) over Template.Input and parser.Parse to the lexer's input every hop hands on a parameter, a text field or bytes read from outside - never the result of a call that rewrites the text", 1)
	textPipelineRule(r, "R7")
	r.Rule("R8", "the output an exit object carries is handed on whole: the slice kept in a return/break/continue object is ranged over, spread into an append, measured, stored or passed on - never indexed by a computed index or cut", 1)
	exitValueWholeRule(r, "R8")
	r.Rule("R9", "what the lexer produced is what is parsed: the parser never stores into a field of its current or next token (literal text would no longer be copied byte for byte)", 1)
	tokenImmutableRule(r, "R9")
	r.Rule("R10", "the rendered text reaches the caller as the evaluator produced it: every function of the root package that hands it on returns the very string a call further down returned (or a constant on failure), never something computed from it", 1)
	outputPipelineRule(r, "R10")
	r.Rule("R11", "a binding prints nothing: every success return of the let and the assignment evaluator gives back nil (inside a block the value of an expression statement is looked at: an exit object a template function handed back would end the block, at top level a let's value is written)", 2)
	silentBindingRule(r, "R11")
}

// silentBindingRule: the value clause of C09.R3 on its own (what a binding
// evaluates to is a matter of the output, not only of the scope).
func silentBindingRule(r *Run, rule string) {
	w := r.W
	for _, n := range []string{"LetStatement", "AssignExpression"} {
		f := w.evalMethod(n)
		if f == nil {
			r.Lost(rule, "evaluator for *ast."+n)
			continue
		}
		if sig := f.Obj.Type().(*types.Signature); sig.Results().Len() == 1 && isErrorType(sig.Results().At(0).Type()) {
			r.Ok(rule, f.Name(), "yields no value", w.Pos(f.Decl.Pos()), "the evaluator's only result is its error")
			continue
		}
		ok, rets, undecided := true, 0, ""
		// the evaluator's own returns, and those of the helpers it hands its result over to (`return c.bind(...)`)
		var judge func(g *FuncInfo, depth int)
		seenFn := map[*types.Func]bool{}
		judge = func(g *FuncInfo, depth int) {
			if seenFn[g.Obj] {
				return
			}
			seenFn[g.Obj] = true
			info := g.Pkg.TypesInfo
			for _, ret := range returnsIn(g.Decl.Body) {
				switch len(ret.Results) {
				case 2:
					rets++
					if isNilIdent(info, ret.Results[1]) && !isNilIdent(info, ret.Results[0]) {
						ok = false
						r.Bad(rule, g.Name(), "success return "+short(w.Fset, ret), w.Pos(ret.Pos()), "a let / an assignment must evaluate to nothing (nil): the value would be written (top level) or taken for the value of the enclosing block")
					}
				case 1:
					if tv, okT := info.Types[ret.Results[0]]; okT {
						if _, isTuple := tv.Type.(*types.Tuple); !isTuple {
							continue // a return of a function literal inside the evaluator
						}
					}
					c, isCall := unparen(ret.Results[0]).(*ast.CallExpr)
					var h *FuncInfo
					if isCall {
						h = w.FuncOf(calleeOf(info, c))
					}
					if h == nil || h.Decl.Body == nil || depth >= 3 {
						undecided = "return " + short(w.Fset, ret.Results[0]) + " in " + g.Name()
						continue
					}
					judge(h, depth+1)
				}
			}
		}
		judge(f, 0)
		if undecided != "" {
			r.Lost(rule, "what the evaluator for *ast."+n+" returns ("+undecided+")")
			continue
		}
		if rets == 0 {
			r.Lost(rule, "returns of the evaluator for *ast."+n)
		} else if ok {
			r.Ok(rule, f.Name(), "yields nil on success", w.Pos(f.Decl.Pos()), fmt.Sprintf("%d return(s), the successful ones give (nil, nil)", rets))
		}
	}
}

func topLevelWriteRule(r *Run, rule string) {
	w := r.W
	top := w.topLevelEval()
	sink := w.sinkMethod()
	if top == nil || sink == nil {
		r.Lost(rule, "top-level evaluator / sink")
		return
	}
	info := top.Pkg.TypesInfo
	var loops []ast.Stmt
	inspectBody(top.Decl.Body, true, func(n ast.Node) bool {
		switch n.(type) {
		case *ast.ForStmt, *ast.RangeStmt:
			loops = append(loops, n.(ast.Stmt))
		}
		return true
	})
	if len(loops) != 1 {
		r.Bad(rule, top.Name(), fmt.Sprintf("%d loops", len(loops)), w.Pos(top.Decl.Pos()), "the top-level evaluator must have exactly one loop, the range over the program's statements")
		return
	}
	rs, ok := loops[0].(*ast.RangeStmt)
	progF := w.compilerField("program")
	okRange := false
	if ok {
		if bx, fld := fieldOf(info, rs.X); fld != nil && fld.Name() == "Statements" {
			if _, pf := fieldOf(info, bx); pf == progF {
				okRange = true
			}
		}
	}
	if okRange {
		r.Ok(rule, top.Name(), "range over program.Statements", w.Pos(rs.Pos()), "source order, each statement once")
	} else {
		r.Bad(rule, top.Name(), "statement loop", w.Pos(loops[0].Pos()), "the statements must be visited by a range over program.Statements (ascending, each once)")
		return
	}
	topLevelOnceRuleSSA(r, rule)
}

func literalTextRule(r *Run, rule string) {
	w := r.W
	pm := w.parserModel()
	if len(pm.problems) > 0 {
		r.Lost(rule, "parser model")
		return
	}
	pinfo := pm.info
	// the prefix function for HTML tokens builds HTMLLiteral{Value: p.curToken.Literal}
	if f := w.registeredFn("HTML", false); f != nil {
		ok := false
		inspectBody(f.Decl.Body, false, func(n ast.Node) bool {
			kv, isKV := n.(*ast.KeyValueExpr)
			if !isKV {
				return true
			}
			if k, _ := kv.Key.(*ast.Ident); k != nil && k.Name == "Value" {
				if bx, fld := fieldOf(pinfo, kv.Value); fld != nil && fld.Name() == "Literal" {
					if _, cf := fieldOf(pinfo, bx); cf == pm.cur {
						ok = true
					}
				}
			}
			return true
		})
		if ok && len(f.Decl.Body.List) == 1 {
			r.Ok(rule, f.Name(), "HTMLLiteral.Value = token literal", w.Pos(f.Decl.Pos()), "copied unmodified")
		} else {
			r.Bad(rule, f.Name(), "HTMLLiteral.Value", w.Pos(f.Decl.Pos()), "literal text must be stored exactly as the lexer delivered it")
		}
	} else {
		r.Lost(rule, "prefix function for HTML tokens")
	}
	// comment parser yields an empty-valued literal
	if f := w.registeredFn("<%#", false); f != nil {
		ok := false
		for _, ret := range returnsIn(f.Decl.Body) {
			if len(ret.Results) == 1 {
				e := unparen(ret.Results[0])
				if u, isU := e.(*ast.UnaryExpr); isU {
					e = u.X
				}
				if cl, isCl := e.(*ast.CompositeLit); isCl {
					for _, el := range cl.Elts {
						if kv, isKV := el.(*ast.KeyValueExpr); isKV {
							if k, _ := kv.Key.(*ast.Ident); k != nil && k.Name == "Value" {
								if s, isC := constString(pinfo, kv.Value); isC && s == "" {
									ok = true
								}
							}
						}
					}
				}
			}
		}
		if ok {
			r.Ok(rule, f.Name(), "comment tag yields an empty literal", w.Pos(f.Decl.Pos()), "Value: \"\"")
		} else {
			r.Bad(rule, f.Name(), "comment tag value", w.Pos(f.Decl.Pos()), "a comment tag must contribute nothing")
		}
	} else {
		r.Lost(rule, "prefix function for comment tags")
	}
	// evaluator: both HTMLLiteral sites are the plain conversion
	n := 0
	for _, f := range w.Funcs("") {
		info := f.Pkg.TypesInfo
		ast.Inspect(f.Decl.Body, func(nd ast.Node) bool {
			bx, fld := ast.Expr(nil), (*types.Var)(nil)
			if e, ok := nd.(ast.Expr); ok {
				bx, fld = fieldOf(info, e)
			}
			if fld == nil || fld.Name() != "Value" {
				return true
			}
			if tv, ok := info.Types[bx]; !ok || !namedIs(tv.Type, astPath, "HTMLLiteral") {
				return true
			}
			n++
			con := "use of HTMLLiteral.Value in " + short(w.Fset, w.Parent(nd))
			if c, ok := w.Parent(nd).(*ast.CallExpr); ok {
				if t, isConv := isConversion(info, c); isConv && namedIs(t, htmlTplPath, "HTML") {
					r.Ok(rule, f.Name(), con, w.Pos(nd.Pos()), "plain conversion to template.HTML (verbatim arm of the sink)")
					return true
				}
			}
			if c, ok := w.Parent(nd).(*ast.CallExpr); ok && isBuilderWrite(info, c) && writtenString(w, info, c) == ast.Expr(nd.(ast.Expr)) {
				r.Ok(rule, f.Name(), con, w.Pos(nd.Pos()), "written to the output as it is")
				return true
			}
			if c, ok := w.Parent(nd).(*ast.CallExpr); ok {
				if pi, isRaw := w.rawWriteHelpers()[calleeOf(info, c)]; isRaw && pi < len(c.Args) && unparen(c.Args[pi]) == ast.Expr(nd.(ast.Expr)) {
					r.Ok(rule, f.Name(), con, w.Pos(nd.Pos()), "written to the output as it is (through a helper that writes its string parameter)")
					return true
				}
			}
			if bc, ok := w.Parent(nd).(*ast.CallExpr); ok && isBytesOfString(w, info, bc) {
				if c, ok := w.Parent(bc).(*ast.CallExpr); ok && isBuilderWrite(info, c) {
					r.Ok(rule, f.Name(), con, w.Pos(nd.Pos()), "written to the output as it is")
					return true
				}
			}
			r.Bad(rule, f.Name(), con, w.Pos(nd.Pos()), "literal text must reach the sink as template.HTML(Value), untouched")
			return true
		})
	}
	if n < 2 {
		r.Bad(rule, "plush.compiler", fmt.Sprintf("%d literal-text sites", n), "-", "both the top-level loop and the expression evaluator must emit literal text")
	}
	_ = token.ADD
}
