package main

// c03loops.go (C03.R2): every loop of the parser ends at end of input. Decided
// on the paths of each parser function that has a loop (every loop explored
// for one iteration, bool-valued helpers of the package that do not move the
// token cursor walked in line): each way round a loop
//   - is bounded by a counter or a range, or
//   - moves the token cursor (nextToken, or an expectPeek that succeeded) AND
//     passes a test that cannot hold once the lexer only returns EOF: a token
//     test for a token other than EOF that was found true, an EOF test that
//     was found false, or the strict precedence comparison of the Pratt loop
//     (EOF has no precedence level).
// The verdict does not depend on where in the loop the test sits (condition,
// `if ... { break }`, `for { ... }`), nor on helper predicates.

import (
	"fmt"
	"go/constant"
	"go/token"
	"go/types"
	"sort"
	"strings"
	"sync"

	"golang.org/x/tools/go/ssa"
)

func isLoopHeader(b *ssa.BasicBlock) bool {
	for _, p := range b.Preds {
		if b.Dominates(p) {
			return true
		}
	}
	return false
}

// stepPhi: v is a loop counter: phi(constant, v+1) (or the rotated range form).
func stepPhi(v ssa.Value) bool {
	v = origValue(v)
	if bo, ok := v.(*ssa.BinOp); ok && bo.Op == token.ADD {
		if c, ok := bo.Y.(*ssa.Const); ok && c.Value != nil && constant.Compare(c.Value, token.EQL, constant.MakeInt64(1)) {
			v = bo.X
		}
	}
	phi, ok := v.(*ssa.Phi)
	if !ok {
		return false
	}
	init, step := false, false
	for _, e := range phi.Edges {
		if c, ok := e.(*ssa.Const); ok && c.Value != nil && c.Value.Kind() == constant.Int {
			init = true
			continue
		}
		bo, ok := e.(*ssa.BinOp)
		if !ok || bo.Op != token.ADD || bo.X != ssa.Value(phi) {
			return false
		}
		c, ok := bo.Y.(*ssa.Const)
		if !ok || c.Value == nil || constant.Compare(c.Value, token.NEQ, constant.MakeInt64(1)) {
			return false
		}
		step = true
	}
	return init && step
}

// structurallyBounded: the loop with header h runs a bounded number of times because of the shape of
// its condition alone: a counter stepping by one compared with something, or the loop-carried
// `found` of strings.Cut / a remainder that gets shorter every round.
func structurallyBounded(h *ssa.BasicBlock) string {
	if h == nil || len(h.Instrs) == 0 {
		return ""
	}
	ifi, ok := h.Instrs[len(h.Instrs)-1].(*ssa.If)
	if !ok {
		return ""
	}
	cond := ifi.Cond
	if u, isNot := cond.(*ssa.UnOp); isNot && u.Op == token.NOT {
		cond = u.X
	}
	if bo, ok := cond.(*ssa.BinOp); ok {
		switch bo.Op {
		case token.LSS, token.LEQ, token.GTR, token.GEQ, token.NEQ:
			if stepPhi(bo.X) || stepPhi(bo.Y) {
				return "a counter"
			}
		}
	}
	// for found { before, rest, found = strings.Cut(rest, sep) ... }
	if phi, ok := cond.(*ssa.Phi); ok && phi.Block() == h {
		for _, e := range phi.Edges {
			ex, ok := e.(*ssa.Extract)
			if !ok || ex.Index != 2 {
				continue
			}
			call, ok := ex.Tuple.(*ssa.Call)
			if !ok {
				continue
			}
			if pkg, name := staticCalleeName(call); pkg != "strings" || name != "Cut" || len(call.Call.Args) != 2 {
				continue
			}
			// the string that is cut is itself loop-carried and its next value is what Cut left over
			if rest, ok := call.Call.Args[0].(*ssa.Phi); ok && rest.Block() == h {
				for _, re := range rest.Edges {
					if rex, ok := re.(*ssa.Extract); ok && rex.Tuple == ssa.Value(call) && rex.Index == 1 {
						if sep, ok := call.Call.Args[1].(*ssa.Const); ok && sep.Value != nil && sep.Value.Kind() == constant.String && constant.StringVal(sep.Value) != "" {
							return "strings.Cut on what the previous round left over (shorter every time)"
						}
					}
				}
			}
		}
	}
	return ""
}

// parserSSA: the token cursor functions of the parser on the SSA form.
type parserSSA struct {
	next, curIs, peekIs, expect *ssa.Function
	curIdx, peekIdx             int
	pkg                         *ssa.Package
}

func (w *World) parserSSA() *parserSSA {
	pm := w.parserModel()
	if len(pm.problems) > 0 || pm.advance == nil || pm.curIs == nil || pm.peekIs == nil {
		return nil
	}
	w.SSA()
	ps := &parserSSA{next: w.SSAFunc(pm.advance), curIs: w.SSAFunc(pm.curIs), peekIs: w.SSAFunc(pm.peekIs), pkg: w.SSAPkg("parser")}
	if pm.expectPeek != nil {
		ps.expect = w.SSAFunc(pm.expectPeek)
	}
	if ps.next == nil || ps.curIs == nil || ps.peekIs == nil || ps.pkg == nil {
		return nil
	}
	st := pm.typ.Underlying().(*types.Struct)
	ps.curIdx, ps.peekIdx = fieldIndex(st, pm.cur), fieldIndex(st, pm.peek)
	return ps
}

// tokenTest: cond is curTokenIs(T) / peekTokenIs(T) / expectPeek(T), or a comparison of the current or
// peek token's Type with a constant; returns the token, which cursor, and whether the condition being
// true means "the token is T".
func (ps *parserSSA) tokenTest(p *pwPath, cond ssa.Value) (tok string, which string, positive bool, ok bool) {
	cond = p.resolve(cond)
	if c, isCall := cond.(*ssa.Call); isCall {
		cal := c.Call.StaticCallee()
		if (cal == ps.curIs || cal == ps.peekIs || (ps.expect != nil && cal == ps.expect)) && len(c.Call.Args) == 2 {
			if k, isC := p.constOf(c.Call.Args[1]); isC && k.Kind() == constant.String {
				which := "cur"
				if cal != ps.curIs {
					which = "peek"
				}
				return constant.StringVal(k), which, true, true
			}
		}
		return "", "", false, false
	}
	bo, isBO := cond.(*ssa.BinOp)
	if !isBO || (bo.Op != token.EQL && bo.Op != token.NEQ) {
		return "", "", false, false
	}
	x, y := p.resolve(bo.X), p.resolve(bo.Y)
	k, isC := p.constOf(y)
	if !isC {
		k, isC = p.constOf(x)
		x = y
	}
	if !isC || k.Kind() != constant.String {
		return "", "", false, false
	}
	ld, isLd := x.(*ssa.UnOp)
	if !isLd || ld.Op != token.MUL {
		return "", "", false, false
	}
	fa, isFA := ld.X.(*ssa.FieldAddr)
	if !isFA {
		return "", "", false, false
	}
	inner, isFA2 := p.resolve(fa.X).(*ssa.FieldAddr)
	if !isFA2 || (inner.Field != ps.curIdx && inner.Field != ps.peekIdx) {
		return "", "", false, false
	}
	which = "cur"
	if inner.Field == ps.peekIdx {
		which = "peek"
	}
	return constant.StringVal(k), which, bo.Op == token.EQL, true
}

func parserLoopsRuleSSA(r *Run, rule string) {
	w := r.W
	pm := w.parserModel()
	if len(pm.problems) > 0 || pm.advance == nil || pm.curIs == nil || pm.peekIs == nil {
		r.Lost(rule, "parser model: "+strings.Join(pm.problems, "; "))
		return
	}
	w.SSA()
	next, curIs, peekIs := w.SSAFunc(pm.advance), w.SSAFunc(pm.curIs), w.SSAFunc(pm.peekIs)
	var expect *ssa.Function
	if pm.expectPeek != nil {
		expect = w.SSAFunc(pm.expectPeek)
	}
	pkg := w.SSAPkg("parser")
	if next == nil || curIs == nil || peekIs == nil || pkg == nil {
		r.Lost(rule, "token cursor functions of the parser")
		return
	}
	st := pm.typ.Underlying().(*types.Struct)
	curIdx, peekIdx := fieldIndex(st, pm.cur), fieldIndex(st, pm.peek)
	// the precedence lookups (for the Pratt loop): methods that look up a constant table without an EOF key
	tables := constTablesOf(pkg)
	precLookup := func(fn *ssa.Function) (isLookup, hasEOF bool) {
		if fn == nil || fn.Pkg != pkg {
			return false, false
		}
		for _, b := range fn.Blocks {
			for _, ins := range b.Instrs {
				lk, ok := ins.(*ssa.Lookup)
				if !ok {
					continue
				}
				ld, ok := lk.X.(*ssa.UnOp)
				if !ok {
					continue
				}
				g, ok := ld.X.(*ssa.Global)
				if !ok || tables[g] == nil {
					continue
				}
				isLookup = true
				for _, k := range tables[g].keys {
					if k.Kind() == constant.String && constant.StringVal(k) == "EOF" {
						hasEOF = true
					}
				}
			}
		}
		return
	}
	// helpers that may be walked in line: no loop, and (transitively) no call that moves the cursor
	var pure func(fn *ssa.Function, depth int) bool
	pureMemo := map[*ssa.Function]bool{}
	pure = func(fn *ssa.Function, depth int) bool {
		if v, ok := pureMemo[fn]; ok {
			return v
		}
		pureMemo[fn] = false
		if fn.Pkg != pkg || len(fn.Blocks) == 0 || funcHasLoop(fn) || depth > 3 || fn == next || fn == expect {
			return false
		}
		// (a lookup of the precedence table is kept as a call: the Pratt comparison is recognised by it)
		if isL, _ := precLookup(fn); isL {
			return false
		}
		for _, b := range fn.Blocks {
			for _, ins := range b.Instrs {
				c, ok := ins.(*ssa.Call)
				if !ok {
					continue
				}
				if _, isB := c.Call.Value.(*ssa.Builtin); isB {
					continue
				}
				cal := c.Call.StaticCallee()
				if isL, _ := precLookup(cal); isL {
					continue // reads the precedence table: does not move the cursor
				}
				if cal == nil || !pure(cal, depth+1) {
					return false
				}
			}
		}
		pureMemo[fn] = true
		return true
	}
	var pureMu sync.Mutex // the walker calls the inline policy from several goroutines
	inline := func(caller, callee *ssa.Function) bool {
		pureMu.Lock()
		defer pureMu.Unlock()
		return callee != curIs && callee != peekIs && pure(callee, 0)
	}
	tokenTest := func(p *pwPath, cond ssa.Value) (tok string, ok bool) {
		cond = p.resolve(cond)
		if c, isCall := cond.(*ssa.Call); isCall {
			cal := c.Call.StaticCallee()
			if (cal == curIs || cal == peekIs || (expect != nil && cal == expect)) && len(c.Call.Args) == 2 {
				if k, isC := p.constOf(c.Call.Args[1]); isC && k.Kind() == constant.String {
					return constant.StringVal(k), true
				}
			}
			return "", false
		}
		return "", false
	}
	fieldTypeTest := func(p *pwPath, cond ssa.Value) (tok string, eq bool, ok bool) {
		bo, isBO := p.resolve(cond).(*ssa.BinOp)
		if !isBO || (bo.Op != token.EQL && bo.Op != token.NEQ) {
			return "", false, false
		}
		x, y := p.resolve(bo.X), p.resolve(bo.Y)
		k, isC := p.constOf(y)
		if !isC {
			k, isC = p.constOf(x)
			x = y
		}
		if !isC || k.Kind() != constant.String {
			return "", false, false
		}
		// x: load of <parser>.(cur|peek).Type
		ld, isLd := x.(*ssa.UnOp)
		if !isLd || ld.Op != token.MUL {
			return "", false, false
		}
		fa, isFA := ld.X.(*ssa.FieldAddr)
		if !isFA {
			return "", false, false
		}
		inner, isFA2 := p.resolve(fa.X).(*ssa.FieldAddr)
		if !isFA2 || (inner.Field != curIdx && inner.Field != peekIdx) {
			return "", false, false
		}
		return constant.StringVal(k), bo.Op == token.EQL, true
	}
	// mustMove: the function advances the token cursor before anything else can happen (its entry block
	// calls nextToken, or a function that does)
	var mustMove func(g *ssa.Function, depth int) bool
	mustMove = func(g *ssa.Function, depth int) bool {
		if g == nil || g.Pkg != pkg || len(g.Blocks) == 0 || depth > 2 {
			return false
		}
		for _, ins := range g.Blocks[0].Instrs {
			if c, ok := ins.(*ssa.Call); ok {
				if cal := c.Call.StaticCallee(); cal == next || mustMove(cal, depth+1) {
					return true
				}
			}
		}
		return false
	}
	type verdict struct {
		pos    token.Pos
		cycles int
		bad    []string
		how    map[string]bool
	}
	nLoops := 0
	for _, fn := range functionsOf(pkg) {
		if !funcHasLoop(fn) {
			continue
		}
		name := ssaName(fn)
		paths, complete := walkPathsUnrolled(fn, nil, inline, 60000)
		if !complete {
			r.Bad(rule, name, "loops of the function", w.Pos(fn.Pos()), "too many paths: the ways round its loops cannot be enumerated")
			continue
		}
		loops := map[*ssa.BasicBlock]*verdict{}
		for _, b := range fn.Blocks {
			if isLoopHeader(b) {
				loops[b] = &verdict{pos: firstPos(b), how: map[string]bool{}}
			}
		}
		for _, p := range paths {
			for _, mk := range p.marks {
				v := loops[mk.block]
				if v == nil {
					continue
				}
				v.cycles++
				moved, stops, bounded := false, false, false
				// bounded by construction, whatever the path decided: the loop's own condition compares a counter
				// that steps by one (also when the bound is a constant and the comparison folded away), or is the
				// "found" of strings.Cut applied to what the previous round left over
				if how := structurallyBounded(mk.block); how != "" {
					bounded = true
					v.how[how] = true
				}
				for i := mk.fromEvents; i < mk.nEvents && i < len(p.events); i++ {
					if c, ok := p.events[i].(*ssa.Call); ok && (c.Call.StaticCallee() == next || mustMove(c.Call.StaticCallee(), 0)) {
						moved = true
					}
				}
				for _, d := range p.decisions[mk.fromDecisions:min(mk.nDecisions, len(p.decisions))] {
					if tok, ok := tokenTest(p, d.cond); ok {
						c := p.resolve(d.cond).(*ssa.Call)
						if tok != "EOF" && d.truth {
							stops = true
							v.how["a token test that holds"] = true
							if expect != nil && c.Call.StaticCallee() == expect {
								moved = true
							}
						}
						if tok == "EOF" && !d.truth && c.Call.StaticCallee() != expect {
							stops = true
							v.how["an EOF test that fails"] = true
						}
						continue
					}
					if tok, eq, ok := fieldTypeTest(p, d.cond); ok {
						if tok != "EOF" && d.truth == eq {
							stops = true
							v.how["a token test that holds"] = true
						}
						if tok == "EOF" && d.truth != eq {
							stops = true
							v.how["an EOF test that fails"] = true
						}
						continue
					}
					if ex, ok := d.cond.(*ssa.Extract); ok && ex.Index == 0 && d.truth {
						if _, isNext := ex.Tuple.(*ssa.Next); isNext {
							bounded = true
							v.how["a range"] = true
						}
					}
					if bo, ok := d.cond.(*ssa.BinOp); ok {
						switch bo.Op {
						case token.LSS, token.LEQ, token.GTR, token.GEQ, token.NEQ:
							if stepPhi(bo.X) || stepPhi(bo.Y) {
								bounded = true
								v.how["a counter"] = true
							}
						}
						// level < lookup(peek) strictly: written as <, >, or as the failing >=, <=
						strictLess := func(x, y ssa.Value) bool {
							c, ok := p.resolve(y).(*ssa.Call)
							if !ok {
								return false
							}
							isL, hasEOF := precLookup(c.Call.StaticCallee())
							_, otherIsLookup := p.resolve(x).(*ssa.Call)
							return isL && !hasEOF && !otherIsLookup
						}
						okPratt := false
						switch bo.Op {
						case token.LSS:
							okPratt = d.truth && strictLess(bo.X, bo.Y)
						case token.GTR:
							okPratt = d.truth && strictLess(bo.Y, bo.X)
						case token.GEQ:
							okPratt = !d.truth && strictLess(bo.X, bo.Y)
						case token.LEQ:
							okPratt = !d.truth && strictLess(bo.Y, bo.X)
						}
						if okPratt {
							stops = true
							v.how["the strict precedence comparison (EOF has no level)"] = true
						}
					}
				}
				switch {
				case bounded:
				case !stops:
					v.bad = append(v.bad, "a way round the loop passes no test that fails at end of input (a token other than EOF found present, EOF found absent): on truncated input the lexer returns EOF forever and the loop never ends")
				case !moved:
					v.bad = append(v.bad, "a way round the loop does not move the token cursor: the same token is looked at again")
				}
			}
		}
		var hs []*ssa.BasicBlock
		for h := range loops {
			hs = append(hs, h)
		}
		sort.Slice(hs, func(i, j int) bool { return loops[hs[i]].pos < loops[hs[j]].pos })
		for i, h := range hs {
			v := loops[h]
			nLoops++
			con := fmt.Sprintf("loop #%d", i+1)
			if len(v.bad) > 0 {
				r.Bad(rule, name, con, w.Pos(v.pos), v.bad[0])
				continue
			}
			var hows []string
			for k := range v.how {
				hows = append(hows, k)
			}
			sort.Strings(hows)
			if v.cycles == 0 {
				r.Ok(rule, name, con, w.Pos(v.pos), "no path goes round")
			} else {
				r.Ok(rule, name, con, w.Pos(v.pos), fmt.Sprintf("%d way(s) round, each bounded or moving the cursor past %s", v.cycles, strings.Join(hows, " / ")))
			}
		}
	}
	if nLoops == 0 {
		r.Lost(rule, "loops of the parser")
	}
}
