package main

// c18lines.go (C18.R7): the layout of a code tag reaches the program only as line numbers, and line
// numbers reach nothing but error messages. No branch of the lexer, the parser, the tree or the
// evaluator may depend on a line: a decision fed by Token.LineNumber (or by the lexer's line counter)
// makes a newline between two tokens significant.

import (
	"fmt"
	"go/token"
	"go/types"

	"golang.org/x/tools/go/ssa"
)

func lineDecisionsRule(r *Run, rule string) {
	w := r.W
	prog := w.SSA()
	lm := analyseLexerArmsLight(w)
	var counter *types.Var
	if lm != nil {
		counter = lm.line
	}
	lineFields := map[*types.Var]bool{}
	isLineField := func(t types.Type, idx int) bool {
		if pt, ok := t.Underlying().(*types.Pointer); ok {
			t = pt.Elem()
		}
		st, ok := t.Underlying().(*types.Struct)
		if !ok || idx >= st.NumFields() {
			return false
		}
		f := st.Field(idx)
		if counter != nil && f == counter {
			return true
		}
		if lineFields[f] {
			return true // a field some function keeps a line in (the line of the tag being parsed, ...)
		}
		return f.Name() == "LineNumber" && isIntType(f.Type())
	}
	// source: a read of a line
	isLineRead := func(v ssa.Value) bool {
		switch x := v.(type) {
		case *ssa.Field:
			return isLineField(x.X.Type(), x.Field)
		case *ssa.UnOp:
			if x.Op == token.MUL {
				if fa, ok := x.X.(*ssa.FieldAddr); ok {
					return isLineField(fa.X.Type(), fa.Field)
				}
			}
		}
		return false
	}
	// dependsOnLine: v is computed from a line. lineParams: parameters of the function under analysis that
	// receive a line (when a helper's result is followed into the helper).
	callMemo := map[string]bool{}
	var dependsOnLine func(v ssa.Value, depth int, seen map[ssa.Value]bool, lineParams map[*ssa.Parameter]bool) bool
	dependsOnLine = func(v ssa.Value, depth int, seen map[ssa.Value]bool, lineParams map[*ssa.Parameter]bool) bool {
		if v == nil || depth > 14 || seen[v] {
			return false
		}
		seen[v] = true
		if isLineRead(v) {
			return true
		}
		rec := func(x ssa.Value) bool { return dependsOnLine(x, depth+1, seen, lineParams) }
		// result idx of a call: of a builtin, its operands; of a function of the module, what it returns there
		// given which of its parameters carry a line (a line handed to a helper only for its messages does not
		// make the helper's verdict depend on it)
		callResult := func(c *ssa.Call, idx int) bool {
			if _, isB := c.Call.Value.(*ssa.Builtin); isB {
				for _, a := range c.Call.Args {
					if isIntType(a.Type()) && rec(a) {
						return true
					}
				}
				return false
			}
			g := c.Call.StaticCallee()
			if g == nil || !inModule(g) || len(g.Blocks) == 0 || len(g.Params) != len(c.Call.Args) {
				return false
			}
			lp := map[*ssa.Parameter]bool{}
			mask := uint64(0)
			for i, a := range c.Call.Args {
				if isIntType(a.Type()) && dependsOnLine(a, depth+1, map[ssa.Value]bool{}, lineParams) {
					lp[g.Params[i]] = true
					mask |= 1 << uint(i%64)
				}
			}
			mk := fmt.Sprintf("%p/%d/%x", g, idx, mask)
			if r, have := callMemo[mk]; have {
				return r
			}
			callMemo[mk] = false // in progress (recursion): no dependence found on this way round
			res := false
			defer func() { callMemo[mk] = res }()
			for _, b := range g.Blocks {
				ret, isRet := b.Instrs[len(b.Instrs)-1].(*ssa.Return)
				if !isRet {
					continue
				}
				ops := retOperands(ret)
				if idx < len(ops) && dependsOnLine(ops[idx], depth+2, map[ssa.Value]bool{}, lp) {
					res = true
					return true
				}
				// (which return is taken may depend on a line as well)
				for _, f := range dominatingFacts(b) {
					if dependsOnLine(f.cond, depth+2, map[ssa.Value]bool{}, lp) {
						res = true
						return true
					}
				}
			}
			return false
		}
		switch x := v.(type) {
		case *ssa.Parameter:
			return lineParams[x]
		case *ssa.BinOp:
			return rec(x.X) || rec(x.Y)
		case *ssa.UnOp:
			if x.Op == token.MUL {
				// a local the line was stored in
				if al, ok := x.X.(*ssa.Alloc); ok {
					for _, ref := range *al.Referrers() {
						if st, ok := ref.(*ssa.Store); ok && st.Addr == ssa.Value(al) && rec(st.Val) {
							return true
						}
					}
				}
				return false
			}
			return rec(x.X)
		case *ssa.Convert:
			return rec(x.X)
		case *ssa.ChangeType:
			return rec(x.X)
		case *ssa.Phi:
			for _, e := range x.Edges {
				if rec(e) {
					return true
				}
			}
		case *ssa.Call:
			return callResult(x, 0)
		case *ssa.Extract:
			if c, isCall := x.Tuple.(*ssa.Call); isCall {
				return callResult(c, x.Index)
			}
			return rec(x.Tuple)
		}
		return false
	}
	// fields that are made to carry a line: an int field that is stored a value computed from one (to a fixpoint)
	for round := 0; round < 4; round++ {
		grew := false
		for _, rel := range []string{"lexer", "parser", "ast", "token", ""} {
			for _, f := range w.Funcs(rel) {
				fn := w.SSAFunc(f)
				if fn == nil {
					continue
				}
				for _, g := range append([]*ssa.Function{fn}, allAnon(fn)...) {
					for _, b := range g.Blocks {
						for _, ins := range b.Instrs {
							st, ok := ins.(*ssa.Store)
							if !ok || !isIntType(st.Val.Type()) {
								continue
							}
							fa, ok := st.Addr.(*ssa.FieldAddr)
							if !ok {
								continue
							}
							t := fa.X.Type()
							if pt, isPtr := t.Underlying().(*types.Pointer); isPtr {
								t = pt.Elem()
							}
							sty, ok := t.Underlying().(*types.Struct)
							if !ok || fa.Field >= sty.NumFields() || isLineField(t, fa.Field) {
								continue
							}
							if dependsOnLine(st.Val, 0, map[ssa.Value]bool{}, nil) {
								lineFields[sty.Field(fa.Field)] = true
								grew = true
							}
						}
					}
				}
			}
		}
		if !grew {
			break
		}
		for k := range callMemo {
			delete(callMemo, k)
		}
	}
	nFuncs, nBranches := 0, 0
	for _, rel := range []string{"lexer", "parser", "ast", "token", ""} {
		for _, f := range w.Funcs(rel) {
			fn := w.SSAFunc(f)
			if fn == nil {
				continue
			}
			nFuncs++
			for _, g := range append([]*ssa.Function{fn}, allAnon(fn)...) {
				for _, b := range g.Blocks {
					if len(b.Instrs) == 0 {
						continue
					}
					iff, ok := b.Instrs[len(b.Instrs)-1].(*ssa.If)
					if !ok {
						continue
					}
					nBranches++
					if !dependsOnLine(iff.Cond, 0, map[ssa.Value]bool{}, nil) {
						continue
					}
					// the one licensed use: the line counter's own bookkeeping compares characters, not lines; a
					// comparison that involves a line is never needed
					r.Bad(rule, ssaName(g), "branch on a line number", w.Pos(firstCondPos(iff)),
						"a decision depends on a token's line (or the lexer's line counter): a newline between two tokens changes what is lexed, parsed or evaluated; lines may only be reported")
				}
			}
		}
	}
	_ = prog
	if nFuncs == 0 {
		r.Lost(rule, "functions of the lexer, parser and evaluator")
		return
	}
	r.Ok(rule, "-", "no branch depends on a line number", "-", fmt.Sprintf("%d conditional branch(es) in %d function(s) of token, lexer, parser, ast and the evaluator: none is fed by Token.LineNumber or the lexer's line counter", nBranches, nFuncs))
}

func firstCondPos(iff *ssa.If) token.Pos {
	if iff.Cond != nil && iff.Cond.Pos().IsValid() {
		return iff.Cond.Pos()
	}
	if bo, ok := iff.Cond.(*ssa.BinOp); ok {
		if bo.X.Pos().IsValid() {
			return bo.X.Pos()
		}
		return bo.Y.Pos()
	}
	return firstPos(iff.Block())
}
