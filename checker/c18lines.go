package main

// c18lines.go (C18.R7): the layout of a code tag reaches the program only as line numbers, and line
// numbers reach nothing but error messages. No branch of the lexer, the parser, the tree or the
// evaluator may depend on a line: a decision fed by Token.LineNumber (or by the lexer's line counter)
// makes a newline between two tokens significant.

import (
	"fmt"
	"go/token"
	"go/types"

	"golang.org/x/tools/go/ssa"
)

func lineDecisionsRule(r *Run, rule string) {
	w := r.W
	prog := w.SSA()
	lm := analyseLexerArmsLight(w)
	var counter *types.Var
	if lm != nil {
		counter = lm.line
	}
	isLineField := func(t types.Type, idx int) bool {
		if pt, ok := t.Underlying().(*types.Pointer); ok {
			t = pt.Elem()
		}
		st, ok := t.Underlying().(*types.Struct)
		if !ok || idx >= st.NumFields() {
			return false
		}
		f := st.Field(idx)
		if counter != nil && f == counter {
			return true
		}
		return f.Name() == "LineNumber" && isIntType(f.Type())
	}
	// source: a read of a line
	isLineRead := func(v ssa.Value) bool {
		switch x := v.(type) {
		case *ssa.Field:
			return isLineField(x.X.Type(), x.Field)
		case *ssa.UnOp:
			if x.Op == token.MUL {
				if fa, ok := x.X.(*ssa.FieldAddr); ok {
					return isLineField(fa.X.Type(), fa.Field)
				}
			}
		}
		return false
	}
	var dependsOnLine func(v ssa.Value, depth int, seen map[ssa.Value]bool) bool
	dependsOnLine = func(v ssa.Value, depth int, seen map[ssa.Value]bool) bool {
		if v == nil || depth > 12 || seen[v] {
			return false
		}
		seen[v] = true
		if isLineRead(v) {
			return true
		}
		switch x := v.(type) {
		case *ssa.BinOp:
			return dependsOnLine(x.X, depth+1, seen) || dependsOnLine(x.Y, depth+1, seen)
		case *ssa.UnOp:
			if x.Op == token.MUL {
				// a local the line was stored in
				if al, ok := x.X.(*ssa.Alloc); ok {
					for _, ref := range *al.Referrers() {
						if st, ok := ref.(*ssa.Store); ok && st.Addr == ssa.Value(al) && dependsOnLine(st.Val, depth+1, seen) {
							return true
						}
					}
				}
				return false
			}
			return dependsOnLine(x.X, depth+1, seen)
		case *ssa.Convert:
			return dependsOnLine(x.X, depth+1, seen)
		case *ssa.ChangeType:
			return dependsOnLine(x.X, depth+1, seen)
		case *ssa.Phi:
			for _, e := range x.Edges {
				if dependsOnLine(e, depth+1, seen) {
					return true
				}
			}
		case *ssa.Call:
			// min / max / a pure helper of the module fed with a line
			if _, isB := x.Call.Value.(*ssa.Builtin); isB || (x.Call.StaticCallee() != nil && inModule(x.Call.StaticCallee())) {
				for _, a := range x.Call.Args {
					if isIntType(a.Type()) && dependsOnLine(a, depth+1, seen) {
						return true
					}
				}
			}
		case *ssa.Extract:
			return dependsOnLine(x.Tuple, depth+1, seen)
		}
		return false
	}
	nFuncs, nBranches := 0, 0
	for _, rel := range []string{"lexer", "parser", "ast", "token", ""} {
		for _, f := range w.Funcs(rel) {
			fn := w.SSAFunc(f)
			if fn == nil {
				continue
			}
			nFuncs++
			for _, g := range append([]*ssa.Function{fn}, allAnon(fn)...) {
				for _, b := range g.Blocks {
					if len(b.Instrs) == 0 {
						continue
					}
					iff, ok := b.Instrs[len(b.Instrs)-1].(*ssa.If)
					if !ok {
						continue
					}
					nBranches++
					if !dependsOnLine(iff.Cond, 0, map[ssa.Value]bool{}) {
						continue
					}
					// the one licensed use: the line counter's own bookkeeping compares characters, not lines; a
					// comparison that involves a line is never needed
					r.Bad(rule, ssaName(g), "branch on a line number", w.Pos(firstCondPos(iff)),
						"a decision depends on a token's line (or the lexer's line counter): a newline between two tokens changes what is lexed, parsed or evaluated; lines may only be reported")
				}
			}
		}
	}
	_ = prog
	if nFuncs == 0 {
		r.Lost(rule, "functions of the lexer, parser and evaluator")
		return
	}
	r.Ok(rule, "-", "no branch depends on a line number", "-", fmt.Sprintf("%d conditional branch(es) in %d function(s) of token, lexer, parser, ast and the evaluator: none is fed by Token.LineNumber or the lexer's line counter", nBranches, nFuncs))
}

func firstCondPos(iff *ssa.If) token.Pos {
	if iff.Cond != nil && iff.Cond.Pos().IsValid() {
		return iff.Cond.Pos()
	}
	if bo, ok := iff.Cond.(*ssa.BinOp); ok {
		if bo.X.Pos().IsValid() {
			return bo.X.Pos()
		}
		return bo.Y.Pos()
	}
	return firstPos(iff.Block())
}
