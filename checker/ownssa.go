package main

// ownssa.go: two structural rules on the SSA form of the evaluator package.
//
//   - conversions of template-supplied values keep the kind (C11.R8): a
//     reflect.Value.Convert applied to a value that came out of an evaluation
//     is reached only where a dominating test has found the value's kind equal
//     to the target's kind. Convert between kinds changes the value (65 ->
//     "A", 1.5 -> 1): a path like m[65] on a map[string]T would find the "A"
//     entry instead of failing.
//   - buffers are owned by the activation (C12.R8, C16.R8): the evaluator is
//     recursive - evaluating an argument may run the same function again - so
//     an argument vector or a parameter-value buffer that is kept in a field
//     (of the evaluator, of the function object) or in a package variable is
//     overwritten by the nested call. The vector handed to reflect's Call and
//     every slice whose elements are stored to must originate in the
//     activation (make, a literal, nil + append), not in a field or global.

import (
	"fmt"
	"go/token"
	"go/types"

	"golang.org/x/tools/go/ssa"
)

// isKindOf: v is reflect.Value.Kind(x) or reflect.Type.Kind(x); returns x.
func kindOperand(v ssa.Value) (ssa.Value, bool) {
	if recv, _, ok := reflectValueCall(v, "Kind"); ok {
		return throughCell(recv), true
	}
	if recv, _, ok := reflectTypeInvoke(v, "Kind"); ok {
		// the kind of v.Type() is the kind of v
		if val, _, isType := reflectValueCall(throughCell(recv), "Type"); isType {
			return throughCell(val), true
		}
		return throughCell(recv), true
	}
	return nil, false
}

func convertKindRule(r *Run, rule string) {
	w := r.W
	w.SSA()
	pkg := w.SSAPkg("")
	if pkg == nil {
		r.Lost(rule, "evaluator package")
		return
	}
	n := 0
	for _, fn := range functionsOf(pkg) {
		for _, b := range fn.Blocks {
			for _, ins := range b.Instrs {
				call, ok := ins.(*ssa.Call)
				if !ok {
					continue
				}
				recv, args, ok := reflectValueCall(call, "Convert")
				if !ok || len(args) != 1 {
					continue
				}
				n++
				name := ssaName(fn)
				con := "Convert of " + valueText(recv)
				recv = throughCell(recv)
				// a value of a static Go type (built by the evaluator itself): the conversion is decided by the types
				if vo, ok := reflectFunc(recv, "ValueOf"); ok && len(vo) == 1 {
					if mi, ok := vo[0].(*ssa.MakeInterface); ok && !types.IsInterface(mi.X.Type()) {
						r.Ok(rule, name, con, w.Pos(call.Pos()), "the converted value has a static Go type; no template value is re-interpreted")
						continue
					}
				}
				target := throughCell(args[0])
				okKind := false
				lg := newLedger(w, fn)
				same := func(a, b ssa.Value) bool { return sameRef(a, b) || lg.key(a) == lg.key(b) }
				for _, f := range dominatingFacts(b) {
					bo, ok := f.cond.(*ssa.BinOp)
					if !ok || (bo.Op != token.EQL && bo.Op != token.NEQ) || f.truth != (bo.Op == token.EQL) {
						continue
					}
					x, okx := kindOperand(bo.X)
					y, oky := kindOperand(bo.Y)
					if !okx || !oky {
						continue
					}
					if (same(x, recv) && same(y, target)) || (same(y, recv) && same(x, target)) {
						okKind = true
					}
				}
				if okKind {
					r.Ok(rule, name, con, w.Pos(call.Pos()), "reached only where the value's kind equals the target's kind (a named type of the same kind, as Go converts an untyped constant)")
				} else {
					r.Bad(rule, name, con, w.Pos(call.Pos()),
						"a template-supplied value is converted without a dominating test that its kind equals the target's kind: reflect converts int to string (65 -> \"A\") and truncates floats, so a path that Go would reject finds another entry instead of failing")
				}
			}
		}
	}
	if n == 0 {
		r.Ok(rule, "plush", "no reflect conversion of values", "-", "nothing is converted")
	}
}

// sameRef: the two values denote the same reflect.Value / reflect.Type (the same SSA value, or two
// calls Type()/Key()/Elem() chains on the same operands).
func sameRef(a, b ssa.Value) bool {
	a, b = throughCell(a), throughCell(b)
	if a == b {
		return true
	}
	ca, ok1 := a.(*ssa.Call)
	cb, ok2 := b.(*ssa.Call)
	if !ok1 || !ok2 {
		return false
	}
	pa, na := staticCalleeName(ca)
	pb, nb := staticCalleeName(cb)
	if ca.Call.IsInvoke() != cb.Call.IsInvoke() {
		return false
	}
	if ca.Call.IsInvoke() {
		if ca.Call.Method.Name() != cb.Call.Method.Name() || len(ca.Call.Args) != 0 || len(cb.Call.Args) != 0 {
			return false
		}
		switch ca.Call.Method.Name() {
		case "Key", "Elem":
			return sameRef(ca.Call.Value, cb.Call.Value)
		}
		return false
	}
	if pa != pb || na != nb || pa != "reflect" || len(ca.Call.Args) != 1 || len(cb.Call.Args) != 1 {
		return false
	}
	switch na {
	case "(Value).Type", "(Value).Elem", "Indirect":
		return sameRef(ca.Call.Args[0], cb.Call.Args[0])
	}
	return false
}

func valueText(v ssa.Value) string {
	if v == nil {
		return "?"
	}
	if n := v.Name(); n != "" {
		return n
	}
	return v.String()
}

// sharedBase: the slice value v is (a re-slice, an append result, a phi ...) of a slice kept in a field
// of a heap object or in a package variable; returns a description of that place.
func sharedBase(v ssa.Value, seen map[ssa.Value]bool, depth int) string {
	if v == nil || seen[v] || depth > 12 {
		return ""
	}
	seen[v] = true
	switch x := v.(type) {
	case *ssa.Phi:
		for _, e := range x.Edges {
			if s := sharedBase(e, seen, depth+1); s != "" {
				return s
			}
		}
	case *ssa.Slice:
		return sharedBase(x.X, seen, depth+1)
	case *ssa.Call:
		if b, ok := x.Call.Value.(*ssa.Builtin); ok && b.Name() == "append" && len(x.Call.Args) > 0 {
			return sharedBase(x.Call.Args[0], seen, depth+1)
		}
		// a helper of the module that hands out the buffer: what it returns
		if g := x.Call.StaticCallee(); g != nil && inModule(g) && len(g.Blocks) > 0 && g.Signature.Results().Len() == 1 {
			for _, b := range g.Blocks {
				if ret, ok := b.Instrs[len(b.Instrs)-1].(*ssa.Return); ok && len(ret.Results) == 1 {
					if s := sharedBase(ret.Results[0], seen, depth+1); s != "" {
						return s
					}
				}
			}
		}
	case *ssa.ChangeType:
		return sharedBase(x.X, seen, depth+1)
	case *ssa.UnOp:
		if x.Op != token.MUL {
			return ""
		}
		if sv := cellValue(x); sv != nil {
			return sharedBase(sv, seen, depth+1)
		}
		switch a := x.X.(type) {
		case *ssa.Alloc:
			// a local kept in a cell (a closure captures it): every value this function stores into it
			if refs := a.Referrers(); refs != nil {
				for _, ref := range *refs {
					if st, ok := ref.(*ssa.Store); ok && st.Addr == ssa.Value(a) {
						if s := sharedBase(st.Val, seen, depth+1); s != "" {
							return s
						}
					}
				}
			}
			return ""
		case *ssa.Global:
			return "package variable " + a.Name()
		case *ssa.FieldAddr:
			// a field of an object that outlives the activation: reached through a parameter, a load, a call result
			base := a.X
			for i := 0; i < 4; i++ {
				if fa, ok := base.(*ssa.FieldAddr); ok {
					base = fa.X
					continue
				}
				break
			}
			if al, ok := base.(*ssa.Alloc); ok {
				// an object built in this activation: its fields are this activation's own
				_ = al
				return ""
			}
			if builtPerCall(base, 0) {
				// a small state object every caller builds for the call (args := &callArgs{}; args.add(v))
				return ""
			}
			if st, ok := deref(a.X.Type()).Underlying().(*types.Struct); ok && a.Field < st.NumFields() {
				return fmt.Sprintf("field %s of %s", st.Field(a.Field).Name(), typeStr(deref(a.X.Type())))
			}
			return "a field"
		}
	}
	return ""
}

// builtPerCall: v is a parameter (or free variable) that, at every static call site of its function in the package,
// is bound to an object the caller builds itself (an allocation, or a parameter of the caller that is in turn
// built per call). Deferred calls count as sites.
func builtPerCall(v ssa.Value, depth int) bool {
	if depth > 4 {
		return false
	}
	switch x := v.(type) {
	case *ssa.Alloc:
		return true
	case *ssa.Parameter:
		fn := x.Parent()
		idx := -1
		for i, q := range fn.Params {
			if q == x {
				idx = i
			}
		}
		if idx < 0 || pkgOf(fn) == nil {
			return false
		}
		// a method of the evaluator, the function object, a template or a context: the receiver lives on
		n := 0
		for _, g := range functionsOf(pkgOf(fn)) {
			for _, b := range g.Blocks {
				for _, ins := range b.Instrs {
					ci, ok := ins.(ssa.CallInstruction)
					if !ok || ci.Common().StaticCallee() != fn {
						continue
					}
					n++
					if idx >= len(ci.Common().Args) || !builtPerCall(ci.Common().Args[idx], depth+1) {
						return false
					}
				}
			}
		}
		// (a method value or an interface call could reach it too: only unexported functions are judged this way)
		return n > 0 && fnObject(fn) != nil && !fnObject(fn).Exported()
	case *ssa.FreeVar:
		// the captured variable of a closure: what the enclosing function binds
		fn := x.Parent()
		idx := -1
		for i, q := range fn.FreeVars {
			if q == x {
				idx = i
			}
		}
		if idx < 0 || fn.Parent() == nil {
			return false
		}
		for _, b := range fn.Parent().Blocks {
			for _, ins := range b.Instrs {
				if mc, ok := ins.(*ssa.MakeClosure); ok && mc.Fn == ssa.Value(fn) && idx < len(mc.Bindings) {
					return builtPerCall(mc.Bindings[idx], depth+1)
				}
			}
		}
	case *ssa.UnOp:
		if x.Op == token.MUL {
			// a pointer kept in a local cell
			if al, ok := x.X.(*ssa.Alloc); ok && al.Referrers() != nil {
				n := 0
				for _, ref := range *al.Referrers() {
					if st, ok := ref.(*ssa.Store); ok && st.Addr == ssa.Value(al) {
						n++
						if !builtPerCall(st.Val, depth+1) {
							return false
						}
					}
				}
				return n > 0
			}
			return builtPerCall(x.X, depth+1)
		}
	}
	return false
}

// activationBuffersRule: in the functions selected by pick, (1) the vector handed to reflect.Value.Call /
// CallSlice and (2) every slice whose elements are stored to do not come from a field or a package variable.
func activationBuffersRule(r *Run, rule string, pick func(fn *ssa.Function) bool, what string) {
	w := r.W
	w.SSA()
	pkg := w.SSAPkg("")
	if pkg == nil {
		r.Lost(rule, "evaluator package")
		return
	}
	nFn, nSites := 0, 0
	for _, fn := range functionsOf(pkg) {
		if !pick(fn) {
			continue
		}
		nFn++
		name := ssaName(fn)
		for _, b := range fn.Blocks {
			for _, ins := range b.Instrs {
				switch x := ins.(type) {
				case *ssa.Call:
					// append(buffer, v): the buffer the values are collected in
					if b, isB := x.Call.Value.(*ssa.Builtin); isB && b.Name() == "append" && len(x.Call.Args) == 2 {
						if s := sharedBase(x.Call.Args[0], map[ssa.Value]bool{}, 0); s != "" {
							nSites++
							r.Bad(rule, name, "append to "+s, w.Pos(x.Pos()),
								"values are collected in a buffer kept in "+s+": the evaluator is recursive, so another activation that runs before this one has handed its values on (a nested or a following loop, the same function called for an argument) reuses the storage and overwrites them")
						}
					}
					for _, m := range []string{"Call", "CallSlice"} {
						if _, args, ok := reflectValueCall(x, m); ok && len(args) == 1 {
							nSites++
							if s := sharedBase(args[0], map[ssa.Value]bool{}, 0); s != "" {
								r.Bad(rule, name, "argument vector from "+s, w.Pos(x.Pos()),
									"the vector handed to the Go function is kept in "+s+" between calls: the evaluator is recursive, so a call evaluated for a later argument reuses the same storage and overwrites the arguments already evaluated for this call")
							} else {
								r.Ok(rule, name, "argument vector of "+valueText(x), w.Pos(x.Pos()), "built in this activation")
							}
						}
					}
				case *ssa.Store:
					ia, ok := x.Addr.(*ssa.IndexAddr)
					if !ok {
						continue
					}
					if _, isSlice := ia.X.Type().Underlying().(*types.Slice); !isSlice {
						continue
					}
					nSites++
					if s := sharedBase(ia.X, map[ssa.Value]bool{}, 0); s != "" {
						r.Bad(rule, name, "element store into "+s, w.Pos(x.Pos()),
							"values are collected in a buffer kept in "+s+": the evaluator is recursive, so a nested activation (the same function called while an argument is evaluated) overwrites what this activation stored")
					} else {
						r.Ok(rule, name, "element store into "+valueText(ia.X), w.Pos(x.Pos()), "the slice originates in this activation")
					}
				}
			}
		}
	}
	if nFn == 0 {
		r.Lost(rule, what)
		return
	}
	if nSites == 0 {
		r.Ok(rule, "plush", "no buffer sites in "+what, "-", "nothing to own")
	}
}

// sharedTemplateRule (C14.R6): a *Template is shared - the cache hands the same one to every caller
// of Parse/Render, and Exec runs on it from many goroutines. Apart from the parsed program (written
// once, under the nil test: R1) its fields are only read: no function of the package stores into a
// field of a Template it did not just build, and no field's address is handed to other code (a
// buffer kept in the template and reset by every Exec).
func sharedTemplateRule(r *Run, rule string) {
	w := r.W
	w.SSA()
	pkg := w.SSAPkg("")
	tt := w.NamedType("", "Template")
	if pkg == nil || tt == nil {
		r.Lost(rule, "Template type")
		return
	}
	st, ok := tt.Underlying().(*types.Struct)
	if !ok {
		r.Lost(rule, "Template struct")
		return
	}
	progIdx := -1
	for i := 0; i < st.NumFields(); i++ {
		if namedIs(st.Field(i).Type(), astPath, "Program") {
			progIdx = i
		}
	}
	isTemplatePtr := func(t types.Type) bool {
		pt, ok := t.(*types.Pointer)
		if !ok {
			return false
		}
		n, ok := pt.Elem().(*types.Named)
		return ok && n.Obj() == tt.Obj()
	}
	n := 0
	for _, fn := range functionsOf(pkg) {
		for _, b := range fn.Blocks {
			for _, ins := range b.Instrs {
				fa, ok := ins.(*ssa.FieldAddr)
				if !ok || !isTemplatePtr(fa.X.Type()) || fa.Referrers() == nil {
					continue
				}
				// a template under construction (a literal of this function) is not shared yet
				if al, isAlloc := fa.X.(*ssa.Alloc); isAlloc && al.Heap {
					continue
				}
				n++
				name := ssaName(fn)
				con := "field " + st.Field(fa.Field).Name() + " of a Template"
				bad := ""
				for _, ref := range *fa.Referrers() {
					switch x := ref.(type) {
					case *ssa.UnOp, *ssa.DebugRef:
					case *ssa.Store:
						if x.Addr == ssa.Value(fa) && fa.Field != progIdx {
							bad = "the field is written: executions of one template on several goroutines (the cache shares it) race on it"
						}
						if x.Val == ssa.Value(fa) {
							bad = "the address of the field is stored"
						}
					case *ssa.FieldAddr, *ssa.IndexAddr:
						// a part of the field: judged where it is used (conservatively: any use other than a load)
						for _, r2 := range *x.(ssa.Value).Referrers() {
							if _, isLoad := r2.(*ssa.UnOp); !isLoad {
								if _, isDbg := r2.(*ssa.DebugRef); !isDbg {
									bad = "a part of the field is written or handed on"
								}
							}
						}
					default:
						bad = "the address of the field is handed to other code (a buffer or cache kept in the template): every Exec of the shared template then works on the same storage"
					}
				}
				if bad != "" {
					r.Bad(rule, name, con, w.Pos(fa.Pos()), bad)
				} else {
					r.Ok(rule, name, con, w.Pos(fa.Pos()), "only read (the program field: written once under the nil test, R1)")
				}
			}
		}
	}
	if n == 0 {
		r.Lost(rule, "uses of the fields of Template")
	}
}
