package main

import (
	"go/types"
)

func init() {
	register("C07", checkC07, "parsing of else-if chains into the tree beyond the order of the clauses (R4); truth values of application-defined types beyond the kinds listed; unknown-identifier tolerance is decided under C05.R2")
}

func checkC07(r *Run) {
	r.Rule("R1", "one predicate: every branch decision of the prefix/if/else-if/infix evaluators that depends on an evaluated template value obtains it through the truthiness predicate (licensed: the nil-operand dispatch and the operand type switch of the infix evaluator)", 1)
	r.Rule("R2", "falsy set of the predicate: nil, false, \"\", empty template.HTML, nil pointer -- nothing more, nothing less; comparisons only in single-type arms", 1)
	r.Rule("R3", "branch selection: main block only on the truthy edge and returned at once; else-ifs visited by one ascending range, condition and block of the same element, first truthy returns; else block only after the loop", 1)
	r.Rule("R4", "the parser puts the else-if clauses into the tree in source order: the chain is only ever extended at its end by the clause just parsed, and nothing else adds to it between parsing a clause and adding it", 2)
	truthyUseRuleSSA(r, "R1")
	falsySetRuleSSA(r, "R2")
	ifBranchRuleSSA(r, "R3")
	elseIfOrderRule(r, "R4")
	r.Rule("R5", "an unknown identifier is falsy in member and call position too: while the tolerance sites assert the concrete error type, no function wraps the error of an expression evaluation into a new one", 1)
	unknownIdentifierPassThroughRule(r, "R5")
}

// ---- R2 ---------------------------------------------------------------------

func isBasicKind(t types.Type, k types.BasicKind) bool {
	b, ok := t.Underlying().(*types.Basic)
	return ok && b.Kind() == k
}

func isNamed(t types.Type) bool {
	_, ok := t.(*types.Named)
	return ok
}

// ---- R3 ---------------------------------------------------------------------
