package main

import (
	"go/ast"
	"go/token"
	"go/types"
)

func init() {
	register("C07", checkC07, "parsing of else-if chains into the tree; truth values of application-defined types beyond the kinds listed; unknown-identifier tolerance is decided under C05.R2")
}

func checkC07(r *Run) {
	r.Rule("R1", "one predicate: every branch decision of the prefix/if/else-if/infix evaluators that depends on an evaluated template value obtains it through the truthiness predicate (licensed: the nil-operand dispatch and the operand type switch of the infix evaluator)", 1)
	r.Rule("R2", "falsy set of the predicate: nil, false, \"\", empty template.HTML, nil pointer -- nothing more, nothing less; comparisons only in single-type arms", 1)
	r.Rule("R3", "branch selection: main block only on the truthy edge and returned at once; else-ifs visited by one ascending range, condition and block of the same element, first truthy returns; else block only after the loop", 1)
	truthyUseRuleSSA(r, "R1")
	falsySetRuleSSA(r, "R2")
	ifBranchRuleSSA(r, "R3")
}

// valueVars returns the variables of f that hold the result of evaluating a
// sub-expression of the node parameter, keyed by object, with the field path
// that was evaluated ("Condition", "Right", "Left", "eiNode.Condition", ...).
func valueVars(w *World, f *FuncInfo) map[types.Object]string {
	info := f.Pkg.TypesInfo
	out := map[types.Object]string{}
	evalExpr := w.evalMethod("Expression")
	inspectBody(f.Decl.Body, true, func(n ast.Node) bool {
		as, ok := n.(*ast.AssignStmt)
		if !ok || len(as.Rhs) != 1 || len(as.Lhs) < 1 {
			return true
		}
		call, ok := as.Rhs[0].(*ast.CallExpr)
		if !ok || evalExpr == nil || !w.isValueEvalCall(info, call) {
			return true
		}
		if o := objOf(info, as.Lhs[0]); o != nil {
			out[o] = short(w.Fset, call.Args[0])
		}
		return true
	})
	return out
}

func truthyUseRule(r *Run, rule string) {
	w := r.W
	truthy := w.truthyMethod()
	if truthy == nil {
		r.Lost(rule, "truthiness predicate")
		return
	}
	var fns []*FuncInfo
	for _, n := range []string{"PrefixExpression", "IfExpression", "InfixExpression"} {
		m := w.evalMethods(n)
		if len(m) == 0 {
			r.Lost(rule, "evaluator for *ast."+n)
		}
		fns = append(fns, m...)
	}
	isInfix := func(f *FuncInfo) bool {
		m := w.evalMethod("InfixExpression")
		return m != nil && m.Obj == f.Obj
	}
	for _, f := range fns {
		info := f.Pkg.TypesInfo
		vals := valueVars(w, f)
		// every condition expression
		inspectBody(f.Decl.Body, true, func(n ast.Node) bool {
			var conds []ast.Expr
			var body []ast.Stmt
			switch s := n.(type) {
			case *ast.IfStmt:
				conds = []ast.Expr{s.Cond}
				body = s.Body.List
			case *ast.ForStmt:
				if s.Cond != nil {
					conds = []ast.Expr{s.Cond}
				}
			case *ast.SwitchStmt:
				if s.Tag != nil {
					conds = append(conds, s.Tag)
				}
			case *ast.CaseClause:
				if _, isTS := w.Parent(w.Parent(s)).(*ast.TypeSwitchStmt); !isTS {
					conds = append(conds, s.List...)
					body = s.Body
				}
			case *ast.TypeSwitchStmt:
				// dispatch on the dynamic type of a value
				var x ast.Expr
				switch a := s.Assign.(type) {
				case *ast.AssignStmt:
					if ta, ok := a.Rhs[0].(*ast.TypeAssertExpr); ok {
						x = ta.X
					}
				case *ast.ExprStmt:
					if ta, ok := a.X.(*ast.TypeAssertExpr); ok {
						x = ta.X
					}
				}
				if o := objOf(info, x); o != nil {
					if _, isVal := vals[o]; isVal {
						if isInfix(f) {
							r.Ok(rule, f.Name(), "type switch on "+short(w.Fset, x), w.Pos(s.Pos()), "licensed: selects the operator table by operand type")
						} else {
							r.Bad(rule, f.Name(), "type switch on "+short(w.Fset, x), w.Pos(s.Pos()), "a branch is chosen by the dynamic type of an evaluated value instead of the truthiness predicate")
						}
					}
				}
			}
			for _, c := range conds {
				checkCondUsesTruthy(r, rule, f, vals, truthy, c, body, isInfix(f))
			}
			return true
		})
		// results computed from a value without the predicate: `return !x`, `return v.(bool)`
		for _, ret := range returnsIn(f.Decl.Body) {
			if len(ret.Results) == 0 {
				continue
			}
			e := unparen(ret.Results[0])
			if u, ok := e.(*ast.UnaryExpr); ok && u.Op == token.NOT {
				call, isCall := unparen(u.X).(*ast.CallExpr)
				if isCall && calleeOf(info, call) == truthy.Obj && len(call.Args) == 1 {
					if _, isVal := vals[objOf(info, call.Args[0])]; isVal {
						r.Ok(rule, f.Name(), "return "+short(w.Fset, e), w.Pos(ret.Pos()), "negation of the predicate applied to the evaluated operand")
						continue
					}
				}
				r.Bad(rule, f.Name(), "return "+short(w.Fset, e), w.Pos(ret.Pos()), "logical negation must be '!' applied to the truthiness predicate of the evaluated operand")
				continue
			}
			if call, ok := e.(*ast.CallExpr); ok && calleeOf(info, call) == truthy.Obj && len(call.Args) == 1 {
				if _, isVal := vals[objOf(info, call.Args[0])]; isVal {
					r.Ok(rule, f.Name(), "return "+short(w.Fset, e), w.Pos(ret.Pos()), "predicate applied to the evaluated operand")
				}
			}
		}
	}
	bangArmRule(r, rule)
}

// bangArmRule: the prefix evaluator's "!" arm must exist and return the
// negated truthiness predicate of the evaluated operand.
func bangArmRule(r *Run, rule string) {
	w := r.W
	truthy := w.truthyMethod()
	if truthy == nil {
		r.Lost(rule, "truthiness predicate")
		return
	}
	if pf := w.evalMethod("PrefixExpression"); pf != nil {
		info := pf.Pkg.TypesInfo
		found := false
		inspectBody(pf.Decl.Body, true, func(n ast.Node) bool {
			cc, ok := n.(*ast.CaseClause)
			if !ok {
				return true
			}
			for _, e := range cc.List {
				if s, ok := constString(info, e); ok && s == "!" {
					if len(cc.Body) == 1 {
						if ret, ok := cc.Body[0].(*ast.ReturnStmt); ok && len(ret.Results) == 2 {
							if u, ok := unparen(ret.Results[0]).(*ast.UnaryExpr); ok && u.Op == token.NOT {
								if c, ok := unparen(u.X).(*ast.CallExpr); ok && calleeOf(info, c) == truthy.Obj {
									found = true
								}
							}
						}
					}
				}
			}
			return true
		})
		if !found {
			r.Bad(rule, pf.Name(), "arm for \"!\"", w.Pos(pf.Decl.Pos()), "the '!' operator must return the negated truthiness predicate of its operand")
		} else {
			r.Ok(rule, pf.Name(), "arm for \"!\"", w.Pos(pf.Decl.Pos()), "return !truthy(operand)")
		}
	}
}

// checkCondUsesTruthy: every occurrence of a value variable inside cond must
// be the argument of the predicate, or cond is the licensed nil dispatch.
func checkCondUsesTruthy(r *Run, rule string, f *FuncInfo, vals map[types.Object]string, truthy *FuncInfo, cond ast.Expr, body []ast.Stmt, infix bool) {
	w := r.W
	info := f.Pkg.TypesInfo
	var bad []ast.Expr
	nGood := 0
	var walk func(e ast.Node, underTruthy bool)
	walk = func(e ast.Node, underTruthy bool) {
		switch x := e.(type) {
		case *ast.CallExpr:
			isT := calleeOf(info, x) == truthy.Obj
			walk(x.Fun, false)
			for _, a := range x.Args {
				if isT {
					if id, ok := unparen(a).(*ast.Ident); ok {
						if _, isVal := vals[objOf(info, id)]; isVal {
							nGood++
							continue
						}
					}
				}
				walk(a, false)
			}
			return
		case *ast.Ident:
			if _, isVal := vals[objOf(info, x)]; isVal {
				bad = append(bad, x)
			}
			return
		case *ast.FuncLit:
			return
		}
		ast.Inspect(e, func(n ast.Node) bool {
			if n == e || n == nil {
				return true
			}
			walk(n, false)
			return false
		})
	}
	walk(cond, false)
	con := "condition " + short(w.Fset, cond)
	if len(bad) == 0 {
		if nGood > 0 {
			r.Ok(rule, f.Name(), con, w.Pos(cond.Pos()), "value reaches the branch through the predicate")
		}
		return
	}
	// licensed: nil dispatch of the infix evaluator: all disjuncts are `nil == v`, body returns a call
	if infix {
		all := true
		for _, d := range disjuncts(cond) {
			be, ok := unparen(d).(*ast.BinaryExpr)
			if !ok || be.Op != token.EQL || !(isNilIdent(info, be.X) || isNilIdent(info, be.Y)) {
				all = false
			}
		}
		if all && len(body) == 1 {
			if ret, ok := body[0].(*ast.ReturnStmt); ok && len(ret.Results) == 1 {
				if _, isCall := ret.Results[0].(*ast.CallExpr); isCall {
					r.Ok(rule, f.Name(), con, w.Pos(cond.Pos()), "licensed: selects the nil operator table, not a branch of the template")
					return
				}
			}
		}
	}
	r.Bad(rule, f.Name(), con, w.Pos(cond.Pos()),
		"a branch decision uses the evaluated value '"+short(w.Fset, bad[0])+"' directly; truth must be decided by the single truthiness predicate so that it is the same everywhere")
}

// ---- R2 ---------------------------------------------------------------------

func falsySetRule(r *Run, rule string) {
	w := r.W
	f := w.truthyMethod()
	if f == nil {
		r.Lost(rule, "truthiness predicate")
		return
	}
	info := f.Pkg.TypesInfo
	param := f.Obj.Type().(*types.Signature).Params().At(0)
	have := map[string]bool{}
	// classify every return
	for _, ret := range returnsIn(f.Decl.Body) {
		if len(ret.Results) != 1 {
			continue
		}
		e := unparen(ret.Results[0])
		con := "return " + short(w.Fset, e)
		if tv := info.Types[e]; tv.Value != nil {
			if tv.Value.ExactString() == "true" {
				r.Ok(rule, f.Name(), con, w.Pos(ret.Pos()), "truthy")
				continue
			}
			// constant false: must be guarded by a licensed condition
			why := enclosingFalseGuard(w, info, f, ret, param)
			if why != "" {
				have[why] = true
				r.Ok(rule, f.Name(), con+" when "+why, w.Pos(ret.Pos()), "licensed falsy case")
			} else {
				r.Bad(rule, f.Name(), con, w.Pos(ret.Pos()), "the predicate returns false under a condition that is not one of: value is nil; pointer kind and IsNil")
			}
			continue
		}
		// inside a type-switch arm
		cc := enclosingCase(w, ret)
		if cc == nil {
			r.Bad(rule, f.Name(), con, w.Pos(ret.Pos()), "unrecognised result of the truthiness predicate")
			continue
		}
		bound := info.Implicits[cc]
		if len(cc.List) != 1 {
			r.Bad(rule, f.Name(), con+" in multi-type arm", w.Pos(ret.Pos()),
				"in an arm with several types the bound variable is an interface: comparing it with \"\" or returning it does not test the value of each type")
			continue
		}
		at := info.Types[cc.List[0]].Type
		switch {
		case isBasicKind(at, types.Bool) && objOf(info, e) == bound:
			have["bool"] = true
			r.Ok(rule, f.Name(), "case bool: "+con, w.Pos(ret.Pos()), "false is falsy")
		case isBasicKind(at, types.String) && !isNamed(at) && isNeqEmpty(info, e, bound):
			have["string"] = true
			r.Ok(rule, f.Name(), "case string: "+con, w.Pos(ret.Pos()), "\"\" is falsy")
		case namedIs(at, "html/template", "HTML") && isNeqEmpty(info, e, bound):
			have["html"] = true
			r.Ok(rule, f.Name(), "case template.HTML: "+con, w.Pos(ret.Pos()), "empty HTML is falsy")
		default:
			r.Bad(rule, f.Name(), "case "+typeStr(at)+": "+con, w.Pos(ret.Pos()),
				"this arm can return false for a kind of value the property declares truthy (only nil, false, \"\", empty HTML and nil pointers are falsy)")
		}
	}
	for _, need := range []string{"nil", "bool", "string", "html", "nilptr"} {
		if !have[need] {
			r.Bad(rule, f.Name(), "falsy case missing: "+need, w.Pos(f.Decl.Pos()), "the predicate no longer treats this value as falsy")
		}
	}
}

func isBasicKind(t types.Type, k types.BasicKind) bool {
	b, ok := t.Underlying().(*types.Basic)
	return ok && b.Kind() == k
}

func isNamed(t types.Type) bool {
	_, ok := t.(*types.Named)
	return ok
}

func isNeqEmpty(info *types.Info, e ast.Expr, bound types.Object) bool {
	be, ok := unparen(e).(*ast.BinaryExpr)
	if !ok || be.Op != token.NEQ {
		return false
	}
	x, y := be.X, be.Y
	if s, ok := constString(info, x); ok && s == "" {
		x, y = y, x
	}
	s, ok := constString(info, y)
	return ok && s == "" && objOf(info, x) == bound
}

func enclosingCase(w *World, n ast.Node) *ast.CaseClause {
	for p := w.Parent(n); p != nil; p = w.Parent(p) {
		if cc, ok := p.(*ast.CaseClause); ok {
			if _, isTS := w.Parent(w.Parent(cc)).(*ast.TypeSwitchStmt); isTS {
				return cc
			}
		}
		if _, ok := p.(*ast.FuncDecl); ok {
			return nil
		}
	}
	return nil
}

// enclosingFalseGuard classifies the if-condition directly guarding a
// `return false`: "nil" for `param == nil`, "nilptr" for
// `reflect.ValueOf(param).Kind() == reflect.Ptr && reflect.ValueOf(param).IsNil()`.
func enclosingFalseGuard(w *World, info *types.Info, f *FuncInfo, ret *ast.ReturnStmt, param *types.Var) string {
	blk, ok := w.Parent(ret).(*ast.BlockStmt)
	if !ok {
		return ""
	}
	ifs, ok := w.Parent(blk).(*ast.IfStmt)
	if !ok || ifs.Body != blk {
		return ""
	}
	cj := conjuncts(ifs.Cond)
	if len(cj) == 1 {
		if be, ok := unparen(cj[0]).(*ast.BinaryExpr); ok && be.Op == token.EQL {
			if (objOf(info, be.X) == param && isNilIdent(info, be.Y)) || (objOf(info, be.Y) == param && isNilIdent(info, be.X)) {
				return "nil"
			}
		}
		return ""
	}
	if len(cj) == 2 {
		kindPtr, isNil := false, false
		for _, c := range cj {
			switch x := unparen(c).(type) {
			case *ast.BinaryExpr:
				if x.Op == token.EQL {
					if call, ok := unparen(x.X).(*ast.CallExpr); ok && methodIs(calleeOf(info, call), "reflect", "Value", "Kind") && reflectValueOfParam(info, call, param) {
						if v, ok := constInt(info, x.Y); ok && v == 22 { // reflect.Ptr
							kindPtr = true
						}
					}
				}
			case *ast.CallExpr:
				if methodIs(calleeOf(info, x), "reflect", "Value", "IsNil") && reflectValueOfParam(info, x, param) {
					isNil = true
				}
			}
		}
		if kindPtr && isNil {
			return "nilptr"
		}
	}
	return ""
}

// reflectValueOfParam: the receiver of the method call is reflect.ValueOf(param)
// or a local assigned once from it.
func reflectValueOfParam(info *types.Info, call *ast.CallExpr, param *types.Var) bool {
	sel, ok := unparen(call.Fun).(*ast.SelectorExpr)
	if !ok {
		return false
	}
	if c, ok := unparen(sel.X).(*ast.CallExpr); ok && funcIs(calleeOf(info, c), "reflect", "ValueOf") && len(c.Args) == 1 {
		return objOf(info, c.Args[0]) == param
	}
	return false
}

// ---- R3 ---------------------------------------------------------------------

func branchSelectionRule(r *Run, rule string) {
	w := r.W
	truthy := w.truthyMethod()
	ifs := w.evalMethods("IfExpression")
	blockEval := w.evalMethod("BlockStatement")
	if truthy == nil || len(ifs) == 0 || blockEval == nil {
		r.Lost(rule, "if evaluator / block evaluator / predicate")
		return
	}
	// classify the two functions: the one evaluating node.Condition is the head
	var head, chain *FuncInfo
	for _, f := range ifs {
		vals := valueVars(w, f)
		for _, path := range vals {
			if len(path) >= 10 && path[len(path)-10:] == ".Condition" {
				if _, isParam := paramField(f, path); isParam {
					head = f
				}
			}
		}
		info := f.Pkg.TypesInfo
		inspectBody(f.Decl.Body, true, func(n ast.Node) bool {
			if rs, ok := n.(*ast.RangeStmt); ok {
				if _, fld := fieldOf(info, rs.X); fld != nil && fld.Name() == "ElseIf" {
					chain = f
				}
			}
			return true
		})
	}
	if head == nil || chain == nil {
		r.Lost(rule, "head and else-chain evaluators of the if expression")
		return
	}
	conditionToleranceRule(r, rule, []*FuncInfo{head, chain})
	// head: `if truthy(con) { return evalBlock(node.Block) }` then `return chain(node)`
	{
		f := head
		info := f.Pkg.TypesInfo
		node := f.Obj.Type().(*types.Signature).Params().At(0)
		vals := valueVars(w, f)
		var condVar types.Object
		for o, p := range vals {
			if p == node.Name()+".Condition" {
				condVar = o
			}
		}
		okMain := false
		for _, st := range f.Decl.Body.List {
			is, ok := st.(*ast.IfStmt)
			if !ok {
				continue
			}
			c, ok := unparen(is.Cond).(*ast.CallExpr)
			if !ok || calleeOf(info, c) != truthy.Obj || len(c.Args) != 1 || objOf(info, c.Args[0]) != condVar || condVar == nil {
				continue
			}
			if len(is.Body.List) == 1 {
				if ret, ok := is.Body.List[0].(*ast.ReturnStmt); ok && len(ret.Results) == 1 {
					if bc, ok := ret.Results[0].(*ast.CallExpr); ok && calleeOf(info, bc) == blockEval.Obj && len(bc.Args) == 1 {
						if x, fld := fieldOf(info, bc.Args[0]); fld != nil && fld.Name() == "Block" && objOf(info, x) == node {
							okMain = true
						}
					}
				}
			}
		}
		if okMain {
			r.Ok(rule, f.Name(), "main block on the truthy edge", w.Pos(f.Decl.Pos()), "if truthy(cond) { return evalBlock(node.Block) }")
		} else {
			r.Bad(rule, f.Name(), "main block on the truthy edge", w.Pos(f.Decl.Pos()), "the if evaluator must evaluate node.Block exactly under 'if truthy(condition)' and return its result at once")
		}
		// every other evaluation of a block or of the chain must come after that if (i.e. on its false edge)
		nBlock := 0
		for _, c := range callsIn(f.Decl.Body, true) {
			if calleeOf(info, c) == blockEval.Obj {
				nBlock++
			}
		}
		if nBlock != 1 {
			r.Bad(rule, f.Name(), "block evaluations in the head", w.Pos(f.Decl.Pos()), "the head must evaluate exactly one block (the main block)")
		}
		last, ok := f.Decl.Body.List[len(f.Decl.Body.List)-1].(*ast.ReturnStmt)
		if ok && len(last.Results) == 1 && isCallTo(info, last.Results[0], chain.Obj) {
			r.Ok(rule, f.Name(), "else chain on the falsy edge", w.Pos(last.Pos()), "return evalElse(node) after the truthy test")
		} else if head != chain {
			r.Bad(rule, f.Name(), "else chain on the falsy edge", w.Pos(f.Decl.Pos()), "the else chain must be evaluated only after the main condition was falsy")
		}
	}
	// chain
	{
		f := chain
		info := f.Pkg.TypesInfo
		node := f.Obj.Type().(*types.Signature).Params().At(0)
		var loop *ast.RangeStmt
		loopIdx := -1
		for i, st := range f.Decl.Body.List {
			if rs, ok := st.(*ast.RangeStmt); ok {
				if x, fld := fieldOf(info, rs.X); fld != nil && fld.Name() == "ElseIf" && objOf(info, x) == node {
					loop, loopIdx = rs, i
				}
			}
		}
		if loop == nil {
			r.Lost(rule, "range over node.ElseIf as a top-level statement of the else-chain evaluator")
			return
		}
		elem := objOf(info, loop.Value)
		if elem == nil {
			r.Bad(rule, f.Name(), "else-if loop", w.Pos(loop.Pos()), "the else-if loop must bind the element")
			return
		}
		// condition evaluated from elem.Condition
		var condVar types.Object
		var condPos token.Pos
		nCond := 0
		for _, st := range loop.Body.List {
			as, ok := st.(*ast.AssignStmt)
			if !ok || len(as.Rhs) != 1 {
				continue
			}
			c, ok := as.Rhs[0].(*ast.CallExpr)
			if !ok || len(c.Args) != 1 {
				continue
			}
			if x, fld := fieldOf(info, c.Args[0]); fld != nil && fld.Name() == "Condition" {
				nCond++
				if objOf(info, x) == elem {
					condVar = objOf(info, as.Lhs[0])
					condPos = as.Pos()
				}
			}
		}
		okPair := false
		for _, st := range loop.Body.List {
			is, ok := st.(*ast.IfStmt)
			if !ok || st.Pos() < condPos {
				continue
			}
			c, ok := unparen(is.Cond).(*ast.CallExpr)
			if !ok || calleeOf(info, c) != truthy.Obj || len(c.Args) != 1 || condVar == nil || objOf(info, c.Args[0]) != condVar {
				continue
			}
			if len(is.Body.List) == 1 {
				if ret, ok := is.Body.List[0].(*ast.ReturnStmt); ok && len(ret.Results) == 1 {
					if bc, ok := ret.Results[0].(*ast.CallExpr); ok && calleeOf(info, bc) == blockEval.Obj && len(bc.Args) == 1 {
						if x, fld := fieldOf(info, bc.Args[0]); fld != nil && fld.Name() == "Block" && objOf(info, x) == elem {
							okPair = true
						}
					}
				}
			}
		}
		if okPair && nCond == 1 {
			r.Ok(rule, f.Name(), "else-if: condition and block of the same element, first truthy returns", w.Pos(loop.Pos()), "if truthy(eval(e.Condition)) { return evalBlock(e.Block) }")
		} else {
			r.Bad(rule, f.Name(), "else-if pairing", w.Pos(loop.Pos()),
				"each iteration must evaluate the condition of the range element, and on a truthy value immediately return the block of the SAME element (no later condition is then evaluated)")
		}
		// blocks evaluated inside the loop: only the paired one
		nIn := 0
		for _, c := range callsIn(loop.Body, true) {
			if calleeOf(info, c) == blockEval.Obj {
				nIn++
			}
		}
		if nIn != 1 {
			r.Bad(rule, f.Name(), "block evaluations inside the else-if loop", w.Pos(loop.Pos()), "exactly one block evaluation per iteration (the element's own block)")
		}
		// no break/continue tricks that skip the return
		inspectBody(loop.Body, true, func(n ast.Node) bool {
			if b, ok := n.(*ast.BranchStmt); ok && (b.Tok == token.BREAK || b.Tok == token.GOTO) {
				r.Bad(rule, f.Name(), "else-if loop leaves with "+b.Tok.String(), w.Pos(b.Pos()), "the loop must be left only by returning the chosen block's result (or an error)")
			}
			return true
		})
		// else block strictly after the loop
		for i, st := range f.Decl.Body.List {
			for _, c := range callsIn(st, true) {
				if calleeOf(info, c) != blockEval.Obj || len(c.Args) != 1 {
					continue
				}
				if _, fld := fieldOf(info, c.Args[0]); fld != nil && fld.Name() == "ElseBlock" {
					if i > loopIdx {
						r.Ok(rule, f.Name(), "else block after the else-if loop", w.Pos(c.Pos()), "evaluated only when no condition was truthy")
					} else {
						r.Bad(rule, f.Name(), "else block evaluated before the else-if loop ends", w.Pos(c.Pos()), "the else block must be evaluated only after every else-if condition was falsy")
					}
				}
			}
		}
	}
}

// conditionToleranceRule: unknown identifiers are falsy -- every evaluation of
// a `.Condition` in the if / else-if evaluators either goes through an operand
// wrapper that swallows the typed unknown-identifier error, or is followed by
// that tolerance on its own error variable.
func conditionToleranceRule(r *Run, rule string, fns []*FuncInfo) {
	w := r.W
	wrappers := w.operandWrappers()
	seen := map[*FuncInfo]bool{}
	n := 0
	for _, f := range fns {
		if f == nil || seen[f] {
			continue
		}
		seen[f] = true
		info := f.Pkg.TypesInfo
		inspectBody(f.Decl.Body, true, func(nd ast.Node) bool {
			blk, ok := nd.(*ast.BlockStmt)
			if !ok {
				return true
			}
			for i, st := range blk.List {
				as, ok := st.(*ast.AssignStmt)
				if !ok || len(as.Rhs) != 1 || len(as.Lhs) != 2 {
					continue
				}
				c, ok := as.Rhs[0].(*ast.CallExpr)
				if !ok || !w.isValueEvalCall(info, c) {
					continue
				}
				if _, fld := fieldOf(info, c.Args[0]); fld == nil || fld.Name() != "Condition" {
					continue
				}
				n++
				con := "condition " + short(w.Fset, c.Args[0]) + " tolerates an unknown identifier"
				if wrappers[calleeOf(info, c)] {
					r.Ok(rule, f.Name(), con, w.Pos(c.Pos()), "evaluated through an operand wrapper that swallows *ErrUnknownIdentifier")
					continue
				}
				errVar := objOf(info, as.Lhs[1])
				tol := false
				for _, nx := range blk.List[i+1:] {
					ifs, ok := nx.(*ast.IfStmt)
					if !ok {
						break
					}
					if unknownToleranceIf(info, ifs) == errVar && errVar != nil {
						tol = true
					}
					break
				}
				if tol {
					r.Ok(rule, f.Name(), con, w.Pos(c.Pos()), "the error branch returns only when the error is not *ErrUnknownIdentifier")
				} else {
					r.Bad(rule, f.Name(), con, w.Pos(c.Pos()),
						"an unknown identifier used as a condition must count as falsy: the error of this evaluation must be let through only when it is not *ErrUnknownIdentifier")
				}
			}
			return true
		})
	}
	if n < 2 {
		r.Lost(rule, "condition evaluations of the if and else-if evaluators")
	}
}

// paramField: path is "<param>.<Field>" for the function's node parameter.
func paramField(f *FuncInfo, path string) (string, bool) {
	sig := f.Obj.Type().(*types.Signature)
	for i := 0; i < sig.Params().Len(); i++ {
		p := sig.Params().At(i).Name() + "."
		if len(path) > len(p) && path[:len(p)] == p {
			rest := path[len(p):]
			for _, ch := range rest {
				if ch == '.' {
					return "", false
				}
			}
			return rest, true
		}
	}
	return "", false
}
