package main

// c10ssa.go (C10.R2): the lookup order of Context.Value, decided on the paths
// of its SSA form with the package's unexported helpers walked in line.

import (
	"fmt"
	"go/token"
	"go/types"
	"sort"
	"strings"

	"golang.org/x/tools/go/ssa"
)

func lookupOrderRuleSSA(r *Run, rule string) {
	w := r.W
	cf := w.contextFields()
	if cf == nil {
		r.Lost(rule, "fields of Context")
		return
	}
	var f *FuncInfo
	for _, g := range w.Funcs("") {
		if isMethodOf(g, cf.typ) && g.Decl.Name.Name == "Value" {
			f = g
		}
	}
	if f == nil {
		r.Lost(rule, "Context.Value")
		return
	}
	w.SSA()
	fn := w.SSAFunc(f)
	if fn == nil || len(fn.Params) != 2 {
		r.Lost(rule, "Context.Value (SSA)")
		return
	}
	st := cf.typ.Underlying().(*types.Struct)
	dataI, outerI, embI := fieldIndex(st, cf.data), fieldIndex(st, cf.outer), fieldIndex(st, cf.embedded)
	recv, key := fn.Params[0], fn.Params[1]
	inline := func(caller, callee *ssa.Function) bool {
		return pkgOf(callee) == fn.Pkg && callee != fn && fnObject(callee) != nil && !fnObject(callee).Exported() && !funcHasLoop(callee)
	}
	pw := &pathWalker{inline: inline, unroll1: true, maxPaths: 20000, maxDepth: 4, runDefers: true, iterCopies: true}
	pw.walk(fn)
	if pw.overflow {
		r.Lost(rule, "paths of Context.Value")
		return
	}
	paths := pw.paths
	name := f.Name()
	var bads []string
	badAt := map[string]token.Pos{}
	addBad := func(s string, at token.Pos) {
		if _, ok := badAt[s]; !ok {
			bads = append(bads, s)
			badAt[s] = at
		}
	}
	nHit, nOuter, nEmbStr, nEmbOther := 0, 0, 0, 0
	for _, p := range paths {
		if p.end != "return" || len(p.results) != 1 {
			continue
		}
		// field idx of the scope `base`
		fieldOf := func(v ssa.Value, base ssa.Value, idx int) bool {
			ld, ok := p.resolve(v).(*ssa.UnOp)
			if !ok || ld.Op != token.MUL {
				return false
			}
			fa, ok := ld.X.(*ssa.FieldAddr)
			return ok && fa.Field == idx && p.resolve(fa.X) == base
		}
		// is the key: the parameter, or the string the assertion took from it (possibly boxed again)
		var nameV ssa.Value
		isString := -1
		for _, d := range p.decisions {
			if ex, ok := d.cond.(*ssa.Extract); ok && ex.Index == 1 {
				if ta, ok := ex.Tuple.(*ssa.TypeAssert); ok && ta.CommaOk && p.resolve(ta.X) == ssa.Value(key) && isBasicKind(ta.AssertedType, types.String) {
					isString = map[bool]int{true: 1, false: 0}[d.truth]
					nameV = ta
				}
			}
		}
		isNameArg := func(v ssa.Value) bool {
			v = p.resolve(stripIface(p.resolve(v)))
			if v == ssa.Value(key) {
				return true
			}
			ex, ok := v.(*ssa.Extract)
			return ok && ex.Index == 0 && nameV != nil && ex.Tuple == nameV
		}
		// walk the chain of scopes the path visits: cur starts at the receiver; a miss in cur followed by
		// "cur.outer is not nil" may step to cur.outer (the loop form), or hand over to Value of cur.outer (the recursive form)
		cur := ssa.Value(recv)
		steps := 0
		type scopeFacts struct {
			lookup   *ssa.Lookup
			found    int // -1 undecided
			outerNil int
		}
		facts := map[ssa.Value]*scopeFacts{cur: {found: -1, outerNil: -1}}
		order := []ssa.Value{cur}
		valueTest := false
		broken := ""
		var brokenAt token.Pos
		for _, ev := range p.events {
			lk, ok := ev.(*ssa.Lookup)
			if !ok {
				continue
			}
			base := ssa.Value(nil)
			if ld, ok := p.resolve(lk.X).(*ssa.UnOp); ok && ld.Op == token.MUL {
				if fa, ok := ld.X.(*ssa.FieldAddr); ok && fa.Field == dataI {
					base = p.resolve(fa.X)
				}
			}
			if base == nil {
				continue
			}
			if base != cur {
				// a step outwards: base must be cur.outer
				if !fieldOf(base, cur, outerI) {
					broken, brokenAt = "a scope other than the receiver or the next outer one is looked up", lk.Pos()
					break
				}
				fc := facts[cur]
				if fc.lookup == nil {
					broken, brokenAt = "the outer scope is looked up before the local one", lk.Pos()
					break
				}
				cur = base
				steps++
				facts[cur] = &scopeFacts{found: -1, outerNil: -1}
				order = append(order, cur)
			}
			if facts[cur].lookup != nil {
				broken, brokenAt = "one scope is looked up twice", lk.Pos()
				break
			}
			facts[cur].lookup = lk
			if !lk.CommaOk {
				broken, brokenAt = "the local lookup must use the comma-ok form: a key that is present with a nil value must still shadow the outer scope", lk.Pos()
				break
			}
			if !isNameArg(lk.Index) {
				broken, brokenAt = "a scope's map is looked up with something else than the key", lk.Pos()
				break
			}
		}
		if broken != "" {
			addBad(broken, brokenAt)
			continue
		}
		for _, d := range p.decisions {
			if ex, ok := d.cond.(*ssa.Extract); ok && ex.Index == 1 {
				if lk, ok := ex.Tuple.(*ssa.Lookup); ok {
					for _, fc := range facts {
						if fc.lookup == lk {
							fc.found = map[bool]int{true: 1, false: 0}[d.truth]
						}
					}
					continue
				}
			}
			if x, op, ok := isNilCompare(p, d.cond); ok {
				matched := false
				for sc, fc := range facts {
					if fieldOf(x, sc, outerI) {
						fc.outerNil = map[bool]int{true: 1, false: 0}[d.truth == (op == token.EQL)]
						matched = true
					}
				}
				if matched {
					continue
				}
				// a nil test of a looked-up value decides nothing about presence
				xv := p.resolve(x)
				if ex, ok := xv.(*ssa.Extract); ok && ex.Index == 0 {
					if _, ok := ex.Tuple.(*ssa.Lookup); ok {
						valueTest = true
					}
				}
				if _, ok := xv.(*ssa.Lookup); ok {
					valueTest = true
				}
			}
		}
		// every scope left behind was missed and had an outer scope
		okChain := true
		for i, sc := range order[:len(order)-1] {
			_ = i
			if fc := facts[sc]; fc.found != 0 || fc.outerNil != 0 {
				okChain = false
			}
		}
		last := facts[cur]
		res := p.resolve(p.results[0])
		switch {
		case func() bool {
			ex, ok := res.(*ssa.Extract)
			return ok && ex.Index == 0 && last.lookup != nil && ex.Tuple == ssa.Value(last.lookup)
		}():
			switch {
			case isString != 1 || last.found != 1 || !okChain:
				addBad("a scope's value is returned without the key having been found there by the map's ok flag (after every nearer scope missed)", p.ret.Pos())
			case valueTest:
				addBad("the hit depends on the stored value (a key that is present with a nil value must still shadow the outer scope)", p.ret.Pos())
			case steps == 0:
				nHit++
			default:
				nOuter++
			}
		default:
			c, isCall := res.(*ssa.Call)
			switch {
			case isCall && c.Call.StaticCallee() == fn && len(c.Call.Args) == 2 && fieldOf(c.Call.Args[0], cur, outerI):
				if isString != 1 || last.found != 0 || last.outerNil != 0 || !okChain {
					addBad("the outer scope must be consulted exactly when the key is not in the local map and an outer scope exists", p.ret.Pos())
				} else if !isNameArg(c.Call.Args[1]) {
					addBad("the outer scope is asked for another key", p.ret.Pos())
				} else {
					nOuter++
				}
			case isCall && c.Call.IsInvoke() && c.Call.Method.Name() == "Value" && func() bool {
				for _, sc := range order {
					if fieldOf(c.Call.Value, sc, embI) {
						return true
					}
				}
				return false
			}():
				switch {
				case isString == 0 && last.lookup == nil && steps == 0:
					nEmbOther++
				case isString == 1 && last.found == 0 && last.outerNil == 1 && okChain && fieldOf(c.Call.Value, cur, embI):
					nEmbStr++
				default:
					addBad("the embedded context must be consulted last: only for a non-string key, or when no scope of the chain has the key (and then that of the outermost scope reached)", p.ret.Pos())
				}
				if len(c.Call.Args) != 1 || !isNameArg(c.Call.Args[0]) {
					addBad("the embedded context is asked for another key", p.ret.Pos())
				}
			default:
				if _, isLk := res.(*ssa.Lookup); isLk {
					addBad("the local lookup must use the comma-ok form: a key that is present with a nil value must still shadow the outer scope", p.ret.Pos())
				} else {
					addBad("Value returns something that is none of: a scope's own value, the outer scope's answer, the embedded context's answer", p.ret.Pos())
				}
			}
		}
	}
	if nHit == 0 || nOuter == 0 || nEmbStr == 0 || nEmbOther == 0 {
		addBad(fmt.Sprintf("not every step of the lookup has a path (local hit %d, outer %d, embedded after a miss %d, embedded for a non-string key %d)", nHit, nOuter, nEmbStr, nEmbOther), fn.Pos())
	}
	con := "lookup order local < outer < embedded"
	if len(bads) > 0 {
		sort.Strings(bads)
		r.Bad(rule, name, con, w.Pos(badAt[bads[0]]), strings.Join(bads, "; "))
		return
	}
	r.Ok(rule, name, con, w.Pos(fn.Pos()), fmt.Sprintf("%d path(s): hit by the ok flag of the nearest scope that has the key; outwards exactly when missed and an outer scope exists; embedded context last", len(paths)))
}

// helperInjectionRuleSSA (C10.R4): in every constructor of Context (a function
// without receiver that returns *Context), on every path, a Set on the new
// context happens only after Has(key) was found false on the new context and --
// when the constructor receives an outer context -- on that outer context as
// well (Has walks the whole chain). Helpers of the package, loops in them and
// closures passed to them are walked in line.
func helperInjectionRuleSSA(r *Run, rule string) {
	w := r.W
	cf := w.contextFields()
	if cf == nil {
		r.Lost(rule, "fields of Context")
		return
	}
	w.SSA()
	st := cf.typ.Underlying().(*types.Struct)
	outerI := fieldIndex(st, cf.outer)
	var setFn, hasFn *ssa.Function
	for _, g := range w.Funcs("") {
		if isMethodOf(g, cf.typ) {
			switch g.Decl.Name.Name {
			case "Set":
				setFn = w.SSAFunc(g)
			case "Has":
				hasFn = w.SSAFunc(g)
			}
		}
	}
	if setFn == nil || hasFn == nil {
		r.Lost(rule, "Context.Set / Context.Has")
		return
	}
	nCons := 0
	for _, f := range w.Funcs("") {
		sig := f.Obj.Type().(*types.Signature)
		if sig.Recv() != nil || sig.Results().Len() != 1 || !namedIs(sig.Results().At(0).Type(), modPath, "Context") {
			continue
		}
		fn := w.SSAFunc(f)
		if fn == nil {
			continue
		}
		// an unexported builder that is handed the "already known" test as a function value is judged where it is
		// called: walked in line from the constructors, with the predicate each of them passes
		if !f.Obj.Exported() && len(w.staticCallSites(fn)) > 0 {
			takesFunc := false
			for _, prm := range fn.Params {
				if _, isSig := prm.Type().Underlying().(*types.Signature); isSig {
					takesFunc = true
				}
			}
			if takesFunc {
				continue
			}
		}
		var outerP *ssa.Parameter
		for _, prm := range fn.Params {
			if namedIs(prm.Type(), modPath, "Context") {
				outerP = prm
			}
		}
		inline := func(caller, callee *ssa.Function) bool {
			if callee == setFn || callee == hasFn || pkgOf(callee) != fn.Pkg {
				return false
			}
			if fnObject(callee) != nil && fnObject(callee).Exported() {
				// another constructor that this one delegates to is walked in line as well
				cs := callee.Signature
				return cs.Recv() == nil && cs.Results().Len() == 1 && namedIs(cs.Results().At(0).Type(), modPath, "Context")
			}
			return true
		}
		pw := &pathWalker{inline: inline, unroll1: true, maxPaths: 50000, maxDepth: 7}
		pw.walk(fn)
		paths, ok := pw.paths, !pw.overflow
		if !ok {
			r.Lost(rule, "paths of "+f.Name())
			continue
		}
		nSet, bad := 0, ""
		var badPos token.Pos
		needOuter := false
		for _, p := range paths {
			if p.end != "return" || len(p.results) != 1 {
				continue
			}
			newCtx := p.resolve(p.results[0])
			// the outer context of the new one: the constructor's parameter (or whatever was stored as its outer link)
			outerV := ssa.Value(nil)
			if outerP != nil {
				outerV = outerP
			}
			if v, ok := p.fieldOfObj(newCtx, outerI); ok && !isNilConst(p.resolve(v)) {
				outerV = p.resolve(v)
			}
			isOuter := func(v ssa.Value) bool {
				v = p.resolve(v)
				if outerV != nil && v == outerV {
					return true
				}
				// a load of the new context's outer field
				if ld, ok := v.(*ssa.UnOp); ok && ld.Op == token.MUL {
					if fa, ok := ld.X.(*ssa.FieldAddr); ok && fa.Field == outerI && p.resolve(fa.X) == newCtx {
						return true
					}
				}
				return false
			}
			for ei, ev := range p.events {
				c, ok := ev.(*ssa.Call)
				if !ok || c.Call.StaticCallee() != setFn || len(c.Call.Args) != 3 {
					continue
				}
				nSet++
				if p.resolve(c.Call.Args[0]) != newCtx {
					bad, badPos = "the constructor sets on something other than the new context", c.Pos()
					continue
				}
				k := p.resolve(c.Call.Args[1])
				absentNew, absentOuter := false, false
				for _, d := range p.decisions[:p.evDecided[ei]] {
					hc, ok := p.resolve(d.cond).(*ssa.Call)
					if !ok || hc.Call.StaticCallee() != hasFn || len(hc.Call.Args) != 2 || d.truth {
						continue
					}
					if p.resolve(stripIface(p.resolve(hc.Call.Args[1]))) != p.resolve(stripIface(k)) && p.resolve(hc.Call.Args[1]) != k {
						continue
					}
					switch {
					case p.resolve(hc.Call.Args[0]) == newCtx:
						absentNew = true
					case isOuter(hc.Call.Args[0]):
						absentOuter = true
					}
				}
				if outerV != nil {
					needOuter = true
				}
				if !absentNew || (outerV != nil && !absentOuter) {
					bad, badPos = "a default helper may be set only after Has(k) was found false on the new context (and, with an outer context, on the outer chain): otherwise a user value under a helper's name is shadowed", c.Pos()
				}
			}
		}
		if nSet == 0 {
			r.Note("R4: constructor %s injects no helpers", f.Name())
			continue
		}
		nCons++
		con := "helper injection"
		if bad != "" {
			r.Bad(rule, f.Name(), con, w.Pos(badPos), bad)
		} else {
			r.Ok(rule, f.Name(), con, w.Pos(fn.Pos()), "every Set on the paths of the constructor follows Has(key) == false on the new context"+map[bool]string{true: " and on the outer chain", false: ""}[needOuter])
		}
	}
	if nCons == 0 {
		r.Lost(rule, "constructors of Context that inject the default helpers")
	}
}
