package main

import (
	"fmt"
	"go/ast"
	"go/token"
	"go/types"
	"strings"

	"golang.org/x/tools/go/ssa"
)

func init() {
	register("C15", checkC15, "that N is the line on which the tag BEGINS (tokens are stamped after look-ahead; which newline has been consumed at that moment is a run-time fact); the absolute value of N")
}

func checkC15(r *Run) {
	r.Rule("R1", "every parser error message is built by a format that starts with 'line %d:' and is fed from a token's LineNumber", 1)
	r.Rule("R2", "the top-level evaluator has exactly one error exit and it is fmt.Errorf(\"line %d: %w\", <statement>.T().LineNumber, err)", 1)
	r.Rule("R3", "the statement whose line is reported belongs to the tag being executed: the current-statement slot is reset for every top-level statement and written otherwise only on entry of the in-block statement evaluator", 1)
	r.Rule("R4", "every token leaves the lexer with LineNumber assigned, on every path of both token functions", 10)
	r.Rule("R5", "the line is a function of the consumed newlines: only readChar moves the cursor and bumps the line (under ch == '\\n' of the byte just consumed); the scanner reads input only relative to the cursor", 1)
	r.Rule("R6", "every statement node is stamped with the token that is current BEFORE its expression is parsed (the first token of the statement)", 1)
	r.Rule("R7", "the recorded syntax errors reach the caller in recording order: nothing on the way sorts the message list (a string sort of 'line N:' prefixes is not shift invariant)", 1)
	r.Rule("R8", "the error pipeline: every function of the root package between the parser / the top-level evaluator and the caller returns the error it received as the very same value (no wrapper puts text in front of 'line N:')", 1)
	parserMessagesRule(r, "R1")
	coreTopLevelRules(r, "", "R2")
	curStmtRule(r, "R3")
	tokenLineRuleSSA(r, "R4")
	cursorOwnershipRule(r, "R5")
	statementTokenRule(r, "R6")
	messageOrderRule(r, "R7")
	errorPipelineRule(r, "R8")
}

// errRecorder describes a parser method that records an error message built
// from its own parameters: p.errors = append(p.errors, fmt.Sprintf(format, args...)).
type errRecorder struct {
	f        *FuncInfo
	format   int // parameter index of the format
	variadic int // parameter index of the operands (variadic)
	// prefixed: the recorder itself puts "line N: " in front of the formatted message; line is the index of
	// the parameter N comes from, or -1 when the recorder takes it from the current token itself
	prefixed bool
	line     int
}

func (w *World) errRecorders() map[*types.Func]*errRecorder {
	out := map[*types.Func]*errRecorder{}
	pm := w.parserModel()
	if pm.errorsF == nil {
		return out
	}
	info := pm.info
	for _, f := range w.Funcs("parser") {
		sig := f.Obj.Type().(*types.Signature)
		if !sig.Variadic() || sig.Params().Len() < 2 {
			continue
		}
		inspectBody(f.Decl.Body, false, func(n ast.Node) bool {
			as, ok := n.(*ast.AssignStmt)
			if !ok || len(as.Lhs) != 1 || len(as.Rhs) != 1 {
				return true
			}
			if !pm.isErrorsLHS(as.Lhs[0]) {
				return true
			}
			c, ok := unparen(as.Rhs[0]).(*ast.CallExpr)
			if !ok || builtinName(info, c) != "append" || len(c.Args) != 2 {
				return true
			}
			msg := singleDefinition(info, f, unparen(c.Args[1]))
			// fmt.Sprintf("line %d: ", line) + fmt.Sprintf(format, args...): the recorder adds the prefix
			prefixed, lineIdx := false, -1
			if be, isBE := msg.(*ast.BinaryExpr); isBE && be.Op == token.ADD {
				if pc, isCall := unparen(be.X).(*ast.CallExpr); isCall && funcIs(calleeOf(info, pc), "fmt", "Sprintf") && len(pc.Args) == 2 && !pc.Ellipsis.IsValid() {
					if fs, isC := constString(info, pc.Args[0]); isC && strings.HasPrefix(fs, "line %d:") && strings.Count(fs, "%") == 1 {
						for i := 0; i < sig.Params().Len(); i++ {
							if objOf(info, pc.Args[1]) == sig.Params().At(i) {
								prefixed, lineIdx = true, i
							}
						}
						if !prefixed {
							if ok, _ := w.isCurrentLine(f, pc.Args[1], 0); ok {
								prefixed = true
							}
						}
						if prefixed {
							msg = unparen(be.Y)
						}
					}
				}
			}
			sp, ok := msg.(*ast.CallExpr)
			if !ok || !funcIs(calleeOf(info, sp), "fmt", "Sprintf") || len(sp.Args) != 2 || !sp.Ellipsis.IsValid() {
				return true
			}
			fi, vi := -1, -1
			for i := 0; i < sig.Params().Len(); i++ {
				if objOf(info, sp.Args[0]) == sig.Params().At(i) {
					fi = i
				}
				if objOf(info, sp.Args[1]) == sig.Params().At(i) {
					vi = i
				}
			}
			if fi >= 0 && vi == sig.Params().Len()-1 {
				out[f.Obj] = &errRecorder{f: f, format: fi, variadic: vi, prefixed: prefixed, line: lineIdx}
			}
			return true
		})
	}
	// wrappers: a variadic function whose body hands its own format and operands on to a recorder
	for changed := true; changed; {
		changed = false
		for _, f := range w.Funcs("parser") {
			if out[f.Obj] != nil {
				continue
			}
			sig := f.Obj.Type().(*types.Signature)
			if !sig.Variadic() || sig.Params().Len() < 2 || len(f.Decl.Body.List) != 1 {
				continue
			}
			es, ok := f.Decl.Body.List[0].(*ast.ExprStmt)
			if !ok {
				continue
			}
			c, ok := es.X.(*ast.CallExpr)
			if !ok || !c.Ellipsis.IsValid() {
				continue
			}
			inner := out[calleeOf(info, c)]
			if inner == nil || inner.format >= len(c.Args) || inner.variadic >= len(c.Args) {
				continue
			}
			fi, vi := -1, -1
			for i := 0; i < sig.Params().Len(); i++ {
				if objOf(info, c.Args[inner.format]) == sig.Params().At(i) {
					fi = i
				}
				if objOf(info, c.Args[inner.variadic]) == sig.Params().At(i) {
					vi = i
				}
			}
			if fi < 0 || vi != sig.Params().Len()-1 {
				continue
			}
			rec := &errRecorder{f: f, format: fi, variadic: vi, prefixed: inner.prefixed, line: -1}
			if inner.prefixed && inner.line >= 0 {
				if inner.line >= len(c.Args) {
					continue
				}
				isParam := false
				for i := 0; i < sig.Params().Len(); i++ {
					if objOf(info, c.Args[inner.line]) == sig.Params().At(i) {
						rec.line, isParam = i, true
					}
				}
				if !isParam {
					if ok, _ := w.isCurrentLine(f, c.Args[inner.line], 0); !ok {
						continue // the line it passes on is not the current token's: judged as an ordinary call site
					}
				}
			}
			out[f.Obj] = rec
			changed = true
		}
	}
	return out
}

// isCurrentLine: e is <parser>.curToken.LineNumber -- the line of the token the
// parser is on -- directly, through a local assigned once from it, or through
// a parameter that every call site feeds with it.
func (w *World) isCurrentLine(f *FuncInfo, e ast.Expr, depth int) (bool, string) {
	info := f.Pkg.TypesInfo
	cur, _, _ := w.parserTokenFields()
	e = unparen(e)
	if x, fld := fieldOf(info, e); fld != nil && fld.Name() == "LineNumber" {
		if _, tf := fieldOf(info, x); tf != nil && tf == cur {
			return true, ""
		}
		return false, "the line is taken from " + types.ExprString(x) + ", not from the token the parser is on: the parser reports the line of its current token (the look-ahead token may already be on a later line)"
	}
	o := objOf(info, e)
	if o == nil || depth > 3 {
		return false, "the first operand is not a token's LineNumber"
	}
	sig := f.Obj.Type().(*types.Signature)
	for i := 0; i < sig.Params().Len(); i++ {
		if o != sig.Params().At(i) {
			continue
		}
		n := 0
		for _, g := range w.Funcs("parser") {
			for _, c := range callsIn(g.Decl.Body, false) {
				if calleeOf(g.Pkg.TypesInfo, c) != f.Obj || i >= len(c.Args) {
					continue
				}
				n++
				if ok, why := w.isCurrentLine(g, c.Args[i], depth+1); !ok {
					return false, why
				}
			}
		}
		if n == 0 {
			return false, "the line is a parameter that no call site supplies"
		}
		return true, ""
	}
	var def ast.Expr
	nd := 0
	inspectBody(f.Decl.Body, false, func(m ast.Node) bool {
		if s, ok := m.(*ast.AssignStmt); ok {
			for i, l := range s.Lhs {
				if objOf(info, l) == o && i < len(s.Rhs) {
					def = s.Rhs[i]
					nd++
				}
			}
		}
		return true
	})
	if nd == 1 && def != nil {
		return w.isCurrentLine(f, def, depth+1)
	}
	return false, "the first operand is not a token's LineNumber"
}

func parserMessagesRule(r *Run, rule string) {
	w := r.W
	pm := w.parserModel()
	if pm.errorsF == nil {
		r.Lost(rule, "error list of the parser")
		return
	}
	info := pm.info
	recs := w.errRecorders()
	// one message: the format expression and its first operand
	checkMsg := func(f *FuncInfo, at ast.Node, format ast.Expr, first ast.Expr, con string) {
		fs, isConst := constString(info, format)
		switch {
		case !isConst:
			r.Bad(rule, f.Name(), con, w.Pos(at.Pos()), "a syntax error message must start with 'line N:' taken from a token's LineNumber: format is not constant")
		case !strings.HasPrefix(fs, "line %d:"):
			r.Bad(rule, f.Name(), con, w.Pos(at.Pos()), fmt.Sprintf("a syntax error message must start with 'line N:' taken from a token's LineNumber: format %q does not start with \"line %%d:\"", fs))
		case first == nil:
			r.Bad(rule, f.Name(), con, w.Pos(at.Pos()), "a syntax error message must start with 'line N:' taken from a token's LineNumber: no operand for the line")
		default:
			if ok, why := w.isCurrentLine(f, first, 0); ok {
				r.Ok(rule, f.Name(), con, w.Pos(at.Pos()), "\"line %d: ...\" fed from the current token's LineNumber")
			} else {
				r.Bad(rule, f.Name(), con, w.Pos(at.Pos()), "a syntax error message must start with 'line N:' taken from a token's LineNumber: "+why)
			}
		}
	}
	sprintfParts := func(f *FuncInfo, e ast.Expr) (format, first ast.Expr, ok bool) {
		e = unparen(e)
		if o := objOf(info, e); o != nil {
			var def ast.Expr
			nd := 0
			inspectBody(f.Decl.Body, false, func(m ast.Node) bool {
				if s, ok := m.(*ast.AssignStmt); ok {
					for i, l := range s.Lhs {
						if objOf(info, l) == o && i < len(s.Rhs) {
							def = s.Rhs[i]
							nd++
						}
					}
				}
				return true
			})
			if nd == 1 {
				e = unparen(def)
			}
		}
		c, isCall := e.(*ast.CallExpr)
		if !isCall || !funcIs(calleeOf(info, c), "fmt", "Sprintf") || len(c.Args) < 1 {
			return nil, nil, false
		}
		if len(c.Args) >= 2 && !c.Ellipsis.IsValid() {
			return c.Args[0], c.Args[1], true
		}
		return c.Args[0], nil, true
	}
	for _, f := range w.Funcs("parser") {
		_, isRecorder := recs[f.Obj]
		inspectBody(f.Decl.Body, false, func(n ast.Node) bool {
			switch x := n.(type) {
			case *ast.CallExpr:
				rec := recs[calleeOf(info, x)]
				if rec == nil {
					return true
				}
				con := "message " + short(w.Fset, x)
				if rec.prefixed {
					// the recorder writes "line N: " itself; N must be the current token's line
					if _, inRecorder := recs[f.Obj]; inRecorder && x.Ellipsis.IsValid() {
						return true // a recorder handing on to another one: judged at its own call sites
					}
					switch {
					case rec.line < 0:
						r.Ok(rule, f.Name(), con, w.Pos(x.Pos()), "the recorder prefixes \"line N: \" with the current token's LineNumber")
					case rec.line >= len(x.Args):
						r.Bad(rule, f.Name(), con, w.Pos(x.Pos()), "a syntax error message must start with 'line N:' taken from a token's LineNumber: no operand for the line")
					default:
						if ok, why := w.isCurrentLine(f, x.Args[rec.line], 0); ok {
							r.Ok(rule, f.Name(), con, w.Pos(x.Pos()), "the recorder prefixes \"line N: \"; N is the current token's LineNumber")
						} else {
							r.Bad(rule, f.Name(), con, w.Pos(x.Pos()), "a syntax error message must start with 'line N:' taken from a token's LineNumber: "+why)
						}
					}
					return true
				}
				var first ast.Expr
				if len(x.Args) > rec.variadic && !x.Ellipsis.IsValid() {
					first = x.Args[rec.variadic]
				}
				if rec.format < len(x.Args) {
					checkMsg(f, x, x.Args[rec.format], first, con)
				}
			case *ast.AssignStmt:
				if len(x.Lhs) != 1 || len(x.Rhs) != 1 {
					return true
				}
				if !pm.isErrorsLHS(x.Lhs[0]) {
					return true
				}
				c, ok := unparen(x.Rhs[0]).(*ast.CallExpr)
				if !ok || builtinName(info, c) != "append" || len(c.Args) < 2 {
					if cl, isLit := unparen(x.Rhs[0]).(*ast.CompositeLit); isLit && len(cl.Elts) == 0 {
						return true // initialisation
					}
					r.Bad(rule, f.Name(), "write to the error list "+short(w.Fset, x), w.Pos(x.Pos()), "the error list must only be appended to")
					return true
				}
				if isRecorder {
					return true // the recorder's own append: its messages are checked at its call sites
				}
				for _, a := range c.Args[1:] {
					con := "message " + short(w.Fset, a)
					format, first, ok := sprintfParts(f, a)
					if !ok {
						r.Bad(rule, f.Name(), con, w.Pos(x.Pos()), "a syntax error message must start with 'line N:' taken from a token's LineNumber: not a fmt.Sprintf with operands")
						continue
					}
					checkMsg(f, x, format, first, con)
				}
			}
			return true
		})
	}
}

func curStmtRule(r *Run, rule string) {
	w := r.W
	cur := w.compilerField("curStmt")
	m := w.coreModel()
	if cur == nil || m.top == nil || m.stmt == nil || m.curStmtIdx < 0 {
		r.Lost(rule, "current-statement field / top-level evaluator / statement evaluator")
		return
	}
	isSlotStore := func(ins ssa.Instruction) (*ssa.Store, bool) {
		st, ok := ins.(*ssa.Store)
		if !ok {
			return nil, false
		}
		fa, ok := st.Addr.(*ssa.FieldAddr)
		return st, ok && fa.Field == m.curStmtIdx && w.isCompilerValue(fa.X)
	}
	// (1) top level: on every iteration path the slot is reset (nil, or the statement of this iteration)
	// before any evaluator runs
	paths, ok := walkPathsUnrolled(m.top, nil, m.inline, 20000)
	if !ok {
		r.Lost(rule, "paths of the top-level evaluator")
		return
	}
	// ... and the reset belongs to the iteration: it sits in the loop over the statements (directly, or in a helper
	// called from inside the loop), not in front of it
	topLoop := map[*ssa.BasicBlock]bool{}
	for _, b := range m.top.Blocks {
		if isLoopHeader(b) {
			for x := range loopBodyOf(b) {
				topLoop[x] = true
			}
		}
	}
	perIteration := func(p *pwPath, at int) bool {
		// the event comes after the path's first decision at the head of the loop (the loop has been entered)
		for di, d := range p.decisions {
			if d.at == nil {
				continue
			}
			ins := origInstr(d.at)
			if ins.Parent() == m.top && isLoopHeader(ins.Block()) && topLoop[ins.Block()] {
				return p.evDecided[at] > di
			}
		}
		return false
	}
	nIter, okReset := 0, true
	var resetPos token.Pos = m.top.Pos()
	licensed := map[*ssa.Function]bool{m.top: true, m.stmt: true}
	for _, p := range paths {
		firstEval, reset := -1, -1
		for i, ev := range p.events {
			if st, isStore := isSlotStore(ev); isStore {
				if reset < 0 {
					reset = i
					resetPos = st.Pos()
					v := p.resolve(st.Val)
					isNil := isNilConst(v) || isNilConst(p.resolve(stripIface(v)))
					isElem := false
					if ld, ok := v.(*ssa.UnOp); ok && ld.Op == token.MUL {
						_, isElem = ld.X.(*ssa.IndexAddr)
					}
					if !isNil && !isElem {
						okReset = false
					}
					if !perIteration(p, i) {
						okReset = false
					}
				}
				licensed[st.Parent()] = true
			}
			if c, isCall := ev.(*ssa.Call); isCall && firstEval < 0 {
				if cal := c.Call.StaticCallee(); cal != nil && m.canonicalSet()[cal] && cal != m.sink {
					firstEval = i
				}
			}
		}
		if firstEval < 0 {
			continue
		}
		nIter++
		if reset < 0 || reset > firstEval {
			okReset = false
		}
	}
	switch {
	case nIter == 0:
		r.Lost(rule, "iterations of the top-level loop")
	case okReset:
		r.Ok(rule, ssaName(m.top), "slot reset for every top-level statement", w.Pos(resetPos), "on every iteration path the slot is set to nil (or the statement itself) before any evaluator runs")
	default:
		r.Bad(rule, ssaName(m.top), "no reset of the current-statement slot", w.Pos(resetPos),
			"the slot keeps the inner statement of an EARLIER tag: a later top-level error is reported on that earlier line")
	}
	// (2) the in-block statement evaluator records its own node, first thing
	okEntry := false
	if len(m.stmt.Blocks) > 0 {
		for _, ins := range m.stmt.Blocks[0].Instrs {
			if _, isCall := ins.(*ssa.Call); isCall {
				break
			}
			if st, isStore := isSlotStore(ins); isStore && len(m.stmt.Params) == 2 && st.Val == ssa.Value(m.stmt.Params[1]) {
				okEntry = true
			}
		}
	}
	if okEntry {
		r.Ok(rule, ssaName(m.stmt), "recorded on entry of every in-block statement", w.Pos(m.stmt.Pos()), "the node parameter is stored before anything is evaluated")
	} else {
		r.Bad(rule, ssaName(m.stmt), "in-block statement is not recorded on entry", w.Pos(m.stmt.Pos()), "the in-block statement evaluator must record its own node, first thing")
	}
	// (3) nobody else writes the slot
	for _, f := range w.Funcs("") {
		fn := w.SSAFunc(f)
		if fn == nil {
			continue
		}
		for _, g := range append([]*ssa.Function{fn}, allAnon(fn)...) {
			if licensed[g] {
				continue
			}
			for _, b := range g.Blocks {
				for _, ins := range b.Instrs {
					if st, isStore := isSlotStore(ins); isStore {
						r.Bad(rule, ssaName(g), "store to the current-statement slot", w.Pos(st.Pos()),
							"the current-statement slot is written outside the two licensed places: restoring or overwriting it loses the record of the statement that failed, and the error names another line")
					}
				}
			}
		}
	}
}

func cursorOwnershipRule(r *Run, rule string) {
	w := r.W
	m := analyseLexerArmsLight(w)
	if len(m.problems) > 0 || m.readChar == nil || m.line == nil || len(m.posF) == 0 {
		r.Lost(rule, "lexer model (cursor fields, line counter): "+strings.Join(m.problems, "; "))
		return
	}
	owned := map[*types.Var]string{m.line: "line counter", m.ch: "current character"}
	for _, p := range m.posF {
		owned[p] = "cursor position"
	}
	for _, f := range w.AllFuncs() {
		info := f.Pkg.TypesInfo
		ast.Inspect(f.Decl.Body, func(n ast.Node) bool {
			var lhs []ast.Expr
			switch x := n.(type) {
			case *ast.AssignStmt:
				lhs = x.Lhs
			case *ast.IncDecStmt:
				lhs = []ast.Expr{x.X}
			}
			for _, l := range lhs {
				_, fld := fieldOf(info, l)
				what, isOwned := owned[fld]
				if fld == nil || !isOwned {
					continue
				}
				con := "write " + short(w.Fset, n)
				if f.Obj == m.readChar.Obj {
					r.Ok(rule, f.Name(), con, w.Pos(n.Pos()), what+" written by readChar")
				} else {
					r.Bad(rule, f.Name(), con, w.Pos(n.Pos()),
						"the "+what+" is written outside readChar: bytes consumed this way are not counted, so every later line number is off (and shift invariance is lost)")
				}
			}
			return true
		})
	}
	// the line bump: on the in-range paths of readChar the counter advances by one exactly when the byte
	// just consumed is '\n' (read from the paths of readChar)
	if sum := w.lexSSA().readCharSummary(); sum.ok && sum.lineOnLF && !sum.lineSomewhereElse && sum.advances {
		r.Ok(rule, m.readChar.Name(), "line++ iff consumed byte is LF", w.Pos(m.readChar.Decl.Pos()), "every in-range path: ch = input[readPosition], cursor +1, line +1 exactly under ch == '\\n'")
	} else if sum.ok && !sum.advances {
		r.Bad(rule, m.readChar.Name(), "cursor step of readChar", w.Pos(m.readChar.Decl.Pos()), "in range readChar must load input[readPosition] into ch, set position to it and advance readPosition by exactly one")
	} else {
		r.Bad(rule, m.readChar.Name(), "no line bump on LF", w.Pos(m.readChar.Decl.Pos()), "the line counter must advance by one exactly when the byte just consumed is '\\n'")
	}
	// the constructor starts at line 1
	if m.newFn != nil {
		ok := false
		inspectBody(m.newFn.Decl.Body, false, func(n ast.Node) bool {
			if kv, isKV := n.(*ast.KeyValueExpr); isKV {
				if k, _ := kv.Key.(*ast.Ident); k != nil && m.info.Uses[k] == types.Object(m.line) {
					if v, isC := constInt(m.info, kv.Value); isC && v == 1 {
						ok = true
					}
				}
			}
			return true
		})
		if ok {
			r.Ok(rule, m.newFn.Name(), "line counter starts at 1", w.Pos(m.newFn.Decl.Pos()), "1-based")
		} else {
			r.Bad(rule, m.newFn.Name(), "initial line", w.Pos(m.newFn.Decl.Pos()), "lines are 1-based")
		}
	}
	// input is indexed / sliced only relative to the cursor fields (no absolute index)
	for _, f := range m.methods {
		inspectBody(f.Decl.Body, false, func(n ast.Node) bool {
			var idx []ast.Expr
			var base ast.Expr
			switch x := n.(type) {
			case *ast.IndexExpr:
				base, idx = x.X, []ast.Expr{x.Index}
			case *ast.SliceExpr:
				base = x.X
				for _, e := range []ast.Expr{x.Low, x.High} {
					if e != nil {
						idx = append(idx, e)
					}
				}
			}
			if _, fld := fieldOf(m.info, base); base == nil || fld != m.input {
				return true
			}
			for _, e := range idx {
				if _, isConst := constInt(m.info, e); isConst {
					r.Bad(rule, f.Name(), "absolute index "+short(w.Fset, n), w.Pos(n.Pos()), "the scanner reads input at an absolute position: its behaviour would change when text is prepended")
				}
			}
			return true
		})
	}
	// bytes may be skipped only through readChar: no other use of strings.Index* etc. on input inside the lexer methods
	for _, f := range m.methods {
		for _, c := range callsIn(f.Decl.Body, false) {
			cal := calleeOf(m.info, c)
			if cal == nil || cal.Pkg() == nil || (cal.Pkg().Path() != "strings" && cal.Pkg().Path() != "bytes") {
				continue
			}
			if strings.HasPrefix(cal.Name(), "Index") || strings.HasPrefix(cal.Name(), "LastIndex") || cal.Name() == "Cut" {
				for _, a := range c.Args {
					uses := false
					ast.Inspect(a, func(n ast.Node) bool {
						if e, ok := n.(ast.Expr); ok {
							if _, fld := fieldOf(m.info, e); fld == m.input {
								uses = true
							}
						}
						return true
					})
					if uses {
						r.Bad(rule, f.Name(), "search in input "+short(w.Fset, c), w.Pos(c.Pos()), "the scanner locates a position by searching the input instead of reading it byte by byte: skipped newlines are not counted")
					}
				}
			}
		}
	}
}

// statementTokenRule: the composite literal of the node a statement-level
// parse function returns captures the current token before any token-moving call.
func statementTokenRule(r *Run, rule string) {
	w := r.W
	pm := w.parserModel()
	if len(pm.problems) > 0 {
		r.Lost(rule, "parser model: "+strings.Join(pm.problems, "; "))
		return
	}
	info := pm.info
	for _, f := range pm.methods {
		sig := f.Obj.Type().(*types.Signature)
		if sig.Results().Len() != 1 {
			continue
		}
		rt := sig.Results().At(0).Type()
		if !declaredIn(rt, astPath) {
			continue
		}
		if _, isPtr := rt.(*types.Pointer); !isPtr {
			continue
		}
		// the literal of exactly the result type
		var lit *ast.CompositeLit
		inspectBody(f.Decl.Body, false, func(n ast.Node) bool {
			if cl, ok := n.(*ast.CompositeLit); ok && lit == nil {
				if types.Identical(info.Types[cl].Type, deref(rt)) {
					lit = cl
				}
			}
			return true
		})
		if lit == nil {
			continue
		}
		capturesCur := false
		ast.Inspect(lit, func(n ast.Node) bool {
			if e, ok := n.(ast.Expr); ok {
				if _, fld := fieldOf(info, e); fld == pm.cur {
					capturesCur = true
				}
			}
			return true
		})
		if !capturesCur {
			// a helper that hands back the current token as it is counts as the current token
			viaHelper := false
			ast.Inspect(lit, func(n ast.Node) bool {
				call, ok := n.(*ast.CallExpr)
				if !ok || len(call.Args) != 0 {
					return true
				}
				g := w.FuncOf(calleeOf(info, call))
				if g == nil || g.Rel != "parser" || g.Decl.Body == nil {
					return true
				}
				rets := returnsIn(g.Decl.Body)
				all := len(rets) > 0
				for _, ret := range rets {
					if len(ret.Results) != 1 {
						all = false
						continue
					}
					if _, fld := fieldOf(g.Pkg.TypesInfo, ret.Results[0]); fld != pm.cur {
						all = false
					}
				}
				if all {
					viaHelper = true
				}
				return true
			})
			if viaHelper {
				capturesCur = true
			}
			// ... and so does a local that was given the current token once (tok := p.curToken)
			ast.Inspect(lit, func(n ast.Node) bool {
				if id, ok := n.(*ast.Ident); ok {
					if def := singleDefinition(info, f, id); def != ast.Expr(id) {
						if _, fld := fieldOf(info, def); fld == pm.cur {
							capturesCur = true
						}
					}
				}
				return true
			})
		}
		if !capturesCur {
			// a statement node must carry the token it starts with: the top-level evaluator reports its line
			if types.Implements(rt, stmtIface(w)) && litSetsToken(info, lit) {
				r.Bad(rule, f.Name(), typeStr(deref(rt))+" stamped with something else than the current token", w.Pos(lit.Pos()),
					"the statement's token is not the parser's current token as it stands when the statement begins (a token made up on the way, with a line taken from elsewhere, is reported instead of the line of the tag that holds the statement)")
			}
			continue
		}
		var firstMove token.Pos
		for _, c := range callsIn(f.Decl.Body, false) {
			if pm.isMover(c) && (!firstMove.IsValid() || c.Pos() < firstMove) {
				firstMove = c.Pos()
			}
		}
		con := typeStr(deref(rt)) + " stamped with the current token"
		if !firstMove.IsValid() || lit.Pos() < firstMove {
			r.Ok(rule, f.Name(), con, w.Pos(lit.Pos()), "captured before the first token-moving call")
		} else {
			r.Bad(rule, f.Name(), con+" after the cursor moved", w.Pos(lit.Pos()),
				"the node's token is captured after parsing has advanced: it is the LAST token of the construct, so a runtime error is reported on the line where the tag ends")
		}
	}
}

// singleDefinition: e is a local that is assigned exactly once in f: the expression assigned to it; e otherwise.
func singleDefinition(info *types.Info, f *FuncInfo, e ast.Expr) ast.Expr {
	o := objOf(info, e)
	if o == nil {
		return e
	}
	if _, isVar := o.(*types.Var); !isVar || o.Parent() == nil || o.Parent() == o.Pkg().Scope() {
		return e
	}
	var def ast.Expr
	n := 0
	inspectBody(f.Decl.Body, false, func(m ast.Node) bool {
		switch x := m.(type) {
		case *ast.AssignStmt:
			for i, l := range x.Lhs {
				if objOf(info, l) == o {
					n++
					if len(x.Lhs) == len(x.Rhs) {
						def = x.Rhs[i]
					} else {
						def = nil
					}
				}
			}
		case *ast.IncDecStmt:
			if objOf(info, x.X) == o {
				n += 2
			}
		case *ast.UnaryExpr:
			if x.Op == token.AND && objOf(info, x.X) == o {
				n += 2 // address taken
			}
		}
		return true
	})
	if n == 1 && def != nil {
		return unparen(def)
	}
	return e
}

// stmtIface: the ast.Statement interface.
func stmtIface(w *World) *types.Interface {
	if n := w.NamedType("ast", "Statement"); n != nil {
		if it, ok := n.Underlying().(*types.Interface); ok {
			return it
		}
	}
	return types.NewInterfaceType(nil, nil)
}

// litSetsToken: the composite literal gives its node a token (a field of type token.Token somewhere in it).
func litSetsToken(info *types.Info, lit *ast.CompositeLit) bool {
	found := false
	ast.Inspect(lit, func(n ast.Node) bool {
		if kv, ok := n.(*ast.KeyValueExpr); ok {
			if tv, ok := info.Types[kv.Value]; ok && namedIs(tv.Type, tokPath, "Token") {
				found = true
			}
		}
		return true
	})
	return found
}
