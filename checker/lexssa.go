package main

// lexssa.go: the lexer read from its SSA form. For every value of the current
// character (all 256) the paths of the token functions are enumerated with the
// path walker: the current-character field is seeded with that byte until the
// cursor moves, look-ahead comparisons that were decided on the path fix the
// following bytes, helper methods without loops are walked in line, readChar
// and the scanning methods (those with loops) are events. Each path yields the
// token it returns (type, literal, line stamp), how far the cursor moved and
// which scanners ran. The rules on top of it do not depend on the shape of the
// source (switch or if-chain, break or else, helper constructors, inverted
// guards, loop forms).

import (
	"fmt"
	"go/constant"
	"go/token"
	"go/types"
	"sort"
	"strings"

	"golang.org/x/tools/go/ssa"
)

type lexSSAModel struct {
	w        *World
	m        *lexerModel // role anchors (fields, readChar, peekChar, constructor) from the declarations
	recvT    *types.Named
	chIdx    int
	lineIdx  int
	insIdx   int
	inputIdx int
	posIdx   map[int]bool
	readChar *ssa.Function
	peekChar *ssa.Function
	outer    *ssa.Function // exported token function
	inside   *ssa.Function // token function used inside a tag
	skipper  *ssa.Function // whitespace skipper
	// loopThroughHelper: void functions whose cursor loop lives in a helper they call
	loopThroughHelper map[*ssa.Function]bool
	// skipWrappers: functions that run the skipper first and then loop over comments (walked in line)
	skipWrappers map[*ssa.Function]bool
	scanners     map[*ssa.Function]string
	hasLoop      map[*ssa.Function]bool
	tokType      *types.Named
	tokTypeI     int // field indices of token.Token
	tokLitI      int
	tokLineI     int
	problems     []string
	cache        map[string][]*lexTokPath
}

type lexTokPath struct {
	b            byte
	p            *pwPath
	peek         map[int]byte // bytes behind the current one that the path has established (offset -> byte)
	tokType      string
	typeOK       bool
	literal      string
	literalOK    bool
	litScanner   string // the literal is the result of this scanner
	litScanFn    *ssa.Function
	litUnescapes int // ... after this many applications of strings.Replace(s, `\"`, `"`, -1) in the token function
	reads        int // readChar events after the leading whitespace skip
	scans        []string
	scanFns      []*ssa.Function
	readsAfter   int  // reads after the last scanner
	recursive    bool // the token function was called again on this path
	retRecur     bool // ... and its token is returned as is
	lineSet      bool
	lineOther    bool // LineNumber set from something else than the line counter
	inside       *bool
	end          string
	pos          token.Pos
	skipFirst    bool // the whitespace skipper ran before the current character was looked at
}

func fieldIndex(st *types.Struct, v *types.Var) int {
	for i := 0; i < st.NumFields(); i++ {
		if st.Field(i) == v {
			return i
		}
	}
	return -1
}

func funcHasLoop(fn *ssa.Function) bool {
	for _, b := range fn.Blocks {
		for _, s := range b.Succs {
			if s.Index <= b.Index && blockReaches(s, b, false) {
				return true
			}
		}
	}
	return false
}

func (w *World) lexSSA() *lexSSAModel {
	if w.lexModel != nil {
		return w.lexModel
	}
	w.SSA()
	lm := &lexSSAModel{w: w, posIdx: map[int]bool{}, scanners: map[*ssa.Function]string{}, hasLoop: map[*ssa.Function]bool{}, cache: map[string][]*lexTokPath{}, chIdx: -1, lineIdx: -1, insIdx: -1, inputIdx: -1}
	w.lexModel = lm
	m := analyseLexerArmsLight(w)
	lm.m = m
	if m.typ == nil || m.input == nil || m.ch == nil || m.readChar == nil || m.peekChar == nil {
		lm.problems = append(lm.problems, "lexer roles (struct, input/ch fields, readChar, peekChar): "+strings.Join(m.problems, "; "))
		return lm
	}
	lm.recvT = m.typ
	st := m.typ.Underlying().(*types.Struct)
	lm.chIdx, lm.inputIdx = fieldIndex(st, m.ch), fieldIndex(st, m.input)
	if m.line != nil {
		lm.lineIdx = fieldIndex(st, m.line)
	}
	if m.insideF != nil {
		lm.insIdx = fieldIndex(st, m.insideF)
	}
	for _, p := range m.posF {
		lm.posIdx[fieldIndex(st, p)] = true
	}
	lm.readChar, lm.peekChar = w.SSAFunc(m.readChar), w.SSAFunc(m.peekChar)
	// token type
	for _, f := range m.methods {
		sig := f.Obj.Type().(*types.Signature)
		if sig.Params().Len() == 0 && sig.Results().Len() == 1 && namedIs(sig.Results().At(0).Type(), tokPath, "Token") {
			lm.tokType, _ = sig.Results().At(0).Type().(*types.Named)
			if f.Decl.Name.IsExported() {
				lm.outer = w.SSAFunc(f)
			}
		}
		if fn := w.SSAFunc(f); fn != nil {
			lm.hasLoop[fn] = funcHasLoop(fn)
		}
	}
	if lm.tokType == nil || lm.outer == nil {
		lm.problems = append(lm.problems, "exported token function")
		return lm
	}
	ts := lm.tokType.Underlying().(*types.Struct)
	lm.tokTypeI, lm.tokLitI, lm.tokLineI = -1, -1, -1
	for i := 0; i < ts.NumFields(); i++ {
		f := ts.Field(i)
		switch {
		case isBasicKind(f.Type(), types.Int):
			lm.tokLineI = i
		case isBasicKind(f.Type(), types.String) && isNamed(f.Type()):
			lm.tokTypeI = i
		case isBasicKind(f.Type(), types.String):
			lm.tokLitI = i
		}
	}
	if lm.tokTypeI < 0 || lm.tokLitI < 0 || lm.tokLineI < 0 {
		lm.problems = append(lm.problems, "fields of token.Token (type, literal, line)")
		return lm
	}
	// scanners: string-returning methods with a loop; classified by the declaration model
	var voidLoops []*ssa.Function
	for _, f := range m.methods {
		fn := w.SSAFunc(f)
		if fn == nil || !lm.hasLoop[fn] {
			continue
		}
		sig := f.Obj.Type().(*types.Signature)
		// (the text scanned is the first result; a scanner may report more, e.g. how many dots it has seen)
		if sig.Results().Len() >= 1 && isBasicKind(sig.Results().At(0).Type(), types.String) {
			lm.scanners[fn] = lm.classifyScanner(fn)
		}
		if sig.Results().Len() == 0 && sig.Params().Len() == 0 && fn != lm.readChar {
			lm.skipper = fn
			voidLoops = append(voidLoops, fn)
		}
	}
	// ... and the methods without result or parameters that run a cursor loop through a helper
	// (skipWhitespace written as readWhile(isWhitespace))
	for _, f := range m.methods {
		fn := w.SSAFunc(f)
		sig := f.Obj.Type().(*types.Signature)
		if fn == nil || lm.hasLoop[fn] || fn == lm.readChar || sig.Results().Len() != 0 || sig.Params().Len() != 0 {
			continue
		}
		loops := false
		for _, b := range fn.Blocks {
			for _, ins := range b.Instrs {
				if c, ok := ins.(*ssa.Call); ok {
					if cal := c.Call.StaticCallee(); cal != nil && cal != lm.readChar && lm.hasLoop[cal] {
						loops = true
					}
				}
			}
		}
		if loops {
			if lm.skipper == nil {
				lm.skipper = fn
			}
			voidLoops = append(voidLoops, fn)
			if lm.loopThroughHelper == nil {
				lm.loopThroughHelper = map[*ssa.Function]bool{}
			}
			lm.loopThroughHelper[fn] = true
		}
	}
	// the inside-tag token function: what the exported one returns when the inside flag is set
	if lm.insIdx >= 0 {
		pw := &pathWalker{loadHook: func(p *pwPath, ld *ssa.UnOp) (constant.Value, bool) {
			if fa, ok := ld.X.(*ssa.FieldAddr); ok && fa.Field == lm.insIdx && len(lm.outer.Params) > 0 && p.resolve(fa.X) == ssa.Value(lm.outer.Params[0]) {
				return constant.MakeBool(true), true
			}
			return nil, false
		}}
		pw.walk(lm.outer)
		for _, p := range pw.paths {
			if p.end == "return" && len(p.results) == 1 {
				if c, ok := p.results[0].(*ssa.Call); ok && c.Call.StaticCallee() != nil {
					lm.inside = c.Call.StaticCallee()
				}
			}
		}
	}
	if lm.inside == nil {
		lm.problems = append(lm.problems, "inside-tag token function (the callee of the exported one when the inside flag is set)")
		return lm
	}
	// the whitespace skipper: of the cursor loops without result, the one the inside-tag token function calls first
	if len(voidLoops) > 1 {
		isVoidLoop := map[*ssa.Function]bool{}
		for _, f := range voidLoops {
			isVoidLoop[f] = true
		}
		pw := &pathWalker{maxPaths: 2000, stopCall: func(p *pwPath, fr *ssa.Function, c *ssa.Call) bool { return true }}
		pw.walk(lm.inside)
		first := map[*ssa.Function]int{}
		for _, p := range pw.paths {
			if p.end == "stop" && len(p.events) > 0 {
				if c, ok := p.events[len(p.events)-1].(*ssa.Call); ok && isVoidLoop[c.Call.StaticCallee()] && len(p.decisions) == 0 {
					first[c.Call.StaticCallee()]++
				}
			}
		}
		if len(first) == 1 {
			for f := range first {
				lm.skipper = f
			}
		}
		// a skipper that itself begins by running another of the cursor loops (skip whitespace, then - in a
		// loop - comments and whitespace again) is a wrapper: the inner one is the whitespace skipper, the
		// wrapper is walked in line like a part of the token function
		for i := 0; i < 3 && lm.skipper != nil; i++ {
			pw := &pathWalker{maxPaths: 2000, stopCall: func(p *pwPath, fr *ssa.Function, c *ssa.Call) bool { return true }}
			pw.walk(lm.skipper)
			inner := map[*ssa.Function]int{}
			n := 0
			for _, p := range pw.paths {
				n++
				if p.end == "stop" && len(p.events) > 0 && len(p.decisions) == 0 {
					if c, ok := p.events[len(p.events)-1].(*ssa.Call); ok && isVoidLoop[c.Call.StaticCallee()] && c.Call.StaticCallee() != lm.skipper {
						inner[c.Call.StaticCallee()]++
					}
				}
			}
			if len(inner) != 1 || n != 1 {
				break
			}
			for f := range inner {
				if lm.skipWrappers == nil {
					lm.skipWrappers = map[*ssa.Function]bool{}
				}
				lm.skipWrappers[lm.skipper] = true
				lm.skipper = f
			}
		}
	}
	return lm
}

// classifyScanner: "behind" when the scanner's loop is left because the
// current character is not part of the token (the cursor rests on the first
// byte behind it), "on" when it is left on a specific closing byte.
func (lm *lexSSAModel) classifyScanner(fn *ssa.Function) string {
	// explore with one iteration; look at the decision that leaves the loop after a read
	pw := &pathWalker{unroll1: true}
	pw.walk(fn)
	kind := ""
	for _, p := range pw.paths {
		if p.end != "return" {
			continue
		}
		reads := 0
		lastReadDecided := -1
		for i, ev := range p.events {
			if c, ok := ev.(*ssa.Call); ok && c.Call.StaticCallee() == lm.readChar {
				reads++
				lastReadDecided = p.evDecided[i]
			}
		}
		if reads == 0 {
			continue
		}
		// decisions after the last read
		k := "behind"
		for _, d := range p.decisions[lastReadDecided:] {
			if bo, ok := d.cond.(*ssa.BinOp); ok && (bo.Op == token.EQL || bo.Op == token.NEQ) {
				if lm.isChLoad(p, bo.X) || lm.isChLoad(p, bo.Y) {
					c, okc := p.constOf(bo.Y)
					if !okc {
						c, okc = p.constOf(bo.X)
					}
					if okc && c.Kind() == constant.Int && constant.Sign(c) != 0 && d.truth == (bo.Op == token.EQL) {
						k = "on" // left because ch == a closing byte
					}
				}
			}
		}
		if kind == "" || k == "on" {
			kind = k
		}
	}
	if kind == "" {
		kind = "loop"
	}
	return kind
}

func (lm *lexSSAModel) isFieldLoad(p *pwPath, v ssa.Value, idx int) bool {
	u, ok := v.(*ssa.UnOp)
	if !ok || u.Op != token.MUL {
		return false
	}
	fa, ok := u.X.(*ssa.FieldAddr)
	if !ok || fa.Field != idx {
		return false
	}
	t := fa.X.Type()
	if pt, ok := t.(*types.Pointer); ok {
		t = pt.Elem()
	}
	n, ok := t.(*types.Named)
	return ok && n.Obj() == lm.recvT.Obj()
}

func (lm *lexSSAModel) isChLoad(p *pwPath, v ssa.Value) bool { return lm.isFieldLoad(p, v, lm.chIdx) }

// moves counts the cursor movements (readChar and scanner calls) among the first n events of p.
func (lm *lexSSAModel) moves(p *pwPath, n int) (reads int, scanned bool) {
	for i := 0; i < n && i < len(p.events); i++ {
		c, ok := p.events[i].(*ssa.Call)
		if !ok {
			continue
		}
		cal := c.Call.StaticCallee()
		switch {
		case cal == lm.readChar:
			reads++
		case cal != nil && lm.hasLoop[cal] && cal != lm.skipper:
			scanned = true
		case cal != nil && cal == lm.skipper:
			if reads == 0 && !scanned {
				reads, scanned = 0, false // leading whitespace: the token starts behind it
			} else {
				scanned = true
			}
		case cal != nil && (cal == lm.inside || cal == lm.outer):
			scanned = true
		}
	}
	return
}

// peekFacts: offsets (relative to the token's first byte) whose byte is fixed by a decided
// comparison of a look-ahead call with a constant.
func (lm *lexSSAModel) peekFacts(p *pwPath, upto int) map[int]byte {
	out := map[int]byte{}
	evIndex := map[ssa.Instruction]int{}
	for i, ev := range p.events {
		evIndex[ev] = i
	}
	for di, d := range p.decisions {
		if di >= upto {
			break
		}
		bo, ok := d.cond.(*ssa.BinOp)
		if !ok || (bo.Op != token.EQL && bo.Op != token.NEQ) || d.truth != (bo.Op == token.EQL) {
			continue
		}
		x, y := p.resolve(bo.X), p.resolve(bo.Y)
		call, isCall := x.(*ssa.Call)
		cv, okc := p.constOf(y)
		if !isCall {
			call, isCall = y.(*ssa.Call)
			cv, okc = p.constOf(x)
		}
		if !isCall || !okc || cv.Kind() != constant.Int || call.Call.StaticCallee() != lm.peekChar {
			continue
		}
		ei, ok := evIndex[call]
		if !ok {
			continue
		}
		reads, scanned := lm.moves(p, ei)
		if scanned {
			continue
		}
		n, _ := constant.Int64Val(cv)
		out[reads+1] = byte(n)
	}
	return out
}

func (lm *lexSSAModel) inlinePolicy(root *ssa.Function) func(caller, callee *ssa.Function) bool {
	return func(caller, callee *ssa.Function) bool {
		if callee == lm.readChar || callee == lm.peekChar || callee == root || callee == lm.inside || callee == lm.outer {
			return false
		}
		if pkgOf(callee) == nil || pkgOf(callee) != root.Pkg {
			return false
		}
		if callee == lm.skipper && root != lm.skipper {
			return false // the skipper is a step of its own, whatever it looks like inside
		}
		if root == lm.skipper && lm.loopThroughHelper[root] && callee.Pkg == root.Pkg {
			return true // the skipper itself is walked with the helper that holds its loop
		}
		if lm.skipWrappers[callee] {
			return true // its loops are walked like loops of the token function itself
		}
		if lm.hasLoop[callee] || funcHasLoop(callee) {
			return false
		}
		return true
	}
}

// redispatchStop: the token function runs its whitespace skipper again after the cursor has moved:
// what follows is the lexing of the next token (the loop form of "skip the comment, then fetch
// another token"); the path is cut there and summarised like a recursive call.
func (lm *lexSSAModel) redispatchStop(fn *ssa.Function) func(p *pwPath, fr *ssa.Function, c *ssa.Call) bool {
	return func(p *pwPath, fr *ssa.Function, c *ssa.Call) bool {
		if (fr != fn && !lm.skipWrappers[fr]) || fn != lm.inside || c.Call.StaticCallee() != lm.skipper || lm.skipper == nil {
			return false
		}
		reads, scanned := lm.moves(p, len(p.events))
		return reads > 0 || scanned
	}
}

// nextBranch: the first conditional branch control reaches after the call without passing another call.
func nextBranch(c *ssa.Call) *ssa.If {
	c = origCall(c)
	b := c.Block()
	after := false
	for step := 0; step < 12 && b != nil; step++ {
		for _, ins := range b.Instrs {
			if ins == ssa.Instruction(c) {
				after = true
				continue
			}
			if !after && step == 0 {
				continue
			}
			switch x := ins.(type) {
			case *ssa.If:
				return x
			case *ssa.Call:
				if x.Call.StaticCallee() != nil && len(x.Call.StaticCallee().Blocks) > 0 {
					return nil
				}
			}
		}
		if len(b.Succs) != 1 {
			return nil
		}
		b = b.Succs[0]
	}
	return nil
}

// tokenPaths enumerates the paths of the token function fn for the current character b.
func (lm *lexSSAModel) tokenPaths(fn *ssa.Function, b byte, inside bool) []*lexTokPath {
	key := fmt.Sprintf("%p/%d/%v", fn, b, inside)
	if ps, ok := lm.cache[key]; ok {
		return ps
	}
	hook := func(p *pwPath, ld *ssa.UnOp) (constant.Value, bool) {
		fa, ok := ld.X.(*ssa.FieldAddr)
		if !ok {
			return nil, false
		}
		t := fa.X.Type()
		if pt, ok := t.(*types.Pointer); ok {
			t = pt.Elem()
		}
		if n, ok := t.(*types.Named); !ok || n.Obj() != lm.recvT.Obj() {
			return nil, false
		}
		switch fa.Field {
		case lm.insIdx:
			// the flag as it was on entry (stores on the path are forwarded by the walker)
			for _, ev := range p.events {
				if st, ok := ev.(*ssa.Store); ok {
					if sfa, ok := st.Addr.(*ssa.FieldAddr); ok && sfa.Field == lm.insIdx {
						return nil, false
					}
				}
			}
			return constant.MakeBool(inside), true
		case lm.chIdx:
			reads, scanned := lm.moves(p, len(p.events))
			if scanned {
				return nil, false
			}
			if reads == 0 {
				return constant.MakeInt64(int64(b)), true
			}
			if c, ok := lm.peekFacts(p, len(p.decisions))[reads]; ok {
				return constant.MakeInt64(int64(c)), true
			}
		}
		return nil, false
	}
	pw := &pathWalker{loadHook: hook, inline: lm.inlinePolicy(fn), unroll1: true, maxPaths: 5000, stopCall: lm.redispatchStop(fn), equate: true}
	pw.walk(fn)
	var out []*lexTokPath
	for _, p := range pw.paths {
		out = append(out, lm.summarise(fn, b, p))
	}
	if pw.overflow {
		out = append(out, &lexTokPath{b: b, end: "overflow"})
	}
	lm.cache[key] = out
	return out
}

func (lm *lexSSAModel) summarise(fn *ssa.Function, b byte, p *pwPath) *lexTokPath {
	tp := &lexTokPath{b: b, p: p, end: p.end, peek: lm.peekFacts(p, len(p.decisions))}
	if p.ret != nil {
		tp.pos = p.ret.Pos()
	}
	afterScan := false
	movedAfterRecursion := false
	for i, ev := range p.events {
		switch x := ev.(type) {
		case *ssa.Call:
			cal := x.Call.StaticCallee()
			switch {
			case cal == lm.readChar:
				tp.reads++
				if afterScan {
					tp.readsAfter++
				}
				if tp.recursive {
					movedAfterRecursion = true
				}
			case cal != nil && cal == lm.skipper:
				if tp.reads == 0 && len(tp.scans) == 0 && !tp.recursive {
					tp.skipFirst = true
				} else {
					tp.scans = append(tp.scans, "loop")
					tp.scanFns = append(tp.scanFns, cal)
					afterScan = true
				}
			case cal != nil && (cal == lm.inside || (cal == fn && fn != lm.outer)):
				tp.recursive = true
			case cal != nil && lm.scanners[cal] != "":
				if tp.recursive {
					movedAfterRecursion = true
				}
				tp.scans = append(tp.scans, lm.scanners[cal])
				tp.scanFns = append(tp.scanFns, cal)
				afterScan = true
				tp.readsAfter = 0
			case cal != nil && cal.Pkg == fn.Pkg && lm.hasLoop[cal]:
				tp.scans = append(tp.scans, "loop")
				tp.scanFns = append(tp.scanFns, cal)
				afterScan = true
			}
		case *ssa.Store:
			if fa, ok := x.Addr.(*ssa.FieldAddr); ok && fa.Field == lm.insIdx && lm.insIdx >= 0 {
				if n, ok := fa.X.Type().(*types.Pointer); ok {
					if nt, ok := n.Elem().(*types.Named); ok && nt.Obj() == lm.recvT.Obj() {
						if c, ok := p.constOf(x.Val); ok && c.Kind() == constant.Bool {
							v := constant.BoolVal(c)
							tp.inside = &v
						}
					}
				}
			}
		}
		_ = i
	}
	if p.end == "stop" && len(p.events) > 0 {
		// the skipper ran again: the next token is lexed by the same dispatch when control is where
		// it is after the leading skip, and nothing moved since the scanner that was skipped over
		last, _ := p.events[len(p.events)-1].(*ssa.Call)
		var lead *ssa.Call
		for _, ev := range p.events {
			if c, ok := ev.(*ssa.Call); ok && c.Call.StaticCallee() == lm.skipper {
				lead = c
				break
			}
		}
		tp.recursive = true
		tp.end = "return"
		tp.lineSet = true
		same := last != nil && lead != nil && lead != last && nextBranch(lead) != nil && nextBranch(lead) == nextBranch(last)
		tp.retRecur = same && tp.readsAfter == 0 && len(tp.scans) > 0
		if n := len(tp.scans); n > 0 && tp.scans[n-1] == "loop" && len(tp.scanFns) == n && tp.scanFns[n-1] == lm.skipper {
			// (the re-run of the skipper itself is not a scanner of this token)
			tp.scans, tp.scanFns = tp.scans[:n-1], tp.scanFns[:n-1]
			// what was skipped over was read by a scanner, or by a loop of the token function itself
			tp.retRecur = same && (len(tp.scans) > 0 && tp.readsAfter == 0 || len(tp.scans) == 0 && tp.reads > 0)
		}
		return tp
	}
	if p.end != "return" || len(p.results) != 1 {
		return tp
	}
	res := p.resolve(p.results[0])
	// the token of a recursive call returned as is
	if c, ok := res.(*ssa.Call); ok {
		cal := c.Call.StaticCallee()
		if cal != nil && (cal == lm.inside || cal == fn) {
			tp.retRecur, tp.lineSet = !movedAfterRecursion, true
			return tp
		}
		return tp
	}
	ld, ok := res.(*ssa.UnOp)
	if !ok || ld.Op != token.MUL {
		return tp
	}
	obj := p.addrKey(ld.X)
	if obj == "" || p.unknown[obj] {
		return tp
	}
	field := func(i int) (ssa.Value, bool) {
		v, ok := p.stores[fmt.Sprintf("%s.%d", obj, i)]
		return v, ok
	}
	if v, ok := field(lm.tokTypeI); ok {
		if c, ok := p.constOf(v); ok && c.Kind() == constant.String {
			tp.tokType, tp.typeOK = constant.StringVal(c), true
		}
	}
	if v, ok := field(lm.tokLitI); ok {
		if c, ok := p.constOf(v); ok && c.Kind() == constant.String {
			tp.literal, tp.literalOK = constant.StringVal(c), true
		} else {
			// the result of a scanner, possibly passed through the un-escaping of \" (strings.Replace)
			lv := p.resolve(v)
			for i := 0; i < 3; i++ {
				n, inner, ok := unescapeLayer(p, lv)
				if !ok || n == 0 {
					break
				}
				tp.litUnescapes++
				lv = p.resolve(inner)
			}
			if ex, isEx := lv.(*ssa.Extract); isEx && ex.Index == 0 {
				lv = ex.Tuple // the text of a scanner with several results
			}
			if call, ok := lv.(*ssa.Call); ok && call.Call.StaticCallee() != nil && lm.scanners[call.Call.StaticCallee()] != "" {
				tp.litScanner = call.Call.StaticCallee().Name()
				tp.litScanFn = call.Call.StaticCallee()
			}
		}
	} else {
		tp.literal, tp.literalOK = "", true // zero value
	}
	if v, ok := field(lm.tokLineI); ok {
		if lm.isFieldLoad(p, p.resolve(v), lm.lineIdx) {
			tp.lineSet = true
		} else {
			tp.lineOther = true
		}
	}
	return tp
}

// unescapeLayer: v is strings.Replace(inner, `\"`, `"`, -1) (or ReplaceAll): returns 1 and inner;
// 0 when v is no call of strings.Replace at all; ok is false for a Replace with other arguments.
func unescapeLayer(p *pwPath, v ssa.Value) (n int, inner ssa.Value, ok bool) {
	call, isCall := p.resolve(v).(*ssa.Call)
	if !isCall {
		return 0, nil, true
	}
	pkg, fname := staticCalleeName(call)
	if pkg != "strings" || (fname != "Replace" && fname != "ReplaceAll") || len(call.Call.Args) < 3 {
		return 0, nil, true
	}
	from, ok1 := p.constOf(call.Call.Args[1])
	to, ok2 := p.constOf(call.Call.Args[2])
	if !ok1 || !ok2 || from.Kind() != constant.String || to.Kind() != constant.String || constant.StringVal(from) != "\\\"" || constant.StringVal(to) != "\"" {
		return 1, call.Call.Args[0], false
	}
	if fname == "Replace" && len(call.Call.Args) == 4 {
		if c, ok := p.constOf(call.Call.Args[3]); !ok || constant.Sign(c) >= 0 {
			return 1, call.Call.Args[0], false
		}
	}
	return 1, call.Call.Args[0], true
}

// byteLabel renders a set of initial bytes compactly.
func byteLabel(bs []byte) string {
	if len(bs) == 1 {
		if bs[0] == 0 {
			return "case 0"
		}
		return fmt.Sprintf("case %q", rune(bs[0]))
	}
	sort.Slice(bs, func(i, j int) bool { return bs[i] < bs[j] })
	var parts []string
	for i := 0; i < len(bs); {
		j := i
		for j+1 < len(bs) && bs[j+1] == bs[j]+1 {
			j++
		}
		if j > i+1 {
			parts = append(parts, fmt.Sprintf("%q-%q", rune(bs[i]), rune(bs[j])))
		} else {
			for k := i; k <= j; k++ {
				parts = append(parts, fmt.Sprintf("%q", rune(bs[k])))
			}
		}
		i = j + 1
	}
	if len(parts) > 6 {
		parts = append(parts[:6], fmt.Sprintf("...(%d bytes)", len(bs)))
	}
	return "bytes " + strings.Join(parts, ",")
}

// signature of the outcomes for one byte (used to group bytes that behave alike).
func (lm *lexSSAModel) outcomeSig(ps []*lexTokPath) string {
	var parts []string
	for _, p := range ps {
		pk := []string{}
		var offs []int
		for o := range p.peek {
			offs = append(offs, o)
		}
		sort.Ints(offs)
		for _, o := range offs {
			pk = append(pk, fmt.Sprintf("%d=%d", o, p.peek[o]))
		}
		lit := p.literal
		if p.literalOK && lit == string(rune(p.b)) {
			lit = "<the byte>"
		}
		ins := "-"
		if p.inside != nil {
			ins = fmt.Sprint(*p.inside)
		}
		parts = append(parts, fmt.Sprintf("%s|%v|%s|%v|%s|%d|%v|%d|%v|%v|%v|%s|%s|%s", p.tokType, p.typeOK, lit, p.literalOK, p.litScanner, p.reads, p.scans, p.readsAfter, p.recursive, p.retRecur, p.lineSet, ins, p.end, strings.Join(pk, ",")))
	}
	sort.Strings(parts)
	return strings.Join(parts, " ; ")
}

type lexGroup struct {
	bytes []byte
	label string
	paths []*lexTokPath // of the first byte of the group
}

// groups enumerates all 256 initial bytes of the token function and groups those with equal outcomes.
func (lm *lexSSAModel) groups(fn *ssa.Function, inside bool) []lexGroup {
	bySig := map[string]*lexGroup{}
	var order []string
	for b := 0; b < 256; b++ {
		ps := lm.tokenPaths(fn, byte(b), inside)
		sig := lm.outcomeSig(ps)
		g := bySig[sig]
		if g == nil {
			g = &lexGroup{paths: ps}
			bySig[sig] = g
			order = append(order, sig)
		}
		g.bytes = append(g.bytes, byte(b))
	}
	var out []lexGroup
	for _, s := range order {
		g := bySig[s]
		g.label = byteLabel(g.bytes)
		out = append(out, *g)
	}
	return out
}
