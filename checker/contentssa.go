package main

// contentssa.go: contentFor / contentOf read from the paths of their SSA form
// (package-local helpers walked in line): what is looked up and registered
// under which key, on which scope data is bound, how often the block is
// rendered on a success path.

import (
	"fmt"
	"go/constant"
	"go/token"
	"go/types"

	"golang.org/x/tools/go/ssa"
)

type invocation struct {
	call   *ssa.Call
	method string
	recv   ssa.Value
	args   []ssa.Value
	at     int // index in the path's events
}

// canonValue: a load of a captured variable stands for the variable itself.
func canonValue(p *pwPath, v ssa.Value) ssa.Value {
	v = p.resolve(v)
	if u, ok := v.(*ssa.UnOp); ok && u.Op == token.MUL {
		if fv, ok := u.X.(*ssa.FreeVar); ok {
			return fv
		}
	}
	return v
}

func pathInvocations(p *pwPath) []invocation {
	var out []invocation
	for i, ev := range p.events {
		c, ok := ev.(*ssa.Call)
		if !ok {
			continue
		}
		if c.Call.IsInvoke() {
			inv := invocation{call: c, method: c.Call.Method.Name(), recv: canonValue(p, c.Call.Value), at: i}
			for _, a := range c.Call.Args {
				inv.args = append(inv.args, canonValue(p, a))
			}
			out = append(out, inv)
			continue
		}
		if cal := c.Call.StaticCallee(); cal != nil && cal.Signature.Recv() != nil && len(c.Call.Args) > 0 {
			inv := invocation{call: c, method: cal.Name(), recv: canonValue(p, c.Call.Args[0]), at: i}
			for _, a := range c.Call.Args[1:] {
				inv.args = append(inv.args, p.resolve(a))
			}
			out = append(out, inv)
		}
	}
	return out
}

// contentKey: v is <constant prefix> + <name>; returns the prefix and the name operand.
func contentKey(p *pwPath, v ssa.Value) (string, ssa.Value, bool) {
	bo, ok := p.resolve(v).(*ssa.BinOp)
	if !ok || bo.Op != token.ADD {
		return "", nil, false
	}
	c, ok := p.constOf(bo.X)
	if !ok || c.Kind() != constant.String {
		return "", nil, false
	}
	return constant.StringVal(c), p.resolve(bo.Y), true
}

type childRender struct {
	ok        bool
	why       string
	blockWith int  // number of BlockWith calls
	boundData bool // an entry ranged from the data parameter was set on the child
	setOnHelp []invocation
}

// checkChildRender: on this path the block is rendered in a child created for
// this call: New() on help once, Set only on that child with entries ranged
// from data, BlockWith(child).
func checkChildRender(p *pwPath, invs []invocation, help, data ssa.Value) childRender {
	cr := childRender{ok: true}
	var child ssa.Value
	for _, in := range invs {
		switch in.method {
		case "New":
			if in.recv == help {
				if child != nil {
					cr.ok, cr.why = false, "more than one child scope is created"
				}
				child = in.call
			}
		case "Set":
			switch {
			case in.recv == help:
				cr.setOnHelp = append(cr.setOnHelp, in)
			case child != nil && in.recv == ssa.Value(child):
				// the key and value must come from ranging over the data parameter
				fromData := false
				for _, a := range in.args {
					a = p.resolve(stripIface(a))
					if ex, ok := a.(*ssa.Extract); ok {
						if nx, ok := ex.Tuple.(*ssa.Next); ok {
							if rg, ok := nx.Iter.(*ssa.Range); ok && canonValue(p, rg.X) == data {
								fromData = true
							}
						}
					}
				}
				if !fromData {
					cr.ok, cr.why = false, "the entries bound in the child scope do not come from ranging over the data parameter"
				} else {
					cr.boundData = true
				}
			default:
				cr.ok, cr.why = false, "data is bound on a scope that is neither the child created for this call nor the helper's own"
			}
		case "BlockWith", "Block":
			if in.recv != help {
				continue
			}
			cr.blockWith++
			if in.method == "Block" {
				cr.ok, cr.why = false, "the block is rendered in the caller's scope (Block) instead of a child scope (BlockWith)"
				continue
			}
			if child == nil || len(in.args) != 1 || p.resolve(stripIface(in.args[0])) != ssa.Value(child) {
				cr.ok, cr.why = false, "the block must run in a child scope created by help.New() for THIS call, and that child must be the one handed to BlockWith"
			}
		}
	}
	// every entry the loop over the data visits is bound: a way round the loop that sets nothing (an entry skipped
	// because the name is already visible in the child's chain) lets the caller's variable win over the data
	if cr.ok && !cr.boundData {
		for _, d := range p.decisions {
			ex, isEx := d.cond.(*ssa.Extract)
			if !isEx || ex.Index != 0 || !d.truth {
				continue
			}
			if nx, isNx := ex.Tuple.(*ssa.Next); isNx {
				if rg, isRg := nx.Iter.(*ssa.Range); isRg && canonValue(p, rg.X) == data {
					cr.ok, cr.why = false, "an entry of the data is visited and not bound in the child scope (skipped under a condition): the block does not see the data it was called with"
				}
			}
		}
	}
	return cr
}

func contentRulesSSA(r *Run, onceRule, keyRule, dataRule, scopeRule string) {
	w := r.W
	w.SSA()
	cf, co := w.Func("helpers/content", "ContentFor"), w.Func("helpers/content", "ContentOf")
	if cf == nil || co == nil {
		for _, rl := range []string{onceRule, keyRule, dataRule, scopeRule} {
			if rl != "" {
				r.Lost(rl, "ContentFor / ContentOf")
			}
		}
		return
	}
	cfFn, coFn := w.SSAFunc(cf), w.SSAFunc(co)
	inline := func(caller, callee *ssa.Function) bool {
		return callee.Pkg == cfFn.Pkg && !funcHasLoop(callee) || callee.Pkg == cfFn.Pkg && callee.Parent() == nil
	}
	paramOfType := func(fn *ssa.Function, pred func(types.Type) bool) ssa.Value {
		for _, p := range fn.Params {
			if pred(p.Type()) {
				return p
			}
		}
		for _, fv := range fn.FreeVars {
			t := fv.Type()
			if pt, ok := t.(*types.Pointer); ok {
				t = pt.Elem()
			}
			if pred(t) {
				return fv
			}
		}
		return nil
	}
	isHelp := func(t types.Type) bool { return namedIs(t, hctxPath, "HelperContext") }
	isData := func(t types.Type) bool { _, ok := t.Underlying().(*types.Map); return ok }
	isName := func(t types.Type) bool { return isBasicKind(t, types.String) }
	say := func(rule string, ok bool, fn, con, pos, good, bad string) {
		if rule == "" {
			return
		}
		if ok {
			r.Ok(rule, fn, con, pos, good)
		} else {
			r.Bad(rule, fn, con, pos, bad)
		}
	}
	// ---- contentFor
	cfPos := w.Pos(cf.Decl.Pos())
	if cf.Obj.Type().(*types.Signature).Results().Len() == 0 {
		say(keyRule, true, cf.Name(), "no results", cfPos, "the call evaluates to nil, which the sink drops", "")
	} else {
		say(keyRule, false, cf.Name(), "has results", cfPos, "", "contentFor must emit nothing where it is defined: a result would be printed by <%= %> and by helpers that print their value")
	}
	var regPrefix string
	var regOK bool
	var closure *ssa.Function
	{
		paths, ok := walkPathsUnrolled(cfFn, nil, inline, 5000)
		help, name := paramOfType(cfFn, isHelp), paramOfType(cfFn, isName)
		nReg := 0
		okShape := ok && help != nil && name != nil
		for _, p := range paths {
			if p.end != "return" {
				okShape = false
			}
			for _, in := range pathInvocations(p) {
				switch in.method {
				case "Set":
					if in.recv != help || len(in.args) != 2 {
						okShape = false
						continue
					}
					nReg++
					prefix, nm, isKey := contentKey(p, in.args[0])
					if !isKey || nm != name {
						okShape = false
						continue
					}
					regPrefix, regOK = prefix, true
					if mc, isMC := p.resolve(stripIface(in.args[1])).(*ssa.MakeClosure); isMC {
						closure, _ = mc.Fn.(*ssa.Function)
					} else if f, isF := p.resolve(stripIface(in.args[1])).(*ssa.Function); isF {
						closure = f
					}
				case "BlockWith", "Block", "Render":
					say(onceRule, false, cf.Name(), "renders at definition", w.Pos(in.call.Pos()), "", "contentFor must not render where it is defined")
				}
			}
		}
		if len(paths) > 0 && nReg != len(paths) {
			okShape = false
		}
		say(scopeRule, okShape && regOK, cf.Name(), "registration under "+fmt.Sprintf("%q", regPrefix)+"+name", cfPos, "the only write to the caller's scope",
			"content helpers must not bind names in the caller's scope (other than the one contentFor registration under constant prefix + name)")
	}
	if closure == nil {
		say(onceRule, false, cf.Name(), "no stored closure", cfPos, "", "contentFor must store the block for later rendering")
	} else {
		paths, ok := walkPathsUnrolled(closure, nil, inline, 5000)
		help, data := paramOfType(closure, isHelp), paramOfType(closure, isData)
		okOnce, okScope, okData := ok && help != nil, ok && help != nil, false
		okExact := true
		why := ""
		nSucc := 0
		for _, p := range paths {
			if p.end != "return" || len(p.results) != 2 {
				continue
			}
			invs := pathInvocations(p)
			cr := checkChildRender(p, invs, help, data)
			if cr.boundData && data != nil {
				okData = true
			}
			if !cr.ok {
				okScope, why = false, cr.why
			}
			if len(cr.setOnHelp) > 0 {
				okScope, why = false, "the stored closure binds names in the caller's scope"
			}
			if isNilErrorResult(p.results[1]) {
				nSucc++
				if cr.blockWith != 1 {
					okOnce = false
				}
				// what it yields is the rendering of its block and nothing else: template.HTML(<result of BlockWith>),
				// no other function value called, nothing put in front or behind
				res := p.resolve(p.results[0])
				var inner ssa.Value
				switch x := res.(type) {
				case *ssa.ChangeType:
					inner = p.resolve(x.X)
				case *ssa.Convert:
					inner = p.resolve(x.X)
				}
				fromBlock := false
				if ex, isEx := inner.(*ssa.Extract); isEx && ex.Index == 0 {
					if c, isCall := ex.Tuple.(*ssa.Call); isCall && c.Call.IsInvoke() && c.Call.Method.Name() == "BlockWith" {
						fromBlock = true
					}
				}
				if !fromBlock {
					okExact = false
				}
				for _, ev := range p.events {
					if c, isCall := ev.(*ssa.Call); isCall && !c.Call.IsInvoke() && c.Call.StaticCallee() == nil {
						if _, isB := c.Call.Value.(*ssa.Builtin); !isB {
							okExact = false // calls another function value (an earlier block, a hook)
						}
					}
				}
			}
		}
		if nSucc == 0 {
			okOnce = false
		}
		say(onceRule, okOnce, cf.Name(), "stored closure renders the block once", w.Pos(closure.Pos()), "on every success path", "every contentOf must emit the stored block exactly once")
		say(onceRule, okExact, cf.Name(), "stored closure yields exactly its block", w.Pos(closure.Pos()), "template.HTML of what BlockWith rendered, nothing in front or behind, no other function called",
			"what contentOf emits for a name must be the one block stored under it: the stored closure combines its block with something else (an earlier block, a prefix) or calls another function")
		say(scopeRule, okScope, cf.Name(), "stored closure: per-call child; data set on it; handed to BlockWith", w.Pos(closure.Pos()), "the block runs in a fresh child of the defining scope",
			"the stored/default block must be rendered through BlockWith with its own child scope: "+why)
		say(dataRule, okData && okScope, cf.Name(), "stored closure ranges over its own data parameter", w.Pos(closure.Pos()), "the caller's data map, unmodified", "the data passed by the template must be the map whose entries are bound in the child scope")
	}
	// ---- contentOf
	coPos := w.Pos(co.Decl.Pos())
	{
		paths, ok := walkPathsUnrolled(coFn, nil, inline, 5000)
		help, name, data := paramOfType(coFn, isHelp), paramOfType(coFn, isName), paramOfType(coFn, isData)
		okOnce, okScope, okKey, okAssert, okData := ok && help != nil, ok && help != nil, false, false, false
		lookPrefix := ""
		why := ""
		nSucc, nStored, nOwn := 0, 0, 0
		for _, p := range paths {
			if p.end != "return" || len(p.results) != 2 {
				continue
			}
			invs := pathInvocations(p)
			// the lookup
			var lookup *ssa.Call
			for _, in := range invs {
				if in.method == "Value" && in.recv == help && len(in.args) == 1 {
					if prefix, nm, isKey := contentKey(p, stripIface(in.args[0])); isKey && nm == name {
						lookPrefix, okKey, lookup = prefix, true, in.call
					}
				}
			}
			// was the stored closure found on this path?
			found, decided := false, false
			for _, d := range p.decisions {
				if ex, ok := d.cond.(*ssa.Extract); ok && ex.Index == 1 {
					if ta, ok := ex.Tuple.(*ssa.TypeAssert); ok && ta.CommaOk && lookup != nil && p.resolve(ta.X) == ssa.Value(lookup) {
						if _, isSig := ta.AssertedType.Underlying().(*types.Signature); isSig {
							found, decided, okAssert = d.truth, true, true
						}
					}
				}
			}
			if !decided {
				continue
			}
			success := isNilErrorResult(p.results[1])
			// dynamic calls of the stored closure
			nDyn := 0
			var dyn *ssa.Call
			for _, ev := range p.events {
				if c, ok := ev.(*ssa.Call); ok && !c.Call.IsInvoke() && c.Call.StaticCallee() == nil {
					if _, isB := c.Call.Value.(*ssa.Builtin); !isB {
						nDyn++
						dyn = c
					}
				}
			}
			cr := checkChildRender(p, invs, help, data)
			if len(cr.setOnHelp) > 0 {
				okScope, why = false, "contentOf binds names in the caller's scope"
			}
			if found {
				// the stored closure is called once with the data parameter and its results are the results
				if nDyn != 1 || cr.blockWith != 0 || len(dyn.Call.Args) != 1 || canonValue(p, dyn.Call.Args[0]) != data {
					okOnce = false
				} else {
					nStored++
				}
				continue
			}
			if nDyn != 0 {
				okOnce = false
			}
			if cr.boundData && data != nil {
				okData = true
			}
			if !cr.ok {
				okScope, why = false, cr.why
			}
			if success {
				nSucc++
				if cr.blockWith != 1 {
					okOnce = false
				} else {
					nOwn++
				}
			}
		}
		if nStored == 0 || nOwn == 0 {
			okOnce = false
		}
		say(onceRule, okOnce, co.Name(), "stored closure or own block, exactly one of them", coPos, "on every success path", "contentOf must emit the stored block (or its default block) exactly once")
		say(keyRule, okKey && regOK && lookPrefix == regPrefix, cf.Name()+"/"+co.Name(), fmt.Sprintf("same key %q + name", regPrefix), coPos, "definition and lookup agree",
			fmt.Sprintf("contentOf must look the block up under exactly the key contentFor stores it under (constant prefix + the name parameter): %q vs %q", regPrefix, lookPrefix))
		say(keyRule, okAssert, co.Name(), "comma-ok assertion of the stored closure", coPos, "undefined name falls back to the default block or an error", "the stored value must be recognised with a comma-ok assertion")
		say(scopeRule, okScope, co.Name(), "default block: per-call child; data set on it; handed to BlockWith", coPos, "the block runs in a fresh child scope",
			"the stored/default block must be rendered through BlockWith with its own child scope: "+why)
		say(dataRule, okData && okScope, co.Name(), "ranges over its own data parameter", coPos, "the caller's data map, unmodified", "the data passed by the template must be the map whose entries are bound in the child scope")
	}
}
