package main

// c05loop.go (C05.R7): an error produced inside a loop is looked at inside the loop. `res[i], err = eval(e)` in
// every iteration with `if err != nil` behind the loop keeps the last error only: all the others are overwritten
// untested, and the values computed after a failure are used as if nothing had happened. Decided on the value
// graph of every function in the scope of C05: an error that a call inside a loop yields is not merely carried
// round the loop (its only uses being phis at the head of a loop it was produced in).

import (
	"golang.org/x/tools/go/ssa"
)

func loopCarriedErrorRule(r *Run, rule string) {
	w := r.W
	w.SSA()
	nLoops, nBad := 0, 0
	for _, rel := range c05Scope {
		for _, f := range w.Funcs(rel) {
			fn := w.SSAFunc(f)
			if fn == nil {
				continue
			}
			for _, g := range append([]*ssa.Function{fn}, allAnon(fn)...) {
				inLoop := map[*ssa.BasicBlock][]*ssa.BasicBlock{} // block -> headers of the loops it is in
				for _, b := range g.Blocks {
					if isLoopHeader(b) {
						nLoops++
						for x := range loopBodyOf(b) {
							inLoop[x] = append(inLoop[x], b)
						}
					}
				}
				if len(inLoop) == 0 {
					continue
				}
				for _, b := range g.Blocks {
					heads := inLoop[b]
					if len(heads) == 0 {
						continue
					}
					for _, ins := range b.Instrs {
						ex, ok := ins.(*ssa.Extract)
						if !ok || !isErrorType(ex.Type()) || ex.Referrers() == nil {
							continue
						}
						if _, isCall := ex.Tuple.(*ssa.Call); !isCall {
							continue
						}
						onlyCarried, n := true, 0
						for _, ref := range *ex.Referrers() {
							switch x := ref.(type) {
							case *ssa.DebugRef:
							case *ssa.Phi:
								n++
								isHead := false
								for _, h := range heads {
									if x.Block() == h {
										isHead = true
									}
								}
								if !isHead {
									onlyCarried = false
								}
							default:
								onlyCarried = false
							}
						}
						if onlyCarried && n > 0 {
							nBad++
							r.Bad(rule, ssaName(g), "error of "+calleeLabel(ex.Tuple.(*ssa.Call))+" only carried round the loop", w.Pos(ex.Tuple.Pos()),
								"the error a call yields inside the loop is not tested in that iteration: the next iteration overwrites it, so only the last one is ever seen and every earlier failure is dropped")
						}
					}
				}
			}
		}
	}
	if nLoops == 0 {
		r.Lost(rule, "loops in the scope of C05")
		return
	}
	if nBad == 0 {
		r.Ok(rule, "plush", "errors produced in loops are tested in the iteration", "-", "no error of a call inside a loop has the loop-head phis as its only uses")
	}
}
