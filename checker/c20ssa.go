package main

// c20ssa.go: the bounds of truncate, read from the paths of its SSA form.

import (
	"go/constant"
	"go/token"
	"go/types"

	"golang.org/x/tools/go/ssa"
)

func isRuneSlice(t types.Type) bool {
	sl, ok := t.Underlying().(*types.Slice)
	if !ok {
		return false
	}
	b, ok := sl.Elem().Underlying().(*types.Basic)
	return ok && b.Kind() == types.Int32
}

// optionValue: v is the comma-ok assertion result of opts[<name>], or a constant default.
// optionGiven: the path has decided whether opts[name] holds a value of the expected type (the ok of the
// comma-ok assertion); returns that decision.
func optionGiven(p *pwPath, opts ssa.Value, name string) (given, decided bool) {
	for _, d := range p.decisions {
		ex, ok := d.cond.(*ssa.Extract)
		if !ok || ex.Index != 1 {
			continue
		}
		ta, ok := ex.Tuple.(*ssa.TypeAssert)
		if !ok || !ta.CommaOk {
			continue
		}
		lk, ok := p.resolve(ta.X).(*ssa.Lookup)
		if !ok {
			continue
		}
		m := p.resolve(lk.X)
		for i := 0; i < 3; i++ {
			if ct, isCT := m.(*ssa.ChangeType); isCT {
				m = p.resolve(ct.X)
				continue
			}
			break
		}
		if m != opts {
			continue
		}
		if c, ok := p.constOf(lk.Index); ok && c.Kind() == constant.String && constant.StringVal(c) == name {
			return d.truth, true
		}
	}
	return false, false
}

func optionValue(p *pwPath, v ssa.Value, opts ssa.Value, name string) bool {
	v = p.resolve(v)
	if _, ok := v.(*ssa.Const); ok {
		// the default stands in only where the option is missing or of another type: a default that also replaces
		// a given value (a zero, a negative size) changes what the caller asked for
		given, decided := optionGiven(p, opts, name)
		return decided && !given
	}
	ex, ok := v.(*ssa.Extract)
	if !ok || ex.Index != 0 {
		return false
	}
	ta, ok := ex.Tuple.(*ssa.TypeAssert)
	if !ok || !ta.CommaOk {
		return false
	}
	// a default kept in a constant table: table[<name>].(T) with the entry a constant of type T
	if mi, isMI := p.resolve(ta.X).(*ssa.MakeInterface); isMI {
		if _, isC := p.resolve(mi.X).(*ssa.Const); isC && types.Identical(mi.X.Type(), ta.AssertedType) {
			given, decided := optionGiven(p, opts, name)
			return decided && !given
		}
		return false
	}
	lk, ok := p.resolve(ta.X).(*ssa.Lookup)
	if !ok {
		return false
	}
	m := p.resolve(lk.X)
	for i := 0; i < 3; i++ {
		if ct, isCT := m.(*ssa.ChangeType); isCT {
			m = p.resolve(ct.X) // the same map under another (named) map type
			continue
		}
		break
	}
	if m != opts {
		return false
	}
	c, ok := p.constOf(lk.Index)
	return ok && c.Kind() == constant.String && constant.StringVal(c) == name
}

func truncateBoundsSSA(r *Run, f *FuncInfo) {
	w := r.W
	fn := w.SSAFunc(f)
	name := f.Name()
	pos := w.Pos(f.Decl.Pos())
	if fn == nil || len(fn.Params) < 2 {
		r.Lost("R4", "SSA form of truncate")
		return
	}
	sParam := ssa.Value(fn.Params[0])
	var opts ssa.Value
	for _, prm := range fn.Params {
		if _, ok := prm.Type().Underlying().(*types.Map); ok {
			opts = prm
		}
	}
	paths, ok := walkPaths(fn, nil, func(caller, callee *ssa.Function) bool { return pkgOf(callee) == fn.Pkg })
	if !ok || opts == nil {
		r.Lost("R4", "paths of truncate")
		return
	}
	// runeLenOf: v is len([]rune(x)); returns x
	runeLenOf := func(p *pwPath, v ssa.Value) (ssa.Value, bool, bool) {
		c, ok := p.resolve(v).(*ssa.Call)
		if !ok {
			return nil, false, false
		}
		// utf8.RuneCountInString(x) is len([]rune(x))
		if pkg, name := staticCalleeName(c); pkg == "unicode/utf8" && name == "RuneCountInString" && len(c.Call.Args) == 1 {
			return p.resolve(c.Call.Args[0]), true, true
		}
		b, ok := c.Call.Value.(*ssa.Builtin)
		if !ok || b.Name() != "len" || len(c.Call.Args) != 1 {
			return nil, false, false
		}
		a := p.resolve(c.Call.Args[0])
		if cv, ok := a.(*ssa.Convert); ok && isRuneSlice(cv.Type()) {
			return p.resolve(cv.X), true, true
		}
		if isRuneSlice(a.Type()) {
			return nil, false, false // the length of some other []rune (an accumulator): no byte count, and no count of s or the trail
		}
		return a, false, true // a length, but not of runes
	}
	type cmp struct {
		of    ssa.Value // the string whose count is compared
		size  ssa.Value
		rel   token.Token // count <rel> size holds on this path
		runes bool
	}
	readCmp := func(p *pwPath, d pwDecision) (cmp, bool) {
		bo, ok := d.cond.(*ssa.BinOp)
		if !ok {
			return cmp{}, false
		}
		x, y, op := bo.X, bo.Y, bo.Op
		flip := map[token.Token]token.Token{token.LSS: token.GTR, token.GTR: token.LSS, token.LEQ: token.GEQ, token.GEQ: token.LEQ, token.EQL: token.EQL, token.NEQ: token.NEQ}
		neg := map[token.Token]token.Token{token.LSS: token.GEQ, token.GEQ: token.LSS, token.LEQ: token.GTR, token.GTR: token.LEQ, token.EQL: token.NEQ, token.NEQ: token.EQL}
		if _, ok := flip[op]; !ok {
			return cmp{}, false
		}
		of, runes, isLen := runeLenOf(p, x)
		if !isLen {
			of, runes, isLen = runeLenOf(p, y)
			if !isLen {
				return cmp{}, false
			}
			y = x
			op = flip[op]
		}
		if !d.truth {
			op = neg[op]
		}
		return cmp{of: of, size: p.resolve(y), rel: op, runes: runes}, true
	}
	nUnchanged, nCut := 0, 0
	okR4, okR5 := true, true
	var whyR4, whyR5 string
	failR4 := func(why string) {
		if okR4 {
			okR4, whyR4 = false, why
		}
	}
	failR5 := func(why string) {
		if okR5 {
			okR5, whyR5 = false, why
		}
	}
	for _, p := range paths {
		if p.end == "panic" {
			continue
		}
		if p.end == "loop" && p.loopHead != nil && characterLoopOnly(p.loopHead) {
			// the next iteration leaves the loop by the exits already walked; what it changes is the
			// collector / counter, which the results below are read through
			continue
		}
		if p.end != "return" || len(p.results) != 1 {
			failR5("a path of truncate does not return")
			continue
		}
		// what this path knows about the two counts
		var sFits, sTooLong, trailShort bool
		var size ssa.Value
		var trailOf ssa.Value
		for _, d := range p.decisions {
			c, ok := readCmp(p, d)
			if !ok {
				continue
			}
			if !c.runes {
				// a text of at most size BYTES has at most size characters: a byte count may decide "it fits"
				// (the short cut before the runes are counted), and says nothing otherwise
				if c.of == sParam && (c.rel == token.LEQ || c.rel == token.LSS || c.rel == token.EQL) && optionValue(p, c.size, opts, "size") {
					sFits = true
					size = c.size
					continue
				}
				if c.of == sParam && (c.rel == token.GTR || c.rel == token.GEQ || c.rel == token.NEQ) {
					continue
				}
				failR4("size is compared with a BYTE length: a string of at most size characters but more bytes is cut although it fits")
			}
			if c.of == sParam {
				if !optionValue(p, c.size, opts, "size") {
					failR5("the text's length is compared with something that is not the size option")
				}
				size = c.size
				switch c.rel {
				case token.LEQ, token.LSS, token.EQL:
					sFits = true
				case token.GTR:
					sTooLong = true
				}
			} else {
				trailOf = c.of
				if size != nil && c.size != size {
					failR5("the trail's length is compared with something else than the size")
				}
				if c.rel == token.LSS {
					trailShort = true
				}
			}
		}
		res := p.resolve(p.results[0])
		// a loop over the text that stops at the count size-len(trail) cannot run to the end of a text of more
		// than size characters: a path through the exhaustion of its range is not a path of the program
		if sTooLong && trailShort && size != nil && func() bool {
			for _, d := range p.decisions {
				ex, isEx := origValue(d.cond).(*ssa.Extract)
				if !isEx || d.truth || ex.Index != 0 {
					continue
				}
				nx, src, isNext := stringRangeNext(ex.Tuple)
				if !isNext || p.resolve(src) != sParam {
					continue
				}
				k, isStop := loopStopCount(nx)
				if !isStop {
					continue
				}
				sub, isSub := p.resolve(k).(*ssa.BinOp)
				if !isSub || sub.Op != token.SUB || p.resolve(sub.X) != size {
					continue
				}
				tOf, runes, isLen := runeLenOf(p, sub.Y)
				if isLen && runes && optionValue(p, tOf, opts, "trail") && (trailOf == nil || p.resolve(trailOf) == p.resolve(tOf)) {
					return true
				}
			}
			return false
		}() {
			continue
		}
		switch {
		case res == sParam:
			if !sFits {
				failR5("the text is returned unchanged on a path that has not established 'at most size characters'")
			}
			nUnchanged++
		case sFits:
			failR5("a text of at most size characters must be returned unchanged")
		default:
			if !sTooLong {
				failR5("the text is cut on a path that has not established 'more than size characters'")
			}
			if optionValue(p, res, opts, "trail") {
				nCut++
				continue // the trail alone: the empty prefix
			}
			add, ok := res.(*ssa.BinOp)
			if !ok || add.Op != token.ADD {
				failR5("the result must be the first size-len(trail) characters followed by the trail")
				continue
			}
			trail := p.resolve(add.Y)
			if !optionValue(p, trail, opts, "trail") {
				failR5("the cut text must be followed by the trail option")
			}
			// kept: the number of characters kept is the value `kept`, taken from the start of the text
			keptOK := func(kept ssa.Value) bool {
				hi, ok := p.resolve(kept).(*ssa.BinOp)
				if kept == nil || !ok || hi.Op != token.SUB || p.resolve(hi.X) != size || size == nil {
					failR5("the result must be the first size-len(trail) characters followed by the trail")
					return false
				}
				tOf, runes, isLen := runeLenOf(p, hi.Y)
				if !isLen || p.resolve(tOf) != trail {
					failR5("the number of kept characters must be size minus the length of the trail")
					return false
				}
				if !runes {
					failR4("the trail is measured in bytes: the result can exceed size characters or the bound can go negative")
				}
				if !trailShort || (trailOf != nil && p.resolve(trailOf) != trail) {
					failR5("the prefix slice needs both guards before it: text longer than size and trail shorter than size (otherwise the bound is negative or past the end)")
				}
				return true
			}
			if bs, isSlice := p.resolve(add.X).(*ssa.Slice); isSlice && !isRuneSlice(bs.X.Type()) {
				// s[:i] is a cut on characters when i is where a loop over s has counted them
				if src, k, isCut := runeCutPoint(bs); isCut && p.resolve(src) == sParam {
					if keptOK(k) {
						nCut++
					}
					continue
				}
				failR4("the text is cut on bytes: a multi-byte character can be split")
				continue
			}
			cv, ok := p.resolve(add.X).(*ssa.Convert)
			if !ok {
				failR5("the result must be the first size-len(trail) characters followed by the trail")
				continue
			}
			sl, ok := p.resolve(cv.X).(*ssa.Slice)
			if !ok {
				// the characters collected one by one from the start of the text, up to a count
				if src, k, isColl := runeCollector(cv.X); isColl && isRuneSlice(cv.X.Type()) && p.resolve(src) == sParam {
					if keptOK(k) {
						nCut++
					}
					continue
				}
				failR5("the result must be the first size-len(trail) characters followed by the trail")
				continue
			}
			src, isConv := p.resolve(sl.X).(*ssa.Convert)
			if !isRuneSlice(sl.X.Type()) || !isConv || p.resolve(src.X) != sParam {
				failR4("the text is cut on bytes: a multi-byte character can be split")
				continue
			}
			if sl.Low != nil {
				if c, ok := p.constOf(sl.Low); !ok || constant.Sign(c) != 0 {
					failR5("the kept part must be a prefix of the text")
				}
			}
			hi, ok := p.resolve(sl.High).(*ssa.BinOp)
			if sl.High == nil || !ok || hi.Op != token.SUB || p.resolve(hi.X) != size || size == nil {
				failR5("the result must be the first size-len(trail) characters followed by the trail")
				continue
			}
			tOf, runes, isLen := runeLenOf(p, hi.Y)
			if !isLen || p.resolve(tOf) != trail {
				failR5("the number of kept characters must be size minus the length of the trail")
				continue
			}
			if !runes {
				failR4("the trail is measured in bytes: the result can exceed size characters or the bound can go negative")
			}
			if !trailShort || (trailOf != nil && p.resolve(trailOf) != trail) {
				failR5("the prefix slice needs both guards before it: text longer than size and trail shorter than size (otherwise the bound is negative or past the end)")
			}
			nCut++
		}
	}
	if nUnchanged == 0 || nCut == 0 {
		failR5("truncate needs both outcomes: unchanged text and cut text")
	}
	if okR4 {
		r.Ok("R4", name, "all lengths and the slice are taken on []rune", pos, "characters, not bytes")
		r.Ok("R4", name, "the kept prefix is a slice of []rune(s)", pos, "a character is never split")
	} else {
		r.Bad("R4", name, "byte-based length or slice", pos, whyR4)
	}
	if okR5 {
		r.Ok("R5", name, "unchanged exactly when at most size characters", pos, "every path returning s has len([]rune(s)) <= size; every other path has len([]rune(s)) > size")
		r.Ok("R5", name, "result = string(runes[:size-len(trail runes)]) + trail under len(trail) < size", pos, "0 < size-len(trail) < len(runes): in range, and size characters in total; otherwise the trail alone")
	} else {
		r.Bad("R5", name, "bounds of the truncated result", pos, whyR5)
	}
}
