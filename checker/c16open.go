package main

// c16open.go (C16.R11): who may open a return object. A `return` inside a function body travels outwards as
// a return object through every evaluator between the statement and the call (output tags, if, blocks, loops);
// the call gives "the returned value" only if nothing on that way takes the value out of the object and hands
// it on as an ordinary value - the statements behind the `return` would run. Ownership rule over the evaluator
// package: the output kept in a return object is read only by the sink, the block evaluator, the loop
// evaluator, the user-function evaluator and the call evaluator, and by helpers (and closures) of those that
// nobody else calls.

import (
	"go/token"
	"go/types"
	"sort"

	"golang.org/x/tools/go/ssa"
)

func returnObjectOpenersRule(r *Run, rule string) {
	w := r.W
	w.SSA()
	pkg := w.SSAPkg("")
	m := w.coreModel()
	if pkg == nil || m == nil || m.sink == nil || m.block == nil {
		r.Lost(rule, "evaluator package / sink / block evaluator")
		return
	}
	allowed := map[*ssa.Function]string{m.sink: "the sink", m.block: "the block evaluator"}
	if m.top != nil {
		allowed[m.top] = "the top-level evaluator"
	}
	if u := w.userFunctionEval(); u != nil {
		allowed[w.SSAFunc(u)] = "the user-function evaluator"
	}
	for _, n := range []string{"CallExpression", "ForExpression"} {
		for _, f := range w.evalMethods(n) {
			if fn := w.SSAFunc(f); fn != nil {
				allowed[fn] = "the evaluator of *ast." + n
			}
		}
	}
	isRet := func(t types.Type) bool {
		if pt, ok := t.Underlying().(*types.Pointer); ok {
			t = pt.Elem()
		}
		return exitTypeName(t) == "returnObject" && declaredIn(t, modPath) && valueFieldIndex(t) >= 0
	}
	fns := functionsOf(pkg)
	callers := map[*ssa.Function]map[*ssa.Function]bool{}
	usedAsValue := map[*ssa.Function]bool{}
	for _, fn := range fns {
		for _, b := range fn.Blocks {
			for _, ins := range b.Instrs {
				if c, ok := ins.(ssa.CallInstruction); ok {
					if cal := c.Common().StaticCallee(); cal != nil {
						if callers[cal] == nil {
							callers[cal] = map[*ssa.Function]bool{}
						}
						callers[cal][fn] = true
					}
				}
				for _, op := range ins.Operands(nil) {
					if f, ok := (*op).(*ssa.Function); ok {
						if c, isCall := ins.(ssa.CallInstruction); !isCall || c.Common().Value != ssa.Value(f) {
							usedAsValue[f] = true
						}
					}
				}
			}
		}
	}
	var licensed func(fn *ssa.Function, d int) string
	licensed = func(fn *ssa.Function, d int) string {
		if why, ok := allowed[fn]; ok {
			return why
		}
		if d > 3 {
			return ""
		}
		if p := fn.Parent(); p != nil {
			if why := licensed(p, d+1); why != "" {
				return "a closure of " + why
			}
			return ""
		}
		// a helper nobody else calls: unexported, not an evaluator of a node, not used as a value
		obj, _ := fn.Object().(*types.Func)
		if obj == nil || obj.Exported() || usedAsValue[fn] || len(callers[fn]) == 0 {
			return ""
		}
		if fi := w.FuncOf(obj); fi == nil || len(w.evalMethodsOfFunc(fi)) > 0 {
			return ""
		}
		why := ""
		for c := range callers[fn] {
			wy := licensed(c, d+1)
			if wy == "" {
				return ""
			}
			why = wy
		}
		return "a helper of " + why
	}
	type site struct {
		fn  *ssa.Function
		pos token.Pos
	}
	var sites []site
	for _, fn := range fns {
		for _, b := range fn.Blocks {
			for _, ins := range b.Instrs {
				switch x := ins.(type) {
				case *ssa.UnOp:
					if fa, ok := x.X.(*ssa.FieldAddr); ok && x.Op == token.MUL && isRet(fa.X.Type()) {
						if al, isAlloc := fa.X.(*ssa.Alloc); isAlloc && al.Referrers() != nil {
							// the object this function is building (v := returnObject{}; v.Value = append(v.Value, res)):
							// a local that is never given a whole object from elsewhere
							own := true
							for _, ref := range *al.Referrers() {
								if st, isStore := ref.(*ssa.Store); isStore && st.Addr == ssa.Value(al) {
									if c, isC := st.Val.(*ssa.Const); !isC || c.Value != nil {
										own = false
									}
								}
							}
							if own {
								continue
							}
						}
						if fa.Field == valueFieldIndex(fa.X.Type().Underlying().(*types.Pointer).Elem()) {
							sites = append(sites, site{fn, x.Pos()})
						}
					}
				case *ssa.Field:
					if isRet(x.X.Type()) && x.Field == valueFieldIndex(x.X.Type()) {
						sites = append(sites, site{fn, x.Pos()})
					}
				}
			}
		}
	}
	if len(sites) == 0 {
		r.Lost(rule, "reads of the output kept in a return object")
		return
	}
	sort.Slice(sites, func(i, j int) bool { return sites[i].pos < sites[j].pos })
	seen := map[*ssa.Function]bool{}
	for _, s := range sites {
		if seen[s.fn] {
			continue
		}
		seen[s.fn] = true
		if why := licensed(s.fn, 0); why != "" {
			r.Ok(rule, ssaName(s.fn), "opens a return object", w.Pos(s.pos), why)
		} else {
			r.Bad(rule, ssaName(s.fn), "opens a return object", w.Pos(s.pos),
				"the value is taken out of a return object on its way from the `return` to the call: handed on as an ordinary value it no longer ends the blocks around it, the statements behind the `return` run and the call does not give the returned value; only the sink, the block, loop, call and user-function evaluators (and their own helpers) read it")
		}
	}
}
