package main

// partialssa.go: the partial helper and HelperContext.BlockWith, decided on the
// paths of their SSA form with the package's unexported helpers walked in line
// (C09.R4, C17.R1, C17.R3, C17.R4). Per success path of PartialHelper:
//   - a child of the caller's scope is installed in the (by-value) helper
//     context before anything is set on it; every Set goes to that child; the
//     keys and values set are those ranged over in the data parameter;
//   - the feeder found under the context is called once, with the partial's
//     name; its text is rendered once, in that child;
//   - between the rendered text and the result only JSEscapeString may
//     intervene; the result is template.HTML of that text, or -- when the data
//     names a layout -- the result of the partial helper for the layout, with
//     "yield" bound to template.HTML of that text.

import (
	"fmt"
	"go/constant"
	"go/token"
	"go/types"
	"sort"
	"strings"

	"golang.org/x/tools/go/ssa"
)

func partialRulesSSA(r *Run, scopeRule, onceRule, dataRule, orderRule string) {
	w := r.W
	lost := func(what string) {
		for _, rl := range []string{scopeRule, onceRule, dataRule, orderRule} {
			if rl != "" {
				r.Lost(rl, what)
			}
		}
	}
	f := w.Func("", "PartialHelper")
	if f == nil {
		lost("PartialHelper")
		return
	}
	w.SSA()
	fn := w.SSAFunc(f)
	if fn == nil {
		lost("PartialHelper (SSA)")
		return
	}
	var nameP, dataP, helpP *ssa.Parameter
	for _, prm := range fn.Params {
		switch {
		case isBasicKind(prm.Type(), types.String):
			nameP = prm
		case namedIs(prm.Type(), modPath, "HelperContext"):
			helpP = prm
		default:
			if _, ok := prm.Type().Underlying().(*types.Map); ok {
				dataP = prm
			}
		}
	}
	if nameP == nil || dataP == nil || helpP == nil {
		lost("parameters of PartialHelper (name, data, helper context)")
		return
	}
	hst, _ := helpP.Type().Underlying().(*types.Struct)
	embI := -1
	if hst != nil {
		for i := 0; i < hst.NumFields(); i++ {
			if hst.Field(i).Embedded() && namedIs(hst.Field(i).Type(), hctxPath, "Context") {
				embI = i
			}
		}
	}
	if embI < 0 {
		lost("embedded context of HelperContext")
		return
	}
	inline := func(caller, callee *ssa.Function) bool {
		return callee.Pkg == fn.Pkg && callee != fn && callee.Object() != nil && !callee.Object().Exported()
	}
	pw := &pathWalker{inline: inline, unroll1: true, maxPaths: 100000, maxDepth: 5}
	pw.walk(fn)
	if pw.overflow {
		lost("paths of PartialHelper")
		return
	}
	name := f.Name()
	type problems struct {
		list []string
		at   map[string]token.Pos
	}
	probs := map[string]*problems{}
	add := func(rule, s string, at token.Pos) {
		if rule == "" {
			return
		}
		p := probs[rule]
		if p == nil {
			p = &problems{at: map[string]token.Pos{}}
			probs[rule] = p
		}
		if _, ok := p.at[s]; !ok {
			p.list = append(p.list, s)
			p.at[s] = at
		}
	}
	nSuccess, nLayout, nPlain, nEscaped, nEscapedLayout := 0, 0, 0, 0, 0
	for _, p := range pw.paths {
		if p.end != "return" || len(p.results) != 2 {
			continue
		}
		// the helper context as this path has it: the cell the by-value parameter lives in
		isHelpCtxAddr := func(v ssa.Value) bool {
			fa, ok := p.resolve(v).(*ssa.FieldAddr)
			if !ok || fa.Field != embI {
				return false
			}
			al, ok := p.resolve(fa.X).(*ssa.Alloc)
			if !ok {
				return false
			}
			sv, ok := p.stores[objKey(al)]
			return ok && p.resolve(sv) == ssa.Value(helpP) || al.Comment == helpP.Name()
		}
		var child ssa.Value
		installAt := -1
		var feeder, render, layoutCall *ssa.Call
		nFeeder, nRender := 0, 0
		var sets []*ssa.Call
		var setAt []int
		jsEscapes := map[ssa.Value]ssa.Value{} // result -> operand
		for ei, ev := range p.events {
			switch x := ev.(type) {
			case *ssa.Store:
				if isHelpCtxAddr(x.Addr) {
					v := p.resolve(stripIface(p.resolve(x.Val)))
					if installAt < 0 {
						installAt, child = ei, p.resolve(x.Val)
						c, ok := v.(*ssa.Call)
						if !ok || !c.Call.IsInvoke() || c.Call.Method.Name() != "New" {
							add(scopeRule, "the context installed in the helper context is not a fresh child (<context>.New()) of the caller's scope", x.Pos())
						}
					} else {
						add(scopeRule, "the helper context's scope is replaced more than once", x.Pos())
					}
				}
			case *ssa.Call:
				switch {
				case x.Call.IsInvoke() && x.Call.Method.Name() == "Set" && len(x.Call.Args) == 2:
					sets = append(sets, x)
					setAt = append(setAt, ei)
				case x.Call.StaticCallee() == fn:
					layoutCall = x
				case x.Call.StaticCallee() != nil && x.Call.StaticCallee().Name() == "Render" && x.Call.StaticCallee().Pkg == fn.Pkg && len(x.Call.Args) == 2:
					nRender++
					render = x
				case x.Call.StaticCallee() == nil && !x.Call.IsInvoke():
					if _, isB := x.Call.Value.(*ssa.Builtin); !isB && len(x.Call.Args) == 1 && x.Call.Signature().Results().Len() == 2 {
						nFeeder++
						feeder = x
					}
				default:
					if pkg, fname := staticCalleeName(x); pkg == htmlTplPath && fname == "JSEscapeString" && len(x.Call.Args) == 1 {
						jsEscapes[x] = p.resolve(x.Call.Args[0])
					}
				}
			}
		}
		// success: the error result is nil, or the path hands over to the layout
		tail := false
		if layoutCall != nil {
			if e0, ok := p.resolve(p.results[0]).(*ssa.Extract); ok && e0.Tuple == ssa.Value(layoutCall) && e0.Index == 0 {
				if e1, ok := p.resolve(p.results[1]).(*ssa.Extract); ok && e1.Tuple == ssa.Value(layoutCall) && e1.Index == 1 {
					tail = true
				}
			}
			if !tail {
				add(onceRule, "the layout step is not the whole result (the layout must wrap the finished partial: its result is the result)", layoutCall.Pos())
				continue
			}
		}
		if !tail && !p.knownNil(p.results[1]) {
			continue
		}
		nSuccess++
		// ---- scope
		if installAt < 0 {
			add(scopeRule, "the partial does not run in a child of the caller's scope (help.Context = help.New() is missing on a path)", p.ret.Pos())
		}
		for i, s := range sets {
			if installAt < 0 || setAt[i] < installAt {
				add(scopeRule, "partial data is written into the caller's scope (Set before the child scope exists)", s.Pos())
				continue
			}
			if child != nil && p.resolve(s.Call.Value) != child {
				add(scopeRule, "partial data is set on another context than the child the partial is rendered in", s.Pos())
			}
			// the key and the value set come from ranging over the data parameter
			if dataRule != "" {
				fromData := func(v ssa.Value) bool {
					v = p.resolve(stripIface(p.resolve(v)))
					ex, ok := v.(*ssa.Extract)
					if !ok {
						return false
					}
					nx, ok := ex.Tuple.(*ssa.Next)
					if !ok {
						return false
					}
					rg, ok := nx.Iter.(*ssa.Range)
					return ok && p.resolve(rg.X) == ssa.Value(dataP)
				}
				if !fromData(s.Call.Args[0]) || !fromData(s.Call.Args[1]) {
					add(dataRule, "what is bound in the child scope is not the caller's data map, entry by entry", s.Pos())
				}
			}
		}
		// ---- once
		if nFeeder != 1 || nRender != 1 {
			add(onceRule, fmt.Sprintf("feeder calls %d, Render calls %d on a success path", nFeeder, nRender), p.ret.Pos())
			continue
		}
		if p.resolve(feeder.Call.Args[0]) != ssa.Value(nameP) {
			add(onceRule, "the feeder is asked for something else than the partial's name", feeder.Pos())
		}
		isExtract := func(v ssa.Value, call *ssa.Call, idx int) bool {
			ex, ok := p.resolve(v).(*ssa.Extract)
			return ok && ex.Tuple == ssa.Value(call) && ex.Index == idx
		}
		if !isExtract(render.Call.Args[0], feeder, 0) {
			add(onceRule, "what is rendered is not the text the feeder returned", render.Pos())
		}
		if child == nil || p.resolve(render.Call.Args[1]) != child {
			add(scopeRule, "the partial text must be rendered with the child scope that received the data", render.Pos())
			add(dataRule, "the partial text must be rendered with the child scope that received the data", render.Pos())
		}
		// ---- order / conversion
		// part: the rendered text, possibly JS-escaped (once)
		isPart := func(v ssa.Value) (escaped, ok bool) {
			v = p.resolve(v)
			for i := 0; i < 3; i++ {
				if cv, isConv := v.(*ssa.Convert); isConv && isBasicKind(cv.Type(), types.String) {
					v = p.resolve(cv.X)
					continue
				}
				if cv, isCT := v.(*ssa.ChangeType); isCT {
					v = p.resolve(cv.X)
					continue
				}
				break
			}
			if isExtract(v, render, 0) {
				return false, true
			}
			if inner, isJS := jsEscapes[v]; isJS {
				for i := 0; i < 3; i++ {
					if cv, isConv := inner.(*ssa.Convert); isConv {
						inner = p.resolve(cv.X)
						continue
					}
					break
				}
				if isExtract(inner, render, 0) {
					return true, true
				}
			}
			return false, false
		}
		htmlOf := func(v ssa.Value) (ssa.Value, bool) {
			v = p.resolve(stripIface(p.resolve(v)))
			switch x := v.(type) {
			case *ssa.Convert:
				if namedIs(x.Type(), htmlTplPath, "HTML") {
					return x.X, true
				}
			case *ssa.ChangeType:
				if namedIs(x.Type(), htmlTplPath, "HTML") {
					return x.X, true
				}
			}
			return nil, false
		}
		if tail {
			nLayout++
			// the layout's data: a fresh map whose "yield" is template.HTML(part)
			if _, fresh := p.resolve(layoutCall.Call.Args[1]).(*ssa.MakeMap); !fresh {
				add(orderRule, "the layout must be given a fresh data map that holds the yield (not the caller's map, whose entries would leak into the layout and be changed for the caller)", layoutCall.Pos())
			}
			okYield := false
			for _, ev := range p.events {
				mu, ok := ev.(*ssa.MapUpdate)
				if !ok || p.resolve(mu.Map) != p.resolve(layoutCall.Call.Args[1]) {
					continue
				}
				k, isC := p.constOf(stripIface(p.resolve(mu.Key)))
				if !isC || k.Kind() != constant.String || constant.StringVal(k) != "yield" {
					continue
				}
				if inner, ok := htmlOf(mu.Value); ok {
					if esc, ok := isPart(inner); ok {
						okYield = true
						if esc {
							nEscapedLayout++
						}
					}
				}
			}
			if !okYield {
				add(orderRule, "the layout's yield must be the rendered (and, for JavaScript, escaped) text typed template.HTML", layoutCall.Pos())
			}
			// no JS escape after the layout call was made is possible on a tail path; but the layout name must come from the data
			continue
		}
		nPlain++
		inner, ok := htmlOf(p.results[0])
		if !ok {
			add(orderRule, "the partial's result must be the rendered text typed template.HTML", p.ret.Pos())
			continue
		}
		esc, ok := isPart(inner)
		if !ok {
			add(orderRule, "between the rendered text and the result only the JS escape may intervene", p.ret.Pos())
			continue
		}
		if esc {
			nEscaped++
		}
	}
	if nSuccess == 0 || nPlain == 0 || nLayout == 0 {
		add(onceRule, fmt.Sprintf("not every outcome has a path (success %d, plain %d, layout %d)", nSuccess, nPlain, nLayout), fn.Pos())
	}
	if nEscaped == 0 {
		add(orderRule, "no path applies the content-type-conditional JS escape to the partial's own text before the result", fn.Pos())
	}
	if nEscapedLayout == 0 {
		add(orderRule, "no path applies the content-type-conditional JS escape to the partial's own text before it is handed to the layout: a partial rendered with a layout is never escaped (or is escaped by the layout's name)", fn.Pos())
	}
	emit := func(rule, con, okHow string) {
		if rule == "" {
			return
		}
		if p := probs[rule]; p != nil && len(p.list) > 0 {
			sort.Strings(p.list)
			r.Bad(rule, name, con, w.Pos(p.at[p.list[0]]), strings.Join(p.list, "; "))
			return
		}
		r.Ok(rule, name, con, w.Pos(fn.Pos()), okHow)
	}
	how := fmt.Sprintf("%d success path(s) (%d plain, %d through a layout)", nSuccess, nPlain, nLayout)
	emit(scopeRule, "child scope of the partial", how+": child installed before any Set, every Set and the Render use it")
	emit(onceRule, "feeder once, Render once per level", how)
	emit(dataRule, "data reaches the partial", how+": the entries ranged over in the data parameter are set on the child that is rendered with")
	emit(orderRule, "render < JS escape < layout; result and yield are template.HTML(part)", how)
}

// blockWithOnceRuleSSA (C17.R1): on every success path of HelperContext.BlockWith
// (unexported helpers of the package walked in line) the block is evaluated
// once and its result is written once.
func blockWithOnceRuleSSA(r *Run, rule string) {
	w := r.W
	ht := w.NamedType("", "HelperContext")
	m := w.coreModel()
	if ht == nil || m.block == nil || m.sink == nil {
		r.Lost(rule, "HelperContext / block evaluator / sink")
		return
	}
	n := 0
	for _, f := range w.Funcs("") {
		if !isMethodOf(f, ht) || f.Decl.Name.Name != "BlockWith" {
			continue
		}
		fn := w.SSAFunc(f)
		if fn == nil {
			continue
		}
		n++
		inline := func(caller, callee *ssa.Function) bool {
			return callee.Pkg == fn.Pkg && callee != m.block && callee != m.sink && callee.Object() != nil && !callee.Object().Exported()
		}
		pw := &pathWalker{inline: inline, unroll1: true, maxPaths: 50000, maxDepth: 5}
		pw.walk(fn)
		if pw.overflow {
			r.Lost(rule, "paths of "+f.Name())
			continue
		}
		evals, sinks := map[int]bool{}, map[int]bool{}
		nOK := 0
		for _, p := range pw.paths {
			if p.end != "return" || len(p.results) != 2 || !p.knownNil(p.results[1]) {
				continue
			}
			nOK++
			ne, ns := 0, 0
			for _, ev := range p.events {
				if c, ok := ev.(*ssa.Call); ok {
					switch c.Call.StaticCallee() {
					case m.block:
						ne++
					case m.sink:
						ns++
					}
				}
			}
			evals[ne], sinks[ns] = true, true
		}
		if nOK > 0 && onlyCount(evals, 1) && onlyCount(sinks, 1) {
			r.Ok(rule, f.Name(), "block evaluated once, written once", w.Pos(f.Decl.Pos()), fmt.Sprintf("on every success path (%d)", nOK))
		} else {
			r.Bad(rule, f.Name(), fmt.Sprintf("block evaluations %v, sink calls %v per success path", keys(evals), keys(sinks)), w.Pos(f.Decl.Pos()), "a helper's block must be rendered exactly once per BlockWith call")
		}
	}
	if n == 0 {
		r.Lost(rule, "HelperContext.BlockWith")
	}
}
