package main

// partialssa.go: the partial helper and HelperContext.BlockWith, decided on the
// paths of their SSA form with the package's unexported helpers walked in line
// (C09.R4, C17.R1, C17.R3, C17.R4). Per success path of PartialHelper:
//   - a child of the caller's scope is installed in the (by-value) helper
//     context before anything is set on it; every Set goes to that child; the
//     keys and values set are those ranged over in the data parameter;
//   - the feeder found under the context is called once, with the partial's
//     name; its text is rendered once, in that child;
//   - between the rendered text and the result only JSEscapeString may
//     intervene; the result is template.HTML of that text, or -- when the data
//     names a layout -- the result of the partial helper for the layout, with
//     "yield" bound to template.HTML of that text.

import (
	"fmt"
	"go/constant"
	"go/token"
	"go/types"
	"sort"
	"strings"

	"golang.org/x/tools/go/ssa"
)

func partialRulesSSA(r *Run, scopeRule, onceRule, dataRule, orderRule string) {
	w := r.W
	lost := func(what string) {
		for _, rl := range []string{scopeRule, onceRule, dataRule, orderRule} {
			if rl != "" {
				r.Lost(rl, what)
			}
		}
	}
	f := w.Func("", "PartialHelper")
	if f == nil {
		lost("PartialHelper")
		return
	}
	w.SSA()
	fn := w.SSAFunc(f)
	if fn == nil {
		lost("PartialHelper (SSA)")
		return
	}
	var nameP, dataP, helpP *ssa.Parameter
	for _, prm := range fn.Params {
		switch {
		case isBasicKind(prm.Type(), types.String):
			nameP = prm
		case namedIs(prm.Type(), modPath, "HelperContext"):
			helpP = prm
		default:
			if _, ok := prm.Type().Underlying().(*types.Map); ok {
				dataP = prm
			}
		}
	}
	if nameP == nil || dataP == nil || helpP == nil {
		lost("parameters of PartialHelper (name, data, helper context)")
		return
	}
	hst, _ := helpP.Type().Underlying().(*types.Struct)
	embI := -1
	if hst != nil {
		for i := 0; i < hst.NumFields(); i++ {
			if hst.Field(i).Embedded() && namedIs(hst.Field(i).Type(), hctxPath, "Context") {
				embI = i
			}
		}
	}
	if embI < 0 {
		lost("embedded context of HelperContext")
		return
	}
	inline := func(caller, callee *ssa.Function) bool {
		return pkgOf(callee) == fn.Pkg && callee != fn && (callee.Parent() != nil || (fnObject(callee) != nil && !fnObject(callee).Exported()))
	}
	pw := &pathWalker{inline: inline, unroll1: true, maxPaths: 100000, maxDepth: 5, iterCopies: true}
	pw.walk(fn)
	if pw.overflow {
		lost("paths of PartialHelper")
		return
	}
	name := f.Name()
	type problems struct {
		list []string
		at   map[string]token.Pos
	}
	probs := map[string]*problems{}
	add := func(rule, s string, at token.Pos) {
		if rule == "" {
			return
		}
		p := probs[rule]
		if p == nil {
			p = &problems{at: map[string]token.Pos{}}
			probs[rule] = p
		}
		if _, ok := p.at[s]; !ok {
			p.list = append(p.list, s)
			p.at[s] = at
		}
	}
	nSuccess, nLayout, nPlain, nEscaped, nEscapedLayout := 0, 0, 0, 0, 0
	for _, p := range pw.paths {
		// one level of the partial: up to its result, its hand-over to the layout by a call of the helper
		// itself, or -- when the layout is done by going round a loop -- the moment the loop goes round
		limitEv, limitDec := len(p.events), len(p.decisions)
		var mark *pwMark
		firstRender := -1
		for ei, ev := range p.events {
			if c, ok := ev.(*ssa.Call); ok && c.Call.StaticCallee() != nil && c.Call.StaticCallee().Name() == "Render" && pkgOf(c.Call.StaticCallee()) == fn.Pkg && firstRender < 0 {
				firstRender = ei
			}
		}
		for i := range p.marks {
			// (a loop that goes round after the text was rendered; the loop over the data comes before)
			if isLoopHeader(p.marks[i].block) && p.marks[i].block.Parent() == fn && firstRender >= 0 && p.marks[i].nEvents > firstRender {
				mark = &p.marks[i]
				limitEv, limitDec = mark.nEvents, mark.nDecisions
				break
			}
		}
		_ = limitDec
		if mark == nil && (p.end != "return" || len(p.results) != 2) {
			continue
		}
		// the caller's scope: the context field of the by-value helper context parameter
		isHelpCtxAddr := func(v ssa.Value) bool {
			fa, ok := p.resolve(v).(*ssa.FieldAddr)
			if !ok || fa.Field != embI {
				return false
			}
			al, ok := p.resolve(fa.X).(*ssa.Alloc)
			if !ok {
				return false
			}
			sv, ok := p.stores[objKey(al)]
			return ok && p.resolve(sv) == ssa.Value(helpP) || al.Comment == helpP.Name()
		}
		isCallerScope := func(v ssa.Value) bool {
			v = p.resolve(v)
			switch x := v.(type) {
			case *ssa.Field:
				return x.Field == embI && p.resolve(x.X) == ssa.Value(helpP)
			case *ssa.UnOp:
				return x.Op == token.MUL && isHelpCtxAddr(x.X)
			}
			return false
		}
		var feeder, render, layoutCall *ssa.Call
		nFeeder, nRender := 0, 0
		var sets []*ssa.Call
		var setAt []int
		renderAt := -1
		var ctxStores []*ssa.Store
		jsEscapes := map[ssa.Value]ssa.Value{} // result -> operand
		for ei, ev := range p.events[:limitEv] {
			switch x := ev.(type) {
			case *ssa.Store:
				if isHelpCtxAddr(x.Addr) {
					ctxStores = append(ctxStores, x)
				}
			case *ssa.Call:
				switch {
				case x.Call.IsInvoke() && x.Call.Method.Name() == "Set" && len(x.Call.Args) == 2:
					sets = append(sets, x)
					setAt = append(setAt, ei)
				case x.Call.StaticCallee() == fn:
					layoutCall = x
				case x.Call.StaticCallee() != nil && x.Call.StaticCallee().Name() == "Render" && pkgOf(x.Call.StaticCallee()) == fn.Pkg && len(x.Call.Args) == 2:
					nRender++
					render, renderAt = x, ei
				case x.Call.StaticCallee() == nil && !x.Call.IsInvoke():
					if _, isB := x.Call.Value.(*ssa.Builtin); !isB && len(x.Call.Args) == 1 && x.Call.Signature().Results().Len() == 2 {
						nFeeder++
						feeder = x
					}
				default:
					if pkg, fname := staticCalleeName(x); pkg == htmlTplPath && fname == "JSEscapeString" && len(x.Call.Args) == 1 {
						jsEscapes[x] = p.resolve(x.Call.Args[0])
					}
				}
			}
		}
		// success: the error result is nil, the path hands over to the layout, or the loop goes round for the layout
		tail := false
		if mark == nil && layoutCall != nil {
			if e0, ok := p.resolve(p.results[0]).(*ssa.Extract); ok && e0.Tuple == ssa.Value(layoutCall) && e0.Index == 0 {
				if e1, ok := p.resolve(p.results[1]).(*ssa.Extract); ok && e1.Tuple == ssa.Value(layoutCall) && e1.Index == 1 {
					tail = true
				}
			}
			if !tail {
				add(onceRule, "the layout step is not the whole result (the layout must wrap the finished partial: its result is the result)", layoutCall.Pos())
				continue
			}
		}
		if mark == nil && !tail && !p.knownNil(p.results[1]) {
			continue
		}
		nSuccess++
		// ---- once
		if nFeeder != 1 || nRender != 1 {
			add(onceRule, fmt.Sprintf("feeder calls %d, Render calls %d on a success path", nFeeder, nRender), fn.Pos())
			continue
		}
		if p.resolve(feeder.Call.Args[0]) != ssa.Value(nameP) {
			add(onceRule, "the feeder is asked for something else than the partial's name", feeder.Pos())
		}
		isExtract := func(v ssa.Value, call *ssa.Call, idx int) bool {
			ex, ok := p.resolve(v).(*ssa.Extract)
			return ok && ex.Tuple == ssa.Value(call) && ex.Index == idx
		}
		if !isExtract(render.Call.Args[0], feeder, 0) {
			add(onceRule, "what is rendered is not the text the feeder returned", render.Pos())
		}
		// ---- scope: what the text is rendered in is a fresh child of the caller's scope ...
		child := p.resolve(render.Call.Args[1])
		okChild := false
		if c, ok := p.resolve(stripIface(child)).(*ssa.Call); ok && c.Call.IsInvoke() && c.Call.Method.Name() == "New" && len(c.Call.Args) == 0 && isCallerScope(c.Call.Value) {
			okChild = true
		}
		if !okChild {
			add(scopeRule, "the partial does not run in a child of the caller's scope (the context it is rendered in is not <caller's context>.New())", render.Pos())
			add(dataRule, "the partial text must be rendered with the child scope that received the data", render.Pos())
		}
		// ... every Set of the level goes to that child, before the text is rendered; and if the helper
		// context itself is given a new scope, it is that child
		for i, sc := range sets {
			if p.resolve(sc.Call.Value) != child {
				add(scopeRule, "partial data is set on another context than the child the partial is rendered in (it is written into the caller's scope, or lost)", sc.Pos())
				continue
			}
			if setAt[i] > renderAt {
				add(dataRule, "data is set after the partial was rendered", sc.Pos())
			}
			if dataRule != "" {
				fromData := func(v ssa.Value) bool {
					v = p.resolve(stripIface(p.resolve(v)))
					ex, ok := v.(*ssa.Extract)
					if !ok {
						return false
					}
					nx, ok := ex.Tuple.(*ssa.Next)
					if !ok {
						return false
					}
					rg, ok := nx.Iter.(*ssa.Range)
					return ok && p.resolve(rg.X) == ssa.Value(dataP)
				}
				if !fromData(sc.Call.Args[0]) || !fromData(sc.Call.Args[1]) {
					add(dataRule, "what is bound in the child scope is not the caller's data map, entry by entry", sc.Pos())
				}
			}
		}
		for _, st := range ctxStores {
			if p.resolve(st.Val) != child {
				add(scopeRule, "the helper context is given a scope other than the child the partial is rendered in", st.Pos())
			}
		}
		// ---- order / conversion
		// part: the rendered text, possibly JS-escaped (once)
		isPart := func(v ssa.Value) (escaped, ok bool) {
			v = p.resolve(v)
			for i := 0; i < 3; i++ {
				if cv, isConv := v.(*ssa.Convert); isConv && isBasicKind(cv.Type(), types.String) {
					v = p.resolve(cv.X)
					continue
				}
				if cv, isCT := v.(*ssa.ChangeType); isCT {
					v = p.resolve(cv.X)
					continue
				}
				break
			}
			if isExtract(v, render, 0) {
				return false, true
			}
			if inner, isJS := jsEscapes[v]; isJS {
				for i := 0; i < 3; i++ {
					if cv, isConv := inner.(*ssa.Convert); isConv {
						inner = p.resolve(cv.X)
						continue
					}
					break
				}
				if isExtract(inner, render, 0) {
					return true, true
				}
			}
			return false, false
		}
		htmlOf := func(v ssa.Value) (ssa.Value, bool) {
			v = p.resolve(stripIface(p.resolve(v)))
			switch x := v.(type) {
			case *ssa.Convert:
				if namedIs(x.Type(), htmlTplPath, "HTML") {
					return x.X, true
				}
			case *ssa.ChangeType:
				if namedIs(x.Type(), htmlTplPath, "HTML") {
					return x.X, true
				}
			}
			return nil, false
		}
		// the layout's data: a fresh map whose "yield" is template.HTML(part)
		checkLayoutData := func(m ssa.Value, at token.Pos) {
			mm := p.resolve(m)
			if _, fresh := mm.(*ssa.MakeMap); !fresh {
				add(orderRule, "the layout must be given a fresh data map that holds the yield (not the caller's map, whose entries would leak into the layout and be changed for the caller)", at)
			}
			okYield := false
			for _, ev := range p.events[:limitEv] {
				mu, ok := ev.(*ssa.MapUpdate)
				if !ok || p.resolve(mu.Map) != mm {
					continue
				}
				k, isC := p.constOf(stripIface(p.resolve(mu.Key)))
				if !isC || k.Kind() != constant.String || constant.StringVal(k) != "yield" {
					continue
				}
				if inner, ok := htmlOf(mu.Value); ok {
					if esc, ok := isPart(inner); ok {
						okYield = true
						if esc {
							nEscapedLayout++
						}
					}
				}
			}
			if !okYield {
				add(orderRule, "the layout's yield must be the rendered (and, for JavaScript, escaped) text typed template.HTML", at)
			}
		}
		switch {
		case tail:
			nLayout++
			checkLayoutData(layoutCall.Call.Args[1], layoutCall.Pos())
			// the layout nests in the partial's scope: the helper context handed on carries the child the partial was
			// rendered in (the layout sees the call's data and what the partial registered with contentFor)
			norm := func(v ssa.Value) ssa.Value { return p.resolve(stripIface(p.resolve(v))) }
			if len(layoutCall.Call.Args) == 3 {
				if cv, known := p.structField(layoutCall.Call.Args[2], embI); !known || norm(cv) != norm(child) {
					add(scopeRule, "the layout is not rendered in a scope nested in the partial's: the helper context handed to the layout step does not carry the child scope the partial was rendered in", layoutCall.Pos())
				}
			}
			continue
		case mark != nil:
			// the loop goes round: the variables it carries are the layout's name, its data and the scope to nest in
			var newData, newName, newScope ssa.Value
			for _, ins := range mark.block.Instrs {
				phi, ok := ins.(*ssa.Phi)
				if !ok {
					break
				}
				var nv ssa.Value
				for _, c := range p.copies[phi] {
					if v, ok := p.alias[c.(ssa.Value)]; ok {
						nv = p.resolve(v)
					}
				}
				if nv == nil {
					continue
				}
				switch {
				case isBasicKind(phi.Type(), types.String):
					newName = nv
				case namedIs(phi.Type(), hctxPath, "Context"):
					newScope = nv
				default:
					if _, isMap := phi.Type().Underlying().(*types.Map); isMap {
						newData = nv
					}
				}
			}
			nLayout++
			if newData == nil || newName == nil {
				add(onceRule, "the loop that renders the layout does not carry the layout's name and data", fn.Pos())
				continue
			}
			checkLayoutData(newData, firstPos(mark.block))
			if newScope != nil && newScope != child {
				add(scopeRule, "the layout is not rendered in a scope nested in the partial's", firstPos(mark.block))
			}
			continue
		}
		nPlain++
		inner, ok := htmlOf(p.results[0])
		if !ok {
			add(orderRule, "the partial's result must be the rendered text typed template.HTML", p.ret.Pos())
			continue
		}
		esc, ok := isPart(inner)
		if !ok {
			add(orderRule, "between the rendered text and the result only the JS escape may intervene", p.ret.Pos())
			continue
		}
		if esc {
			nEscaped++
		}
	}
	if nSuccess == 0 || nPlain == 0 || nLayout == 0 {
		add(onceRule, fmt.Sprintf("not every outcome has a path (success %d, plain %d, layout %d)", nSuccess, nPlain, nLayout), fn.Pos())
	}
	if nEscaped == 0 {
		add(orderRule, "no path applies the content-type-conditional JS escape to the partial's own text before the result", fn.Pos())
	}
	if nEscapedLayout == 0 {
		add(orderRule, "no path applies the content-type-conditional JS escape to the partial's own text before it is handed to the layout: a partial rendered with a layout is never escaped (or is escaped by the layout's name)", fn.Pos())
	}
	emit := func(rule, con, okHow string) {
		if rule == "" {
			return
		}
		if p := probs[rule]; p != nil && len(p.list) > 0 {
			sort.Strings(p.list)
			r.Bad(rule, name, con, w.Pos(p.at[p.list[0]]), strings.Join(p.list, "; "))
			return
		}
		r.Ok(rule, name, con, w.Pos(fn.Pos()), okHow)
	}
	how := fmt.Sprintf("%d success path(s) (%d plain, %d through a layout)", nSuccess, nPlain, nLayout)
	emit(scopeRule, "child scope of the partial", how+": the text is rendered in a fresh child of the caller's scope; every Set of the level goes to that child")
	emit(onceRule, "feeder once, Render once per level", how)
	emit(dataRule, "data reaches the partial", how+": the entries ranged over in the data parameter are set on the child that is rendered with")
	emit(orderRule, "render < JS escape < layout; result and yield are template.HTML(part)", how)
}

// blockWithOnceRuleSSA (C17.R1): on every success path of HelperContext.BlockWith
// (unexported helpers of the package walked in line) the block is evaluated
// once and its result is written once.
func blockWithOnceRuleSSA(r *Run, rule string) {
	w := r.W
	ht := w.NamedType("", "HelperContext")
	m := w.coreModel()
	if ht == nil || m.block == nil || m.sink == nil {
		r.Lost(rule, "HelperContext / block evaluator / sink")
		return
	}
	n := 0
	for _, f := range w.Funcs("") {
		if !isMethodOf(f, ht) || f.Decl.Name.Name != "BlockWith" {
			continue
		}
		fn := w.SSAFunc(f)
		if fn == nil {
			continue
		}
		n++
		inline := func(caller, callee *ssa.Function) bool {
			return pkgOf(callee) == fn.Pkg && callee != m.block && callee != m.sink && (callee.Parent() != nil || (fnObject(callee) != nil && !fnObject(callee).Exported()))
		}
		pw := &pathWalker{inline: inline, unroll1: true, maxPaths: 50000, maxDepth: 5}
		pw.walk(fn)
		if pw.overflow {
			r.Lost(rule, "paths of "+f.Name())
			continue
		}
		evals, sinks := map[int]bool{}, map[int]bool{}
		nOK := 0
		for _, p := range pw.paths {
			if p.end != "return" || len(p.results) != 2 || !p.knownNil(p.results[1]) {
				continue
			}
			nOK++
			ne, ns := 0, 0
			for _, ev := range p.events {
				if c, ok := ev.(*ssa.Call); ok {
					switch c.Call.StaticCallee() {
					case m.block:
						ne++
					case m.sink:
						ns++
					}
				}
			}
			evals[ne], sinks[ns] = true, true
		}
		if nOK > 0 && onlyCount(evals, 1) && onlyCount(sinks, 1) {
			r.Ok(rule, f.Name(), "block evaluated once, written once", w.Pos(f.Decl.Pos()), fmt.Sprintf("on every success path (%d)", nOK))
		} else {
			r.Bad(rule, f.Name(), fmt.Sprintf("block evaluations %v, sink calls %v per success path", keys(evals), keys(sinks)), w.Pos(f.Decl.Pos()), "a helper's block must be rendered exactly once per BlockWith call")
		}
	}
	if n == 0 {
		r.Lost(rule, "HelperContext.BlockWith")
	}
}
