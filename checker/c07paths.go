package main

// c07paths.go: the condition evaluators (prefix, if / else-if) decided on the
// paths of the SSA form, with every helper that is not itself one of the
// evaluator's fixed points walked in line. What is decided does not depend on
// how the code is split (a shared "evaluate the condition" helper, the else
// chain in its own function or not) or on the surface form of the branches.

import (
	"fmt"
	"go/constant"
	"go/token"
	"go/types"
	"sort"
	"strings"

	"golang.org/x/tools/go/ssa"
)

type condModel struct {
	w      *World
	core   *coreModel
	truthy *ssa.Function
}

func (w *World) condModel() *condModel {
	m := w.coreModel()
	t := w.truthyMethod()
	if m.expr == nil || m.block == nil || t == nil {
		return nil
	}
	return &condModel{w: w, core: m, truthy: w.SSAFunc(t)}
}

// headOf: the evaluator of the node type that the expression dispatcher hands over to.
func (cm *condModel) headOf(node string) *ssa.Function {
	var found *ssa.Function
	for _, f := range cm.w.evalMethods(node) {
		fn := cm.w.SSAFunc(f)
		if fn != nil && cm.core.canonicalSet()[fn] {
			found = fn
		}
	}
	if found == nil {
		if f := cm.w.evalMethod(node); f != nil {
			found = cm.w.SSAFunc(f)
		}
	}
	return found
}

// evalValue: v is the value result of a call of the expression evaluator.
func (cm *condModel) evalValue(p *pwPath, v ssa.Value) (*ssa.Call, bool) {
	v = p.resolve(stripIface(p.resolve(v)))
	ex, ok := v.(*ssa.Extract)
	if !ok || ex.Index != 0 {
		return nil, false
	}
	c, ok := ex.Tuple.(*ssa.Call)
	if !ok || c.Call.StaticCallee() != cm.core.expr {
		return nil, false
	}
	return c, true
}

// truthyOf: v is truthy(<value of an expression evaluation>); returns that evaluation.
func (cm *condModel) truthyOf(p *pwPath, v ssa.Value) (*ssa.Call, bool) {
	c, ok := p.resolve(stripIface(p.resolve(v))).(*ssa.Call)
	if !ok || c.Call.StaticCallee() != cm.truthy || len(c.Call.Args) != opBase(cm.truthy)+1 {
		return nil, false
	}
	return cm.evalValue(p, c.Call.Args[len(c.Call.Args)-1])
}

// rawUse: v depends on the value of an expression evaluation otherwise than
// through the truthiness predicate.
func (cm *condModel) rawUse(p *pwPath, v ssa.Value, depth int) bool {
	if v == nil || depth > 14 {
		return false
	}
	v = p.resolve(v)
	if _, ok := cm.evalValue(p, v); ok {
		return true
	}
	switch x := v.(type) {
	case *ssa.Const, *ssa.Parameter, *ssa.Global, *ssa.Function, *ssa.FreeVar, *ssa.Builtin, *ssa.Alloc:
		return false
	case *ssa.Call:
		if x.Call.StaticCallee() == cm.truthy {
			return false
		}
		if x.Call.StaticCallee() == cm.core.expr || x.Call.StaticCallee() == cm.core.block {
			return false // its results are looked at through Extract
		}
		if x.Call.IsInvoke() && cm.rawUse(p, x.Call.Value, depth+1) {
			return true
		}
		for _, a := range x.Call.Args {
			if cm.rawUse(p, a, depth+1) {
				return true
			}
		}
		return false
	case *ssa.Extract:
		if c, ok := x.Tuple.(*ssa.Call); ok && (c.Call.StaticCallee() == cm.core.expr || c.Call.StaticCallee() == cm.core.block) {
			return false // the error result, or a block's result
		}
		return cm.rawUse(p, x.Tuple, depth+1)
	case *ssa.UnOp:
		if x.Op == token.MUL {
			return false // a load that no store of this path determines: a field of the node, of the evaluator
		}
	}
	if ins, ok := v.(ssa.Instruction); ok {
		var buf [8]*ssa.Value
		for _, op := range ins.Operands(buf[:0]) {
			if op != nil && *op != nil && cm.rawUse(p, *op, depth+1) {
				return true
			}
		}
	}
	return false
}

// typeOnly: the decision looks at the dynamic type of a value only: a nil
// comparison, the ok of a type assertion, a comparison of reflect's Kind().
func (cm *condModel) typeOnly(p *pwPath, cond ssa.Value) bool {
	cond = p.resolve(cond)
	if _, _, ok := isNilCompare(p, cond); ok {
		return true
	}
	if ex, ok := cond.(*ssa.Extract); ok && ex.Index == 1 {
		if ta, ok := ex.Tuple.(*ssa.TypeAssert); ok && ta.CommaOk {
			return true
		}
	}
	if bo, ok := cond.(*ssa.BinOp); ok && (bo.Op == token.EQL || bo.Op == token.NEQ) {
		for _, side := range []ssa.Value{bo.X, bo.Y} {
			if c, ok := p.resolve(side).(*ssa.Call); ok {
				pkg, name := staticCalleeName(c)
				if pkg == "reflect" && strings.HasSuffix(name, "Kind") {
					return true
				}
			}
		}
	}
	return false
}

// nodeField: v is a load of node.<field> of the root function's node parameter.
func nodeField(p *pwPath, v ssa.Value, root *ssa.Function, field string) bool {
	return isParamFieldLoad(p, p.resolve(v), root, 1, field)
}

// elemField: v is a load of <e>.<field> where e is an element of node.ElseIf; returns e and its IndexAddr.
func elemField(p *pwPath, v ssa.Value, root *ssa.Function, field string) (ssa.Value, *ssa.IndexAddr, bool) {
	ld, ok := p.resolve(v).(*ssa.UnOp)
	if !ok || ld.Op != token.MUL {
		return nil, nil, false
	}
	fa, ok := ld.X.(*ssa.FieldAddr)
	if !ok {
		return nil, nil, false
	}
	pt, ok := fa.X.Type().Underlying().(*types.Pointer)
	if !ok {
		return nil, nil, false
	}
	st, ok := pt.Elem().Underlying().(*types.Struct)
	if !ok || fa.Field >= st.NumFields() || st.Field(fa.Field).Name() != field {
		return nil, nil, false
	}
	e := p.resolve(fa.X)
	eld, ok := e.(*ssa.UnOp)
	if !ok || eld.Op != token.MUL {
		return nil, nil, false
	}
	ia, ok := p.resolve(eld.X).(*ssa.IndexAddr)
	if !ok || !nodeField(p, ia.X, root, "ElseIf") {
		return nil, nil, false
	}
	return e, ia, true
}

// ifBranchRuleSSA (C07.R3): which block the if evaluator runs.
func ifBranchRuleSSA(r *Run, rule string) {
	w := r.W
	cm := w.condModel()
	if cm == nil {
		r.Lost(rule, "if evaluator / block evaluator / predicate")
		return
	}
	fn := cm.headOf("IfExpression")
	if fn == nil {
		r.Lost(rule, "evaluator of *ast.IfExpression")
		return
	}
	name := ssaName(fn)
	paths, complete := walkPathsUnrolled(fn, nil, cm.core.inline, 100000)
	if !complete {
		r.Lost(rule, "paths of the if evaluator (too many)")
		return
	}
	var bads []string
	badAt := map[string]token.Pos{}
	addBad := func(s string, at token.Pos) {
		if _, ok := badAt[s]; !ok {
			bads = append(bads, s)
			badAt[s] = at
		}
	}
	nMain, nElseIf, nElse, nNone := 0, 0, 0, 0
	tolerated := map[ssa.Instruction]bool{}
	condSites := map[ssa.Instruction]token.Pos{}
	var idxAddrs []*ssa.IndexAddr
	for _, p := range paths {
		type condEv struct {
			call  *ssa.Call
			kind  string // main | elseif
			elem  ssa.Value
			at    int // event index
			truth int // -1 unknown, 0 false, 1 true
			decAt int
		}
		var conds []*condEv
		var blockCall *ssa.Call
		blockKind, blockAt := "", -1
		var blockElem ssa.Value
		nBlocks := 0
		for i, ev := range p.events {
			c, ok := ev.(*ssa.Call)
			if !ok {
				continue
			}
			switch c.Call.StaticCallee() {
			case cm.core.expr:
				if len(c.Call.Args) != 2 {
					continue
				}
				ce := &condEv{call: c, at: i, truth: -1, decAt: -1}
				if nodeField(p, c.Call.Args[1], fn, "Condition") {
					ce.kind = "main"
				} else if e, ia, ok := elemField(p, c.Call.Args[1], fn, "Condition"); ok {
					ce.kind, ce.elem = "elseif", e
					idxAddrs = append(idxAddrs, ia)
				} else {
					addBad("the if evaluator evaluates an expression that is neither node.Condition nor the condition of an else-if element", c.Pos())
					continue
				}
				condSites[origInstr(c)] = c.Pos()
				conds = append(conds, ce)
			case cm.core.block:
				nBlocks++
				blockCall, blockAt = c, i
				switch {
				case nodeField(p, c.Call.Args[1], fn, "Block"):
					blockKind = "main"
				case nodeField(p, c.Call.Args[1], fn, "ElseBlock"):
					blockKind = "else"
				default:
					if e, _, ok := elemField(p, c.Call.Args[1], fn, "Block"); ok {
						blockKind, blockElem = "elseif", e
					} else {
						blockKind = "other"
					}
				}
			}
		}
		// truth decisions and tolerance
		forgiven := map[*ssa.Call]bool{}
		for di, d := range p.decisions {
			if c, ok := cm.truthyOf(p, d.cond); ok {
				for _, ce := range conds {
					if ce.call == c && ce.truth < 0 {
						ce.decAt = di
						if d.truth {
							ce.truth = 1
						} else {
							ce.truth = 0
						}
					}
				}
				continue
			}
			if ex, ok := d.cond.(*ssa.Extract); ok && ex.Index == 1 && d.truth {
				if ta, ok := ex.Tuple.(*ssa.TypeAssert); ok && ta.CommaOk && namedIs(ta.AssertedType, modPath, "ErrUnknownIdentifier") {
					if e, ok := p.resolve(ta.X).(*ssa.Extract); ok && e.Index == 1 {
						if c, ok := e.Tuple.(*ssa.Call); ok && c.Call.StaticCallee() == cm.core.expr {
							forgiven[c] = true
						}
					}
				}
				continue
			}
			if cm.rawUse(p, d.cond, 0) {
				addBad("a branch of the if evaluator is decided by an evaluated value directly, not through the truthiness predicate", d.at.Pos())
			}
		}
		// tolerated: the typed error was forgiven and the path went on to the truth test of that value
		for _, ce := range conds {
			if forgiven[ce.call] && ce.truth >= 0 {
				tolerated[origInstr(ce.call)] = true
			}
		}
		if p.end != "return" || len(p.results) != 2 {
			continue
		}
		if !p.knownNil(p.results[1]) && blockCall == nil {
			continue // an error of a condition: C05
		}
		if nBlocks > 1 {
			addBad("more than one block is evaluated on a path", blockCall.Pos())
			continue
		}
		// order and polarity
		for i, ce := range conds {
			if i == 0 && ce.kind != "main" {
				addBad("an else-if condition is evaluated before the main condition", ce.call.Pos())
			}
			if i > 0 && ce.kind == "main" {
				addBad("the main condition is evaluated more than once", ce.call.Pos())
			}
			if ce.truth < 0 {
				if blockCall != nil && blockAt > ce.at || i < len(conds)-1 || blockCall == nil {
					addBad("a condition is evaluated but the path goes on without testing its truthiness", ce.call.Pos())
				}
				continue
			}
			last := i == len(conds)-1
			if ce.truth == 1 && !last {
				addBad("a later condition is evaluated although an earlier one was truthy", ce.call.Pos())
			}
			if i < len(conds)-1 && conds[i+1].at < 0 {
				continue
			}
		}
		if len(conds) == 0 {
			if blockCall != nil {
				addBad("a block is evaluated without any condition having been evaluated", blockCall.Pos())
			}
			continue
		}
		lastC := conds[len(conds)-1]
		// a path that leaves the else-if loop by the unrolling's forced exit has seen "all" elements
		switch {
		case blockCall == nil:
			if lastC.truth == 1 {
				addBad("a truthy condition does not lead to its block", lastC.call.Pos())
				continue
			}
			if lastC.truth == 0 {
				// (nil, nil) when there is no else block
				if !isNilConst(p.resolve(stripIface(p.resolve(p.results[0])))) {
					addBad("without a truthy condition and without else block the result must be nil", p.ret.Pos())
				}
				elseNil := false
				for _, d := range p.decisions {
					if x, op, ok := isNilCompare(p, d.cond); ok && nodeField(p, x, fn, "ElseBlock") && d.truth == (op == token.EQL) {
						elseNil = true
					}
				}
				if !elseNil {
					addBad("the else block is skipped although it was not found to be absent", p.ret.Pos())
				}
				nNone++
			}
		default:
			// the block's results are returned as they are
			okRet := false
			if e0, ok := p.resolve(p.results[0]).(*ssa.Extract); ok && e0.Tuple == ssa.Value(blockCall) && e0.Index == 0 {
				if e1, ok := p.resolve(p.results[1]).(*ssa.Extract); ok && e1.Tuple == ssa.Value(blockCall) && e1.Index == 1 {
					okRet = true
				}
			}
			if !okRet {
				addBad("the chosen block's result and error are not returned as they are", p.ret.Pos())
			}
			for _, ce := range conds {
				if ce.at > blockAt {
					addBad("a condition is evaluated after a block was run", ce.call.Pos())
				}
			}
			switch blockKind {
			case "main":
				if lastC.kind != "main" || lastC.truth != 1 {
					addBad("the main block must be evaluated exactly when the main condition is truthy", blockCall.Pos())
				} else {
					nMain++
				}
			case "elseif":
				if lastC.kind != "elseif" || lastC.truth != 1 || lastC.elem != blockElem {
					addBad("an else-if block must be evaluated exactly when the condition of the SAME element is truthy", blockCall.Pos())
				} else {
					nElseIf++
				}
			case "else":
				if lastC.truth != 0 {
					addBad("the else block is evaluated although a condition was truthy (or untested)", blockCall.Pos())
				} else if p.revisits == 0 && !loopSkipped(p, fn) {
					addBad("the else block is evaluated before the else-if conditions were all visited", blockCall.Pos())
				} else {
					nElse++
				}
			default:
				addBad("the if evaluator runs a block that is none of node.Block, an else-if element's Block, node.ElseBlock", blockCall.Pos())
			}
			for i, ce := range conds[:len(conds)-1] {
				_ = i
				if ce.truth != 0 {
					addBad("a block is chosen although an earlier condition was not falsy", blockCall.Pos())
				}
			}
		}
	}
	// the else-if elements: ascending from 0, each below len(node.ElseIf)
	seenIA := map[*ssa.IndexAddr]bool{}
	okOrder := len(idxAddrs) > 0
	for _, ia := range idxAddrs {
		o, ok := origInstr(ia).(*ssa.IndexAddr)
		if !ok || seenIA[o] {
			continue
		}
		seenIA[o] = true
		if _, ok := counterFromZero(o.Index); !ok {
			okOrder = false
		}
	}
	con := "branch selection"
	pos := w.Pos(fn.Pos())
	if len(idxAddrs) == 0 {
		addBad("the else-if conditions are not visited", fn.Pos())
	} else if !okOrder {
		addBad("the else-if elements are not visited in ascending order from the first", fn.Pos())
	}
	if nMain == 0 || nElseIf == 0 || nElse == 0 || nNone == 0 {
		addBad(fmt.Sprintf("not every outcome has a path (main block %d, else-if block %d, else block %d, nothing %d)", nMain, nElseIf, nElse, nNone), fn.Pos())
	}
	if len(bads) > 0 {
		sort.Strings(bads)
		for _, b := range bads {
			r.Bad(rule, name, con+": "+b, w.Pos(badAt[b]), "main block only on the truthy edge and returned at once; else-ifs in order, condition and block of the same element, the first truthy one returns; else block only after all were falsy")
		}
	} else {
		r.Ok(rule, name, con, pos, fmt.Sprintf("%d path(s): main %d, else-if %d, else %d, nothing %d", len(paths), nMain, nElseIf, nElse, nNone))
	}
	// unknown identifiers are falsy: every condition evaluation has a path on which its typed error is forgiven
	var sites []ssa.Instruction
	for s := range condSites {
		sites = append(sites, s)
	}
	sort.Slice(sites, func(i, j int) bool { return sites[i].Pos() < sites[j].Pos() })
	for i, s := range sites {
		c := fmt.Sprintf("condition evaluation #%d: unknown identifier is falsy", i+1)
		if tolerated[s] {
			r.Ok(rule, name, c, w.Pos(condSites[s]), "the typed *ErrUnknownIdentifier is forgiven and the value's truthiness decides")
		} else {
			r.Bad(rule, name, c, w.Pos(condSites[s]), "an unknown identifier in a condition must count as falsy: the typed error of this evaluation is never forgiven")
		}
	}
}

// loopSkipped: the path decided that node.ElseIf has no (more) elements without entering the loop body.
func loopSkipped(p *pwPath, root *ssa.Function) bool {
	for _, d := range p.decisions {
		bo, ok := d.cond.(*ssa.BinOp)
		if !ok {
			continue
		}
		for _, side := range []ssa.Value{bo.X, bo.Y} {
			if c, ok := p.resolve(side).(*ssa.Call); ok {
				if b, ok := c.Call.Value.(*ssa.Builtin); ok && b.Name() == "len" && len(c.Call.Args) == 1 && nodeField(p, c.Call.Args[0], root, "ElseIf") {
					return true
				}
			}
		}
	}
	return false
}

// prefixBangRuleSSA (C06.R8, part of C07.R1): '!' returns the negated
// truthiness of the operand (an unknown identifier counting as nil), and any
// other operator is an error.
func prefixBangRuleSSA(r *Run, rule string) {
	w := r.W
	cm := w.condModel()
	if cm == nil {
		r.Lost(rule, "prefix evaluator / predicate")
		return
	}
	fn := cm.headOf("PrefixExpression")
	if fn == nil {
		r.Lost(rule, "evaluator of *ast.PrefixExpression")
		return
	}
	name := ssaName(fn)
	seedOp := func(op string) func(p *pwPath, v ssa.Value) (constant.Value, bool) {
		return func(p *pwPath, v ssa.Value) (constant.Value, bool) {
			if isParamFieldLoad(p, v, fn, 1, "Operator") {
				return constant.MakeString(op), true
			}
			return nil, false
		}
	}
	// "!"
	{
		paths, ok := walkPaths(fn, seedOp("!"), cm.core.inline)
		bad, nOK := "", 0
		var at token.Pos
		for _, p := range paths {
			if p.end != "return" || len(p.results) != 2 || !p.knownNil(p.results[1]) {
				continue
			}
			at = p.ret.Pos()
			res := p.resolve(stripIface(p.resolve(p.results[0])))
			// either the negation itself, or a constant chosen by the decision on truthy(operand)
			val, neg := stripNot(res)
			val = p.resolve(val)
			v2, n2 := stripNot(val)
			val, neg = v2, neg != n2
			if c, ok := cm.truthyOf(p, val); ok && neg && nodeField(p, c.Call.Args[1], fn, "Right") {
				nOK++
				continue
			}
			if k, ok := p.constOf(res); ok && k.Kind() == constant.Bool {
				t, _, found := p.decidedAs(func(c ssa.Value) bool {
					ev, ok := cm.truthyOf(p, c)
					return ok && nodeField(p, ev.Call.Args[1], fn, "Right")
				})
				if found && constant.BoolVal(k) == !t {
					nOK++
					continue
				}
			}
			bad = "the '!' operator must return the negated truthiness predicate of its operand"
		}
		switch {
		case !ok:
			r.Lost(rule, "paths of the prefix evaluator")
		case bad != "" || nOK == 0:
			if bad == "" {
				bad = "the '!' operator must return the negated truthiness predicate of its operand"
				at = fn.Pos()
			}
			r.Bad(rule, name, "arm for \"!\"", w.Pos(at), bad)
		default:
			r.Ok(rule, name, "arm for \"!\"", w.Pos(at), "return !truthy(operand)")
		}
	}
	// anything else
	{
		paths, ok := walkPaths(fn, seedOp("\x00no-such-operator"), cm.core.inline)
		bad := false
		for _, p := range paths {
			if p.end == "return" && len(p.results) == 2 && p.knownNil(p.results[1]) {
				bad = true
				r.Bad(rule, name, "unknown prefix operator accepted", w.Pos(p.ret.Pos()), "a prefix operator other than '!' must be an error")
				break
			}
		}
		if ok && !bad && len(paths) > 0 {
			r.Ok(rule, name, "unknown prefix operator is an error", w.Pos(fn.Pos()), "no successful path for an operator other than '!'")
		}
	}
}

// truthyUseRuleSSA (C07.R1): in the prefix, if and infix evaluators no branch
// is decided by an evaluated value directly; the infix evaluator may look at
// the dynamic TYPE of its operands (nil dispatch, operator table selection).
func truthyUseRuleSSA(r *Run, rule string) {
	w := r.W
	cm := w.condModel()
	if cm == nil {
		r.Lost(rule, "evaluators / predicate")
		return
	}
	for _, node := range []string{"PrefixExpression", "IfExpression", "InfixExpression"} {
		fn := cm.headOf(node)
		if fn == nil {
			r.Lost(rule, "evaluator for *ast."+node)
			continue
		}
		name := ssaName(fn)
		inline := cm.core.inline
		if node == "InfixExpression" {
			if im := w.infixModel(); im != nil {
				inline = im.inlineHelpers
			}
		}
		paths, ok := walkPathsUnrolled(fn, nil, inline, 100000)
		if !ok {
			r.Lost(rule, "paths of "+name)
			continue
		}
		nTruthy, nType := 0, 0
		var bad *pwDecision
		for _, p := range paths {
			for i := range p.decisions {
				d := &p.decisions[i]
				if _, ok := cm.truthyOf(p, d.cond); ok {
					nTruthy++
					continue
				}
				// truthy(v) compared with another bool that is not itself derived from a value
				if bo, ok := d.cond.(*ssa.BinOp); ok && (bo.Op == token.EQL || bo.Op == token.NEQ) && isBasicKind(bo.X.Type(), types.Bool) {
					_, tx := cm.truthyOf(p, bo.X)
					_, ty := cm.truthyOf(p, bo.Y)
					if (tx && !cm.rawUse(p, bo.Y, 0)) || (ty && !cm.rawUse(p, bo.X, 0)) {
						nTruthy++
						continue
					}
				}
				if !cm.rawUse(p, d.cond, 0) {
					continue
				}
				if node == "InfixExpression" && cm.typeOnly(p, d.cond) {
					nType++
					continue
				}
				if bad == nil {
					bad = d
				}
			}
		}
		con := "branch decisions on evaluated values"
		switch {
		case bad != nil:
			pos := fn.Pos()
			if bad.at != nil {
				pos = bad.at.Pos()
			}
			r.Bad(rule, name, con, w.Pos(pos), "a branch decision uses an evaluated value directly; truth must be decided by the single truthiness predicate so that it is the same everywhere")
		case nTruthy == 0 && node != "PrefixExpression":
			r.Bad(rule, name, con, w.Pos(fn.Pos()), "no branch of this evaluator is decided by the truthiness predicate")
		default:
			how := fmt.Sprintf("%d decision(s) through the predicate, none on an evaluated value itself", nTruthy)
			if nType > 0 {
				how += fmt.Sprintf(", %d on the dynamic type of an operand (licensed: selects the operator table)", nType)
			}
			r.Ok(rule, name, con, w.Pos(fn.Pos()), how)
		}
	}
	prefixBangRuleSSA(r, rule)
}
