package main

// c16parse.go (C16.R10): the parameter list of a function literal is the literal's own. "Binds each parameter to
// the corresponding argument" needs the names the parser read for THIS literal: a list collected in a scratch
// slice kept in the parser and handed to the node as it is shares its backing array with the next literal's
// list, which overwrites the names. Decided on the value graph of the parser package: no slice that is stored
// into a field of a tree node, or returned by a function that yields a list of nodes, is based on a field of the
// parser or on a package variable.

import (
	"go/types"
	"strings"

	"golang.org/x/tools/go/ssa"
)

func parserBuffersRule(r *Run, rule string) {
	w := r.W
	w.SSA()
	pkg := w.SSAPkg("parser")
	if pkg == nil {
		r.Lost(rule, "parser package")
		return
	}
	isNodeSlice := func(t types.Type) bool {
		sl, ok := t.Underlying().(*types.Slice)
		if !ok {
			return false
		}
		e := sl.Elem()
		if pt, isPtr := e.(*types.Pointer); isPtr {
			e = pt.Elem()
		}
		return declaredIn(e, astPath) || isASTRef(sl.Elem())
	}
	n, nBad := 0, 0
	for _, fn := range functionsOf(pkg) {
		for _, b := range fn.Blocks {
			for _, ins := range b.Instrs {
				var v ssa.Value
				what := ""
				switch x := ins.(type) {
				case *ssa.Store:
					fa, ok := x.Addr.(*ssa.FieldAddr)
					if !ok || !isNodeSlice(x.Val.Type()) || !declaredIn(deref(fa.X.Type()), astPath) {
						continue
					}
					v, what = x.Val, "stored into a node"
				case *ssa.Return:
					for _, res := range x.Results {
						if isNodeSlice(res.Type()) {
							v, what = res, "returned as a list of nodes"
						}
					}
				}
				if v == nil {
					continue
				}
				n++
				if s := sharedBase(v, map[ssa.Value]bool{}, 0); s != "" && (strings.HasPrefix(s, "package variable") || strings.Contains(s, " of parser.")) {
					nBad++
					r.Bad(rule, ssaName(fn), "list of nodes "+what+" is kept in "+s, w.Pos(ins.Pos()),
						"the list is built in a buffer that outlives this parse function ("+s+"): the next list built there (the parameters of the next function literal) overwrites the elements of this one, which the tree still refers to")
				}
			}
		}
	}
	if n == 0 {
		r.Lost(rule, "lists of nodes built by the parser")
		return
	}
	if nBad == 0 {
		r.Ok(rule, "parser", "lists of nodes are built per parse", "-", "no list stored into a node or returned by a parse function is based on a field of the parser or a package variable")
	}
}
