package main

// c02carry.go (C02.R8): the output an exit object carries is handed on whole. A return / break / continue
// object holds, in order, everything its block had produced when it was left, followed by the value of the
// statement itself; the text and values emitted before a `return` are part of the rendering ("exactly the
// concatenation, in source order"). Decided on the value graph of the evaluator package: the slice kept in an
// exit object is read only as a whole - ranged over, spread into an append, measured, stored, passed or
// returned. An element picked out of it by a computed index (the last one, say, "the returned value"), or a
// sub-slice of it, drops the rest.

import (
	"go/token"
	"go/types"

	"golang.org/x/tools/go/ssa"
)

func exitValueWholeRule(r *Run, rule string) {
	w := r.W
	w.SSA()
	pkg := w.SSAPkg("")
	if pkg == nil {
		r.Lost(rule, "evaluator package")
		return
	}
	isExit := func(t types.Type) bool {
		if pt, ok := t.(*types.Pointer); ok {
			t = pt.Elem()
		}
		switch exitTypeName(t) {
		case "returnObject", "breakObject", "continueObject":
			return declaredIn(t, modPath) && valueFieldIndex(t) >= 0
		}
		return false
	}
	nReads := 0
	type finding struct {
		fn  *ssa.Function
		pos token.Pos
		why string
	}
	var bad []finding
	var judge func(fn *ssa.Function, v ssa.Value, seen map[ssa.Value]bool, d int)
	judge = func(fn *ssa.Function, v ssa.Value, seen map[ssa.Value]bool, d int) {
		if seen[v] || d > 6 || v.Referrers() == nil {
			return
		}
		seen[v] = true
		for _, ref := range *v.Referrers() {
			switch x := ref.(type) {
			case *ssa.IndexAddr:
				if x.X != v {
					continue
				}
				if isRangeIndex(x.Index) {
					continue
				}
				bad = append(bad, finding{fn, x.Pos(), "one element is picked out of the output an exit object carries"})
			case *ssa.Index:
				if x.X == v && !isRangeIndex(x.Index) {
					bad = append(bad, finding{fn, x.Pos(), "one element is picked out of the output an exit object carries"})
				}
			case *ssa.Slice:
				if x.X == v && (x.Low != nil || x.High != nil) {
					bad = append(bad, finding{fn, x.Pos(), "only a part of the output an exit object carries is taken"})
				} else if x.X == v {
					judge(fn, x, seen, d+1)
				}
			case *ssa.Phi:
				judge(fn, x, seen, d+1)
			case *ssa.ChangeType:
				judge(fn, x, seen, d+1)
			}
		}
	}
	for _, fn := range functionsOf(pkg) {
		for _, b := range fn.Blocks {
			for _, ins := range b.Instrs {
				var v ssa.Value
				switch x := ins.(type) {
				case *ssa.UnOp:
					if x.Op != token.MUL {
						continue
					}
					fa, ok := x.X.(*ssa.FieldAddr)
					if !ok || !isExit(fa.X.Type()) {
						continue
					}
					pt := fa.X.Type().Underlying().(*types.Pointer)
					if fa.Field != valueFieldIndex(pt.Elem()) {
						continue
					}
					v = x
				case *ssa.Field:
					if !isExit(x.X.Type()) || x.Field != valueFieldIndex(x.X.Type()) {
						continue
					}
					v = x
				default:
					continue
				}
				nReads++
				judge(fn, v, map[ssa.Value]bool{}, 0)
			}
		}
	}
	if nReads == 0 {
		r.Lost(rule, "reads of the output kept in return/break/continue objects")
		return
	}
	if len(bad) == 0 {
		r.Ok(rule, "plush", "the output carried by exit objects is read as a whole", "-", "ranged over, spread into append, measured, stored or passed on; never indexed or cut")
		return
	}
	for _, f := range bad {
		r.Bad(rule, ssaName(f.fn), "the output carried by an exit object is read as a whole", w.Pos(f.pos),
			f.why+": what the block had produced before it was left (the text and the values emitted before a return, a break or a continue) is part of the rendering and is dropped here")
	}
}

// isRangeIndex: the index of a `for ... range s` loop as go/ssa builds it (the incremented range-index phi).
func isRangeIndex(idx ssa.Value) bool {
	bo, ok := idx.(*ssa.BinOp)
	if !ok || bo.Op != token.ADD {
		return false
	}
	phi, ok := bo.X.(*ssa.Phi)
	return ok && phi.Comment == "rangeindex"
}
