package main

// c11ssa.go (C11.R4, method part): methods are looked up on the value and, when
// that fails and the receiver is not already a pointer, on a fresh pointer to
// a copy of it. Decided on the SSA form of whichever function of the evaluator
// holds the two MethodByName lookups (the call evaluator or a helper it was
// extracted into): the facts that dominate the second lookup beyond those that
// dominate the first are exactly "the first result is invalid" and "the
// receiver's kind is not Ptr"; its receiver is reflect.New(<type of the
// receiver>) whose Elem() was Set to the receiver.

import (
	"fmt"
	"go/constant"
	"go/token"
	"go/types"

	"golang.org/x/tools/go/ssa"
)

func c11MethodLookupSSA(r *Run, rule string) {
	w := r.W
	ce := w.evalMethod("CallExpression")
	if ce == nil {
		r.Lost(rule, "call evaluator")
		return
	}
	w.SSA()
	root := w.SSAFunc(ce)
	m := w.coreModel()
	// the call evaluator and the helpers it reaches
	seen := map[*ssa.Function]bool{}
	var fns []*ssa.Function
	var visit func(fn *ssa.Function, depth int)
	visit = func(fn *ssa.Function, depth int) {
		if fn == nil || seen[fn] || depth > 3 {
			return
		}
		seen[fn] = true
		fns = append(fns, fn)
		for _, b := range fn.Blocks {
			for _, ins := range b.Instrs {
				if c, ok := ins.(*ssa.Call); ok {
					if cal := c.Call.StaticCallee(); cal != nil && len(cal.Blocks) > 0 && m.inline(fn, cal) {
						visit(cal, depth+1)
					}
				}
			}
		}
	}
	visit(root, 0)
	type lookup struct {
		call *ssa.Call
		recv ssa.Value
	}
	var holder *ssa.Function
	var lks []lookup
	for _, fn := range fns {
		var here []lookup
		for _, b := range fn.Blocks {
			for _, ins := range b.Instrs {
				if c, ok := ins.(*ssa.Call); ok {
					if recv, _, ok := reflectValueCall(c, "MethodByName"); ok {
						here = append(here, lookup{c, recv})
					}
				}
			}
		}
		if len(here) > 0 {
			if holder != nil {
				r.Bad(rule, ssaName(fn), "method lookups", w.Pos(fn.Pos()), "the method lookups of a call are spread over several functions: value-then-pointer order cannot be established")
				return
			}
			holder, lks = fn, here
		}
	}
	if holder == nil || len(lks) != 2 {
		r.Bad(rule, ce.Name(), "method lookups", w.Pos(ce.Decl.Pos()), "methods must be looked up on the value and then on a pointer to it")
		return
	}
	first, second := lks[0], lks[1]
	if !first.call.Block().Dominates(second.call.Block()) {
		first, second = second, first
	}
	name := ssaName(holder)
	lg := newLedger(w, holder)
	base := map[string]bool{}
	for _, f := range dominatingFacts(first.call.Block()) {
		base[lg.condString(f)] = true
	}
	hasInvalid, hasNotPtr, extra := false, false, ""
	for _, f := range dominatingFacts(second.call.Block()) {
		if base[lg.condString(f)] {
			continue
		}
		cond, truth := f.cond, f.truth
		for {
			u, ok := cond.(*ssa.UnOp)
			if !ok || u.Op != token.NOT {
				break
			}
			cond, truth = u.X, !truth
		}
		if recv, _, ok := reflectValueCall(cond, "IsValid"); ok && recv == ssa.Value(first.call) {
			if !truth {
				hasInvalid = true
				continue
			}
		}
		if ks, ok := lg.kindFact(cond, truth, first.recv, false); ok {
			if ks&(1<<kPtr) == 0 {
				hasNotPtr = true
				continue
			}
		}
		if _, isPhi := cond.(*ssa.Phi); isPhi {
			continue // the materialised `a && b`: its parts are listed separately
		}
		extra = lg.condString(f)
	}
	// the receiver of the second lookup: a fresh pointer holding a copy of the first receiver
	fresh := false
	if args, ok := reflectFunc(second.recv, "New"); ok && len(args) == 1 {
		for _, b := range holder.Blocks {
			for _, ins := range b.Instrs {
				c, ok := ins.(*ssa.Call)
				if !ok {
					continue
				}
				if recv, sargs, ok := reflectValueCall(c, "Set"); ok && len(sargs) == 1 && lg.key(sargs[0]) == lg.key(first.recv) {
					if er, _, ok := reflectValueCall(recv, "Elem"); ok && er == second.recv && b.Dominates(second.call.Block()) {
						fresh = true
					}
				}
			}
		}
	}
	switch {
	case !hasInvalid || !hasNotPtr:
		r.Bad(rule, name, "second method lookup", w.Pos(second.call.Pos()), "pointer-receiver methods must be callable on values: the second lookup must run exactly when the first failed and the receiver is not a pointer")
	case extra != "":
		r.Bad(rule, name, "second method lookup", w.Pos(second.call.Pos()), "the second lookup is restricted by a further condition "+extra+": it must run exactly when the first failed and the receiver is not a pointer")
	case !fresh:
		r.Bad(rule, name, "second method lookup", w.Pos(second.call.Pos()), "the second lookup must be made on a fresh pointer (reflect.New) whose element was set to the receiver")
	default:
		r.Ok(rule, name, "method lookup on the value, then on a pointer to it", w.Pos(second.call.Pos()), "second lookup exactly under 'first result invalid' and 'receiver is not already a pointer', on reflect.New(T) holding a copy of the receiver")
	}
}

// indexProvenanceSSA: v is the evaluated index unmodified -- the int assertion of a parameter of fn,
// possibly obtained through a validating helper of the module that returns it as it is on every
// return that does not report an error.
func indexProvenanceSSA(w *World, fn *ssa.Function, v ssa.Value, depth int) bool {
	if depth > 3 {
		return false
	}
	isParamAssert := func(ta *ssa.TypeAssert) bool {
		if !isBasicKind(ta.AssertedType, types.Int) {
			return false
		}
		x := ta.X
		// a by-value parameter may live in a local cell that is written once
		if ld, ok := x.(*ssa.UnOp); ok {
			if sv := cellValue(ld); sv != nil {
				x = sv
			}
		}
		if _, isP := x.(*ssa.Parameter); isP {
			return true
		}
		// the evaluated index kept in a struct that is handed over by value (x indexed; x.index)
		_, _, isField := structFieldOfParam(x)
		return isField
	}
	switch x := v.(type) {
	case *ssa.TypeAssert:
		return !x.CommaOk && isParamAssert(x)
	case *ssa.Extract:
		if ta, ok := x.Tuple.(*ssa.TypeAssert); ok {
			return x.Index == 0 && ta.CommaOk && isParamAssert(ta)
		}
		call, ok := x.Tuple.(*ssa.Call)
		if !ok {
			return false
		}
		g := call.Call.StaticCallee()
		if g == nil || !inModule(g) || len(g.Blocks) == 0 || len(g.Params) != len(call.Call.Args) {
			return false
		}
		// which parameter of g must the result be the assertion of: one that receives a parameter of fn
		n := 0
		for _, b := range g.Blocks {
			ret, isRet := b.Instrs[len(b.Instrs)-1].(*ssa.Return)
			if !isRet || x.Index >= len(ret.Results) {
				continue
			}
			failing := false
			for i, rv := range ret.Results {
				if i != x.Index && isErrorType(rv.Type()) && definitelyNonNil(rv) {
					failing = true
				}
				if i != x.Index && isBasicKind(rv.Type(), types.Bool) {
					if c, isC := rv.(*ssa.Const); isC && c.Value != nil && !constant.BoolVal(c.Value) {
						failing = true
					}
				}
			}
			if failing {
				continue
			}
			n++
			if !indexProvenanceSSA(w, g, ret.Results[x.Index], depth+1) {
				return false
			}
			// the helper's parameter must be fed by a parameter of the caller
			okArg := false
			for i := range g.Params {
				a := call.Call.Args[i]
				if ld, isLd := a.(*ssa.UnOp); isLd {
					if sv := cellValue(ld); sv != nil {
						a = sv
					}
				}
				if _, isP := a.(*ssa.Parameter); isP && types.IsInterface(g.Params[i].Type()) {
					okArg = true
				}
				// the struct that holds the operands, handed on whole
				if ld, isLd := a.(*ssa.UnOp); isLd && ld.Op == token.MUL {
					if al, isAl := ld.X.(*ssa.Alloc); isAl {
						var stored ssa.Value
						ns := 0
						for _, ref := range *al.Referrers() {
							if st, isSt := ref.(*ssa.Store); isSt && st.Addr == ssa.Value(al) {
								stored = st.Val
								ns++
							}
						}
						if ns == 1 {
							a = stored
						}
					}
				}
				if _, isP := a.(*ssa.Parameter); isP {
					if _, isStruct := g.Params[i].Type().Underlying().(*types.Struct); isStruct {
						okArg = true
					}
				}
			}
			if !okArg {
				return false
			}
		}
		return n > 0
	case *ssa.Phi:
		for _, e := range x.Edges {
			if !indexProvenanceSSA(w, fn, e, depth+1) {
				return false
			}
		}
		return len(x.Edges) > 0
	}
	return false
}

// c11MemberDerefSSA (C11.R4, member part): fields of a struct AND of a pointer to
// a struct are reachable. The function that looks fields up by name is
// evaluated abstractly for the two classes of owner value: on every path that
// is consistent with the class (its tests of the owner's reflect kind evaluated
// for the class; other tests left open) and that ends the member lookup, the
// receiver of FieldByName has kind Struct; no consistent path gives up before
// looking the field up.
func c11MemberDerefSSA(r *Run, rule string, navID *FuncInfo) bool {
	w := r.W
	w.SSA()
	fn := w.SSAFunc(navID)
	m := w.coreModel()
	if fn == nil || m.expr == nil {
		return false
	}
	paths, ok := walkPathsUnrolled(fn, nil, m.inline, 50000)
	if !ok {
		return false
	}
	name := navID.Name()
	classes := []lenClass{{name: "struct", kind: kStruct}, {name: "pointer to struct", kind: kPtr, elem: kStruct}}
	allOK, decided := true, false
	for _, c := range classes {
		nReach, bad := 0, ""
		var badAt token.Pos
		for _, p := range paths {
			// the owner: the value of evaluating node.Callee
			var owner ssa.Value
			for _, ev := range p.events {
				if call, ok := ev.(*ssa.Call); ok && call.Call.StaticCallee() == m.expr && len(call.Call.Args) == 2 {
					if _, isCallee := isFieldLoadOf(p.resolve(stripIface(p.resolve(call.Call.Args[1]))), astPath, "Identifier", "Callee"); isCallee {
						for _, ref := range p.referrers(call) {
							if ex, ok := ref.(*ssa.Extract); ok && ex.Index == 0 {
								owner = ex
							}
						}
					}
				}
			}
			if owner == nil {
				continue
			}
			consistent := true
			for _, d := range p.decisions {
				if x, op, ok := isNilCompare(p, d.cond); ok {
					xv := p.resolve(x)
					if xv == owner || p.resolve(stripIface(xv)) == owner {
						if d.truth == (op == token.EQL) {
							consistent = false // the owner of these classes is not nil
						}
					}
					continue
				}
				// IsNil / IsValid of the owner (or of what it points to): the classes are a struct and a non-nil pointer to one
				if recv, _, isNil := reflectValueCall(p.resolve(d.cond), "IsNil"); isNil {
					if kk := lenKindOf(p, recv, owner, c); kk == kPtr && d.truth != c.isNil {
						consistent = false
					}
					continue
				}
				if recv, _, isValid := reflectValueCall(p.resolve(d.cond), "IsValid"); isValid {
					if kk := lenKindOf(p, recv, owner, c); kk >= 0 && d.truth != (kk != kInvalid) {
						consistent = false
					}
					continue
				}
				bo, ok := d.cond.(*ssa.BinOp)
				if !ok || (bo.Op != token.EQL && bo.Op != token.NEQ) {
					continue
				}
				a, b := p.resolve(bo.X), p.resolve(bo.Y)
				if _, isC := constKind(a); isC {
					a, b = b, a // reflect.Ptr == rv.Kind()
				}
				if recv, _, isKind := reflectValueCall(a, "Kind"); isKind {
					if k, isC := constKind(b); isC {
						if kk := lenKindOf(p, recv, owner, c); kk >= 0 && ((kk == k) == (bo.Op == token.EQL)) != d.truth {
							consistent = false
						}
					}
				}
			}
			if !consistent {
				continue
			}
			looked := false
			for _, ev := range p.events {
				call, ok := ev.(*ssa.Call)
				if !ok {
					continue
				}
				if recv, _, isF := reflectValueCall(call, "FieldByName"); isF {
					looked = true
					if kk := lenKindOf(p, recv, owner, c); kk != kStruct {
						bad, badAt = "FieldByName is reached on a value that is not a struct for this class (the pointer is not dereferenced first)", call.Pos()
					} else {
						nReach++
					}
				}
			}
			if !looked && p.end == "return" && len(p.results) == 2 && !p.knownNil(p.results[1]) {
				// gave up with an error although the owner is (a pointer to) a struct -- unless the error is that of evaluating the owner
				if ex, ok := p.resolve(p.results[1]).(*ssa.Extract); ok {
					if call, ok := ex.Tuple.(*ssa.Call); ok && call.Call.StaticCallee() == m.expr {
						continue
					}
				}
				bad, badAt = "the lookup gives up for this class before looking the field up", p.ret.Pos()
			}
		}
		if nReach > 0 || bad != "" {
			decided = true
		}
		con := "fields of a " + c.name + " are reachable"
		switch {
		case bad != "":
			allOK = false
			r.Bad(rule, name, "pointer dereference before the struct test", w.Pos(badAt), "fields of a pointer to a struct must be reachable: "+bad+" ("+c.name+")")
		case nReach == 0:
			allOK = false
			r.Bad(rule, name, "pointer dereference before the struct test", w.Pos(fn.Pos()), "no path looks a field up for a "+c.name)
		default:
			r.Ok(rule, name, con, w.Pos(fn.Pos()), "on every consistent path FieldByName is reached on a value of kind Struct")
		}
	}
	_ = allOK
	return decided
}

// keyProvenanceSSA: v is reflect.ValueOf(<parameter of fn>), possibly converted to the key type,
// possibly obtained through a validating helper of the module that returns exactly that on every
// return that does not report an error.
func keyProvenanceSSA(w *World, fn *ssa.Function, v ssa.Value, depth int) bool {
	if depth > 4 {
		return false
	}
	unwrapParam := func(a ssa.Value) bool {
		for i := 0; i < 3; i++ {
			switch x := a.(type) {
			case *ssa.MakeInterface:
				a = x.X
				continue
			case *ssa.ChangeInterface:
				a = x.X
				continue
			case *ssa.UnOp:
				if sv := cellValue(x); sv != nil {
					a = sv
					continue
				}
			}
			break
		}
		if _, isP := a.(*ssa.Parameter); isP {
			return true
		}
		_, _, isField := structFieldOfParam(a)
		return isField
	}
	switch x := v.(type) {
	case *ssa.Phi:
		for _, e := range x.Edges {
			if !keyProvenanceSSA(w, fn, e, depth+1) {
				return false
			}
		}
		return len(x.Edges) > 0
	case *ssa.Call:
		if args, ok := reflectFunc(x, "ValueOf"); ok && len(args) == 1 {
			return unwrapParam(args[0])
		}
		if recv, _, ok := reflectValueCall(x, "Convert"); ok {
			return keyProvenanceSSA(w, fn, recv, depth+1)
		}
	case *ssa.Extract:
		call, ok := x.Tuple.(*ssa.Call)
		if !ok {
			return false
		}
		g := call.Call.StaticCallee()
		if g == nil || !inModule(g) || len(g.Blocks) == 0 || len(g.Params) != len(call.Call.Args) {
			return false
		}
		n := 0
		for _, b := range g.Blocks {
			ret, isRet := b.Instrs[len(b.Instrs)-1].(*ssa.Return)
			if !isRet || x.Index >= len(ret.Results) {
				continue
			}
			failing := false
			for i, rv := range ret.Results {
				if i != x.Index && isErrorType(rv.Type()) && definitelyNonNil(rv) {
					failing = true
				}
			}
			if failing {
				continue
			}
			n++
			if !keyProvenanceSSA(w, g, ret.Results[x.Index], depth+1) {
				return false
			}
		}
		if n == 0 {
			return false
		}
		// the helper's interface-typed parameter is fed by a parameter of the caller
		for i, prm := range g.Params {
			if types.IsInterface(prm.Type()) && !namedIs(prm.Type(), "reflect", "Type") && unwrapParam(call.Call.Args[i]) {
				return true
			}
		}
	}
	return false
}

// c11FieldDerefSSA (C11.R4, field part): the value of a field is followed through a pointer. The
// function that looks fields up by name is evaluated for three classes of field value: not a
// pointer, a non-nil pointer, a nil pointer. On the paths consistent with the class (tests of the
// field value's kind, nil-ness and validity evaluated for the class) that yield a value: a
// non-pointer field yields its own Interface(), a non-nil pointer field the Interface() of what it
// points to (Elem or Indirect), a nil pointer field yields nil - and nothing is dereferenced.
func c11FieldDerefSSA(r *Run, rule string, navID *FuncInfo) {
	w := r.W
	w.SSA()
	fn := w.SSAFunc(navID)
	if fn == nil {
		r.Lost(rule, "SSA form of the member lookup")
		return
	}
	paths, ok := walkPathsUnrolled(fn, nil, w.coreModel().inline, 50000)
	if !ok {
		r.Lost(rule, "paths of the member lookup")
		return
	}
	name := navID.Name()
	classes := []lenClass{
		{name: "a field that is not a pointer", kind: kString},
		{name: "a non-nil pointer field", kind: kPtr, elem: kString},
		{name: "a nil pointer field", kind: kPtr, elem: kString, isNil: true},
	}
	for _, c := range classes {
		nOK, bad := 0, ""
		var badAt token.Pos = fn.Pos()
		for _, p := range paths {
			var fv *ssa.Call
			for _, ev := range p.events {
				if call, ok := ev.(*ssa.Call); ok {
					if _, _, isF := reflectValueCall(call, "FieldByName"); isF {
						fv = call
					}
				}
			}
			if fv == nil || p.end != "return" || len(p.results) != 2 {
				continue
			}
			kindOf := func(v ssa.Value) int { return lenKindOf(p, v, fv, c) }
			consistent := true
			for _, d := range p.decisions {
				cond := d.cond
				if call, ok := cond.(*ssa.Call); ok {
					if recv, _, isV := reflectValueCall(call, "IsValid"); isV {
						if k := kindOf(recv); k >= 0 && (k != kInvalid) != d.truth {
							consistent = false
						}
					}
					if recv, _, isN := reflectValueCall(call, "IsNil"); isN && p.resolve(recv) == ssa.Value(fv) {
						if c.kind == kPtr && c.isNil != d.truth {
							consistent = false
						}
					}
					continue
				}
				bo, ok := cond.(*ssa.BinOp)
				if !ok || (bo.Op != token.EQL && bo.Op != token.NEQ) {
					continue
				}
				a, b := p.resolve(bo.X), p.resolve(bo.Y)
				if recv, _, isKind := reflectValueCall(a, "Kind"); isKind {
					if k, isC := constKind(b); isC {
						if kk := kindOf(recv); kk >= 0 && ((kk == k) == (bo.Op == token.EQL)) != d.truth {
							consistent = false
						}
					}
				}
			}
			if !consistent || !p.knownNil(p.results[1]) {
				continue
			}
			// what is yielded
			res := p.resolve(p.results[0])
			var derefs int
			for _, ev := range p.events {
				if call, ok := ev.(*ssa.Call); ok {
					if recv, _, isE := reflectValueCall(call, "Elem"); isE && kindOf(recv) == kPtr {
						derefs++
					}
				}
			}
			var src ssa.Value
			if call, ok := res.(*ssa.Call); ok {
				if recv, _, isI := reflectValueCall(call, "Interface"); isI {
					src = recv
				}
			}
			switch {
			case c.isNil:
				if !isNilConst(res) {
					bad, badAt = "a nil pointer field must yield nil (not the pointer, not an error)", p.ret.Pos()
				} else if derefs > 0 {
					bad, badAt = "a nil pointer field is dereferenced", p.ret.Pos()
				} else {
					nOK++
				}
			case src == nil:
				bad, badAt = "the field's value is not what the lookup yields", p.ret.Pos()
			case kindOf(src) != kString:
				if c.kind == kPtr {
					bad, badAt = "a pointer field yields the pointer itself: the pointer must be followed transparently", p.ret.Pos()
				} else {
					bad, badAt = "the value yielded is not the field's value", p.ret.Pos()
				}
			default:
				nOK++
			}
		}
		con := "value of " + c.name
		switch {
		case bad != "":
			r.Bad(rule, name, "pointer-typed field", w.Pos(badAt), "a pointer field must be followed transparently: "+bad+" ("+c.name+")")
		case nOK == 0:
			r.Bad(rule, name, "pointer-typed field", w.Pos(fn.Pos()), "no path yields the value of "+c.name)
		default:
			r.Ok(rule, name, con, w.Pos(fn.Pos()), fmt.Sprintf("%d path(s): the field's own value, what a pointer points to, nil for a nil pointer", nOK))
		}
	}
}

// indexTailRule (C11.R9): `xs[0].Name` - an index expression with a member tail - never yields the
// element itself. On every path of an evaluator function that takes the index node and returns a
// value without error, the value either comes from a function that was handed the node (which then
// has the same obligation), or the path has found the node's callee to be nil.
func indexTailRule(r *Run, rule string) {
	w := r.W
	w.SSA()
	m := w.coreModel()
	n := 0
	for _, f := range w.compilerMethods() {
		fn := w.SSAFunc(f)
		if fn == nil {
			continue
		}
		var node *ssa.Parameter
		for _, prm := range fn.Params {
			if namedIs(prm.Type(), astPath, "IndexExpression") {
				node = prm
			}
		}
		if node == nil || fn.Signature.Results().Len() != 2 {
			continue
		}
		paths, ok := walkPathsUnrolled(fn, nil, m.inline, 50000)
		if !ok {
			r.Lost(rule, "paths of "+f.Name())
			continue
		}
		n++
		nYield, bad := 0, ""
		var badAt token.Pos
		for _, p := range paths {
			if p.end != "return" || len(p.results) != 2 || !p.knownNil(p.results[1]) {
				continue
			}
			res := p.resolve(p.results[0])
			if isNilConst(res) || isNilConst(p.resolve(stripIface(res))) {
				continue
			}
			// handed on to a function that received the node
			if ex, isEx := res.(*ssa.Extract); isEx {
				if call, isCall := ex.Tuple.(*ssa.Call); isCall {
					passes := false
					for _, a := range call.Call.Args {
						if p.resolve(a) == ssa.Value(node) {
							passes = true
						}
						// the tail itself was evaluated: the value of node.Callee
						if base, isLd := isFieldLoadOf(p.resolve(stripIface(p.resolve(a))), astPath, "IndexExpression", "Callee"); isLd && p.resolve(base) == ssa.Value(node) {
							passes = true
						}
					}
					if passes {
						continue
					}
				}
			}
			calleeNil := false
			for _, d := range p.decisions {
				x, op, isCmp := isNilCompare(p, d.cond)
				if !isCmp {
					continue
				}
				if base, isLd := isFieldLoadOf(p.resolve(x), astPath, "IndexExpression", "Callee"); isLd && p.resolve(base) == ssa.Value(node) && d.truth == (op == token.EQL) {
					calleeNil = true
				}
			}
			nYield++
			if !calleeNil {
				bad, badAt = "a value is yielded on a path that has not found the node's callee to be nil: the member tail of the path is dropped", p.ret.Pos()
			}
		}
		switch {
		case bad != "":
			r.Bad(rule, f.Name(), "tail of an index path", w.Pos(badAt), bad+" (`people[0].Name` would yield the element people[0])")
		default:
			r.Ok(rule, f.Name(), "tail of an index path", w.Pos(fn.Pos()), fmt.Sprintf("%d yielding path(s), each with the callee found nil; every other value comes from a function that was handed the node", nYield))
		}
	}
	if n == 0 {
		r.Lost(rule, "evaluator functions that take the index node")
	}
}
