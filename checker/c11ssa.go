package main

// c11ssa.go (C11.R4, method part): methods are looked up on the value and, when
// that fails and the receiver is not already a pointer, on a fresh pointer to
// a copy of it. Decided on the SSA form of whichever function of the evaluator
// holds the two MethodByName lookups (the call evaluator or a helper it was
// extracted into): the facts that dominate the second lookup beyond those that
// dominate the first are exactly "the first result is invalid" and "the
// receiver's kind is not Ptr"; its receiver is reflect.New(<type of the
// receiver>) whose Elem() was Set to the receiver.

import (
	"go/constant"
	"go/token"
	"go/types"

	"golang.org/x/tools/go/ssa"
)

func c11MethodLookupSSA(r *Run, rule string) {
	w := r.W
	ce := w.evalMethod("CallExpression")
	if ce == nil {
		r.Lost(rule, "call evaluator")
		return
	}
	w.SSA()
	root := w.SSAFunc(ce)
	m := w.coreModel()
	// the call evaluator and the helpers it reaches
	seen := map[*ssa.Function]bool{}
	var fns []*ssa.Function
	var visit func(fn *ssa.Function, depth int)
	visit = func(fn *ssa.Function, depth int) {
		if fn == nil || seen[fn] || depth > 3 {
			return
		}
		seen[fn] = true
		fns = append(fns, fn)
		for _, b := range fn.Blocks {
			for _, ins := range b.Instrs {
				if c, ok := ins.(*ssa.Call); ok {
					if cal := c.Call.StaticCallee(); cal != nil && len(cal.Blocks) > 0 && m.inline(fn, cal) {
						visit(cal, depth+1)
					}
				}
			}
		}
	}
	visit(root, 0)
	type lookup struct {
		call *ssa.Call
		recv ssa.Value
	}
	var holder *ssa.Function
	var lks []lookup
	for _, fn := range fns {
		var here []lookup
		for _, b := range fn.Blocks {
			for _, ins := range b.Instrs {
				if c, ok := ins.(*ssa.Call); ok {
					if recv, _, ok := reflectValueCall(c, "MethodByName"); ok {
						here = append(here, lookup{c, recv})
					}
				}
			}
		}
		if len(here) > 0 {
			if holder != nil {
				r.Bad(rule, ssaName(fn), "method lookups", w.Pos(fn.Pos()), "the method lookups of a call are spread over several functions: value-then-pointer order cannot be established")
				return
			}
			holder, lks = fn, here
		}
	}
	if holder == nil || len(lks) != 2 {
		r.Bad(rule, ce.Name(), "method lookups", w.Pos(ce.Decl.Pos()), "methods must be looked up on the value and then on a pointer to it")
		return
	}
	first, second := lks[0], lks[1]
	if !first.call.Block().Dominates(second.call.Block()) {
		first, second = second, first
	}
	name := ssaName(holder)
	lg := newLedger(w, holder)
	base := map[string]bool{}
	for _, f := range dominatingFacts(first.call.Block()) {
		base[lg.condString(f)] = true
	}
	hasInvalid, hasNotPtr, extra := false, false, ""
	for _, f := range dominatingFacts(second.call.Block()) {
		if base[lg.condString(f)] {
			continue
		}
		cond, truth := f.cond, f.truth
		for {
			u, ok := cond.(*ssa.UnOp)
			if !ok || u.Op != token.NOT {
				break
			}
			cond, truth = u.X, !truth
		}
		if recv, _, ok := reflectValueCall(cond, "IsValid"); ok && recv == ssa.Value(first.call) {
			if !truth {
				hasInvalid = true
				continue
			}
		}
		if ks, ok := lg.kindFact(cond, truth, first.recv, false); ok {
			if ks&(1<<kPtr) == 0 {
				hasNotPtr = true
				continue
			}
		}
		if _, isPhi := cond.(*ssa.Phi); isPhi {
			continue // the materialised `a && b`: its parts are listed separately
		}
		extra = lg.condString(f)
	}
	// the receiver of the second lookup: a fresh pointer holding a copy of the first receiver
	fresh := false
	if args, ok := reflectFunc(second.recv, "New"); ok && len(args) == 1 {
		for _, b := range holder.Blocks {
			for _, ins := range b.Instrs {
				c, ok := ins.(*ssa.Call)
				if !ok {
					continue
				}
				if recv, sargs, ok := reflectValueCall(c, "Set"); ok && len(sargs) == 1 && lg.key(sargs[0]) == lg.key(first.recv) {
					if er, _, ok := reflectValueCall(recv, "Elem"); ok && er == second.recv && b.Dominates(second.call.Block()) {
						fresh = true
					}
				}
			}
		}
	}
	switch {
	case !hasInvalid || !hasNotPtr:
		r.Bad(rule, name, "second method lookup", w.Pos(second.call.Pos()), "pointer-receiver methods must be callable on values: the second lookup must run exactly when the first failed and the receiver is not a pointer")
	case extra != "":
		r.Bad(rule, name, "second method lookup", w.Pos(second.call.Pos()), "the second lookup is restricted by a further condition "+extra+": it must run exactly when the first failed and the receiver is not a pointer")
	case !fresh:
		r.Bad(rule, name, "second method lookup", w.Pos(second.call.Pos()), "the second lookup must be made on a fresh pointer (reflect.New) whose element was set to the receiver")
	default:
		r.Ok(rule, name, "method lookup on the value, then on a pointer to it", w.Pos(second.call.Pos()), "second lookup exactly under 'first result invalid' and 'receiver is not already a pointer', on reflect.New(T) holding a copy of the receiver")
	}
}

// indexProvenanceSSA: v is the evaluated index unmodified -- the int assertion of a parameter of fn,
// possibly obtained through a validating helper of the module that returns it as it is on every
// return that does not report an error.
func indexProvenanceSSA(w *World, fn *ssa.Function, v ssa.Value, depth int) bool {
	if depth > 3 {
		return false
	}
	isParamAssert := func(ta *ssa.TypeAssert) bool {
		if !isBasicKind(ta.AssertedType, types.Int) {
			return false
		}
		x := ta.X
		// a by-value parameter may live in a local cell that is written once
		if ld, ok := x.(*ssa.UnOp); ok {
			if sv := cellValue(ld); sv != nil {
				x = sv
			}
		}
		_, isP := x.(*ssa.Parameter)
		return isP
	}
	switch x := v.(type) {
	case *ssa.TypeAssert:
		return !x.CommaOk && isParamAssert(x)
	case *ssa.Extract:
		if ta, ok := x.Tuple.(*ssa.TypeAssert); ok {
			return x.Index == 0 && ta.CommaOk && isParamAssert(ta)
		}
		call, ok := x.Tuple.(*ssa.Call)
		if !ok {
			return false
		}
		g := call.Call.StaticCallee()
		if g == nil || !inModule(g) || len(g.Blocks) == 0 || len(g.Params) != len(call.Call.Args) {
			return false
		}
		// which parameter of g must the result be the assertion of: one that receives a parameter of fn
		n := 0
		for _, b := range g.Blocks {
			ret, isRet := b.Instrs[len(b.Instrs)-1].(*ssa.Return)
			if !isRet || x.Index >= len(ret.Results) {
				continue
			}
			failing := false
			for i, rv := range ret.Results {
				if i != x.Index && isErrorType(rv.Type()) && definitelyNonNil(rv) {
					failing = true
				}
				if i != x.Index && isBasicKind(rv.Type(), types.Bool) {
					if c, isC := rv.(*ssa.Const); isC && c.Value != nil && !constant.BoolVal(c.Value) {
						failing = true
					}
				}
			}
			if failing {
				continue
			}
			n++
			if !indexProvenanceSSA(w, g, ret.Results[x.Index], depth+1) {
				return false
			}
			// the helper's parameter must be fed by a parameter of the caller
			okArg := false
			for i := range g.Params {
				a := call.Call.Args[i]
				if ld, isLd := a.(*ssa.UnOp); isLd {
					if sv := cellValue(ld); sv != nil {
						a = sv
					}
				}
				if _, isP := a.(*ssa.Parameter); isP && types.IsInterface(g.Params[i].Type()) {
					okArg = true
				}
			}
			if !okArg {
				return false
			}
		}
		return n > 0
	case *ssa.Phi:
		for _, e := range x.Edges {
			if !indexProvenanceSSA(w, fn, e, depth+1) {
				return false
			}
		}
		return len(x.Edges) > 0
	}
	return false
}
