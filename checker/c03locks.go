package main

// c03locks.go (C03.R11): Parse returns. Parse of a malformed text must yield an error - and the next Parse must
// still be answered: a mutex taken on the way (the template cache's) and not given back on the error exit blocks
// every later Parse and Render of the process for ever. Decided on the paths of every function that Parse reaches
// and that takes a sync lock: at every exit of the function (returns and panics alike, deferred calls counted at
// the exit) each mutex it locked has been unlocked as often as it was locked, and no mutex is locked a second time
// while it is still held (sync mutexes are not re-entrant).

import (
	"fmt"
	"go/token"
	"sort"
	"strings"

	"golang.org/x/tools/go/ssa"
)

func lockBalanceRule(r *Run, rule string) {
	w := r.W
	w.SSA()
	pkg := w.SSAPkg("")
	if pkg == nil {
		r.Lost(rule, "root package")
		return
	}
	var roots []*ssa.Function
	for _, name := range []string{"Parse", "NewTemplate", "Render", "BuffaloRenderer"} {
		if fn := pkg.Func(name); fn != nil {
			roots = append(roots, fn)
		}
	}
	if len(roots) == 0 {
		r.Lost(rule, "plush.Parse")
		return
	}
	reach := map[*ssa.Function]bool{}
	work := append([]*ssa.Function(nil), roots...)
	for len(work) > 0 {
		fn := work[len(work)-1]
		work = work[:len(work)-1]
		if reach[fn] || !inModule(fn) {
			continue
		}
		reach[fn] = true
		for _, a := range fn.AnonFuncs {
			work = append(work, a)
		}
		for _, b := range fn.Blocks {
			for _, ins := range b.Instrs {
				if ci, ok := ins.(ssa.CallInstruction); ok {
					if g := ci.Common().StaticCallee(); g != nil {
						work = append(work, g)
					}
				}
			}
		}
	}
	lockOp := func(c *ssa.CallCommon) (op string, mu ssa.Value) {
		g := c.StaticCallee()
		if g == nil || g.Pkg == nil || g.Pkg.Pkg.Path() != "sync" || len(c.Args) == 0 {
			return "", nil
		}
		switch g.Name() {
		case "Lock", "RLock":
			return "lock", c.Args[0]
		case "Unlock", "RUnlock":
			return "unlock", c.Args[0]
		}
		return "", nil
	}
	var fns []*ssa.Function
	for fn := range reach {
		if fn.Parent() != nil {
			continue // closures are walked with the function that makes them
		}
		takes := false
		for _, b := range fn.Blocks {
			for _, ins := range b.Instrs {
				if ci, ok := ins.(ssa.CallInstruction); ok {
					if op, _ := lockOp(ci.Common()); op == "lock" {
						takes = true
					}
				}
			}
		}
		if takes {
			fns = append(fns, fn)
		}
	}
	sort.Slice(fns, func(i, j int) bool { return ssaName(fns[i]) < ssaName(fns[j]) })
	if len(fns) == 0 {
		r.Ok(rule, "plush", "no lock is taken on the way of Parse", "-", "nothing to give back")
		return
	}
	lockPaths(r, rule, fns, lockOp, nil)
}

// lockPaths: the path part of the lock rules. nested (optional): for a call on the path, the keys of the mutexes the
// callee locks itself (on its own receiver), as seen from the caller.
func lockPaths(r *Run, rule string, fns []*ssa.Function, lockOp func(c *ssa.CallCommon) (string, ssa.Value), nested func(p *pwPath, c *ssa.Call, key func(*pwPath, ssa.Value, int) string) []string) {
	w := r.W
	for _, fn := range fns {
		pw := &pathWalker{unroll1: true, maxPaths: 20000, maxDepth: 3, runDefers: true, inline: func(caller, callee *ssa.Function) bool { return false }}
		pw.walk(fn)
		name := ssaName(fn)
		if pw.overflow || len(pw.paths) == 0 {
			r.Lost(rule, "paths of "+name)
			continue
		}
		var key func(p *pwPath, v ssa.Value, d int) string
		key = func(p *pwPath, v ssa.Value, d int) string {
			v = p.resolve(v)
			if d > 6 {
				return valueText(v)
			}
			switch x := v.(type) {
			case *ssa.UnOp:
				if x.Op == token.MUL {
					return "*" + key(p, x.X, d+1)
				}
			case *ssa.Global:
				return x.Name()
			case *ssa.FieldAddr:
				return fmt.Sprintf("%s.%d", key(p, x.X, d+1), x.Field)
			case *ssa.Parameter:
				return x.Name()
			}
			return valueText(v)
		}
		bad, badPos := "", token.NoPos
		for _, p := range pw.paths {
			if p.end == "loop" {
				continue
			}
			held := map[string]int{}
			deferred := map[string]int{}
			var lastLock = map[string]token.Pos{}
			for _, ev := range p.events {
				switch x := ev.(type) {
				case *ssa.Call:
					op, mu := lockOp(&x.Call)
					if op == "" {
						if nested != nil {
							for _, k := range nested(p, x, key) {
								if held[k] > 0 {
									bad, badPos = fmt.Sprintf("%s is called while the mutex %s is held, and locks it again: sync mutexes are not re-entrant (a second read lock waits behind a writer that queued in between, and that writer waits for the first read lock)", calleeLabel(x), k), x.Pos()
								}
							}
						}
						continue
					}
					k := key(p, mu, 0)
					if op == "lock" {
						if held[k] > 0 && x.Call.StaticCallee().Name() == "Lock" {
							bad, badPos = "a mutex is locked again while this function still holds it", x.Pos()
						}
						held[k]++
						lastLock[k] = x.Pos()
					} else {
						held[k]--
					}
				case *ssa.Defer:
					if op, mu := lockOp(&x.Call); op == "unlock" {
						deferred[key(p, mu, 0)]++
					}
				}
			}
			for k, n := range held {
				if n-deferred[k] > 0 {
					pos := lastLock[k]
					if p.ret != nil {
						pos = p.ret.Pos()
					}
					bad, badPos = fmt.Sprintf("on some exit the mutex %s is still locked: the next caller that needs it - every later Parse and Render - waits for ever", k), pos
				}
			}
		}
		if bad != "" {
			r.Bad(rule, name, "every lock taken is given back at every exit", w.Pos(badPos), bad)
		} else {
			r.Ok(rule, name, "every lock taken is given back at every exit", w.Pos(fn.Pos()), fmt.Sprintf("%d path(s): locks and unlocks (deferred ones counted at the exit) balance", len(pw.paths)))
		}
	}
}

// nestedLocksRule (C14.R8): no function of the evaluator package calls, while it holds a mutex, a method that locks
// the same mutex again (Has under the read lock calling Value, which takes the read lock of the same context), and
// every lock taken is given back at every exit.
func nestedLocksRule(r *Run, rule string) {
	w := r.W
	w.SSA()
	pkg := w.SSAPkg("")
	if pkg == nil {
		r.Lost(rule, "root package")
		return
	}
	lockOp := func(c *ssa.CallCommon) (op string, mu ssa.Value) {
		g := c.StaticCallee()
		if g == nil || g.Pkg == nil || g.Pkg.Pkg.Path() != "sync" || len(c.Args) == 0 {
			return "", nil
		}
		switch g.Name() {
		case "Lock", "RLock":
			return "lock", c.Args[0]
		case "Unlock", "RUnlock":
			return "unlock", c.Args[0]
		}
		return "", nil
	}
	// per method: the mutexes of its own receiver it locks (directly, or through a method it calls on the same receiver)
	const hole = "\x00"
	var skey func(v ssa.Value, recv ssa.Value, d int) string
	skey = func(v ssa.Value, recv ssa.Value, d int) string {
		if v == recv {
			return hole
		}
		if d > 6 {
			return ""
		}
		switch x := v.(type) {
		case *ssa.UnOp:
			if x.Op == token.MUL {
				if k := skey(x.X, recv, d+1); k != "" {
					return "*" + k
				}
			}
		case *ssa.FieldAddr:
			if k := skey(x.X, recv, d+1); k != "" {
				return fmt.Sprintf("%s.%d", k, x.Field)
			}
		}
		return ""
	}
	own := map[*ssa.Function][]string{}
	all := functionsOf(pkg)
	for round := 0; round < 4; round++ {
		grew := false
		for _, g := range all {
			if g.Signature.Recv() == nil || len(g.Params) == 0 {
				continue
			}
			recv := ssa.Value(g.Params[0])
			have := map[string]bool{}
			for _, k := range own[g] {
				have[k] = true
			}
			for _, b := range g.Blocks {
				for _, ins := range b.Instrs {
					c, ok := ins.(*ssa.Call)
					if !ok {
						continue
					}
					if op, mu := lockOp(&c.Call); op == "lock" {
						if k := skey(mu, recv, 0); k != "" && !have[k] {
							have[k] = true
							own[g] = append(own[g], k)
							grew = true
						}
						continue
					}
					if h := c.Call.StaticCallee(); h != nil && len(own[h]) > 0 && len(c.Call.Args) > 0 && c.Call.Args[0] == recv {
						for _, k := range own[h] {
							if !have[k] {
								have[k] = true
								own[g] = append(own[g], k)
								grew = true
							}
						}
					}
				}
			}
		}
		if !grew {
			break
		}
	}
	var fns []*ssa.Function
	for _, fn := range all {
		if fn.Parent() != nil {
			continue
		}
		takes := false
		for _, b := range fn.Blocks {
			for _, ins := range b.Instrs {
				if ci, ok := ins.(ssa.CallInstruction); ok {
					if op, _ := lockOp(ci.Common()); op == "lock" {
						takes = true
					}
				}
			}
		}
		if takes {
			fns = append(fns, fn)
		}
	}
	sort.Slice(fns, func(i, j int) bool { return ssaName(fns[i]) < ssaName(fns[j]) })
	if len(fns) == 0 {
		r.Lost(rule, "functions of the evaluator package that take a lock")
		return
	}
	lockPaths(r, rule, fns, lockOp, func(p *pwPath, c *ssa.Call, key func(*pwPath, ssa.Value, int) string) []string {
		h := c.Call.StaticCallee()
		if h == nil || len(own[h]) == 0 || len(c.Call.Args) == 0 {
			return nil
		}
		base := key(p, c.Call.Args[0], 0)
		var out []string
		for _, k := range own[h] {
			out = append(out, strings.Replace(k, hole, base, 1))
		}
		return out
	})
}
